#!/usr/bin/env python3
"""Regenerates MANIFEST.json from checker/manifest_claims.json (claims per property) — keeps the file valid and consistent."""
import json, subprocess, sys
claims = json.load(open('checker/manifest_claims.json'))
props = [json.loads(l) for l in open('properties.jsonl')]
checks, na = [], []
rule_sets = {}
for line in subprocess.run(['./bin/gritscheck', '-list'], capture_output=True, text=True).stdout.splitlines():
    if line[:1] == 'C' and ' quick=[' in line:
        rule_sets[line.split()[0]] = line.split('quick=[')[1].split(']')[0].split()
for p in props:
    pid = p['id']
    c = claims.get(pid)
    if not c or c.get('not_applicable'):
        na.append({"property_id": pid, "reason": (c or {}).get('not_applicable', 'check under construction in this session (static rules not yet implemented)')})
        continue
    checks.append({
        "property_id": pid,
        "quick_cmd": f"./bin/gritscheck -prop {pid} -tier quick",
        "thorough_cmd": f"./bin/gritscheck -prop {pid} -tier thorough",
        "evidence_file": f"/verif/evidence/{pid}.json",
        "replay_cmd_template": "./bin/gritscheck -replay {path}",
        "engine": "gritscheck",
        "level_claimed": {"category": c['level'], "text": c['text'], "design_ref": c.get('design_ref', 'DESIGN.md §5 ' + pid)},
        "level_note": c['note'] + (" Rules decided (each documented in the evidence file and DESIGN.md): " + ", ".join(rule_sets.get(pid, [])) + "." if rule_sets.get(pid) else ""),
        "technique": c['technique'],
    })
m = {
    "version": 1,
    "setup_cmd": "cd /verif/checker && export GOFLAGS=-mod=mod GOPROXY=off GOSUMDB=off GOTOOLCHAIN=local GOWORK=off && mkdir -p ../bin ../evidence && go build -o ../bin/gritscheck . && go build -o ../bin/goyacc golang.org/x/tools/cmd/goyacc",
    "hooks": {"guard": "verif", "enable": "no hooks are needed: the checker analyses the unmodified source; thorough additionally loads the tree with -tags verif so a tagged file cannot hide a violation", "baseline_off_cmd": "cd /repo && go test -vet=off -count=1 ./...", "source_commits": [], "add_only": True},
    "engines": [{"name": "gritscheck", "path": "checker/", "serves_properties": [c['property_id'] for c in checks], "kind_free_text": "repository-specific static analyser over go/packages + go/types + go/ssa + VTA/CHA call graphs + the yacc grammar; decides rule obligations on the current /repo tree, never runs Grits code"}],
    "checks": checks,
    "not_applicable": na,
    "notes": "Static analysis only. Each claimed property is decided through named structural clauses (rules R-… in DESIGN.md §4) that are necessary conditions of the behavioural statement; what is not decided is stated per property in DESIGN.md §5 and in each evidence file (coverage.not_decided)."
}
json.dump(m, open('MANIFEST.json', 'w'), indent=1)
print("checks:", len(checks), "not_applicable:", len(na))
