package main

import (
	"fmt"
	"go/token"
	"go/types"
	"sort"

	"golang.org/x/tools/go/ssa"
)

// R-GLOBALS (C19, C13): no package-level state is written after package initialisation.
// R-REINIT (C19): every run re-creates its context, channels and counters.

func init() {
	register(&Rule{Name: "R-GLOBALS", Min: 20,
		Doc: "no first-party package-level variable (generated parser tables and knobs included) is written, has an element/field/map entry written, or has its address passed on, outside package initialisers",
		Run: runGlobals})
	register(&Rule{Name: "R-REINIT", Min: 5,
		Doc: "InitializeProcesses assigns, on every path to the first spawn, each run-scoped field of the runtime environment (counters, error channel, context, heartbeat) with a fresh value",
		Run: runReinit})
}

// libraryReceiverAllow: package-level objects that may be the receiver of the named library
// method after initialisation (one entry per symbol pair, with the reason).
var libraryReceiverAllow = map[string]string{
	"grits/webserver.upgrader (*github.com/gorilla/websocket.Upgrader).Upgrade": "configuration object; Upgrade only reads its fields (documented safe for concurrent use)",
}

// derivesFromGlobal: addr is &g, &g.f, &g[i], or an element/field address of the value loaded from g.
func derivesFromGlobal(v ssa.Value, depth int) *ssa.Global {
	if depth > 6 {
		return nil
	}
	switch x := v.(type) {
	case *ssa.Global:
		return x
	case *ssa.FieldAddr:
		return derivesFromGlobal(x.X, depth+1)
	case *ssa.IndexAddr:
		return derivesFromGlobal(x.X, depth+1)
	case *ssa.UnOp:
		if x.Op.String() == "*" {
			// loaded reference value (slice, map, pointer) of a global
			switch x.Type().Underlying().(type) {
			case *types.Slice, *types.Map, *types.Pointer, *types.Chan:
				return derivesFromGlobal(x.X, depth+1)
			}
		}
	case *ssa.Slice:
		return derivesFromGlobal(x.X, depth+1)
	}
	return nil
}

func runGlobals(p *Program, r *RuleResult) {
	// enumerate globals
	globals := map[*ssa.Global]bool{}
	for _, path := range sortedKeys(p.SSAPkg) {
		for _, m := range p.SSAPkg[path].Members {
			if g, ok := m.(*ssa.Global); ok && g.Name() != "init$guard" {
				globals[g] = true
			}
		}
	}
	writes := map[*ssa.Global][]string{}
	libRecv := map[string]bool{}
	for _, fn := range p.SrcFuncs {
		if fn.Name() == "init" && fn.Parent() == nil || fn.Synthetic != "" && fn.Name() == "init" {
			continue
		}
		for _, b := range fn.Blocks {
			for _, in := range b.Instrs {
				var g *ssa.Global
				what := ""
				switch x := in.(type) {
				case *ssa.Store:
					if g = derivesFromGlobal(x.Addr, 0); g != nil {
						what = "store"
					}
				case *ssa.MapUpdate:
					if g = derivesFromGlobal(x.Map, 0); g != nil {
						what = "map update"
					}
				case *ssa.Send:
					// a package-level channel is a mailbox shared by every run in the process
					if g = derivesFromGlobal(x.Chan, 0); g != nil {
						what = "send on the channel"
					}
				case *ssa.Select:
					for _, st := range x.States {
						if gg := derivesFromGlobal(st.Chan, 0); gg != nil {
							g = gg
							what = "select on the channel"
						}
					}
				case *ssa.UnOp:
					if x.Op == token.ARROW {
						if g = derivesFromGlobal(x.X, 0); g != nil {
							what = "receive from the channel"
						}
					}
				case ssa.CallInstruction:
					for ai, a := range x.Common().Args {
						if sc := x.Common().StaticCallee(); ai == 0 && sc != nil && sc.Signature.Recv() != nil && !p.isFirstParty(sc) {
							// receiver of a library method: allowed only for the named, reviewed pairs below
							if gg := derivesFromGlobal(a, 0); gg != nil {
								if why, ok := libraryReceiverAllow[gg.Pkg.Pkg.Path()+"."+gg.Name()+" "+sc.String()]; ok {
									libRecv[gg.Name()+" -> "+sc.String()+" ("+why+")"] = true
									continue
								}
							}
						}
						switch a.(type) {
						case *ssa.Global, *ssa.FieldAddr, *ssa.IndexAddr:
							if gg := derivesFromGlobal(a, 0); gg != nil {
								// address of (part of) a global handed to a callee
								g = gg
								what = "address passed to " + calleeName(x)
							}
						}
					}
					if bi, ok := x.Common().Value.(*ssa.Builtin); ok && bi.Name() == "delete" {
						if gg := derivesFromGlobal(x.Common().Args[0], 0); gg != nil {
							g = gg
							what = "delete"
						}
					}
				}
				if g != nil && globals[g] {
					writes[g] = append(writes[g], fmt.Sprintf("%s in %s at %s", what, fnName(fn), p.instrPos(in)))
				}
			}
		}
	}
	var gs []*ssa.Global
	for g := range globals {
		gs = append(gs, g)
	}
	sort.Slice(gs, func(i, j int) bool { return gs[i].String() < gs[j].String() })
	for _, g := range gs {
		name := g.Pkg.Pkg.Name() + "." + g.Name()
		if ws := writes[g]; len(ws) > 0 {
			sort.Strings(ws)
			r.add("package "+g.Pkg.Pkg.Path(), "global:"+name, Violated, p.pos(g.Pos()), "package-level state is modified after initialisation ("+ws[0]+"): a later parse/check/run in the same host process observes it")
		} else {
			r.add("package "+g.Pkg.Pkg.Path(), "global:"+name, Holds, p.pos(g.Pos()), "never written outside init")
		}
	}
	r.count("package-level variables", len(gs))
	for k := range libRecv {
		r.note("global used as receiver of a library method (not judged): %s", k)
	}
}

func runReinit(p *Program, r *RuleResult) {
	fn := p.Func(processPkg, "InitializeProcesses")
	view := p.View(fn)
	name := fnName(fn)
	re := p.Named(processPkg, "RuntimeEnvironment")
	st := re.Underlying().(*types.Struct)
	gf := p.computeGoFacts(nil)
	g := p.VTA()
	// first spawn: the first call that may start a goroutine
	isSpawn := func(in ssa.Instruction) bool {
		c, ok := in.(ssa.CallInstruction)
		if !ok {
			return false
		}
		if _, isGo := c.(*ssa.Go); isGo {
			return true
		}
		for _, callee := range p.Callees(g, c) {
			if gf.mayGo[callee] {
				return true
			}
		}
		return false
	}
	var spawns []ssa.Instruction
	for _, b := range view.Blocks() {
		for _, in := range view.Instrs(b) {
			if isSpawn(in) {
				spawns = append(spawns, in)
			}
		}
	}
	if len(spawns) == 0 {
		r.add(name, "spawn-point", Undecided, p.pos(fn.Pos()), "no call that may start goroutines found")
		return
	}
	// run-scoped fields: counters (accessed through sync/atomic), channels, context
	for i := 0; i < st.NumFields(); i++ {
		f := st.Field(i)
		runScoped := false
		switch t := f.Type().Underlying().(type) {
		case *types.Chan:
			runScoped = true
		case *types.Interface:
			if isNamed(f.Type(), "context", "Context") {
				runScoped = true
			}
		case *types.Basic:
			if t.Kind() == types.Uint64 {
				runScoped = true
			}
		}
		if f.Name() == "timeTaken" {
			runScoped = true
		}
		if !runScoped {
			continue
		}
		var isAssign func(in ssa.Instruction) bool
		// a reset helper: a first-party function taking the environment that assigns the
		// field freshly before every one of its returns (one level)
		helperAssigns := func(in ssa.Instruction) bool {
			c, ok := in.(*ssa.Call)
			if !ok {
				return false
			}
			sc := c.Common().StaticCallee()
			if sc == nil || sc.Blocks == nil || !p.isFirstParty(sc) || sc == fn {
				return false
			}
			takesEnv := false
			for _, a := range c.Common().Args {
				if pt, ok := a.Type().Underlying().(*types.Pointer); ok && types.Identical(pt.Elem(), re) {
					takesEnv = true
				}
			}
			if !takesEnv {
				return false
			}
			hv := p.View(sc)
			nRet := 0
			for _, b := range hv.Blocks() {
				ins := hv.Instrs(b)
				ret, ok := ins[len(ins)-1].(*ssa.Return)
				if !ok {
					continue
				}
				nRet++
				if !hv.passedBefore(ret, func(x ssa.Instruction) bool {
					if _, isCall := x.(*ssa.Call); isCall {
						return false
					}
					return isAssign(x)
				}) {
					return false
				}
			}
			return nRet > 0
		}
		isAssign = func(in ssa.Instruction) bool {
			if helperAssigns(in) {
				return true
			}
			stt, ok := in.(*ssa.Store)
			if !ok {
				return false
			}
			_, n, ok := fieldNameOf(stt.Addr)
			if !ok || n != f.Name() {
				return false
			}
			// fresh value: constant, make(...), or a call result that is not computed from
			// what the environment held before (a context derived from the previous run's
			// context, a channel taken over from it, a counter continued …)
			if dependsOnEnvState(stt.Val, re, 0) {
				return false
			}
			switch v := stt.Val.(type) {
			case *ssa.Const, *ssa.MakeChan:
				return true
			case *ssa.Extract:
				_, ok := v.Tuple.(*ssa.Call)
				return ok
			case *ssa.Call:
				return true
			}
			return false
		}
		bad := ""
		for _, s := range spawns {
			if !view.passedBefore(s, isAssign) {
				bad = fmt.Sprintf("field %s is not freshly assigned on every path to the spawn point at %s: a re-used runtime environment carries it over from the previous run", f.Name(), p.instrPos(s))
				break
			}
		}
		if bad != "" {
			r.add(name, "reinit:"+f.Name(), Violated, p.pos(fn.Pos()), bad)
		} else {
			r.add(name, "reinit:"+f.Name(), Holds, p.pos(fn.Pos()), "")
		}
	}
}

func init() {
	register(&Rule{Name: "R-FRESH-PARSE", Min: 3,
		Doc: "every parse builds a fresh lexer and scanner (constructor results allocated in the call) and the generated parser entry builds a fresh parser value",
		Run: runFreshParse})
}

// returnsFreshAlloc: every return of fn is a value allocated in fn (or the result of a
// call to another such function).
func (p *Program) returnsFreshAlloc(fn *ssa.Function, depth int) bool {
	if fn == nil || fn.Blocks == nil || depth > 3 {
		return false
	}
	n := 0
	for _, b := range fn.Blocks {
		for _, in := range b.Instrs {
			ret, ok := in.(*ssa.Return)
			if !ok || len(ret.Results) == 0 {
				continue
			}
			n++
			v := ret.Results[0]
			if mi, ok := v.(*ssa.MakeInterface); ok {
				v = mi.X
			}
			switch x := v.(type) {
			case *ssa.Alloc:
			case *ssa.Call:
				if !p.returnsFreshAlloc(x.Common().StaticCallee(), depth+1) {
					return false
				}
			default:
				return false
			}
		}
	}
	return n > 0
}

func runFreshParse(p *Program, r *RuleResult) {
	parse := p.Func(parserPkg, "Parse")
	var gen *ssa.Call
	for _, c := range p.callsIn(parse) {
		if sc := c.Common().StaticCallee(); sc != nil && sc != parse && len(sc.Name()) > 5 && sc.Name()[len(sc.Name())-5:] == "Parse" && p.isFirstParty(sc) {
			gen, _ = c.(*ssa.Call)
		}
	}
	if gen == nil {
		r.add(fnName(parse), "generated-parser-call", Undecided, p.pos(parse.Pos()), "call of the generated parser not found")
		return
	}
	// lexer argument is a fresh constructor result of this call
	ok := false
	var ctor *ssa.Function
	for _, a := range gen.Common().Args {
		v := a
		if mi, isMI := v.(*ssa.MakeInterface); isMI {
			v = mi.X
		}
		if c, isCall := origin(v).(*ssa.Call); isCall && c.Parent() == parse {
			ctor = c.Common().StaticCallee()
			if p.returnsFreshAlloc(ctor, 0) {
				ok = true
			}
		}
	}
	v := Holds
	d := ""
	if !ok {
		v = Violated
		d = "the lexer handed to the generated parser is not freshly constructed in this call: state of an earlier parse (position, recorded errors, results) leaks into the next"
	}
	r.add(fnName(parse), "fresh-lexer-per-parse", v, p.instrPos(gen), d)
	// the scanner inside the lexer is fresh too
	if ctor != nil {
		okS := false
		for _, c := range p.callsIn(ctor) {
			if sc := c.Common().StaticCallee(); sc != nil && p.isFirstParty(sc) && p.returnsFreshAlloc(sc, 0) {
				okS = true
			}
		}
		v = Holds
		if !okS {
			v = Violated
		}
		r.add(fnName(ctor), "fresh-scanner-per-lexer", v, p.pos(ctor.Pos()), "")
	}
	// the generated entry allocates a new parser implementation
	entry := gen.Common().StaticCallee()
	okP := false
	for _, c := range p.callsIn(entry) {
		if sc := c.Common().StaticCallee(); sc != nil && p.isFirstParty(sc) && p.returnsFreshAlloc(sc, 0) {
			okP = true
		}
	}
	v = Holds
	if !okP {
		v = Violated
	}
	r.add(fnName(entry), "fresh-parser-value-per-parse", v, p.pos(entry.Pos()), "")
}

// dependsOnEnvState: v is computed from a value loaded out of a field of the runtime
// environment object (state a previous run may have left there).
func dependsOnEnvState(v ssa.Value, env *types.Named, depth int) bool {
	if depth > 8 {
		return true
	}
	switch x := v.(type) {
	case *ssa.UnOp:
		if x.Op == token.MUL {
			if fa, ok := x.X.(*ssa.FieldAddr); ok {
				if n := namedOf(fa.X.Type()); n != nil && n.Obj() == env.Obj() {
					return true
				}
			}
			if al, ok := x.X.(*ssa.Alloc); ok {
				for _, st := range storesTo(al) {
					if dependsOnEnvState(st.Val, env, depth+1) {
						return true
					}
				}
				return false
			}
		}
		return dependsOnEnvState(x.X, env, depth+1)
	case *ssa.Field:
		if n := namedOf(x.X.Type()); n != nil && n.Obj() == env.Obj() {
			return true
		}
		return dependsOnEnvState(x.X, env, depth+1)
	case *ssa.Phi:
		for _, e := range x.Edges {
			if dependsOnEnvState(e, env, depth+1) {
				return true
			}
		}
	case *ssa.Extract:
		return dependsOnEnvState(x.Tuple, env, depth+1)
	case *ssa.Call:
		for _, a := range x.Common().Args {
			if dependsOnEnvState(a, env, depth+1) {
				return true
			}
		}
		if x.Common().IsInvoke() {
			return dependsOnEnvState(x.Common().Value, env, depth+1)
		}
	case *ssa.MakeInterface:
		return dependsOnEnvState(x.X, env, depth+1)
	case *ssa.ChangeInterface:
		return dependsOnEnvState(x.X, env, depth+1)
	case *ssa.ChangeType:
		return dependsOnEnvState(x.X, env, depth+1)
	case *ssa.Convert:
		return dependsOnEnvState(x.X, env, depth+1)
	case *ssa.BinOp:
		return dependsOnEnvState(x.X, env, depth+1) || dependsOnEnvState(x.Y, env, depth+1)
	}
	return false
}

// R-NO-HOST-STATE (C19): a run does not look at what earlier runs left in the host process.
func init() {
	register(&Rule{Name: "R-NO-HOST-STATE", Min: 1,
		Doc: "the parser, the type library and the interpreter never call into the Go runtime's process-wide introspection (package runtime: goroutine count, memory statistics, stack dumps, …, runtime/debug, runtime/metrics) or read the process environment: such values accumulate over every program the host has executed, so a decision based on them makes a program's behaviour depend on earlier runs",
		Run: runNoHostState})
}

func runNoHostState(p *Program, r *RuleResult) {
	deny := map[string]bool{"runtime": true, "runtime/debug": true, "runtime/metrics": true, "runtime/pprof": true}
	allow := map[string]bool{"runtime.Gosched": true, "runtime.KeepAlive": true}
	denyFn := map[string]bool{"os.Getenv": true, "os.LookupEnv": true, "os.Environ": true, "os.Getpid": true}
	n, nFn := 0, 0
	for _, fn := range p.SrcFuncs {
		if fn.Blocks == nil || fn.Pkg == nil {
			continue
		}
		root := fn
		for root.Parent() != nil {
			root = root.Parent()
		}
		if root.Pkg == nil {
			continue
		}
		switch root.Pkg.Pkg.Path() {
		case processPkg, typesPkg, parserPkg:
		default:
			continue
		}
		nFn++
		ord := 0
		for _, c := range p.callsIn(fn) {
			sc := c.Common().StaticCallee()
			if sc == nil || sc.Pkg == nil {
				continue
			}
			name := sc.Pkg.Pkg.Path() + "." + sc.Name()
			if (deny[sc.Pkg.Pkg.Path()] && !allow[name]) || denyFn[name] {
				n++
				ord++
				r.add(fnName(fn), fmt.Sprintf("host-state#%d:%s", ord, name), Violated, p.instrPos(c),
					fmt.Sprintf("%s observes the whole host process (everything earlier programs left behind counts), so what this run does depends on the runs before it", name))
			}
		}
	}
	if nFn >= 300 {
		r.add("parser+types+process", "no-host-wide-observation", Holds, "", fmt.Sprintf("%d functions scanned, %d calls into process-wide introspection", nFn, n))
	} else {
		r.add("parser+types+process", "no-host-wide-observation", Undecided, "", fmt.Sprintf("only %d functions scanned", nFn))
	}
}

// R-REQUEST-FRESH (C19): a request is decoded into a value made for that request.
func init() {
	register(&Rule{Name: "R-REQUEST-FRESH", Min: 1,
		Doc: "every decoding of external input in the driver packages (encoding/json Unmarshal and Decoder.Decode outside package process, types and parser) writes into a variable allocated in the decoding function for this call – a zero value that nothing earlier can have filled – never into a field of a longer-lived object (the per-connection client, the hub) or a package-level variable: decoding in place keeps every field the new message omits, so a request is answered with parts of an earlier one",
		Run: runRequestFresh})
}

func runRequestFresh(p *Program, r *RuleResult) {
	n := 0
	for _, fn := range p.SrcFuncs {
		pk := fn.Pkg
		if pk == nil && fn.Parent() != nil {
			pk = fn.Parent().Pkg
		}
		if pk == nil {
			continue
		}
		switch pk.Pkg.Path() {
		case processPkg, typesPkg, parserPkg:
			continue
		}
		ord := 0
		for _, c := range p.callsIn(fn) {
			sc := c.Common().StaticCallee()
			if sc == nil || sc.Pkg == nil || sc.Pkg.Pkg.Path() != "encoding/json" {
				continue
			}
			var dst ssa.Value
			switch sc.Name() {
			case "Unmarshal":
				if len(c.Common().Args) == 2 {
					dst = c.Common().Args[1]
				}
			case "Decode":
				if len(c.Common().Args) == 2 {
					dst = c.Common().Args[1]
				}
			}
			if dst == nil {
				continue
			}
			n++
			ord++
			construct := fmt.Sprintf("decode-destination#%d", ord)
			if mi, ok := dst.(*ssa.MakeInterface); ok {
				dst = mi.X
			}
			al, fresh := dst.(*ssa.Alloc)
			if fresh {
				// nothing but the zero value (or a literal stored in this function) before the call
				r.add(fnName(fn), construct, Holds, p.instrPos(c), "decoded into a variable of this call ("+al.Comment+")")
				continue
			}
			r.add(fnName(fn), construct, Violated, p.instrPos(c),
				fmt.Sprintf("the input is decoded into %s, which outlives this call: fields the message omits keep what an earlier message left there, so one request can re-run or re-check the program of another", displayKey(dst)))
		}
	}
	r.count("decodings of external input", n)
}
