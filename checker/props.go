package main

// Property -> rule sets, claim texts and what is not decided.

type PropSpec struct {
	ID          string
	Level       string
	Quick       []string
	Thorough    []string // additional rules at the thorough tier
	Explanation string
	NotDecided  string
	Assumptions []string
	Exhaustive  bool
}

var propSpecs = map[string]*PropSpec{}

// rules whose verdict depends on an interprocedural call graph (thorough: VTA vs CHA cross-check)
var ruleUsesCallGraph = map[string]bool{}

// chaIncomparable: call-graph rules whose verdicts cannot be compared between VTA and CHA,
// one reason each. For these the thorough tier checks instead that VTA drops no call site.
var chaIncomparable = map[string]string{
	"R-ATOMIC":                "the rule asks which functions run concurrently with a goroutine; CHA resolves every call of a func-typed value (rule closures, cobra callbacks) to every function of that signature, so initialisation code looks goroutine-reachable",
	"R-PUBLISH-BEFORE-CANCEL": "same goroutine-reachability notion as R-ATOMIC",
	"R-MONITOR-CONFINED":      "which goroutine entries reach the monitor's tables; CHA adds every func-valued call",
	"R-SHARED-WRITE":          "reachability from the process goroutines; on CHA the set-up code of a run looks reachable from them",
	"R-SHARED-ELEMS":          "which functions run on process goroutines; on CHA the set-up code that fills the providers of the initial processes looks reachable from them",
	"R-CLOSE-OWNER":           "which functions run on process goroutines; on CHA the service goroutines look reachable from them",
}

func addProp(ps *PropSpec) { propSpecs[ps.ID] = ps }

var commonAssumptions = []string{
	"go/packages, go/types and go/ssa (x/tools v0.29.0) represent the compiled program faithfully",
	"the analysed build configurations (linux/amd64 default; thorough: also -tags verif and GOARCH=386) cover what is built",
	"the checker's engines (no-return views, branch facts, SCCP evaluator, string shapes, effect summaries) are correct",
}

func init() {
	addProp(&PropSpec{
		ID: "C17", Level: "proof", Exhaustive: true,
		Quick:       []string{"R-MODE-TABLES", "R-SPELLINGS"},
		Explanation: "The tables of CanBeDownshiftedTo/CanBeUpshiftedTo/Equals/AllowsWeakening/AllowsContraction/String/FullString/Copy are read off the source by sparse conditional constant propagation over go/ssa, one evaluation per (receiver mode, argument mode) with the dynamic types assumed; every entry must fold to one constant. All order laws (reflexivity, antisymmetry, transitivity over all 64 triples, converse, top/bottom/incomparable, monotone structural rules, Equals = identity, Copy) are then checked exhaustively on the extracted tables, and StringToMode is evaluated for each of the 12 documented spellings. The domain is finite and fully enumerated.",
		NotDecided:  "nothing of the statement; upper-cased spellings are evaluated and recorded but are not documented, hence not required",
		Assumptions: append([]string{"the SCCP evaluator implements Go's semantics for the constructs it folds (type switch, comma-ok assertion, string switch, strings.ToLower on constants)"}, commonAssumptions...),
	})
}

func init() {
	addProp(&PropSpec{
		ID: "C09", Level: "other",
		Quick:       []string{"R-PHASE-STOP", "R-NO-DEFERRED-SUCCESS", "R-UNFOLDED-POLARITY", "R-ERR-BEFORE-USE"},
		Explanation: "Decides, on every path of the Go code of the typechecker, structural necessary conditions of totality: no phase runs after an earlier phase reported an error (must-not-continue on the driver's CFG); the success signal is sent only on the normal-completion path with every phase result nil (never from a deferred function or a recover path); Polarity() is only ever called on unfolded types (typestate, incl. the name arguments reaching the explicit-polarity check); no result of an (…, error)-returning helper is dereferenced before its error is tested.",
		NotDecided:  "implicit run-time panics other than those covered (nil dereference, index), the wall-clock bound, and behaviour of the object language; totality as a whole is not provable by this family",
		Assumptions: commonAssumptions,
	})
	addProp(&PropSpec{
		ID: "C08", Level: "other",
		Quick:       []string{"R-MEMO-KEY"},
		Explanation: "Decides memo-key coherence of the coinductive comparison: the key inserted into the visited set is, atom for atom with identical SSA operands, the key that was looked up at the head of the same activation (string-shape domain over bytes.Buffer writes), and every recursive call on types taken from the definition environment is preceded by that insertion.",
		NotDecided:  "that the algorithm decides bisimilarity (symmetry/transitivity are not checked independently); injectivity of the printed form used as key (see C15)",
		Assumptions: commonAssumptions,
	})
	addProp(&PropSpec{
		ID: "C10", Level: "other",
		Quick:       []string{"R-DEAD-SET"},
		Explanation: "Decides that every function-local set guarding an error exit (duplicate labels, duplicate type names, duplicate function names …) is written on a path that reaches its lookup, i.e. the duplicate-detection guards are live.",
		NotDecided:  "the 'never rejects well-formed definitions' direction; the head annotation dropped at a shift (F15 of the property file) is not detected by any rule",
		Assumptions: commonAssumptions,
	})
	addProp(&PropSpec{
		ID: "C05", Level: "other",
		Quick:       []string{"R-AXIOM-EMPTY", "R-CONSUME-DELETES", "R-BRANCH-COPY", "R-STRUCT-GATES", "R-FRESH-BINDER", "R-CUT-SPLIT", "R-MULTI-CONTRACT", "R-MODE-TABLES"},
		Explanation: "Decides on every path of every typing rule: axioms succeed only on an empty context; consuming a name deletes it; each case branch is typed in its own copy of the context; drop/split are gated by the weakening/contraction predicate of the consumed type's mode (tables proved in C17); every binder inserted into a context is fresh (or covered by the cut's reuse dichotomy); a multi-provider declaration requires contraction.",
		NotDecided:  "completeness of the context-splitting heuristic (that every derivable program is accepted)",
		Assumptions: commonAssumptions,
	})
	addProp(&PropSpec{
		ID: "C13", Level: "other",
		Quick:       []string{"R-ATOMIC"},
		Explanation: "Decides that every location updated through sync/atomic (the run-time counters) is accessed atomically everywhere a goroutine sharing the object may exist: interprocedural may-precede analysis over the call graph relative to go statements whose target receives the counter-carrying object.",
		NotDecided:  "a complete race analysis (no pointer analysis is available): races through aliased Name.Type pointers or shared slices are argued from ownership rules, not proved",
		Assumptions: commonAssumptions,
	})
	addProp(&PropSpec{
		ID: "C11", Level: "other",
		Quick:       []string{"R-LOOP-EOF"},
		Explanation: "Decides that every input-consuming loop of the scanner has an exit edge controlled by a comparison of the value just read with the end-of-input sentinel (natural loops over go/ssa; reader and sentinel found by role).",
		NotDecided:  "the linear time bound, memory use and index safety of unread(); the goyacc driver loop is trusted",
		Assumptions: commonAssumptions,
	})
	addProp(&PropSpec{
		ID: "C12", Level: "other",
		Quick:       []string{"R-END-MARKER"},
		Explanation: "Decides that the token code the generated parser treats as end of input (read from the generated lexer wrapper) is returned by the scan functions only under 'value read == sentinel', and that the sentinel is not a rune the reader can deliver for input bytes. Three constructs violate this today and are listed as known finding F8.",
		NotDecided:  "equivalence of the yacc grammar with the README grammar",
		Assumptions: commonAssumptions,
	})
}

func init() {
	addProp(&PropSpec{
		ID: "C15", Level: "other",
		Quick:       []string{"R-PRINT-GRAMMAR", "R-GENERATED"},
		Explanation: "Decides the shape question completely: print productions are extracted from every String() implementation of types and forms (string-shape domain), their literal text is tokenised through the scanner's statically extracted token table, each is matched with a production of the committed yacc grammar (which is shown to be what the committed parser was generated from, conflict-free), and for every (parent production, child slot, child constructor) triple the yacc precedence/associativity resolution is computed: the printed text re-parses to the same tree, or the printer must bracket the child (helpers are evaluated per child constructor by SCCP). By induction on term structure a term round-trips if every parent/child adjacency does.",
		NotDecided:  "token boundaries of identifier atoms (a label or name that spells a keyword/mode does not round-trip; excluded by the property), printing of modes by StringWithModality (not a parseable syntax), and Name.String for non-self names with channel numbers/polarities (treated as a closed `name` phrase)",
		Assumptions: append([]string{"goyacc of x/tools v0.29.0 resolves shift/reduce by the declared precedences as documented for yacc"}, commonAssumptions...),
		Exhaustive:  true,
	})
	ps := propSpecs["C11"]
	ps.Explanation += " Additionally: the committed parser is exactly goyacc(parser.y) with no conflicts and no error productions (so at most one syntax error is reported), the error channel has capacity for it, and Parse/ParseReader propagate it."
	ps = propSpecs["C12"]
	ps.Explanation += " Additionally: the generated parser is up to date and accepts only on the end marker; every statement kind is kept by expandProcesses; parse errors are propagated by all entry points."
}

func init() {
	addProp(&PropSpec{
		ID: "C06", Level: "other",
		Explanation: "Decides that every root judgement site (typecheckForm on a fresh context: function bodies, cut bodies, top-level processes) is covered by the mode-independence check applied to that judgement's own names and provider type (dominance for cuts; same-collection phase ordering for declarations), that the cut also checks new ≥ provider on every path to success, that shift types and the four cast/shift rules are gated by the table query in the constructor's direction with the continuation tied to the shift's source mode, and that ≥ is the preorder proved in C17 with unset/invalid modes rejected before any query. The top-level-process site violates this today (known finding K1).",
		NotDecided:  "nothing further of the statement, given that every type entering a context carries a proper mode (R-UNSET-REJECTED) and R-MUST-CHECK of C07",
		Assumptions: commonAssumptions,
	})
}

func init() {
	addProp(&PropSpec{
		ID: "C18", Level: "other",
		Explanation: "Decides, for every driver outside package process (cmd.Cli, main.dev, benchmarks.runTiming, the web server's request handler), that each call starting processes is reached only through the nil edge of the parse error and of Typecheck's error (for the CLI under the SCCP assumption that typechecking is requested), that the error edges end in a no-return call or a return without reaching a start call, and that --noexecute / --execute=false make every start call unreachable (evaluation of the flag conjunctions by constant propagation).",
		NotDecided:  "that exactly one diagnostic is printed, exit status 0 on success and the absence of a Go panic trace (delegated to C09/C01); log.Fatal's exit status 1 is standard-library semantics",
		Assumptions: commonAssumptions,
	})
	addProp(&PropSpec{
		ID: "C19", Level: "other",
		Explanation: "Enumerates and closes the ways one run can reach a later one: no first-party package-level variable (generated parser tables included) is written after initialisation; each parse builds a fresh lexer, scanner and parser value; InitializeProcesses freshly assigns every run-scoped field of the runtime environment before the first spawn; function definitions are never mutated by a run (reads flow only into CopyForm / the judgement / effect-free methods); a rejected program's checker stops instead of continuing on refuted input.",
		NotDecided:  "equality of outcomes over all histories as such; CPU/timer interference of leftover blocked goroutines with the heartbeat-based quiescence detection of a later run; OS-level state (stdout, log)",
		Assumptions: commonAssumptions,
	})
}

func init() {
	addProp(&PropSpec{ID: "C01", Level: "other",
		Explanation: "Type safety of the object language is not provable by static analysis of the Go source. Decided are necessary conditions, each with a concrete failing program when broken: the equality used by every typing rule is a coherent coinductive comparison (memo key, quantifier loops); every dispatcher over forms/types/modes/execution versions whose default fails is exhaustive; Polarity is never inspected on a type name.",
		NotDecided:  "that these conditions suffice; absence of 'channel not initialised' errors; behaviour under --notypecheck; all schedule-dependent behaviour",
		Assumptions: commonAssumptions})
	addProp(&PropSpec{ID: "C02", Level: "other",
		Explanation: "Deadlock freedom and the set of live goroutines at quiescence are not decidable by this family. Decided are the three mechanisms the property names, as must-call / dominance facts: multi-provider processes are duplicated before any raw channel operation or callback, and raw channel operations exist only in the guarded helpers and the forward form; drop spawns a to-drop forward, a GC request cascades to every free name, the positive to-drop forward drops both payload channels; and the binder/occurrence contradiction rule on Name.Equal vs Name.Substitute (whose single violated state was the root cause of the duplication deadlock F12, now repaired).",
		NotDecided:  "quiescence detection by heartbeat timing, absence of deadlock, which goroutines survive",
		Assumptions: commonAssumptions})
	addProp(&PropSpec{ID: "C03", Level: "other",
		Explanation: "Confluence over schedules is not decidable statically. Decided are the code-shape conditions without which outcomes demonstrably depend on history or interleaving: function bodies are read-only and copied per call; every body handed to a new process is fresh, a per-iteration copy, or a disjoint child; duplication happens only at the guarded points; Substitute/FreeNames/typing agree on binders.",
		NotDecided:  "equality of printed multisets across schedules, cores and modes",
		Assumptions: commonAssumptions})
	addProp(&PropSpec{ID: "C04", Level: "other",
		Explanation: "There is no reference semantics in the repository to compare against statically and the ordering clause is about run-time happens-before. Decided: substitution respects binders and reaches every name field and child (three-sibling agreement), Substitute rewrites only names that compare Equal, and dispatchers with failing defaults are exhaustive.",
		NotDecided:  "that printed labels equal the calculus' results; causal order of prints",
		Assumptions: commonAssumptions})
	addProp(&PropSpec{ID: "C07", Level: "other",
		Explanation: "Equality of two verdict functions over all programs is not decidable without a second implementation. Decided (soundness direction, rule by rule): type equality is coherent and its for-all loops over choice branches examine every branch; each case branch is typed in its own context copy; binders are fresh; the cut splits the context by the body's own free names.",
		NotDecided:  "completeness (well-typed programs are not rejected); the preliminary free-name bookkeeping across processes",
		Assumptions: commonAssumptions})
	addProp(&PropSpec{ID: "C14", Level: "other",
		Explanation: "Invariance under all renamings is a metamorphic statement over programs and not decidable directly. Decided are the code-shape conditions that make name handling depend only on binding structure: binder agreement of substitution, free names and typing; Name.Substitute rewrites only names that Name.Equal equates (abstract evaluation over all initialisation/identifier states); binders are fresh; callee bodies are copied per call.",
		NotDecided:  "verdict/outcome equality under renaming and permutation as such",
		Assumptions: commonAssumptions})
	addProp(&PropSpec{ID: "C16", Level: "other",
		Explanation: "Decided: mode assignment reaches every node and the post-check rejects any node left unset or invalid; within a type every child is checked against the same expected mode except across shifts (source mode); the default mode is the top mode of C17.",
		NotDecided:  "agreement with an independent inference; stability under writing the inferred annotation explicitly; independence of declaration order (purity of inference is not yet decided by a rule)",
		Assumptions: commonAssumptions})
}
