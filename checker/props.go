package main

// Property -> rule sets, claim texts and what is not decided.

type PropSpec struct {
	ID          string
	Level       string
	Quick       []string
	Thorough    []string // additional rules at the thorough tier
	Explanation string
	NotDecided  string
	Assumptions []string
	Exhaustive  bool
}

var propSpecs = map[string]*PropSpec{}

// rules whose verdict depends on an interprocedural call graph (thorough: VTA vs CHA cross-check)
var ruleUsesCallGraph = map[string]bool{}

func addProp(ps *PropSpec) { propSpecs[ps.ID] = ps }

var commonAssumptions = []string{
	"go/packages, go/types and go/ssa (x/tools v0.29.0) represent the compiled program faithfully",
	"the analysed build configurations (linux/amd64 default; thorough: also -tags verif and GOARCH=386) cover what is built",
	"the checker's engines (no-return views, branch facts, SCCP evaluator, string shapes, effect summaries) are correct",
}

func init() {
	addProp(&PropSpec{
		ID: "C17", Level: "proof", Exhaustive: true,
		Quick:       []string{"R-MODE-TABLES", "R-SPELLINGS"},
		Explanation: "The tables of CanBeDownshiftedTo/CanBeUpshiftedTo/Equals/AllowsWeakening/AllowsContraction/String/FullString/Copy are read off the source by sparse conditional constant propagation over go/ssa, one evaluation per (receiver mode, argument mode) with the dynamic types assumed; every entry must fold to one constant. All order laws (reflexivity, antisymmetry, transitivity over all 64 triples, converse, top/bottom/incomparable, monotone structural rules, Equals = identity, Copy) are then checked exhaustively on the extracted tables, and StringToMode is evaluated for each of the 12 documented spellings. The domain is finite and fully enumerated.",
		NotDecided:  "nothing of the statement; upper-cased spellings are evaluated and recorded but are not documented, hence not required",
		Assumptions: append([]string{"the SCCP evaluator implements Go's semantics for the constructs it folds (type switch, comma-ok assertion, string switch, strings.ToLower on constants)"}, commonAssumptions...),
	})
}
