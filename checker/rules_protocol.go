package main

import (
	"fmt"
	"go/token"
	"go/types"
	"sort"
	"strings"

	"golang.org/x/tools/go/ssa"
)

// R-PROTOCOL (C01, C04): the writers' and the readers' message tables agree.

func init() {
	register(&Rule{Name: "R-PROTOCOL", Min: 30,
		Doc: "per interpreter (polarized / non-polarized): every message kind written on a process's own channel has a reader on a client channel expecting exactly that kind and vice versa; a reader uses only message fields that every writer of that kind sets (fields that flow only into logging are ignored) and only after comparing the kind; the positive forward relays exactly the kinds written on own channels, rebuilding the form that writes that kind",
		Run: runProtocol})
}

type msgWriter struct {
	fn     *ssa.Function // root method
	form   string
	kind   string
	side   string // own | client
	fields map[string]bool
	pos    string
}

type msgReader struct {
	fn        *ssa.Function
	clo       *ssa.Function
	form      string
	kind      string
	side      string
	fields    map[string]ssa.Instruction // fields read in a non-logging way
	unchecked []string                   // fields read before/without the kind comparison
	pos       string
}

func chanSide(v ssa.Value) string {
	ap := accessPath(v)
	switch {
	case strings.Contains(ap, ".Providers[].Channel"):
		return "own"
	case strings.HasSuffix(ap, ".Channel"):
		return "client"
	}
	return ""
}

func rootMethod(fn *ssa.Function) *ssa.Function {
	for fn.Parent() != nil {
		fn = fn.Parent()
	}
	return fn
}

// onlyLogged: every use of v ends in a logging/formatting call.
func (p *Program) onlyLogged(v ssa.Value, depth int) bool {
	if depth > 14 {
		return false
	}
	refs := v.Referrers()
	if refs == nil {
		return true
	}
	for _, u := range *refs {
		switch x := u.(type) {
		case *ssa.DebugRef:
		case *ssa.Store:
			if x.Val != v {
				continue // v is the address being written: not a read of v's content
			}
			// stored into a literal array element / local
			switch a := x.Addr.(type) {
			case *ssa.IndexAddr:
				if al, ok := a.X.(*ssa.Alloc); ok {
					if !p.onlyLogged(al, depth+1) {
						return false
					}
					continue
				}
				return false
			case *ssa.Alloc:
				if !p.onlyLogged(a, depth+1) {
					return false
				}
			default:
				return false
			}
		case *ssa.IndexAddr, *ssa.FieldAddr:
			// address computation on a local: its loads are judged
			if !p.onlyLogged(x.(ssa.Value), depth+1) {
				return false
			}
		case *ssa.Slice, *ssa.MakeInterface, *ssa.ChangeInterface, *ssa.Field, *ssa.UnOp:
			if !p.onlyLogged(x.(ssa.Value), depth+1) {
				return false
			}
		case ssa.CallInstruction:
			com := x.Common()
			sc := com.StaticCallee()
			if sc == nil {
				if com.IsInvoke() && (com.Method.Name() == "String" || com.Method.Name() == "Error") {
					if val, ok := x.(ssa.Value); ok && !p.onlyLogged(val, depth+1) {
						return false
					}
					continue
				}
				return false
			}
			if isLogSink(sc) {
				continue
			}
			if sc.Name() == "String" || sc.Name() == "NamesToString" || sc.String() == "fmt.Sprintf" {
				if val, ok := x.(ssa.Value); ok && !p.onlyLogged(val, depth+1) {
					return false
				}
				continue
			}
			if !p.isFirstParty(sc) || sc.Blocks == nil {
				return false
			}
			// passed to a first-party function: the corresponding parameter must only be logged
			okAll := true
			for i, a := range com.Args {
				if a == v && i < len(sc.Params) {
					if !p.onlyLogged(sc.Params[i], depth+1) {
						okAll = false
					}
				}
			}
			if !okAll {
				return false
			}
		default:
			return false
		}
	}
	return true
}

func isLogSink(fn *ssa.Function) bool {
	n := fn.Name()
	if strings.HasPrefix(n, "log") && fn.Signature.Recv() != nil {
		return true
	}
	if fn.Pkg != nil && fn.Pkg.Pkg.Path() == "fmt" && (strings.HasPrefix(n, "Print") || strings.HasPrefix(n, "Fprint")) {
		return true
	}
	return false
}

// protocolTables collects, for one interpreter family, the message writers and readers.
func protocolTables(p *Program, family string) ([]*msgWriter, []*msgReader) {
	msgT := p.Named(processPkg, "Message")
	form := p.Named(processPkg, "Form")
	p.computeNoReturn()
	var writers []*msgWriter
	var readers []*msgReader
	for _, T := range p.Implementers(form) {
		root := p.MethodOpt(T, family)
		if root == nil {
			continue
		}
		fns := append([]*ssa.Function{root}, allAnon(root)...)
		for _, fn := range fns {
			view := p.View(fn)
			// ---- writers: local Message values with a constant Rule
			for _, b := range view.Blocks() {
				for _, in := range view.Instrs(b) {
					al, ok := in.(*ssa.Alloc)
					if !ok || !types.Identical(al.Type().Underlying().(*types.Pointer).Elem(), msgT) {
						continue
					}
					w := &msgWriter{fn: root, form: T.Obj().Name(), fields: map[string]bool{}, pos: p.instrPos(al)}
					for _, u := range *al.Referrers() {
						fa, ok := u.(*ssa.FieldAddr)
						if !ok {
							continue
						}
						_, fname, _ := fieldNameOf(fa)
						for _, st := range storesTo(fa) {
							if fname == "Rule" {
								if k, ok := st.Val.(*ssa.Const); ok {
									w.kind = p.ruleConstName(k.Int64())
								}
							} else {
								w.fields[fname] = true
							}
						}
					}
					if w.kind == "" {
						continue
					}
					// where is it sent?
					for _, u := range *al.Referrers() {
						ld, ok := u.(*ssa.UnOp)
						if !ok {
							continue
						}
						for _, uu := range *ld.Referrers() {
							switch y := uu.(type) {
							case *ssa.Send:
								w.side = chanSide(y.Chan)
							case ssa.CallInstruction:
								for _, a := range y.Common().Args {
									if ch, ok := a.Type().Underlying().(*types.Chan); ok && types.Identical(ch.Elem(), msgT) {
										w.side = chanSide(a)
									}
								}
							case *ssa.Select:
								for _, st := range y.States {
									if st.Dir == types.SendOnly && st.Send == ssa.Value(ld) {
										w.side = chanSide(st.Chan)
									}
								}
							}
						}
					}
					writers = append(writers, w)
				}
			}
			// ---- readers: closures func(Message) passed with a channel to a receiving helper
			for _, c := range p.callsIn(fn) {
				var clo *ssa.Function
				var chv ssa.Value
				for _, a := range c.Common().Args {
					if mc, ok := origin(a).(*ssa.MakeClosure); ok {
						if sig := mc.Fn.(*ssa.Function).Signature; sig.Params().Len() == 1 && types.Identical(sig.Params().At(0).Type(), msgT) {
							clo = mc.Fn.(*ssa.Function)
						}
					}
					if ch, ok := a.Type().Underlying().(*types.Chan); ok && types.Identical(ch.Elem(), msgT) {
						chv = a
					}
				}
				if clo == nil || chv == nil {
					continue
				}
				rd := &msgReader{fn: root, clo: clo, form: T.Obj().Name(), side: chanSide(chv), fields: map[string]ssa.Instruction{}, pos: p.pos(clo.Pos())}
				msgParam := clo.Params[0]
				cview := p.View(clo)
				// field reads of the message (directly, or through the cell the parameter is spilled into)
				type fread struct {
					name string
					val  ssa.Value
				}
				var freads []fread
				for _, u := range *msgParam.Referrers() {
					switch x := u.(type) {
					case *ssa.Field:
						_, n, _ := fieldNameOf(x)
						freads = append(freads, fread{n, x})
					case *ssa.Store:
						if al, ok := x.Addr.(*ssa.Alloc); ok && x.Val == ssa.Value(msgParam) {
							for _, au := range *al.Referrers() {
								if fa, ok := au.(*ssa.FieldAddr); ok {
									_, n, _ := fieldNameOf(fa)
									for _, lu := range *fa.Referrers() {
										if ld, ok := lu.(*ssa.UnOp); ok {
											freads = append(freads, fread{n, ld})
										}
									}
								}
							}
						}
					}
				}
				// expected kind: comparison of message.Rule with a constant whose mismatch edge fails
				var kindCmp *ssa.BinOp
				for _, fr := range freads {
					if fr.name != "Rule" {
						continue
					}
					for _, u := range *fr.val.Referrers() {
						bo, ok := u.(*ssa.BinOp)
						if !ok || (bo.Op != token.NEQ && bo.Op != token.EQL) {
							continue
						}
						k, ok := bo.Y.(*ssa.Const)
						if !ok {
							continue
						}
						// the mismatch edge must fail (no-return)
						mism := factTrue
						if bo.Op == token.EQL {
							mism = factFalse
						}
						fails := false
						for _, bb := range cview.Blocks() {
							if cview.holdsAt(bb, bo, mism) && cview.Exit(bb) == ExitPanic {
								fails = true
							}
						}
						if fails {
							rd.kind = p.ruleConstName(k.Int64())
							kindCmp = bo
						}
					}
				}
				for _, fr := range freads {
					if fr.name == "Rule" {
						continue
					}
					if p.onlyLogged(fr.val, 0) {
						continue
					}
					in, _ := fr.val.(ssa.Instruction)
					rd.fields[fr.name] = in
					if kindCmp != nil && in != nil {
						want := factFalse
						if kindCmp.Op == token.EQL {
							want = factTrue
						}
						if !cview.holdsAt(in.Block(), kindCmp, want) {
							rd.unchecked = append(rd.unchecked, fr.name)
						}
					}
				}
				readers = append(readers, rd)
			}
		}
	}
	return writers, readers
}

func runProtocol(p *Program, r *RuleResult) {
	for _, family := range []string{"Transition", "TransitionNP"} {
		writers, readers := protocolTables(p, family)
		r.count(family+" writers", len(writers))
		r.count(family+" readers", len(readers))
		fam := family
		// (1)+(2) writers vs readers
		opposite := map[string]string{"own": "client", "client": "own"}
		for _, w := range writers {
			if w.kind == "FWD" || w.kind == "GC" {
				continue // control requests, handled by the receiving helper itself
			}
			construct := fmt.Sprintf("%s:written:%s-on-%s-by-%s", fam, w.kind, w.side, w.form)
			if w.side == "" {
				r.add(fnName(w.fn), construct, Undecided, w.pos, "cannot tell on which channel the message is sent")
				continue
			}
			var match []*msgReader
			for _, rd := range readers {
				if rd.kind == w.kind && rd.side == opposite[w.side] {
					match = append(match, rd)
				}
			}
			if len(match) == 0 {
				r.add(fnName(w.fn), construct, Violated, w.pos, fmt.Sprintf("%s writes a %s message on its %s channel but no form reads a %s on a %s channel: the receiver fails with 'expected …'", w.form, w.kind, w.side, w.kind, opposite[w.side]))
				continue
			}
			r.add(fnName(w.fn), construct, Holds, w.pos, fmt.Sprintf("read by %s", match[0].form))
		}
		for _, rd := range readers {
			construct := fmt.Sprintf("%s:read:%s-on-%s-by-%s", fam, rd.kind, rd.side, rd.form)
			if rd.kind == "" {
				r.add(fnName(rd.fn), construct, Violated, rd.pos, "the reader does not compare the kind of the received message before using it")
				continue
			}
			var ws []*msgWriter
			for _, w := range writers {
				if w.kind == rd.kind && w.side == opposite[rd.side] {
					ws = append(ws, w)
				}
			}
			if len(ws) == 0 {
				r.add(fnName(rd.fn), construct, Violated, rd.pos, fmt.Sprintf("%s expects a %s message on a %s channel but no form writes one on its %s channel", rd.form, rd.kind, rd.side, opposite[rd.side]))
				continue
			}
			bad := ""
			var fs []string
			for f := range rd.fields {
				fs = append(fs, f)
			}
			sort.Strings(fs)
			for _, f := range fs {
				for _, w := range ws {
					if !w.fields[f] {
						bad = fmt.Sprintf("the reader uses message field %s, which the writer %s (%s) does not set", f, w.form, w.pos)
					}
				}
			}
			if len(rd.unchecked) > 0 {
				bad = fmt.Sprintf("message field %s is used before the kind of the message was compared", rd.unchecked[0])
			}
			if bad != "" {
				r.add(fnName(rd.fn), construct, Violated, rd.pos, bad)
			} else {
				r.add(fnName(rd.fn), construct, Holds, rd.pos, "fields used: "+strings.Join(fs, ","))
			}
		}
		// (4) the positive forward's relay (polarized interpreter only)
		if family != "Transition" {
			continue
		}
		fwd := p.Named(processPkg, "ForwardForm")
		ft := p.Method(fwd, "Transition")
		fview := p.View(ft)
		ownKinds := map[string]string{}
		for _, w := range writers {
			if w.side == "own" && w.kind != "FWD" && w.kind != "GC" {
				ownKinds[w.kind] = w.form
			}
		}
		relayed := map[string]string{}
		ruleT := p.Named(processPkg, "Rule")
		for _, b := range fview.Blocks() {
			for _, in := range fview.Instrs(b) {
				bo, ok := in.(*ssa.BinOp)
				if !ok || bo.Op != token.EQL || !types.Identical(bo.X.Type(), ruleT) {
					continue
				}
				k, ok := bo.Y.(*ssa.Const)
				if !ok {
					continue
				}
				kind := p.ruleConstName(k.Int64())
				// the arm: blocks where this comparison is true; a constructor call there, no failure
				for _, ab := range fview.Blocks() {
					if !fview.holdsAt(ab, bo, factTrue) {
						continue
					}
					for _, i2 := range fview.Instrs(ab) {
						if c, ok := i2.(*ssa.Call); ok {
							if sc := c.Common().StaticCallee(); sc != nil && p.isFormConstructor(sc) {
								relayed[kind] = namedOf(sc.Signature.Results().At(0).Type()).Obj().Name()
							}
						}
					}
				}
			}
		}
		var kinds []string
		for k := range ownKinds {
			kinds = append(kinds, k)
		}
		sort.Strings(kinds)
		for _, k := range kinds {
			construct := "relay:" + k
			got, ok := relayed[k]
			switch {
			case !ok:
				r.add(fnName(ft), construct, Violated, p.pos(ft.Pos()), fmt.Sprintf("%s writes %s on its own channel, but the positive forward has no relay arm for it: forwarding such a provider fails at run time", ownKinds[k], k))
			case got != ownKinds[k]:
				r.add(fnName(ft), construct, Violated, p.pos(ft.Pos()), fmt.Sprintf("the relay arm for %s rebuilds a %s, but %s messages are written by %s", k, got, k, ownKinds[k]))
			default:
				r.add(fnName(ft), construct, Holds, p.pos(ft.Pos()), "rebuilds "+got)
			}
		}
		for k, form := range relayed {
			if k == "FWD" {
				continue
			}
			if _, ok := ownKinds[k]; !ok {
				r.add(fnName(ft), "relay:"+k, Violated, p.pos(ft.Pos()), fmt.Sprintf("the positive forward relays %s (as %s) although no form writes that kind on its own channel", k, form))
			}
		}
	}
}

func allAnon(fn *ssa.Function) []*ssa.Function {
	var out []*ssa.Function
	for _, a := range fn.AnonFuncs {
		out = append(out, a)
		out = append(out, allAnon(a)...)
	}
	return out
}
