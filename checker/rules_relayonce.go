package main

import (
	"fmt"

	"golang.org/x/tools/go/ssa"
)

// R-RELAY-ONCE (C03, C02): a message is delivered to one receiver.
func init() {
	register(&Rule{Name: "R-RELAY-ONCE", Min: 3,
		Doc: "every send of an interpreter message (the struct that carries channel endpoints) in package process delivers it once: the send is not inside a loop unless the message is built inside that loop, and no path passes two sends of the same message value. A message handed to several receivers gives the channels it names several clients, which then race for the single continuation message (the duplication rule creates fresh channels instead)",
		Run: runRelayOnce})
}

func runRelayOnce(p *Program, r *RuleResult) {
	msgT := p.Named(processPkg, "Message")
	n := 0
	for _, fn := range p.SrcFuncs {
		pk := fn.Pkg
		if pk == nil && fn.Parent() != nil {
			pk = fn.Parent().Pkg
		}
		if pk == nil || pk.Pkg.Path() != processPkg {
			continue
		}
		view := p.View(fn)
		type site struct {
			in  ssa.Instruction
			val ssa.Value
		}
		var sites []site
		for _, b := range view.Blocks() {
			for _, in := range view.Instrs(b) {
				switch x := in.(type) {
				case *ssa.Send:
					if isNamed(x.X.Type(), processPkg, msgT.Obj().Name()) {
						sites = append(sites, site{x, x.X})
					}
				case *ssa.Select:
					for _, st := range x.States {
						if st.Send != nil && isNamed(st.Send.Type(), processPkg, msgT.Obj().Name()) {
							sites = append(sites, site{x, st.Send})
						}
					}
				}
			}
		}
		loops := view.Loops()
		for i, s := range sites {
			n++
			construct := fmt.Sprintf("message-send#%d", i+1)
			bad := ""
			for _, l := range loops {
				if !l.Body[s.in.Block()] {
					continue
				}
				// built inside the loop?
				inside := false
				if vi, ok := origin(s.val).(ssa.Instruction); ok && vi.Block() != nil && l.Body[vi.Block()] {
					if _, isPhi := vi.(*ssa.Phi); !isPhi {
						inside = true
					}
				}
				if ld, ok := s.val.(*ssa.UnOp); ok {
					if al, isAl := ld.X.(*ssa.Alloc); isAl && l.Body[al.Block()] {
						inside = true
					}
				}
				if !inside {
					bad = fmt.Sprintf("the message %s is sent inside a loop that does not build it: every iteration delivers the same message (and the channels it names) to another receiver", displayKey(s.val))
				}
			}
			if bad == "" {
				for j, o := range sites {
					if j == i || origin(o.val) != origin(s.val) {
						continue
					}
					if _, isC := origin(s.val).(*ssa.Const); isC {
						continue
					}
					if len(view.mayReachFrom(s.in, nil, func(in ssa.Instruction) bool { return in == o.in }, nil)) > 0 {
						bad = fmt.Sprintf("the message %s is sent again at %s on a path that already sent it here", displayKey(s.val), p.instrPos(o.in))
					}
				}
			}
			if bad != "" {
				r.add(fnName(fn), construct, Violated, p.instrPos(s.in), bad)
			} else {
				r.add(fnName(fn), construct, Holds, p.instrPos(s.in), "delivered to one receiver")
			}
		}
	}
	r.count("message sends", n)
}
