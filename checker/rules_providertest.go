package main

import (
	"fmt"
	"go/token"
	"sort"
	"strings"

	"golang.org/x/tools/go/ssa"
)

// R-PROVIDER-TEST (C07, C05): every spelled-out test "is this name the provider?" agrees
// with the definition: self, or the shadow name when there is one.
func init() {
	register(&Rule{Name: "R-PROVIDER-TEST", Min: 2,
		Doc: "wherever package process decides from a name's IsSelf flag together with a comparison of its identifier with the shadow provider name, the decision is a function of provider(x) = x.IsSelf ∨ (shadow ≠ nil ∧ shadow.Ident = x.Ident): enumerating the branch outcomes of the three atoms, no outcome for which provider(x) holds ends in the same place as one for which it does not (a wrong De Morgan step lets any name pass as the explicit self argument of a call when no shadow name is in scope)",
		Run: runProviderTest})
}

type provAtom int

const (
	atomNone provAtom = iota
	atomSelf
	atomShadowSet // shadow != nil
	atomSameIdent
)

// provAtomOf classifies a branch condition relative to the name with access path key.
// neg: the condition is the negation of the atom.
func provAtomOf(c ssa.Value, key string) (a provAtom, neg bool) {
	for d := 0; d < 3; d++ {
		u, ok := c.(*ssa.UnOp)
		if !ok || u.Op != token.NOT {
			break
		}
		c, neg = u.X, !neg
	}
	switch x := c.(type) {
	case *ssa.UnOp:
		if x.Op == token.MUL && accessPath(x) == key+".IsSelf" {
			return atomSelf, neg
		}
	case *ssa.Field:
		if accessPath(x) == key+".IsSelf" {
			return atomSelf, neg
		}
	case *ssa.BinOp:
		if x.Op != token.EQL && x.Op != token.NEQ {
			return atomNone, false
		}
		if x.Op == token.NEQ {
			neg = !neg
		}
		for _, pair := range [][2]ssa.Value{{x.X, x.Y}, {x.Y, x.X}} {
			l, r := pair[0], pair[1]
			if isNilConst(r) && isNameType(l.Type()) && isPtr(l.Type()) {
				// shadow == nil  is the negation of "shadow set"
				return atomShadowSet, !neg
			}
			if accessPath(l) == key+".Ident" {
				if rp := accessPath(r); strings.HasSuffix(rp, ".Ident") && rp != key+".Ident" {
					return atomSameIdent, neg
				}
			}
		}
	}
	return atomNone, false
}

func runProviderTest(p *Program, r *RuleResult) {
	n := 0
	var fns []*ssa.Function
	for _, fn := range p.SrcFuncs {
		pk := fn.Pkg
		if pk == nil && fn.Parent() != nil {
			pk = fn.Parent().Pkg
		}
		if pk != nil && pk.Pkg.Path() == processPkg {
			fns = append(fns, fn)
		}
	}
	sort.Slice(fns, func(i, j int) bool { return fnName(fns[i]) < fnName(fns[j]) })
	for _, fn := range fns {
		view := p.View(fn)
		done := map[string]bool{}
		for _, b := range view.Blocks() {
			ins := view.Instrs(b)
			if len(ins) == 0 {
				continue
			}
			iff, ok := ins[len(ins)-1].(*ssa.If)
			if !ok {
				continue
			}
			// head of a chain: a branch on <x>.IsSelf
			c := iff.Cond
			for d := 0; d < 3; d++ {
				if u, isU := c.(*ssa.UnOp); isU && u.Op == token.NOT {
					c = u.X
				}
			}
			ap := accessPath(c)
			if !strings.HasSuffix(ap, ".IsSelf") {
				continue
			}
			key := strings.TrimSuffix(ap, ".IsSelf")
			if done[key] {
				continue
			}
			// enumerate
			type val [4]int // per atom: 0 unset, 1 true, 2 false
			type leaf struct {
				key string
				v   val
				pos string
			}
			var leaves []leaf
			sawIdent := false
			var walk func(b *ssa.BasicBlock, v val, depth int)
			walk = func(b *ssa.BasicBlock, v val, depth int) {
				ins := view.Instrs(b)
				if len(ins) > 0 && depth < 8 {
					if iff, ok := ins[len(ins)-1].(*ssa.If); ok && len(b.Succs) == 2 {
						if a, neg := provAtomOf(iff.Cond, key); a != atomNone {
							if a == atomSameIdent {
								sawIdent = true
							}
							for i, su := range b.Succs {
								truth := (i == 0) != neg // value of the atom on this edge
								want := 2
								if truth {
									want = 1
								}
								if v[a] != 0 && v[a] != want {
									continue
								}
								nv := v
								nv[a] = want
								walk(su, nv, depth+1)
							}
							return
						}
					}
					if ret, ok := ins[len(ins)-1].(*ssa.Return); ok && len(ret.Results) == 1 {
						if a, neg := provAtomOf(ret.Results[0], key); a != atomNone {
							if a == atomSameIdent {
								sawIdent = true
							}
							for _, truth := range []bool{true, false} {
								want := 2
								if truth {
									want = 1
								}
								if v[a] != 0 && v[a] != want {
									continue
								}
								nv := v
								nv[a] = want
								leaves = append(leaves, leaf{fmt.Sprintf("b%d:returns-%v", b.Index, truth != neg), nv, p.instrPos(ret)})
							}
							return
						}
					}
				}
				pos := ""
				if len(ins) > 0 {
					pos = p.instrPos(ins[len(ins)-1])
				}
				leaves = append(leaves, leaf{fmt.Sprintf("b%d", b.Index), v, pos})
			}
			walk(b, val{}, 0)
			if !sawIdent {
				continue // a plain self test, not the provider test
			}
			done[key] = true
			n++
			// which leaves are reached by provider / non-provider outcomes
			kinds := map[string][2]bool{}
			posOf := map[string]string{}
			for _, lf := range leaves {
				for _, a := range []int{1, 2} {
					if lf.v[atomSelf] != 0 && lf.v[atomSelf] != a {
						continue
					}
					for _, s := range []int{1, 2} {
						if lf.v[atomShadowSet] != 0 && lf.v[atomShadowSet] != s {
							continue
						}
						for _, c := range []int{1, 2} {
							if lf.v[atomSameIdent] != 0 && lf.v[atomSameIdent] != c {
								continue
							}
							if s == 2 && c == 1 && lf.v[atomSameIdent] == 0 {
								continue // no shadow name: nothing to be equal to
							}
							prov := a == 1 || (s == 1 && c == 1)
							k := kinds[lf.key]
							if prov {
								k[0] = true
							} else {
								k[1] = true
							}
							kinds[lf.key] = k
							posOf[lf.key] = lf.pos
						}
					}
				}
			}
			bad := ""
			var ks []string
			for k := range kinds {
				ks = append(ks, k)
			}
			sort.Strings(ks)
			for _, k := range ks {
				if kinds[k][0] && kinds[k][1] {
					bad = fmt.Sprintf("the branch ending at %s is taken both for a name that is the provider and for one that is not (self flag, shadow name present, identifiers equal are not combined as self ∨ (shadow ∧ equal))", posOf[k])
				}
			}
			construct := "provider-test:" + strings.TrimPrefix(key, fn.Params[0].Name()+".")
			if bad != "" {
				r.add(fnName(fn), construct, Violated, p.instrPos(iff), bad)
			} else {
				r.add(fnName(fn), construct, Holds, p.instrPos(iff), fmt.Sprintf("%d outcomes separate provider from non-provider", len(ks)))
			}
		}
	}
	r.count("spelled-out provider tests", n)
}
