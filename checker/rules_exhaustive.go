package main

import (
	"fmt"
	"go/token"
	"go/types"
	"sort"
	"strings"

	"golang.org/x/tools/go/ssa"
)

// R-EXHAUSTIVE (C01, C09, C04): a dispatcher over a closed sum whose fall-through is a
// failure (panic / runtime error) or silent handles every member.

func init() {
	register(&Rule{Name: "R-EXHAUSTIVE", Min: 12,
		Doc: "every type switch over Form/SessionType/SessionTypeInitial/Modality and every switch over a registry enum whose default region panics (or silently falls through) has a case for every member of the closed sum (for Modality: every proper mode)",
		Run: runExhaustive})
}

type closedSum struct {
	Iface   *types.Named
	Members []*types.Named
}

func (p *Program) closedSums() []*closedSum {
	var out []*closedSum
	for _, spec := range [][2]string{{processPkg, "Form"}, {typesPkg, "SessionType"}, {typesPkg, "SessionTypeInitial"}, {typesPkg, "Modality"}} {
		I := p.Named(spec[0], spec[1])
		cs := &closedSum{Iface: I, Members: p.Implementers(I)}
		if spec[1] == "Modality" {
			// proper modes only
			var proper []*types.Named
			p.computeNoReturn()
			for _, T := range cs.Members {
				if m := p.MethodOpt(T, "CanBeDownshiftedTo"); m != nil && !p.noRet[m] {
					proper = append(proper, T)
				}
			}
			cs.Members = proper
		}
		out = append(out, cs)
	}
	return out
}

func runExhaustive(p *Program, r *RuleResult) {
	sums := p.closedSums()
	enumTypes := []*types.Named{p.Named(processPkg, "Action"), p.Named(processPkg, "Execution_Version"), p.Named(parserPkg, "Kind"), p.Named(typesPkg, "Polarity")}
	nSites := 0
	for _, fn := range p.SrcFuncs {
		pk := fn.Pkg
		if pk == nil && fn.Parent() != nil {
			pk = fn.Parent().Pkg
		}
		if pk == nil {
			continue
		}
		view := p.View(fn)
		name := fnName(fn)
		// ---- type switches ----
		groups := map[string][]*ssa.TypeAssert{}
		var order []string
		for _, b := range view.Blocks() {
			for _, in := range view.Instrs(b) {
				ta, ok := in.(*ssa.TypeAssert)
				if !ok || !ta.CommaOk || typeIsInterface(ta.AssertedType) {
					continue
				}
				x := ta.X
				if ci, ok := x.(*ssa.ChangeInterface); ok {
					x = ci.X
				}
				key := descValue(x)
				if _, seen := groups[key]; !seen {
					order = append(order, key)
				}
				groups[key] = append(groups[key], ta)
			}
		}
		ord := 0
		for _, key := range order {
			tas := groups[key]
			if len(tas) < 2 {
				continue
			}
			// which closed sum?
			var cs *closedSum
			for _, s := range sums {
				it := s.Iface.Underlying().(*types.Interface)
				all := true
				for _, ta := range tas {
					if !types.Implements(ta.AssertedType, it) {
						all = false
					}
				}
				x := tas[0].X
				if ci, ok := x.(*ssa.ChangeInterface); ok {
					x = ci.X
				}
				if all && (types.Identical(x.Type(), s.Iface) || types.Identical(x.Type().Underlying(), types.NewInterfaceType(nil, nil).Complete())) {
					cs = s
					break
				}
			}
			if cs == nil {
				continue
			}
			// the chain: assertions evaluated only after all earlier ones of the chain failed
			okOf := func(ta *ssa.TypeAssert) ssa.Value {
				for _, u := range *ta.Referrers() {
					if ex, ok := u.(*ssa.Extract); ok && ex.Index == 1 {
						return ex
					}
				}
				return nil
			}
			var chain []*ssa.TypeAssert
			for _, ta := range tas {
				if okOf(ta) == nil {
					continue
				}
				joins := true
				for _, c := range chain {
					if !view.holdsAt(ta.Block(), okOf(c), factFalse) {
						joins = false
					}
				}
				if joins {
					chain = append(chain, ta)
				}
			}
			if len(chain) < 2 {
				continue
			}
			tas = chain
			// default region starts at the false successor of the test of the last assertion
			failing := false
			lastOk := okOf(chain[len(chain)-1])
			for _, b := range view.Blocks() {
				ins := view.Instrs(b)
				iff, ok := ins[len(ins)-1].(*ssa.If)
				if !ok || iff.Cond != lastOk {
					continue
				}
				def := b.Succs[1]
				// failing default: no return is reachable from it
				returns := false
				for rb := range view.blocksReachableFrom(def) {
					if view.Exit(rb) == ExitReturn {
						returns = true
					}
				}
				if !returns {
					failing = true
				}
			}
			if !failing {
				continue
			}
			nSites++
			ord++
			construct := fmt.Sprintf("type-switch:%s#%d", cs.Iface.Obj().Name(), ord)
			have := map[string]bool{}
			for _, ta := range tas {
				if n := namedOf(ta.AssertedType); n != nil {
					have[n.Obj().Name()] = true
				}
			}
			var missing []string
			for _, m := range cs.Members {
				if !have[m.Obj().Name()] {
					missing = append(missing, m.Obj().Name())
				}
			}
			if len(missing) > 0 {
				r.add(name, construct, Violated, p.instrPos(tas[0]), fmt.Sprintf("the default of this dispatcher fails (panic/runtime error) and it has no case for %s", strings.Join(missing, ", ")))
			} else {
				r.add(name, construct, Holds, p.instrPos(tas[0]), fmt.Sprintf("%d members handled", len(cs.Members)))
			}
		}
		// ---- enum switches ----
		type cmp struct {
			bo  *ssa.BinOp
			val int64
		}
		egroups := map[string][]cmp{}
		etypes := map[string]*types.Named{}
		var eorder []string
		for _, b := range view.Blocks() {
			for _, in := range view.Instrs(b) {
				bo, ok := in.(*ssa.BinOp)
				if !ok || bo.Op != token.EQL {
					continue
				}
				k, ok := bo.Y.(*ssa.Const)
				if !ok || k.Value == nil {
					continue
				}
				var E *types.Named
				for _, e := range enumTypes {
					if types.Identical(bo.X.Type(), e) {
						E = e
					}
				}
				if E == nil {
					continue
				}
				key := descValue(bo.X)
				if _, seen := egroups[key]; !seen {
					eorder = append(eorder, key)
				}
				egroups[key] = append(egroups[key], cmp{bo, k.Int64()})
				etypes[key] = E
			}
		}
		for _, key := range eorder {
			cs := egroups[key]
			if len(cs) < 2 {
				continue
			}
			E := etypes[key]
			// default region: all comparisons false
			failing, silent := false, false
			for _, b := range view.Blocks() {
				all := true
				for _, c := range cs {
					if !view.holdsAt(b, c.bo, factFalse) {
						all = false
					}
				}
				if all && view.Exit(b) == ExitPanic {
					failing = true
				}
			}
			// silent fall-through: the false successor of the last comparison is a join reached from a case body
			last := cs[len(cs)-1].bo
			if lb := last.Block(); len(lb.Succs) == 2 {
				fs := lb.Succs[1]
				for _, c := range cs {
					cb := c.bo.Block()
					if len(cb.Succs) == 2 {
						if view.blocksReachableFrom(cb.Succs[0])[fs] && len(fs.Preds) > 1 {
							silent = true
						}
					}
				}
			}
			if silent && !failing && isNamed(E, parserPkg, "Kind") {
				// statement kinds: a pass over the statements may leave some kinds to another
				// pass; that every kind is handled by some pass is R-KIND-EXH's obligation
				continue
			}
			if silent && !failing && isPureTextFn(p, fn) {
				// a function that only computes a text: printing nothing for the remaining
				// members is a choice of the printer, not a dropped step
				continue
			}
			if !failing && !silent {
				continue
			}
			nSites++
			ord++
			construct := fmt.Sprintf("enum-switch:%s#%d", E.Obj().Name(), ord)
			have := map[int64]bool{}
			for _, c := range cs {
				have[c.val] = true
			}
			var missing []string
			for _, k := range p.EnumConsts(E) {
				v, _ := constantInt(k)
				if !have[v] {
					missing = append(missing, k.Name())
				}
			}
			sort.Strings(missing)
			kind := "fails"
			if !failing {
				kind = "silently does nothing"
			}
			if len(missing) > 0 {
				r.add(name, construct, Violated, p.instrPos(last), fmt.Sprintf("the fall-through of this switch %s and it has no case for %s", kind, strings.Join(missing, ", ")))
			} else {
				r.add(name, construct, Holds, p.instrPos(last), fmt.Sprintf("all %d constants handled (fall-through %s)", len(p.EnumConsts(E)), kind))
			}
		}
	}
	r.count("dispatch sites with failing or silent default", nSites)
}

// isPureTextFn: fn returns exactly one string and writes nothing that outlives it.
func isPureTextFn(p *Program, fn *ssa.Function) bool {
	res := fn.Signature.Results()
	if res.Len() != 1 {
		return false
	}
	if b, ok := res.At(0).Type().Underlying().(*types.Basic); !ok || b.Kind() != types.String {
		return false
	}
	return p.writesNothingOutside(fn)
}
