package main

// Positive fixtures: one-edit in-memory variants of /repo on which a rule must fire.
// (Most of them re-introduce a defect that was repaired by a fix: commit.)

func init() {
	addFixture(Fixture{Name: "phase-stop-no-return", Rule: "R-PHASE-STOP", File: "process/typechecker.go",
		Old:    "preliminaryFunctionDefinitionsChecks(globalEnv); err != nil {\n\t\terrorChan <- err\n\t\treturn\n\t}",
		New:    "preliminaryFunctionDefinitionsChecks(globalEnv); err != nil {\n\t\terrorChan <- err\n\t}",
		Expect: "phase:preliminaryFunctionDefinitionsChecks"})
	addFixture(Fixture{Name: "success-in-defer", Rule: "R-NO-DEFERRED-SUCCESS", File: "process/typechecker.go",
		Old:    "\tassignTypesToProcessProviders(processes)\n",
		New:    "\tdefer func() { doneChan <- true }()\n\tassignTypesToProcessProviders(processes)\n",
		Expect: "success-send"})
	addFixture(Fixture{Name: "drop-not-unfolded", Rule: "R-UNFOLDED-POLARITY", File: "process/typechecker.go",
		Old:    "p.client_c.Type = types.Unfold(clientType, labelledTypesEnv)",
		New:    "p.client_c.Type = clientType",
		Expect: "checkExplicitPolarityValidity(p.client_c)"})
	addFixture(Fixture{Name: "split-err-after-use", Rule: "R-ERR-BEFORE-USE", File: "process/typechecker.go",
		Old:    "gammaLeftNameTypesCtx, gammaRightNameTypesCtx, gammaErr := splitGammaCtx(gammaNameTypesCtx, callForm.parameters, nil, labelledTypesEnv)\n",
		New:    "gammaLeftNameTypesCtx, gammaRightNameTypesCtx, gammaErr := splitGammaCtx(gammaNameTypesCtx, callForm.parameters, nil, labelledTypesEnv)\n\t\t\tgammaRightNameTypesCtx[\"x\"] = NamesType{}\n",
		Expect: "splitGammaCtx#1"})
	addFixture(Fixture{Name: "memo-key-after-unfold", Rule: "R-MEMO-KEY", File: "types/types.go",
		Old:    "snapshots[presentSnapshot.String()] = true",
		New:    "snapshots[type1.String()+type1.Modality().String()+\"|\"+type2.String()+type2.Modality().String()] = true",
		Expect: "insert-key#1"})
	addFixture(Fixture{Name: "dead-label-set", Rule: "R-DEAD-SET", File: "types/types_sanity_checks.go",
		Old:    "func (q *BranchCaseType) checkTypeLabels(labelledTypesEnv LabelledTypesEnv) error {\n\texistingLabels := make(map[string]bool)\n\n\tfor _, j := range q.Branches {\n\t\t// Check for unique labels\n\t\t_, exists := existingLabels[j.Label]\n\n\t\tif exists {\n\t\t\treturn fmt.Errorf(\"duplicate label '%s' found in type '%s'\", j.Label, q.String())\n\t\t}\n\n\t\texistingLabels[j.Label] = true\n",
		New:    "func (q *BranchCaseType) checkTypeLabels(labelledTypesEnv LabelledTypesEnv) error {\n\texistingLabels := make(map[string]bool)\n\n\tfor _, j := range q.Branches {\n\t\t// Check for unique labels\n\t\t_, exists := existingLabels[j.Label]\n\n\t\tif exists {\n\t\t\treturn fmt.Errorf(\"duplicate label '%s' found in type '%s'\", j.Label, q.String())\n\t\t}\n\n",
		Expect: "(*types.BranchCaseType).checkTypeLabels | set:existingLabels"})
	addFixture(Fixture{Name: "split-binder-not-fresh", Rule: "R-FRESH-BINDER", File: "process/typechecker.go",
		Old:    "\tif nameTypeExists(gammaNameTypesCtx, p.channel_one.Ident) ||\n\t\tnameTypeExists(gammaNameTypesCtx, p.channel_two.Ident) {",
		New:    "\tif nameTypeExists(gammaNameTypesCtx, p.channel_one.Ident) {",
		Expect: "ctx-insert:p.channel_two.Ident"})
	addFixture(Fixture{Name: "consume-without-delete", Rule: "R-CONSUME-DELETES", File: "process/typechecker.go",
		Old:    "\tfoundName, ok := gammaNameTypesCtx[name.Ident]\n\n\tif ok {\n\t\t// If linear then remove\n\t\tdelete(gammaNameTypesCtx, name.Ident)\n\n\t\treturn foundName.Type, nil\n\t}\n\n\t// Problem since the requested name was not found in the gamma\n\treturn nil, fmt.Errorf(\"the requested name (%s) is not defined (has no type)\", name.String())\n}\n\n// Takes a name from gamma. If the name is 'self'",
		New:    "\tfoundName, ok := gammaNameTypesCtx[name.Ident]\n\n\tif ok {\n\t\treturn foundName.Type, nil\n\t}\n\n\t// Problem since the requested name was not found in the gamma\n\treturn nil, fmt.Errorf(\"the requested name (%s) is not defined (has no type)\", name.String())\n}\n\n// Takes a name from gamma. If the name is 'self'",
		Expect: "process.consumeName |"})
	addFixture(Fixture{Name: "close-keeps-context", Rule: "R-AXIOM-EMPTY", File: "process/typechecker.go",
		Old:    "\t\t\treturn TypeErrorf(\"expected '%s' to have a unit type (1), but found type '%s' instead\", p.String(), providerType.String())\n\t\t}\n\t}\n\n\t// make sure that no variables are left in gamma\n\tif err := linearGammaContext(gammaNameTypesCtx); err != nil {\n\t\treturn TypeErrorE(err)\n\t}\n\treturn nil\n}",
		New:    "\t\t\treturn TypeErrorf(\"expected '%s' to have a unit type (1), but found type '%s' instead\", p.String(), providerType.String())\n\t\t}\n\t}\n\n\treturn nil\n}",
		Expect: "(*process.CloseForm).typecheckForm"})
	addFixture(Fixture{Name: "case-shared-context", Rule: "R-BRANCH-COPY", File: "process/typechecker.go",
		Old:    "continuationError := curBranchForm.continuation_e.typecheckForm(newGammaNameTypesCtx, &curBranchForm.payload_c, expectedBranchType.SessionType",
		New:    "_ = newGammaNameTypesCtx\n\t\t\tcontinuationError := curBranchForm.continuation_e.typecheckForm(gammaNameTypesCtx, &curBranchForm.payload_c, expectedBranchType.SessionType",
		Expect: "branch-judgement#1"})
	addFixture(Fixture{Name: "split-ungated", Rule: "R-STRUCT-GATES", File: "process/typechecker.go",
		Old:    "\tif !types.IsContractable(foundType) {",
		New:    "\tif false && !types.IsContractable(foundType) {",
		Expect: "gated-by:IsContractable"})
	addFixture(Fixture{Name: "multi-provider-ungated", Rule: "R-MULTI-CONTRACT", File: "process/typechecker.go",
		Old:    "if len(processes[i].Providers) > 1 && !types.IsContractable(processes[i].Type) {",
		New:    "if len(processes[i].Providers) > 2 && !types.IsContractable(processes[i].Type) {",
		Expect: "multi-provider-contraction-gate"})
	addFixture(Fixture{Name: "plain-counter-read", Rule: "R-ATOMIC", File: "process/runtime.go",
		Old:    "return atomic.LoadUint64(&re.deadProcessCount)",
		New:    "return re.deadProcessCount",
		Expect: "field:deadProcessCount plain read"})
	addFixture(Fixture{Name: "comment-loop-no-eof", Rule: "R-LOOP-EOF", File: "parser/scanner.go",
		Old:    "if ch := s.read(); ch == '/' || ch == eof {",
		New:    "if ch := s.read(); ch == '/' {",
		Expect: "skipToEndOfComment"})
	addFixture(Fixture{Name: "end-marker-for-percent", Rule: "R-END-MARKER", File: "parser/scanner.go",
		Old:    "\t\treturn PERCENTAGE, string(ch), startPos, endPos",
		New:    "\t\treturn 0, string(ch), startPos, endPos",
		Expect: "end-marker-token:0#2"})
}

func init() {
	addFixture(Fixture{Name: "send-left-unbracketed", Rule: "R-PRINT-GRAMMAR", File: "types/types.go",
		Old:    "\tbuffer.WriteString(stringLeftOperand(q.Left))\n\tbuffer.WriteString(\" * \")",
		New:    "\tbuffer.WriteString(q.Left.String())\n\tbuffer.WriteString(\" * \")",
		Expect: "triple:SendType.Left<-SendType"})
	addFixture(Fixture{Name: "left-operand-forgets-up", Rule: "R-PRINT-GRAMMAR", File: "types/types.go",
		Old:    "\tcase *SendType, *ReceiveType, *UpType, *DownType:\n\t\treturn \"(\" + t.String() + \")\"",
		New:    "\tcase *SendType, *ReceiveType, *DownType:\n\t\treturn \"(\" + t.String() + \")\"",
		Expect: "Left<-UpType"})
	addFixture(Fixture{Name: "receive-prints-arrow", Rule: "R-PRINT-GRAMMAR", File: "types/types.go",
		Old:    "\tbuffer.WriteString(stringLeftOperand(q.Left))\n\tbuffer.WriteString(\" -* \")",
		New:    "\tbuffer.WriteString(stringLeftOperand(q.Left))\n\tbuffer.WriteString(\" -> \")",
		Expect: "(*types.ReceiveType).String | print-production"})
	addFixture(Fixture{Name: "kind-dropped", Rule: "R-KIND-EXH", File: "parser/parser.go",
		Old:    "\t\t\tassumedFreeNames = append(assumedFreeNames, p.assumedFreeNameTypes...)",
		New:    "\t\t\t_ = p.assumedFreeNameTypes",
		Expect: "kind:ASSUMING_DEF"})
	addFixture(Fixture{Name: "parse-error-dropped", Rule: "R-PARSE-ERR", File: "parser/parser.go",
		Old:    "\tallEnvironment, err := Parse(r)\n\n\tif err != nil {\n\t\treturn nil, nil, nil, err\n\t}",
		New:    "\tallEnvironment, err := Parse(r)\n\t_ = err",
		Expect: "parser.ParseReader | errors-propagated"})
}

func init() {
	addFixture(Fixture{Name: "fwd-types-not-compared", Rule: "R-MUST-CHECK", File: "process/typechecker.go",
		Old:    "\tif !types.EqualType(providerType, clientType, labelledTypesEnv) {",
		New:    "\tif false && !types.EqualType(providerType, clientType, labelledTypesEnv) {",
		Expect: "(*process.ForwardForm).typecheckForm"})
	addFixture(Fixture{Name: "case-coverage-dropped", Rule: "R-CASE-EXACT", File: "process/typechecker.go",
		Old:    "\t\tif len(labelsChecked) < len(clientSelectLabelType.Branches) {",
		New:    "\t\tif len(labelsChecked) > len(clientSelectLabelType.Branches) {",
		Expect: "all-labels-covered:arm#2"})
	addFixture(Fixture{Name: "cut-independence-dropped", Rule: "R-INDEPENDENCE", File: "process/typechecker.go",
		Old:    "\t\t\terr := declationOfIndependence(gammaLeftNameTypesCtx.getNames(), functionSignatureType)\n\t\t\tif err != nil {\n\t\t\t\treturn TypeErrorE(err)\n\t\t\t}",
		New:    "\t\t\tvar err error",
		Expect: "root-site:cut-body#1"})
	addFixture(Fixture{Name: "shift-direction-flipped", Rule: "R-SHIFT-LEGAL", File: "process/typechecker.go",
		Old:    "\t\tif !clientDownType.From.CanBeDownshiftedTo(clientDownType.To) {",
		New:    "\t\tif !clientDownType.From.CanBeUpshiftedTo(clientDownType.To) {",
		Expect: "rule-asserting:DownType"})
	addFixture(Fixture{Name: "unset-not-rejected", Rule: "R-UNSET-REJECTED", File: "types/modality.go",
		Old:    "func (q *UnitType) checkTypeModalities(labelledTypesEnv LabelledTypesEnv, currentMode Modality) error {\n\t_, unset := q.Mode.(*UnsetMode)\n\tinvalidMode, invalid := q.Mode.(*InvalidMode)\n\n\tif unset || q.Mode == nil {",
		New:    "func (q *UnitType) checkTypeModalities(labelledTypesEnv LabelledTypesEnv, currentMode Modality) error {\n\t_, unset := q.Mode.(*UnsetMode)\n\tinvalidMode, invalid := q.Mode.(*InvalidMode)\n\n\tif false && (unset || q.Mode == nil) {",
		Expect: "(*types.UnitType).checkTypeModalities | mode-field:Mode"})
	addFixture(Fixture{Name: "child-not-visited", Rule: "R-REC-COMPLETE", File: "types/types_sanity_checks.go",
		Old:    "func (q *ReceiveType) checkTypeLabels(labelledTypesEnv LabelledTypesEnv) error {\n\terr := q.Left.checkTypeLabels(labelledTypesEnv)\n\n\tif err != nil {\n\t\treturn err\n\t}\n\n\terr = q.Right.checkTypeLabels(labelledTypesEnv)\n\n\tif err != nil {\n\t\treturn err\n\t}\n",
		New:    "func (q *ReceiveType) checkTypeLabels(labelledTypesEnv LabelledTypesEnv) error {\n\terr := q.Left.checkTypeLabels(labelledTypesEnv)\n\n\tif err != nil {\n\t\treturn err\n\t}\n",
		Expect: "checkTypeLabels:child:Right"})
	addFixture(Fixture{Name: "copyform-case-missing", Rule: "R-EXHAUSTIVE", File: "process/form.go",
		Old:    "\tcase *DropForm:\n\t\tp, ok := orig.(*DropForm)\n\t\tif ok {\n\t\t\tbody := CopyForm(p.continuation_e)\n\t\t\treturn NewDrop(*p.client_c.Copy(), body)\n\t\t}\n",
		New:    "",
		Expect: "process.CopyForm | type-switch:Form"})
	addFixture(Fixture{Name: "cli-typecheck-skipped-for-small", Rule: "R-CLI-GATE", File: "cmd/cli.go",
		Old:    "\tif typecheckRes {\n\t\terr = process.Typecheck(processes, assumedFreeNames, globalEnv)",
		New:    "\tif typecheckRes && len(processes) > 1 {\n\t\terr = process.Typecheck(processes, assumedFreeNames, globalEnv)",
		Expect: "typechecked-before:InitializeProcesses"})
	addFixture(Fixture{Name: "global-cache", Rule: "R-GLOBALS", File: "process/global_env.go",
		Old:    "// Common environment used both by the typechecker and interpreter/runtime environment\n",
		New:    "var lastEnv *GlobalEnvironment\n\nfunc rememberEnv(g *GlobalEnvironment) { lastEnv = g }\n",
		Expect: "global:process.lastEnv"})
	addFixture(Fixture{Name: "dup-unguarded-send", Rule: "R-DUP-FIRST", File: "process/transition.go",
		Old:    "\tif len(process.Providers) > 1 {\n\t\t// Split process if needed\n\t\tprocess.performDUPrule(re)\n\t} else {\n\t\t// Send message and perform the remaining work defined by continuationFunc",
		New:    "\tif len(process.Providers) > 2 {\n\t\t// Split process if needed\n\t\tprocess.performDUPrule(re)\n\t} else {\n\t\t// Send message and perform the remaining work defined by continuationFunc",
		Expect: "process.TransitionBySending"})
	addFixture(Fixture{Name: "gc-does-not-cascade", Rule: "R-GC-PROPAGATES", File: "process/transition.go",
		Old:    "\tfor _, fn := range process.Body.FreeNames() {\n\t\tp := createDroppableForwardFromClient(process, re, fn)\n\t\tp.SpawnThenTransition(re)\n\t}\n\n\tprocess.terminate(re)",
		New:    "\tprocess.terminate(re)",
		Expect: "gc-cascades-to-free-names"})
	addFixture(Fixture{Name: "call-body-not-copied", Rule: "R-COPY-PER-USE", File: "process/transition.go",
		Old:    "\t\tfunctionCallBody := CopyForm(functionCall.Body)\n",
		New:    "\t\tfunctionCallBody := functionCall.Body\n",
		Expect: "(*process.CallForm).Transition$1"})
	addFixture(Fixture{Name: "monitor-gets-live-body", Rule: "R-MONITOR-COPY", File: "process/monitor.go",
		Old:    "func (m *Monitor) MonitorNewProcess(process *Process) {\n\tbody := CopyForm(process.Body)",
		New:    "func (m *Monitor) MonitorNewProcess(process *Process) {\n\tbody := process.Body",
		Expect: "(*process.Monitor).MonitorNewProcess | monitor-update"})
	addFixture(Fixture{Name: "binder-not-removed-from-free-names", Rule: "R-BINDERS", File: "process/form.go",
		Old:    "\tcontinuation_e_excluding_bound_names := removeBoundName(p.continuation_e.FreeNames(), p.channel_one)\n\tcontinuation_e_excluding_bound_names = removeBoundName(continuation_e_excluding_bound_names, p.channel_two)",
		New:    "\tcontinuation_e_excluding_bound_names := removeBoundName(p.continuation_e.FreeNames(), p.channel_one)",
		Expect: "process.SplitForm | binders-agree:continuation_e"})
	addFixture(Fixture{Name: "substitute-ignores-initialisation", Rule: "R-SUBST-CONTRA", File: "process/name.go",
		Old:    "\t} else if !n.Initialized() && !old.Initialized() && n.Ident == old.Ident {",
		New:    "\t} else if !n.Initialized() && n.Ident == old.Ident {",
		Expect: "state:n=uninit,old=init-other,ident=equal"})
	addFixture(Fixture{Name: "spawn-shares-body", Rule: "R-SPAWN-OWNERSHIP", File: "process/transition.go",
		Old:    "\t\tnewDuplicatedProcessBody := CopyForm(process.Body)\n",
		New:    "\t\tnewDuplicatedProcessBody := process.Body\n",
		Expect: "(*process.Process).performDUPrule | new-process-body#1"})
	addFixture(Fixture{Name: "contractivity-unchecked", Rule: "R-CONTRACTIVE-GATE", File: "types/types_sanity_checks.go",
		Old:    "\t\tif !ok {\n\t\t\treturn fmt.Errorf(\"session type definition for %s (= %s) is not contractive\", j.Name, j.SessionType.String())\n\t\t}",
		New:    "\t\t_ = ok",
		Expect: "contractivity-checked"})
	addFixture(Fixture{Name: "unfold-guard-removed", Rule: "R-UNFOLD-GUARD", File: "types/modality.go",
		Old:    "\t\tif !usedLabels[q.Label] {\n\t\t\t// no cycle reached yet\n\t\t\tusedLabels[q.Label] = true\n\t\t\treturn typeFromLabel.Type.inferModality(labelledTypesEnv, usedLabels)\n\t\t}",
		New:    "\t\treturn typeFromLabel.Type.inferModality(labelledTypesEnv, usedLabels)",
		Expect: "(*types.LabelType).inferModality"})
	addFixture(Fixture{Name: "reinit-counter-forgotten", Rule: "R-REINIT", File: "process/runtime.go",
		Old:    "\tre.deadProcessCount = 0\n\tre.debugChannelCounter = 0",
		New:    "\tre.debugChannelCounter = 0",
		Expect: "reinit:deadProcessCount"})
	addFixture(Fixture{Name: "lexer-reused", Rule: "R-FRESH-PARSE", File: "parser/lexer.go",
		Old:    "func newLexer(r io.Reader) *lexer {\n\treturn &lexer{scanner: newScanner(r), Errors: make(chan error, 1)}\n}",
		New:    "var sharedLexer = &lexer{Errors: make(chan error, 1)}\n\nfunc newLexer(r io.Reader) *lexer {\n\tsharedLexer.scanner = newScanner(r)\n\treturn sharedLexer\n}",
		Expect: "fresh-lexer-per-parse"})
	addFixture(Fixture{Name: "print-fields-swapped", Rule: "R-PRINT-SLOTS", File: "process/form.go",
		Old:    "\tbuf.WriteString(\"fwd \")\n\tbuf.WriteString(p.to_c.String())\n\tbuf.WriteString(\" \")\n\tbuf.WriteString(p.from_c.String())",
		New:    "\tbuf.WriteString(\"fwd \")\n\tbuf.WriteString(p.from_c.String())\n\tbuf.WriteString(\" \")\n\tbuf.WriteString(p.to_c.String())",
		Expect: "(*process.ForwardForm).String"})
	addFixture(Fixture{Name: "comment-lookahead-dropped", Rule: "R-COMMENT-DFA", File: "parser/scanner.go",
		Old:    "\t\t\tfor {\n\t\t\t\tif ch := s.read(); ch == '/' || ch == eof {\n\t\t\t\t\treturn\n\t\t\t\t}\n\t\t\t}",
		New:    "\t\t\tif ch := s.read(); ch == '/' || ch == eof {\n\t\t\t\treturn\n\t\t\t}",
		Expect: "never-reads-past-terminator"})
	addFixture(Fixture{Name: "loop-returns-first", Rule: "R-QUANTIFIER-LOOP", File: "process/name.go",
		Old:    "\tfor _, name := range list {\n\t\tif exists[name.Ident] {\n\t\t\treturn false\n\t\t}\n\t\texists[name.Ident] = true\n\t}\n\n\treturn true",
		New:    "\tfor _, name := range list {\n\t\tif exists[name.Ident] {\n\t\t\treturn false\n\t\t}\n\t\texists[name.Ident] = true\n\t\treturn true\n\t}\n\n\treturn true",
		Expect: "process.AllNamesUnique"})
	addFixture(Fixture{Name: "mode-not-handed-down", Rule: "R-MODE-UNIFORM", File: "types/modality.go",
		Old:    "\tif err := q.Right.checkTypeModalities(labelledTypesEnv, currentMode); err != nil {\n\t\treturn err\n\t}\n\n\treturn nil\n}\nfunc (q *ReceiveType) checkTypeModalities",
		New:    "\tif err := q.Right.checkTypeModalities(labelledTypesEnv, q.Right.Modality()); err != nil {\n\t\treturn err\n\t}\n\n\treturn nil\n}\nfunc (q *ReceiveType) checkTypeModalities",
		Expect: "child-mode:Right"})
	addFixture(Fixture{Name: "cut-exempts-name", Rule: "R-CUT-SPLIT", File: "process/typechecker.go",
		Old:    "splitGammaCtx(gammaNameTypesCtx, p.body.FreeNames(), nil, labelledTypesEnv)",
		New:    "splitGammaCtx(gammaNameTypesCtx, p.body.FreeNames(), &p.new_name_c, labelledTypesEnv)",
		Expect: "cut-split#2"})
}

func init() {
	addFixture(Fixture{Name: "select-client-writes-wrong-kind", Rule: "R-PROTOCOL", File: "process/transition.go",
		Old:    "\t\tmessage := Message{Rule: BRA, Channel1: process.Providers[0], Label: f.label}",
		New:    "\t\tmessage := Message{Rule: SEL, Channel1: process.Providers[0], Label: f.label}",
		Expect: "Transition:read:BRA-on-own-by-CaseForm"})
	addFixture(Fixture{Name: "cast-message-without-channel", Rule: "R-PROTOCOL", File: "process/transition.go",
		Old:    "\t\tmessage := Message{Rule: CST, Channel1: f.continuation_c}",
		New:    "\t\tmessage := Message{Rule: CST, Channel2: f.continuation_c}",
		Expect: "Transition:read:CST-on-client-by-ShiftForm"})
	addFixture(Fixture{Name: "relay-forgets-cast", Rule: "R-PROTOCOL", File: "process/transition.go",
		Old:    "\t\tcase CST:\n\t\t\tprocess.Body = NewCast(f.to_c, message.Channel1)\n",
		New:    "",
		Expect: "relay:CST"})
	addFixture(Fixture{Name: "equality-skips-shift-source", Rule: "R-FIELD-COVERAGE", File: "types/types.go",
		Old:    "\tcase *DownType:\n\t\tf1, ok1 := type1.(*DownType)\n\t\tf2, ok2 := type2.(*DownType)\n\n\t\tif ok1 && ok2 {\n\t\t\treturn f1.To.Equals(f2.To) && f1.From.Equals(f2.From) && innerEqualType",
		New:    "\tcase *DownType:\n\t\tf1, ok1 := type1.(*DownType)\n\t\tf2, ok2 := type2.(*DownType)\n\n\t\tif ok1 && ok2 {\n\t\t\treturn f1.To.Equals(f2.To) && innerEqualType",
		Expect: "covered:DownType.From"})
	addFixture(Fixture{Name: "shared-visited-set", Rule: "R-INFER-PURE", File: "types/modality.go",
		Old:    "\tfor i := range typesDef {\n\t\tmode := typesDef[i].SessionType.inferModality(labelledTypesEnv, make(map[string]bool))",
		New:    "\tused := make(map[string]bool)\n\tfor i := range typesDef {\n\t\tmode := typesDef[i].SessionType.inferModality(labelledTypesEnv, used)",
		Expect: "root-inference"})
	addFixture(Fixture{Name: "names-merged-by-ident", Rule: "R-NAME-EQ", File: "process/form.go",
		Old:    "\tfor _, n := range names {\n\t\tif n.Equal(check) {\n\t\t\treturn true\n\t\t}\n\t}\n\n\treturn false\n}\n\n// Merges two lists",
		New:    "\tfor _, n := range names {\n\t\tif n.Ident == check.Ident {\n\t\t\treturn true\n\t\t}\n\t}\n\n\treturn false\n}\n\n// Merges two lists",
		Expect: "process.nameExists"})
	addFixture(Fixture{Name: "shallow-copy-of-wait", Rule: "R-COPY-DEEP", File: "process/form.go",
		Old:    "\t\t\tbody := CopyForm(p.continuation_e)\n\t\t\treturn NewWait(*p.to_c.Copy(), body)",
		New:    "\t\t\treturn NewWait(*p.to_c.Copy(), p.continuation_e)",
		Expect: "NewWait-arg2"})
	addFixture(Fixture{Name: "function-unique-by-arity", Rule: "R-FUNC-KEY", File: "process/typechecker.go",
		Old:    "\t\texists := unique[f.FunctionName]\n\t\tif exists {\n\t\t\treturn fmt.Errorf(\"(%s) function %s uses a duplicate function name\", f.Position.String(), f.String())\n\t\t}\n\t\tunique[f.FunctionName] = true",
		New:    "\t\tkey := fmt.Sprintf(\"%s/%d\", f.FunctionName, len(f.Parameters))\n\t\texists := unique[key]\n\t\tif exists {\n\t\t\treturn fmt.Errorf(\"(%s) function %s uses a duplicate function name\", f.Position.String(), f.String())\n\t\t}\n\t\tunique[key] = true",
		Expect: "function-uniqueness-key"})
	addFixture(Fixture{Name: "receive-same-binders", Rule: "R-FRESH-BINDER", File: "process/typechecker.go",
		Old:    "\t\tif p.payload_c.Equal(p.continuation_c) {\n\t\t\treturn TypeErrorf(\"variable names <%s, %s> are the same. Use unique names\", p.payload_c.String(), p.continuation_c.String())\n\t\t}\n\n\t\tif isProvider(p.payload_c, providerShadowName) ||",
		New:    "\t\tif isProvider(p.payload_c, providerShadowName) ||",
		Expect: "distinct-binders:p.continuation_c,p.payload_c"})
}

func init() {
	addFixture(Fixture{Name: "new-panic-in-typechecker", Rule: "R-PANIC-INVENTORY", File: "process/typechecker.go",
		Old:    "\tif name.IsSelf {\n\t\treturn nil, fmt.Errorf(\"found self, expected a client\")\n\t}",
		New:    "\tif name.IsSelf {\n\t\tpanic(\"found self, expected a client\")\n\t}",
		Expect: "process.consumeName | panic#1"})
	addFixture(Fixture{Name: "receive-type-positive", Rule: "R-POLARITY-COHERENT", File: "types/polarity.go",
		Old:    "func (q *ReceiveType) Polarity() Polarity {\n\treturn NEGATIVE",
		New:    "func (q *ReceiveType) Polarity() Polarity {\n\treturn POSITIVE",
		Expect: "ReceiveType"})
	addFixture(Fixture{Name: "equality-by-decorated-print", Rule: "R-DIAG-STRINGS", File: "types/types.go",
		Old:    "\treturn innerEqualType(type1, type2, make(map[string]bool), labelledTypesEnv)\n}",
		New:    "\tif type1.StringWithModality() == type2.StringWithModality() {\n\t\treturn true\n\t}\n\treturn innerEqualType(type1, type2, make(map[string]bool), labelledTypesEnv)\n}",
		Expect: "types.EqualType | StringWithModality-result"})
	addFixture(Fixture{Name: "receive-binds-slots-crosswise", Rule: "R-PAIRING", File: "process/transition.go",
		Old:    "\t\t\tnew_body.Substitute(f.payload_c, message.Channel1)\n\t\t\tnew_body.Substitute(f.continuation_c, message.Channel2)",
		New:    "\t\t\tnew_body.Substitute(f.payload_c, message.Channel2)\n\t\t\tnew_body.Substitute(f.continuation_c, message.Channel1)",
		Expect: "SND.Channel1:SendForm.payload_c->ReceiveForm.continuation_c"})
	addFixture(Fixture{Name: "forward-swaps-pair", Rule: "R-RELAY", File: "process/transition.go",
		Old:    "process.Body = NewSend(f.to_c, message.Channel1, message.Channel2)",
		New:    "process.Body = NewSend(f.to_c, message.Channel2, message.Channel1)",
		Expect: "relay-SND-as-SendForm"})
	addFixture(Fixture{Name: "forward-relays-wrong-kind", Rule: "R-RELAY", File: "process/transition.go",
		Old:    "\t\t\tprocess.Body = NewCast(f.to_c, message.Channel1)\n\t\t\t// The following",
		New:    "\t\t\tprocess.Body = NewSelect(f.to_c, message.Label, message.Channel1)\n\t\t\t// The following",
		Expect: "relay-CST-as-SelectForm"})
	addFixture(Fixture{Name: "freshness-before-consume", Rule: "R-FRESH-BINDER", File: "process/typechecker.go",
		Old:    "\tfoundType, err := consumeName(p.from_c, gammaNameTypesCtx)\n",
		New:    "\tif nameTypeExists(gammaNameTypesCtx, p.channel_one.Ident) || nameTypeExists(gammaNameTypesCtx, p.channel_two.Ident) {\n\t\treturn TypeErrorf(\"not fresh\")\n\t}\n\tfoundType, err := consumeName(p.from_c, gammaNameTypesCtx)\n",
		Expect: "ctx-insert:p.channel_one.Ident"})
	addFixture(Fixture{Name: "independence-skips-names", Rule: "R-INDEPENDENCE", File: "process/typechecker.go",
		Old:    "\tfor _, antecedentName := range antecedents {\n\t\terr := declationOfIndependenceOne(antecedentName, succedentType)",
		New:    "\tfor i, antecedentName := range antecedents {\n\t\tif i > 0 && antecedentName.Type.Modality() == antecedents[i-1].Type.Modality() {\n\t\t\tcontinue\n\t\t}\n\t\terr := declationOfIndependenceOne(antecedentName, succedentType)",
		Expect: "checks-every-name"})
	addFixture(Fixture{Name: "wellformedness-memo-by-print", Rule: "R-CHECK-ALL", File: "types/types_sanity_checks.go",
		Old:    "\tfor _, j := range types {\n\t\terr := CheckTypeWellFormedness(j, labelledTypesEnv)",
		New:    "\tchecked := make(map[string]bool)\n\tfor _, j := range types {\n\t\tif checked[j.String()] {\n\t\t\tcontinue\n\t\t}\n\t\tchecked[j.String()] = true\n\t\terr := CheckTypeWellFormedness(j, labelledTypesEnv)",
		Expect: "types.SanityChecksType | every-element:CheckTypeWellFormedness"})
	addFixture(Fixture{Name: "decision-on-modeless-print", Rule: "R-DIAG-STRINGS", File: "types/types_sanity_checks.go",
		Old:    "\tfor _, j := range types {\n\t\terr := CheckTypeWellFormedness(j, labelledTypesEnv)",
		New:    "\tchecked := make(map[string]bool)\n\tfor _, j := range types {\n\t\tif checked[j.String()] {\n\t\t\tcontinue\n\t\t}\n\t\tchecked[j.String()] = true\n\t\terr := CheckTypeWellFormedness(j, labelledTypesEnv)",
		Expect: "types.SanityChecksType | String-result-in-decision"})
	addFixture(Fixture{Name: "double-unread", Rule: "R-UNREAD-ONCE", File: "parser/scanner.go",
		Old:    "\t\t\t// is just 1\n\t\t\ts.unread()\n",
		New:    "\t\t\t// is just 1\n\t\t\ts.unread()\n\t\t\ts.unread()\n",
		Expect: "scanSpecialSymbol | pushback-once"})
	addFixture(Fixture{Name: "unguarded-last-line", Rule: "R-INDEX-GUARD", File: "parser/lexer.go",
		Old:    "\tl.Errors <- &ParseError{Err: err, Pos: l.scanner.pos}",
		New:    "\tp := l.scanner.pos\n\tp.Char = p.Lines[len(p.Lines)-1]\n\tl.Errors <- &ParseError{Err: err, Pos: p}",
		Expect: "(*parser.lexer).Error | index"})
	addFixture(Fixture{Name: "name-list-truncated", Rule: "R-PRINT-GRAMMAR", File: "process/name.go",
		Old:    "\tfor i, n := range names {\n\t\tbuf.WriteString(n.String())",
		New:    "\tfor i, n := range names {\n\t\tif i == 8 {\n\t\t\tbreak\n\t\t}\n\t\tbuf.WriteString(n.String())",
		Expect: "(*process.CallForm).String | print-production"})
	addFixture(Fixture{Name: "first-provider-unguarded", Rule: "R-INDEX-GUARD-TC", File: "process/typechecker.go",
		Old:    "\t\tglobalEnv.logf(LOGRULE, \"Typechecking process %s\\n\", processes[i].OutlineString())\n",
		New:    "\t\tglobalEnv.logf(LOGRULE, \"Typechecking process %s (%s)\\n\", processes[i].OutlineString(), processes[i].Providers[0].Ident)\n",
		Expect: "process.typecheckProcesses | index"})
	addFixture(Fixture{Name: "context-derived-from-previous-run", Rule: "R-REINIT", File: "process/runtime.go",
		Old:    "\tre.ctx, cancel = context.WithCancel(context.Background())\n\tre.heartbeat = make(chan struct{}, 1)",
		New:    "\tparent := re.ctx\n\tif parent == nil {\n\t\tparent = context.Background()\n\t}\n\tre.ctx, cancel = context.WithCancel(parent)\n\tre.heartbeat = make(chan struct{}, 1)",
		Expect: "reinit:ctx"})
	addFixture(Fixture{Name: "file-read-through-limit", Rule: "R-WHOLE-INPUT", File: "parser/parser.go",
		Old:    "\treturn ParseReader(file)",
		New:    "\treturn ParseReader(io.LimitReader(file, 1<<16))",
		Expect: "parser.ParseFile | whole-input"})
	addFixture(Fixture{Name: "external-choice-infers-differently", Rule: "R-SIBLING-CHOICE", File: "types/modality.go",
		Old:    "func (q *BranchCaseType) inferModality(labelledTypesEnv LabelledTypesEnv, usedLabels map[string]bool) Modality {\n\t_, unset := q.Mode.(*UnsetMode)\n\tif !unset {\n\t\t// If the type already has a modality, then return it\n\t\treturn q.Mode\n\t}\n\n\tvar commonModes []Modality\n\tfor _, branch := range q.Branches {\n\t\tusedLabelsCopy := copyMap(usedLabels)\n\t\tbranchMode := branch.SessionType.inferModality(labelledTypesEnv, usedLabelsCopy)\n\t\tcommonModes = append(commonModes, branchMode)\n",
		New:    "func (q *BranchCaseType) inferModality(labelledTypesEnv LabelledTypesEnv, usedLabels map[string]bool) Modality {\n\t_, unset := q.Mode.(*UnsetMode)\n\tif !unset {\n\t\t// If the type already has a modality, then return it\n\t\treturn q.Mode\n\t}\n\n\tvar commonModes []Modality\n\tfor _, branch := range q.Branches {\n\t\tusedLabelsCopy := copyMap(usedLabels)\n\t\tbranchMode := branch.SessionType.inferModality(labelledTypesEnv, usedLabelsCopy)\n\t\tcommonModes = append(commonModes, branchMode)\n\t\tif _, u := branchMode.(*UnsetMode); u {\n\t\t\tbreak\n\t\t}\n",
		Expect: "sibling:inferModality"})
	addFixture(Fixture{Name: "split-second-binder-not-instantiated", Rule: "R-BINDER-INSTANTIATED", File: "process/transition.go",
		Old:    "\t\tcurrentProcessBody.Substitute(f.channel_two, newSplitNames[1])",
		New:    "\t\tcurrentProcessBody.Substitute(f.channel_one, newSplitNames[1])",
		Expect: "binder-channel_two"})
	addFixture(Fixture{Name: "call-formals-shifted", Rule: "R-CALL-ALIGN", File: "process/typechecker.go",
		Old:    "\t\t\texpectedType := functionSignature.Parameters[i-1].Type",
		New:    "\t\t\texpectedType := functionSignature.Parameters[i].Type",
		Expect: "(*process.CallForm).typecheckForm | type-comparison#1"})
	addFixture(Fixture{Name: "drop-does-not-continue", Rule: "R-CONTINUES", File: "process/transition.go",
		Old:    "\t\tprocess.Body = f.continuation_e\n\t\tprocess.transitionLoop(re)\n\t}\n\n\tTransitionInternally(process, dropRule, re)",
		New:    "\t\tprocess.Body = f.continuation_e\n\t}\n\n\tTransitionInternally(process, dropRule, re)",
		Expect: "(*process.DropForm).Transition"})
	addFixture(Fixture{Name: "drop-spawns-before-the-step", Rule: "R-STEP-ATOMIC", File: "process/transition.go",
		Old:    "\tdropRule := func() {\n",
		New:    "\tcreateDroppableForwardFromClient(process, re, f.client_c).SpawnThenTransition(re)\n\tdropRule := func() {\n",
		Expect: "(*process.DropForm).Transition | Transition:before-TransitionInternally"})
	addFixture(Fixture{Name: "call-argument-type-on-a-copy", Rule: "R-TYPE-RECORDED", File: "process/typechecker.go",
		Old:    "\t\tfor i := 0; i < len(p.parameters); i++ {\n\t\t\tfoundParamType, paramTypeError := consumeName(p.parameters[i], gammaNameTypesCtx)",
		New:    "\t\tfor i, argument := range p.parameters {\n\t\t\tdefer func(n Name) { n.Type = nil }(argument)\n\t\t\tfoundParamType, paramTypeError := consumeName(argument, gammaNameTypesCtx)",
		Expect: "type-of:"})
	addFixture(Fixture{Name: "cycle-check-not-called", Rule: "R-CONFIG-ACYCLIC", File: "process/typechecker.go",
		Old:    "\tif err := checkProcessesAcyclic(processes); err != nil {\n\t\treturn err\n\t}\n",
		New:    "\tif false {\n\t\t_ = checkProcessesAcyclic(processes)\n\t}\n",
		Expect: "cycle-"})
	addFixture(Fixture{Name: "found-flag-not-reset", Rule: "R-STICKY-FLAG", File: "types/types.go",
		Old:    "\tfor _, b := range options1 {\n\t\tmatchingBranch, foundMatchingBranch := LookupBranchByLabel(options2, b.Label)\n\t\tif foundMatchingBranch {",
		New:    "\tfoundMatchingBranch := false\n\tfor _, b := range options1 {\n\t\tvar matchingBranch *Option\n\t\tfor i := range options2 {\n\t\t\tif options2[i].Label == b.Label {\n\t\t\t\tmatchingBranch = &options2[i]\n\t\t\t\tfoundMatchingBranch = true\n\t\t\t\tbreak\n\t\t\t}\n\t\t}\n\t\tif foundMatchingBranch && matchingBranch != nil {",
		Expect: "types.equalTypeBranch | loop-carried-flag"})
	addFixture(Fixture{Name: "dup-copies-share-a-channel", Rule: "R-DIM-INDEX", File: "process/transition.go",
		Old:    "newDuplicatedProcessBody.Substitute(processFreeNames[k], freshChannels[k][i])",
		New:    "newDuplicatedProcessBody.Substitute(processFreeNames[k], freshChannels[k][0])",
		Expect: "performDUPrule | index"})
	addFixture(Fixture{Name: "cut-spawns-on-static-name", Rule: "R-SPAWN-LIVE", File: "process/transition.go",
		Old:    "newProcess := NewProcess(newProcessBody, []Name{newChannel}, innerSessionType, LINEAR, process.Position)",
		New:    "newProcess := NewProcess(newProcessBody, []Name{f.new_name_c}, innerSessionType, LINEAR, process.Position)",
		Expect: "(*process.NewForm).Transition$1 | spawn-providers"})
	addFixture(Fixture{Name: "type-compared-with-itself", Rule: "R-COMPARE-DISTINCT", File: "types/types.go",
		Old:    "\treturn innerEqualType(type1, type2, make(map[string]bool), labelledTypesEnv)",
		New:    "\treturn innerEqualType(type1, type1, make(map[string]bool), labelledTypesEnv)",
		Expect: "types.EqualType | innerEqualType"})
	addFixture(Fixture{Name: "equal-ignores-initialisation", Rule: "R-SUBST-CONTRA", File: "process/name.go",
		Old:    "\treturn name1.Ident == name2.Ident && name1.Initialized() == name2.Initialized()",
		New:    "\treturn name1.Ident == name2.Ident",
		Expect: "state:"})
	addFixture(Fixture{Name: "cut-moves-on-after-spawn", Rule: "R-SPAWN-OWNERSHIP", File: "process/transition.go",
		Old:    "\t\tcurrentProcessBody.Substitute(f.new_name_c, newChannel)\n\t\tprocess.Body = currentProcessBody\n",
		New:    "\t\tcurrentProcessBody.Substitute(f.new_name_c, newChannel)\n\t\tdefer func() { process.Body = currentProcessBody }()\n",
		Expect: "new-process-body"})
	addFixture(Fixture{Name: "send-arm-by-other-role", Rule: "R-POLARITY-COHERENT", File: "process/typechecker.go",
		Old:    "\tif isProvider(p.to_c, providerShadowName) {\n\t\t// MulR: *",
		New:    "\tif !isProvider(p.continuation_c, providerShadowName) {\n\t\t// MulR: *",
		Expect: "(*process.SendForm).typecheckForm | role["})
	addFixture(Fixture{Name: "send-records-swapped-types", Rule: "R-TYPE-RECORDED", File: "process/typechecker.go",
		Old:    "\t\tp.to_c.Type = providerSendType\n\t\tp.payload_c.Type = foundLeftType\n\t\tp.continuation_c.Type = foundRightType\n",
		New:    "\t\tp.to_c.Type = providerSendType\n\t\tp.payload_c.Type = foundRightType\n\t\tp.continuation_c.Type = foundLeftType\n",
		Expect: "(*process.SendForm).typecheckForm | type-of:"})
	addFixture(Fixture{Name: "exec-kept-once-per-function", Rule: "R-KIND-EXH", File: "parser/parser.go",
		Old:    "\t\t\tnew_p := process.NewProcess(p.proc.Body, []process.Name{{Ident: fmt.Sprintf(\"exec%d\", execCount), IsSelf: true}}, function.Type, process.LINEAR, p.position)\n\t\t\tprocesses = append(processes, new_p)",
		New:    "\t\t\tnew_p := process.NewProcess(p.proc.Body, []process.Name{{Ident: fmt.Sprintf(\"exec%d\", execCount), IsSelf: true}}, function.Type, process.LINEAR, p.position)\n\t\t\tif execCount < 2 {\n\t\t\t\tprocesses = append(processes, new_p)\n\t\t\t}",
		Expect: "kind:EXEC_DEF"})
	addFixture(Fixture{Name: "reader-skips-carriage-returns", Rule: "R-READ-DELIVERS", File: "parser/scanner.go",
		Old:    "\tif ch == '\\n' {\n\t\ts.pos.Lines = append(s.pos.Lines, s.pos.Char)",
		New:    "\tif ch == '\\r' {\n\t\tch, _, _ = s.r.ReadRune()\n\t}\n\tif ch == '\\n' {\n\t\ts.pos.Lines = append(s.pos.Lines, s.pos.Char)",
		Expect: "(*parser.scanner).read | one-rune-per-call"})
	addFixture(Fixture{Name: "equals-lookahead-not-put-back", Rule: "R-LOOKAHEAD-KEPT", File: "parser/scanner.go",
		Old:    "\t\t\t// is just =\n\t\t\ts.unread()\n",
		New:    "\t\t\t// is just =\n",
		Expect: "(*parser.scanner).scanSpecialSymbol | read#1"})
	addFixture(Fixture{Name: "closed-provider-unmarked-in-place", Rule: "R-SHARED-ELEMS", File: "process/transition.go",
		Old:    "func closeProviders(providers []Name) {\n",
		New:    "func closeProviders(providers []Name) {\n\tif len(providers) > 0 {\n\t\tproviders[0].IsSelf = false\n\t}\n",
		Expect: "process.closeProviders | element-store"})
	addFixture(Fixture{Name: "line-skip-ends-on-a-class-the-sentinel-is-not-in", Rule: "R-LOOP-EOF", File: "parser/scanner.go",
		Old:    "\t\tif ch := s.read(); ch == '\\n' || ch == eof {\n\t\t\tbreak\n\t\t}",
		New:    "\t\tif ch := s.read(); isAlphaNum(ch) {\n\t\t\tbreak\n\t\t}",
		Expect: "(*parser.scanner).skipToEOL | loop#1"})
	addFixture(Fixture{Name: "self-as-client-reports-success", Rule: "R-NIL-SUCCESS", File: "process/typechecker.go",
		Old:    "\t\treturn nil, fmt.Errorf(\"found self, expected a client\")\n",
		New:    "\t\treturn nil, nil\n",
		Expect: "process.consumeName | success-has-a-value"})
	addFixture(Fixture{Name: "blank-skipper-also-swallows-control-characters", Rule: "R-LOOKAHEAD-KEPT", File: "parser/scanner.go",
		Old:    "\t\t} else if !isWhitespace(ch) {\n",
		New:    "\t\t} else if !isWhitespace(ch) && ch >= ' ' {\n",
		Expect: "(*parser.scanner).skipWhitespace | skips-only-what-it-classified"})
	addFixture(Fixture{Name: "cut-continuation-sees-the-annotation-not-the-callee-type", Rule: "R-CUT-SPLIT", File: "process/typechecker.go",
		Old:    "\t\t\tgammaRightNameTypesCtx[p.new_name_c.Ident] = NamesType{Type: functionSignatureType}\n",
		New:    "\t\t\tgammaRightNameTypesCtx[p.new_name_c.Ident] = NamesType{Type: p.new_name_c.Type}\n",
		Expect: "(*process.NewForm).typecheckForm | cut-split#1"})
	addFixture(Fixture{Name: "case-payload-may-be-called-like-the-provider", Rule: "R-BINDER-NOT-PROVIDER", File: "process/typechecker.go",
		Old:    "\t\t\tif isProvider(curBranchForm.payload_c, providerShadowName) || nameTypeExists(newGammaNameTypesCtx, curBranchForm.payload_c.Ident) {\n",
		New:    "\t\t\tif nameTypeExists(newGammaNameTypesCtx, curBranchForm.payload_c.Ident) {\n",
		Expect: "(*process.CaseForm).typecheckForm | binder-is-not-the-provider"})
	addFixture(Fixture{Name: "live-name-keeps-its-old-control-channel", Rule: "R-SUBST-CHANNELS", File: "process/name.go",
		Old:    "\t\tn.IsSelf = new.IsSelf\n\t\tn.ControlChannel = new.ControlChannel\n\t\t// n.Type = new.Type [type should remain the same, as set by the typechecker]\n",
		New:    "\t\tn.IsSelf = new.IsSelf\n\t\t// n.Type = new.Type [type should remain the same, as set by the typechecker]\n",
		Expect: "(*process.Name).Substitute | channels-move-together"})
	addFixture(Fixture{Name: "line-table-copied-per-newline", Rule: "R-PER-RUNE-CONST", File: "parser/scanner.go",
		Old:    "\t\ts.pos.Lines = append(s.pos.Lines, s.pos.Char)",
		New:    "\t\ts.pos.Lines = append(append([]int{}, s.pos.Lines...), s.pos.Char)",
		Expect: "(*parser.scanner).read | constant-work-per-rune"})
	addFixture(Fixture{Name: "function-looked-up-while-collecting", Rule: "R-COLLECT-THEN-RESOLVE", File: "parser/parser.go",
		Old:    "\t\t\tfunctions = append(functions, p.function)\n",
		New:    "\t\t\tif process.GetFunctionByNameArity(functions, p.function.FunctionName, 0) == nil {\n\t\t\t\tfunctions = append(functions, p.function)\n\t\t\t}\n",
		Expect: "collection:functions"})
	addFixture(Fixture{Name: "case-printer-caches-text", Rule: "R-PRINT-PURE", File: "process/form.go",
		Old:    "func (p *SendForm) String() string {\n",
		New:    "func (p *SendForm) String() string {\n\tp.to_c.Ident = p.to_c.Ident + \"\"\n",
		Expect: "(*process.SendForm).String | printer:String"})
	addFixture(Fixture{Name: "annotation-overwritten-by-definition-mode", Rule: "R-MODE-ASSIGN-GUARDED", File: "types/modality.go",
		Old:    "\tmode := (*t).inferModality(labelledTypesEnv, make(map[string]bool))\n",
		New:    "\tif label, isLabel := (*t).(*LabelType); isLabel {\n\t\tif definition, exists := labelledTypesEnv[label.Label]; exists && definition.Mode != nil {\n\t\t\tlabel.Mode = definition.Mode\n\t\t\treturn\n\t\t}\n\t}\n\tmode := (*t).inferModality(labelledTypesEnv, make(map[string]bool))\n",
		Expect: "types.AddMissingModalities | store-LabelType.Mode"})
	addFixture(Fixture{Name: "position-of-the-missing-function", Rule: "R-NIL-DEREF", File: "parser/parser.go",
		Old:    "return nil, nil, nil, fmt.Errorf(\"invalid calling exec on %s()\", functionName)",
		New:    "return nil, nil, nil, fmt.Errorf(\"(%s) invalid calling exec on %s()\", function.Position.String(), functionName)",
		Expect: "parser.expandProcesses | nil-dereference"})
	addFixture(Fixture{Name: "internal-step-ignores-cancellation", Rule: "R-CANCEL-CHECKED", File: "process/transition.go",
		Old:    "func TransitionInternally(process *Process, internalTransition func(), re *RuntimeEnvironment) {\n\tselect {\n\tcase <-re.ctx.Done():\n\t\t// If received cancellation request, then stop\n\t\treturn\n\tdefault:\n\t}\n",
		New:    "func TransitionInternally(process *Process, internalTransition func(), re *RuntimeEnvironment) {\n",
		Expect: "process.TransitionInternally | rule-call"})
	addFixture(Fixture{Name: "forward-accepted-off-self", Rule: "R-ROLE-GUARD", File: "process/typechecker.go",
		Old:    "\tif !isProvider(p.to_c, providerShadowName) {\n\t\treturn TypeErrorf(\"not forwarding on self",
		New:    "\tif false {\n\t\treturn TypeErrorf(\"not forwarding on self",
		Expect: "(*process.ForwardForm).typecheckForm | role-of-to_c"})
	addFixture(Fixture{Name: "split-binder-at-provider-type", Rule: "R-BINDER-TYPE", File: "process/typechecker.go",
		Old:    "\tgammaNameTypesCtx[p.channel_two.Ident] = NamesType{Type: foundType}",
		New:    "\tgammaNameTypesCtx[p.channel_two.Ident] = NamesType{Type: providerType}",
		Expect: "binder-type:p.channel_two"})
	addFixture(Fixture{Name: "continuation-verdict-dropped", Rule: "R-JUDGEMENT-PROPAGATES", File: "process/typechecker.go",
		Old:    "\t\tcontinuationError := p.continuation_e.typecheckForm(gammaNameTypesCtx, providerShadowName, providerType, labelledTypesEnv, sigma, globalEnv)\n\n\t\treturn continuationError\n\t} else {\n\t\treturn TypeErrorf(\"expected '%s' to have a unit type (1), but found type '%s' instead\", p.to_c.String(), clientType.String())",
		New:    "\t\t_ = p.continuation_e.typecheckForm(gammaNameTypesCtx, providerShadowName, providerType, labelledTypesEnv, sigma, globalEnv)\n\n\t\treturn nil\n\t} else {\n\t\treturn TypeErrorf(\"expected '%s' to have a unit type (1), but found type '%s' instead\", p.to_c.String(), clientType.String())",
		Expect: "(*process.WaitForm).typecheckForm | premise"})
	addFixture(Fixture{Name: "rule-report-writes-the-environment", Rule: "R-SHARED-WRITE", File: "process/transition.go",
		Old:    "func (process *Process) finishedRule(rule Rule, prefix, suffix string, re *RuntimeEnvironment) {\n",
		New:    "func (process *Process) finishedRule(rule Rule, prefix, suffix string, re *RuntimeEnvironment) {\n\tre.Quiet = rule == PRINT\n",
		Expect: "plain-store#1-to-RuntimeEnvironment.Quiet"})
	addFixture(Fixture{Name: "select-hands-over-the-wrong-channel", Rule: "R-PAIRING", File: "process/transition.go",
		Old:    "\t\tmessage := Message{Rule: BRA, Channel1: process.Providers[0], Label: f.label}",
		New:    "\t\tmessage := Message{Rule: BRA, Channel1: f.to_c, Label: f.label}",
		Expect: "provider-handed-over-to-CaseForm"})
	addFixture(Fixture{Name: "wait-repeats-itself", Rule: "R-STEP-PROGRESS", File: "process/transition.go",
		Old:    "\t\tprocess.Body = f.continuation_e\n\n\t\tprocess.finishedRule(CLS, \"[wait, client]\", \"c\", re)",
		New:    "\t\tprocess.Body = f\n\n\t\tprocess.finishedRule(CLS, \"[wait, client]\", \"c\", re)",
		Expect: "(*process.WaitForm).Transition$1 | Transition:body-store"})
	addFixture(Fixture{Name: "subscriber-served-on-a-new-goroutine", Rule: "R-MONITOR-CONFINED", File: "process/monitor.go",
		Old:    "\t\t// Send updated structure to subscriber\n\t\tm.updateSubscriberProcesses()",
		New:    "\t\t// Send updated structure to subscriber\n\t\tgo m.updateSubscriberProcesses()",
		Expect: "one-owning-goroutine"})
	addFixture(Fixture{Name: "print-into-a-shared-buffer", Rule: "R-SHARED-WRITE", File: "process/transition.go",
		Old:    "\t\t\tfmt.Printf(\"> %s\\n\", f.label.String())\n\t\t}\n\n\t\tprocess.finishedRule(PRINT, \"[print]\", \"\", re)\n\n\t\tprocess.Body = f.continuation_e\n\t\tprocess.transitionLoop(re)",
		New:    "\t\t\tfmt.Sscanf(f.label.String(), \"%d\", &re.Delay)\n\t\t}\n\n\t\tprocess.finishedRule(PRINT, \"[print]\", \"\", re)\n\n\t\tprocess.Body = f.continuation_e\n\t\tprocess.transitionLoop(re)",
		Expect: "address-escapes"})
	addFixture(Fixture{Name: "unfold-stops-at-an-alias", Rule: "R-UNFOLD-COMPLETE", File: "types/types.go",
		Old:    "\t\t\treturn Unfold(unfoldedSessionType.Type, labelledTypesEnv)",
		New:    "\t\t\treturn unfoldedSessionType.Type",
		Expect: "types.Unfold | return"})
	addFixture(Fixture{Name: "contractivity-loop-stops-early", Rule: "R-CONTRACTIVE-GATE", File: "types/types_sanity_checks.go",
		Old:    "\t\tok := j.SessionType.isContractive(labelledTypesEnv, make(map[string]bool))",
		New:    "\t\tif _, isName := j.SessionType.(*LabelType); !isName {\n\t\t\tbreak\n\t\t}\n\t\tok := j.SessionType.isContractive(labelledTypesEnv, make(map[string]bool))",
		Expect: "contractivity-checked"})
	addFixture(Fixture{Name: "lock-kept-on-an-early-return", Rule: "R-LOCK-PAIRED", File: "process/runtime.go",
		Old:    "\tre.processCount = 0\n\tre.deadProcessCount = 0\n",
		New:    "\tvar mu sync.Mutex\n\tmu.Lock()\n\tif len(processes) == 0 {\n\t\treturn re\n\t}\n\tmu.Unlock()\n\tre.processCount = 0\n\tre.deadProcessCount = 0\n",
		Expect: "process.InitializeProcesses | Lock#"})
	addFixture(Fixture{Name: "reference-mode-read-from-the-head", Rule: "R-INFER-THROUGH-NAMES", File: "types/modality.go",
		Old:    "\t\t\treturn typeFromLabel.Type.inferModality(labelledTypesEnv, usedLabels)",
		New:    "\t\t\treturn typeFromLabel.Type.Modality()",
		Expect: "infers-the-definition"})
	addFixture(Fixture{Name: "np-wait-continues-polarized", Rule: "R-FAMILY-CONSISTENT", File: "process/transition_np.go",
		Old:    "\t\tprocess.finishedRule(CLS, \"[wait, client]\", \"c\", re)\n\t\tprocess.transitionLoopNP(re)",
		New:    "\t\tprocess.finishedRule(CLS, \"[wait, client]\", \"c\", re)\n\t\tprocess.transitionLoop(re)",
		Expect: "TransitionNP:stays-in-its-interpreter"})
	addFixture(Fixture{Name: "stop-request-may-be-dropped", Rule: "R-MONITOR-CONFINED", File: "process/monitor.go",
		Old:    "func (m *Monitor) stopMonitor() {\n\tm.stopMonitorChan <- true\n}",
		New:    "func (m *Monitor) stopMonitor() {\n\tselect {\n\tcase m.stopMonitorChan <- true:\n\tdefault:\n\t}\n}",
		Expect: "outside-access-after-handshake"})
	addFixture(Fixture{Name: "binder-captures-self-reference", Rule: "R-SUBST-CONTRA", File: "process/name.go",
		Old:    "&& n.Ident == old.Ident && (!n.IsSelf || old.IsSelf) {",
		New:    "&& n.Ident == old.Ident {",
		Expect: "n-self=true,old-self=false"})
	addFixture(Fixture{Name: "uniqueness-check-misses-the-last-name", Rule: "R-LOOP-FULL", File: "process/name.go",
		Old:    "\texists := make(map[string]bool)\n\tfor _, name := range list {\n\t\tif exists[name.Ident] {\n\t\t\treturn false\n\t\t}\n\t\texists[name.Ident] = true\n\t}\n\n\treturn true",
		New:    "\tfor i := 0; i < len(list)-1; i++ {\n\t\tfor j := i + 1; j < len(list)-1; j++ {\n\t\t\tif list[i].Ident == list[j].Ident {\n\t\t\t\treturn false\n\t\t\t}\n\t\t}\n\t}\n\n\treturn true",
		Expect: "process.AllNamesUnique | short-loop"})
	addFixture(Fixture{Name: "split-subject-under-its-own-binders", Rule: "R-BINDERS", File: "process/form.go",
		Old:    "func (p *SplitForm) Substitute(old, new Name) {\n\tp.from_c.Substitute(old, new)\n\n\tif !p.channel_one.Equal(old) && !p.channel_two.Equal(old) {",
		New:    "func (p *SplitForm) Substitute(old, new Name) {\n\tif !p.channel_one.Equal(old) && !p.channel_two.Equal(old) {\n\t\tp.from_c.Substitute(old, new)\n\t}\n\n\tif !p.channel_one.Equal(old) && !p.channel_two.Equal(old) {",
		Expect: "name-substituted:from_c"})
	addFixture(Fixture{Name: "context-maps-recycled-through-a-package-channel", Rule: "R-GLOBALS", File: "process/typechecker.go",
		Old:    "func nameTypeExists(namesTypesCtx NamesTypesCtx, key string) bool {",
		New:    "var spareContexts = make(chan NamesTypesCtx, 4)\n\nfunc recycleContext(ctx NamesTypesCtx) {\n\tselect {\n\tcase spareContexts <- ctx:\n\tdefault:\n\t}\n}\n\nfunc nameTypeExists(namesTypesCtx NamesTypesCtx, key string) bool {",
		Expect: "global:process.spareContexts"})
	addFixture(Fixture{Name: "label-characters-by-low-byte", Rule: "R-RUNE-WHOLE", File: "parser/token.go",
		Old:    "\treturn ('a' <= ch && ch <= 'z') || ('A' <= ch && ch <= 'Z') || ('0' <= ch && ch <= '9')",
		New:    "\tb := byte(ch)\n\treturn ('a' <= b && b <= 'z') || ('A' <= b && b <= 'Z') || ('0' <= b && b <= '9')",
		Expect: "parser.isAlphaNum | whole-rune"})
	addFixture(Fixture{Name: "independence-reads-the-source-mode-of-a-shift", Rule: "R-INDEPENDENCE", File: "process/typechecker.go",
		Old:    "\tif !left.Type.Modality().CanBeDownshiftedTo(rightType.Modality()) {",
		New:    "\tleftMode := left.Type.Modality()\n\tif downType, isDownType := left.Type.(*types.DownType); isDownType {\n\t\tleftMode = downType.From\n\t}\n\tif !leftMode.CanBeDownshiftedTo(rightType.Modality()) {",
		Expect: "compares-the-modes-the-names-live-in"})
	addFixture(Fixture{Name: "generated-name-search-never-advances", Rule: "R-LOOP-VARIES", File: "parser/parser.go",
		Old:    "\t\t\tnew_p := process.NewProcess(p.proc.Body, []process.Name{{Ident: fmt.Sprintf(\"exec%d\", execCount), IsSelf: true}}, function.Type, process.LINEAR, p.position)",
		New:    "\t\t\texecName := fmt.Sprintf(\"exec%d\", execCount)\n\t\t\tfor len(processes) > 0 && processes[0].Providers[0].Ident == execName {\n\t\t\t\texecCount += 1\n\t\t\t}\n\t\t\tnew_p := process.NewProcess(p.proc.Body, []process.Name{{Ident: execName, IsSelf: true}}, function.Type, process.LINEAR, p.position)",
		Expect: "parser.expandProcesses | loop"})
	addFixture(Fixture{Name: "printer-sorts-the-branches-in-place", Rule: "R-PRINT-PURE", File: "types/types.go",
		Old:    "func stringifyBranches(options []Option) string {\n\tvar buf bytes.Buffer\n",
		New:    "func stringifyBranches(options []Option) string {\n\tvar buf bytes.Buffer\n\tslices.SortFunc(options, func(a, b Option) int {\n\t\tif a.Label < b.Label {\n\t\t\treturn -1\n\t\t}\n\t\tif a.Label > b.Label {\n\t\t\treturn 1\n\t\t}\n\t\treturn 0\n\t})\n",
		Expect: "(*types.SelectLabelType).String | printer:String"})
	addFixture(Fixture{Name: "interpreter-told-typechecked-by-the-raw-flag", Rule: "R-TYPECHECKED-FLAG", File: "cmd/cli.go",
		Old:    "\t\t\tTypechecked:       typecheckRes,",
		New:    "\t\t\tTypechecked:       *typecheck,",
		Expect: "cmd.Cli | typechecked-flag"})
	addFixture(Fixture{Name: "name-prints-its-polarity-sign", Rule: "R-NAME-TOKEN", File: "process/name.go",
		Old:    "\tvar buffer bytes.Buffer\n\n\tif n.Ident != \"\" {\n\t\tbuffer.WriteString(n.Ident)",
		New:    "\tvar buffer bytes.Buffer\n\n\tif n.ExplicitPolarity != nil && *n.ExplicitPolarity == types.NEGATIVE {\n\t\tbuffer.WriteString(\"-\")\n\t}\n\tif n.Ident != \"\" {\n\t\tbuffer.WriteString(n.Ident)",
		Expect: "(*process.SendForm).String | name-after-literal"})
	addFixture(Fixture{Name: "forward-hands-one-message-to-every-provider", Rule: "R-RELAY-ONCE", File: "process/transition.go",
		Old:    "\t\t// Depending on the message type, recreate a corresponding process\n\t\tswitch message.Rule {\n\t\tcase SND:",
		New:    "\t\tif len(process.Providers) > 1 && message.Rule == CLS {\n\t\t\tfor _, provider := range process.Providers {\n\t\t\t\tprovider.Channel <- message\n\t\t\t}\n\t\t\tprocess.terminate(re)\n\t\t\treturn\n\t\t}\n\t\t// Depending on the message type, recreate a corresponding process\n\t\tswitch message.Rule {\n\t\tcase SND:",
		Expect: "(*process.ForwardForm).Transition | message-send"})
	addFixture(Fixture{Name: "explicit-self-argument-not-checked-without-shadow", Rule: "R-PROVIDER-TEST", File: "process/typechecker.go",
		Old:    "\t\tif !p.parameters[0].IsSelf && !(providerShadowName != nil && providerShadowName.Ident == p.parameters[0].Ident) {",
		New:    "\t\tif !p.parameters[0].IsSelf && providerShadowName != nil && providerShadowName.Ident != p.parameters[0].Ident {",
		Expect: "(*process.CallForm).typecheckForm | provider-test"})
	addFixture(Fixture{Name: "signature-environment-built-before-the-gate", Rule: "R-UNFOLD-AFTER-GATE", File: "process/typechecker.go",
		Old:    "\tassignTypesToProcessProviders(processes)\n\n\t// Start with some preliminary check on the labelled types",
		New:    "\tassignTypesToProcessProviders(processes)\n\t_ = produceFunctionDefinitionsEnvironment(*globalEnv.FunctionDefinitions, types.ProduceLabelledSessionTypeEnvironment(*globalEnv.Types))\n\n\t// Start with some preliminary check on the labelled types",
		Expect: "unfold-reaching-call"})
	addFixture(Fixture{Name: "exec-record-built-from-any-form", Rule: "R-ASSERT-JUSTIFIED", File: "parser/parser.y.go",
		Old:    "\t\t\t\tproc:     incompleteProcess{Body: process.NewCall(gritsDollar[2].strval, []process.Name{})},",
		New:    "\t\t\t\tproc:     incompleteProcess{Body: gritsDollar[2].form},",
		Expect: "parser.expandProcesses | assert"})
	addFixture(Fixture{Name: "keywords-matched-in-lower-case", Rule: "R-KEYWORD-EXACT", File: "parser/scanner.go",
		Old:    "\tswitch buf.String() {\n\tcase \"send\":",
		New:    "\tswitch string(bytes.ToLower(buf.Bytes())) {\n\tcase \"send\":",
		Expect: "(*parser.scanner).scanLabel | keyword:self"})
	addFixture(Fixture{Name: "watchdog-waits-for-the-first-heartbeat", Rule: "R-WATCHDOG-ARMED", File: "process/runtime.go",
		Old:    "\tfullTimeout := re.Delay + timeout\n",
		New:    "\tfullTimeout := re.Delay + timeout\n\t<-re.heartbeat\n",
		Expect: "HeartbeatReceiver | heartbeat-receive"})
	addFixture(Fixture{Name: "request-decoded-into-the-connection", Rule: "R-REQUEST-FRESH", File: "webserver/web_server.go",
		Old:    "func (c *Client) handleRequest(message string) {\n\trequest := RequestMessage{}\n\n\tlog.Println(\"received request:\", string(message))\n\n\terr := json.Unmarshal([]byte(message), &request)",
		New:    "var lastRequest RequestMessage\n\nfunc (c *Client) handleRequest(message string) {\n\tlog.Println(\"received request:\", string(message))\n\n\terr := json.Unmarshal([]byte(message), &lastRequest)\n\trequest := lastRequest",
		Expect: "handleRequest | decode-destination"})
	addFixture(Fixture{Name: "send-type-infers-from-the-continuation-only", Rule: "R-SIBLING-CHOICE", File: "types/modality.go",
		Old:    "\t\treturn q.Mode\n\t}\n\n\tleftUsedLabel := copyMap(usedLabels)\n\tleftMode := q.Left.inferModality(labelledTypesEnv, leftUsedLabel)\n\trightMode := q.Right.inferModality(labelledTypesEnv, usedLabels)\n\n\tcommonMode := commonMode(leftMode, rightMode)\n\n\t// _, unset = commonMode.(*UnsetMode)\n\t// if !unset {\n\t// \t// If the common mode is defined/set, return it\n\t// \treturn commonMode\n\t// }\n\n\treturn commonMode\n}\n\nfunc (q *ReceiveType)",
		New:    "\t\treturn q.Mode\n\t}\n\n\tleftUsedLabel := copyMap(usedLabels)\n\tleftMode := q.Right.inferModality(labelledTypesEnv, leftUsedLabel)\n\trightMode := q.Right.inferModality(labelledTypesEnv, usedLabels)\n\n\tcommonMode := commonMode(leftMode, rightMode)\n\n\treturn commonMode\n}\n\nfunc (q *ReceiveType)",
		Expect: "ReceiveType/SendType | sibling:inferModality"})
	addFixture(Fixture{Name: "selection-hands-over-self", Rule: "R-SELF-TOLERANT-CONSUME", File: "process/typechecker.go",
		Old:    "\t\t\tfoundContinuationType, errorContinuationType := consumeName(p.continuation_c, gammaNameTypesCtx)",
		New:    "\t\t\tfoundContinuationType, errorContinuationType := consumeNameMaybeSelf(p.continuation_c, providerShadowName, gammaNameTypesCtx, providerType)",
		Expect: "(*process.SelectForm).typecheckForm | self-tolerant-consume"})
	addFixture(Fixture{Name: "annotation-decides-polarity-in-typed-runs", Rule: "R-POLARITY-SOURCE", File: "process/name.go",
		Old:    "\t// Fetch the polarity either directly from the type, or the user inputted polarity\n\tif fromTypes {",
		New:    "\tif n.ExplicitPolarity != nil {\n\t\treturn *n.ExplicitPolarity\n\t}\n\tif fromTypes {",
		Expect: "(*process.Name).Polarity | return"})
	addFixture(Fixture{Name: "watchdog-rearmed-with-a-shorter-silence", Rule: "R-WATCHDOG-ARMED", File: "process/runtime.go",
		Old:    "\t\t\tt.Reset(fullTimeout)",
		New:    "\t\t\tt.Reset(timeout)",
		Expect: "HeartbeatReceiver | one-watchdog-duration"})
	addFixture(Fixture{Name: "independence-skips-the-first-parameter", Rule: "R-INDEPENDENCE", File: "process/typechecker.go",
		Old:    "\t\tantecedents := f.Parameters\n",
		New:    "\t\tantecedents := f.Parameters\n\t\tif f.UsesExplicitProvider && len(antecedents) > 0 {\n\t\t\tantecedents = antecedents[1:]\n\t\t}\n",
		Expect: "root-site:declared-FunctionDefinition"})
	addFixture(Fixture{Name: "type-names-looked-up-ignoring-case", Rule: "R-IDENT-EXACT", File: "types/modality.go",
		Old:    "\ttypeFromLabel, exists := labelledTypesEnv[q.Label]\n",
		New:    "\ttypeFromLabel, exists := labelledTypesEnv[strings.ToLower(q.Label)]\n",
		Expect: "folded-identifier"})
	addFixture(Fixture{Name: "nil-error-handed-to-the-error-constructor", Rule: "R-NIL-DEREF", File: "process/typechecker.go",
		Old:    "\t\t\tpolarityError := checkExplicitPolarityValidity(p, p.new_name_c)\n\t\t\tif polarityError != nil {\n\t\t\t\treturn TypeErrorE(polarityError)\n\t\t\t}\n\t\tdefault:",
		New:    "\t\t\tif polarityError := checkExplicitPolarityValidity(p, p.new_name_c); polarityError != nil {\n\t\t\t\treturn TypeErrorE(err)\n\t\t\t}\n\t\tdefault:",
		Expect: "(*process.NewForm).typecheckForm | nil-dereference"})
	addFixture(Fixture{Name: "character-table-shorter-than-its-guard", Rule: "R-RUNE-WHOLE", File: "parser/token.go",
		Old:    "\treturn ('a' <= ch && ch <= 'z') || ('A' <= ch && ch <= 'Z') || ('0' <= ch && ch <= '9')",
		New:    "\tvar table [128]bool\n\treturn ch >= 0 && ch <= 255 && table[ch]",
		Expect: "parser.isAlphaNum | whole-rune"})
	addFixture(Fixture{Name: "line-comment-skipped-with-readline", Rule: "R-WHOLE-INPUT", File: "parser/scanner.go",
		Old:    "\tfor {\n\t\tif ch := s.read(); ch == '\\n' || ch == eof {\n\t\t\tbreak\n\t\t}\n\t}",
		New:    "\tif _, _, err := s.r.ReadLine(); err != nil {\n\t\treturn\n\t}",
		Expect: "skipToEOL | partial-read"})
	addFixture(Fixture{Name: "cut-annotation-unfolded-before-it-is-checked", Rule: "R-ANNOTATIONS", File: "process/typechecker.go",
		Old:    "\t\t\ttypes.AddMissingModalities(&p.new_name_c.Type, labelledTypesEnv)\n",
		New:    "\t\t\ttypes.AddMissingModalities(&p.new_name_c.Type, labelledTypesEnv)\n\t\t\tp.new_name_c.Type = types.Unfold(p.new_name_c.Type, labelledTypesEnv)\n",
		Expect: "annotation:cut annotation checked as written"})
	addFixture(Fixture{Name: "scan-recurses-after-a-comment", Rule: "R-SCAN-NO-RECURSION", File: "parser/scanner.go",
		Old:    "\t\tgoto afterComment",
		New:    "\t\tif ch == eof {\n\t\t\tgoto afterComment\n\t\t}\n\t\treturn s.Scan()",
		Expect: "(*parser.scanner).Scan | no-self-call"})
	addFixture(Fixture{Name: "monitor-closes-its-update-channel", Rule: "R-CLOSE-OWNER", File: "process/monitor.go",
		Old:    "\t\tm.re.logMonitorf(\"Monitor terminating\\n\")\n",
		New:    "\t\tm.re.logMonitorf(\"Monitor terminating\\n\")\n\t\tclose(m.monitorChan)\n",
		Expect: "monitorLoop | close"})
	addFixture(Fixture{Name: "typechecker-collects-every-error", Rule: "R-ONE-DIAGNOSTIC", File: "process/typechecker.go",
		Old:    "\tif err := preliminaryFunctionDefinitionsChecks(globalEnv); err != nil {\n\t\terrorChan <- err\n\t\treturn\n\t}",
		New:    "\tif err := preliminaryFunctionDefinitionsChecks(globalEnv); err != nil {\n\t\tvar errs []error\n\t\terrs = append(errs, err)\n\t\terrorChan <- errs[0]\n\t\treturn\n\t}",
		Expect: "aggregate-error"})
	addFixture(Fixture{Name: "bind-helper-skips-self", Rule: "R-BIND-HELPER", File: "process/typechecker.go",
		Old:    "func nameTypeExists(namesTypesCtx NamesTypesCtx, key string) bool {",
		New:    "func bindNameFixture(ctx NamesTypesCtx, name Name, t types.SessionType) {\n\tif name.IsSelf {\n\t\treturn\n\t}\n\tctx[name.Ident] = NamesType{Type: t}\n}\n\nfunc nameTypeExists(namesTypesCtx NamesTypesCtx, key string) bool {",
		Expect: "process.bindNameFixture | always-binds"})
	addFixture(Fixture{Name: "new-process-run-inline", Rule: "R-FAMILY-CONSISTENT", File: "process/transition.go",
		Old:    "\t\t// Spawn and initiate new process\n\t\tnewProcess.SpawnThenTransition(re)",
		New:    "\t\t// Spawn and initiate new process\n\t\tnewProcess.transitionLoop(re)",
		Expect: "loop-continues-own-process"})
}
