package main

// Positive fixtures: one-edit in-memory variants of /repo on which a rule must fire.
// (Most of them re-introduce a defect that was repaired by a fix: commit.)

func init() {
	addFixture(Fixture{Name: "phase-stop-no-return", Rule: "R-PHASE-STOP", File: "process/typechecker.go",
		Old:    "preliminaryFunctionDefinitionsChecks(globalEnv); err != nil {\n\t\terrorChan <- err\n\t\treturn\n\t}",
		New:    "preliminaryFunctionDefinitionsChecks(globalEnv); err != nil {\n\t\terrorChan <- err\n\t}",
		Expect: "phase:preliminaryFunctionDefinitionsChecks"})
	addFixture(Fixture{Name: "success-in-defer", Rule: "R-NO-DEFERRED-SUCCESS", File: "process/typechecker.go",
		Old:    "\tassignTypesToProcessProviders(processes)\n",
		New:    "\tdefer func() { doneChan <- true }()\n\tassignTypesToProcessProviders(processes)\n",
		Expect: "success-send"})
	addFixture(Fixture{Name: "drop-not-unfolded", Rule: "R-UNFOLDED-POLARITY", File: "process/typechecker.go",
		Old:    "p.client_c.Type = types.Unfold(clientType, labelledTypesEnv)",
		New:    "p.client_c.Type = clientType",
		Expect: "checkExplicitPolarityValidity(p.client_c)"})
	addFixture(Fixture{Name: "split-err-after-use", Rule: "R-ERR-BEFORE-USE", File: "process/typechecker.go",
		Old:    "gammaLeftNameTypesCtx, gammaRightNameTypesCtx, gammaErr := splitGammaCtx(gammaNameTypesCtx, callForm.parameters, nil, labelledTypesEnv)\n",
		New:    "gammaLeftNameTypesCtx, gammaRightNameTypesCtx, gammaErr := splitGammaCtx(gammaNameTypesCtx, callForm.parameters, nil, labelledTypesEnv)\n\t\t\tgammaRightNameTypesCtx[\"x\"] = NamesType{}\n",
		Expect: "splitGammaCtx#1"})
	addFixture(Fixture{Name: "memo-key-after-unfold", Rule: "R-MEMO-KEY", File: "types/types.go",
		Old:    "snapshots[presentSnapshot.String()] = true",
		New:    "snapshots[type1.String()+type1.Modality().String()+\"|\"+type2.String()+type2.Modality().String()] = true",
		Expect: "insert-key#1"})
	addFixture(Fixture{Name: "dead-label-set", Rule: "R-DEAD-SET", File: "types/types_sanity_checks.go",
		Old:    "func (q *BranchCaseType) checkTypeLabels(labelledTypesEnv LabelledTypesEnv) error {\n\texistingLabels := make(map[string]bool)\n\n\tfor _, j := range q.Branches {\n\t\t// Check for unique labels\n\t\t_, exists := existingLabels[j.Label]\n\n\t\tif exists {\n\t\t\treturn fmt.Errorf(\"duplicate label '%s' found in type '%s'\", j.Label, q.String())\n\t\t}\n\n\t\texistingLabels[j.Label] = true\n",
		New:    "func (q *BranchCaseType) checkTypeLabels(labelledTypesEnv LabelledTypesEnv) error {\n\texistingLabels := make(map[string]bool)\n\n\tfor _, j := range q.Branches {\n\t\t// Check for unique labels\n\t\t_, exists := existingLabels[j.Label]\n\n\t\tif exists {\n\t\t\treturn fmt.Errorf(\"duplicate label '%s' found in type '%s'\", j.Label, q.String())\n\t\t}\n\n",
		Expect: "(*types.BranchCaseType).checkTypeLabels | set:existingLabels"})
	addFixture(Fixture{Name: "split-binder-not-fresh", Rule: "R-FRESH-BINDER", File: "process/typechecker.go",
		Old:    "\tif nameTypeExists(gammaNameTypesCtx, p.channel_one.Ident) ||\n\t\tnameTypeExists(gammaNameTypesCtx, p.channel_two.Ident) {",
		New:    "\tif nameTypeExists(gammaNameTypesCtx, p.channel_one.Ident) {",
		Expect: "ctx-insert:p.channel_two.Ident"})
	addFixture(Fixture{Name: "consume-without-delete", Rule: "R-CONSUME-DELETES", File: "process/typechecker.go",
		Old:    "\tfoundName, ok := gammaNameTypesCtx[name.Ident]\n\n\tif ok {\n\t\t// If linear then remove\n\t\tdelete(gammaNameTypesCtx, name.Ident)\n\n\t\treturn foundName.Type, nil\n\t}\n\n\t// Problem since the requested name was not found in the gamma\n\treturn nil, fmt.Errorf(\"the requested name (%s) is not defined (has no type)\", name.String())\n}\n\n// Takes a name from gamma. If the name is 'self'",
		New:    "\tfoundName, ok := gammaNameTypesCtx[name.Ident]\n\n\tif ok {\n\t\treturn foundName.Type, nil\n\t}\n\n\t// Problem since the requested name was not found in the gamma\n\treturn nil, fmt.Errorf(\"the requested name (%s) is not defined (has no type)\", name.String())\n}\n\n// Takes a name from gamma. If the name is 'self'",
		Expect: "process.consumeName |"})
	addFixture(Fixture{Name: "close-keeps-context", Rule: "R-AXIOM-EMPTY", File: "process/typechecker.go",
		Old:    "\t\t\treturn TypeErrorf(\"expected '%s' to have a unit type (1), but found type '%s' instead\", p.String(), providerType.String())\n\t\t}\n\t}\n\n\t// make sure that no variables are left in gamma\n\tif err := linearGammaContext(gammaNameTypesCtx); err != nil {\n\t\treturn TypeErrorE(err)\n\t}\n\treturn nil\n}",
		New:    "\t\t\treturn TypeErrorf(\"expected '%s' to have a unit type (1), but found type '%s' instead\", p.String(), providerType.String())\n\t\t}\n\t}\n\n\treturn nil\n}",
		Expect: "(*process.CloseForm).typecheckForm"})
	addFixture(Fixture{Name: "case-shared-context", Rule: "R-BRANCH-COPY", File: "process/typechecker.go",
		Old:    "continuationError := curBranchForm.continuation_e.typecheckForm(newGammaNameTypesCtx, &curBranchForm.payload_c, expectedBranchType.SessionType",
		New:    "_ = newGammaNameTypesCtx\n\t\t\tcontinuationError := curBranchForm.continuation_e.typecheckForm(gammaNameTypesCtx, &curBranchForm.payload_c, expectedBranchType.SessionType",
		Expect: "branch-judgement#1"})
	addFixture(Fixture{Name: "split-ungated", Rule: "R-STRUCT-GATES", File: "process/typechecker.go",
		Old:    "\tif !types.IsContractable(foundType) {",
		New:    "\tif false && !types.IsContractable(foundType) {",
		Expect: "gated-by:IsContractable"})
	addFixture(Fixture{Name: "multi-provider-ungated", Rule: "R-MULTI-CONTRACT", File: "process/typechecker.go",
		Old:    "if len(processes[i].Providers) > 1 && !types.IsContractable(processes[i].Type) {",
		New:    "if len(processes[i].Providers) > 2 && !types.IsContractable(processes[i].Type) {",
		Expect: "multi-provider-contraction-gate"})
	addFixture(Fixture{Name: "plain-counter-read", Rule: "R-ATOMIC", File: "process/runtime.go",
		Old:    "return atomic.LoadUint64(&re.deadProcessCount)",
		New:    "return re.deadProcessCount",
		Expect: "field:deadProcessCount plain read"})
	addFixture(Fixture{Name: "comment-loop-no-eof", Rule: "R-LOOP-EOF", File: "parser/scanner.go",
		Old:    "if ch := s.read(); ch == '/' || ch == eof {",
		New:    "if ch := s.read(); ch == '/' {",
		Expect: "skipToEndOfComment"})
	addFixture(Fixture{Name: "end-marker-for-percent", Rule: "R-END-MARKER", File: "parser/scanner.go",
		Old:    "\t\treturn PERCENTAGE, string(ch), startPos, endPos",
		New:    "\t\treturn 0, string(ch), startPos, endPos",
		Expect: "end-marker-token:0#2"})
}

func init() {
	addFixture(Fixture{Name: "send-left-unbracketed", Rule: "R-PRINT-GRAMMAR", File: "types/types.go",
		Old:    "\tbuffer.WriteString(stringLeftOperand(q.Left))\n\tbuffer.WriteString(\" * \")",
		New:    "\tbuffer.WriteString(q.Left.String())\n\tbuffer.WriteString(\" * \")",
		Expect: "triple:SendType.Left<-SendType"})
	addFixture(Fixture{Name: "left-operand-forgets-up", Rule: "R-PRINT-GRAMMAR", File: "types/types.go",
		Old:    "\tcase *SendType, *ReceiveType, *UpType, *DownType:\n\t\treturn \"(\" + t.String() + \")\"",
		New:    "\tcase *SendType, *ReceiveType, *DownType:\n\t\treturn \"(\" + t.String() + \")\"",
		Expect: "Left<-UpType"})
	addFixture(Fixture{Name: "receive-prints-arrow", Rule: "R-PRINT-GRAMMAR", File: "types/types.go",
		Old:    "\tbuffer.WriteString(stringLeftOperand(q.Left))\n\tbuffer.WriteString(\" -* \")",
		New:    "\tbuffer.WriteString(stringLeftOperand(q.Left))\n\tbuffer.WriteString(\" -> \")",
		Expect: "(*types.ReceiveType).String | print-production"})
	addFixture(Fixture{Name: "kind-dropped", Rule: "R-KIND-EXH", File: "parser/parser.go",
		Old:    "\t\t\tassumedFreeNames = append(assumedFreeNames, p.assumedFreeNameTypes...)",
		New:    "\t\t\t_ = p.assumedFreeNameTypes",
		Expect: "kind:ASSUMING_DEF"})
	addFixture(Fixture{Name: "parse-error-dropped", Rule: "R-PARSE-ERR", File: "parser/parser.go",
		Old:    "\tallEnvironment, err := Parse(r)\n\n\tif err != nil {\n\t\treturn nil, nil, nil, err\n\t}",
		New:    "\tallEnvironment, err := Parse(r)\n\t_ = err",
		Expect: "parser.ParseReader | errors-propagated"})
}
