package main

import (
	"fmt"
	"go/constant"
	"go/token"
	"go/types"
	"strings"

	"golang.org/x/tools/go/ssa"
)

// R-CALL-ALIGN (C07, C01, C04, C14): formal and actual parameters of a call are paired with
// the offset that the arm's own arity test establishes.

func init() {
	register(&Rule{Name: "R-CALL-ALIGN", Min: 10,
		Doc: "in the typing rule of a call and in its two transition functions: wherever the i-th formal parameter of the callee is paired with the j-th actual parameter of the call (type comparison of a consumed actual against a formal; substitution of a formal by an actual), j - i equals the difference between the number of actuals and the number of formals that the dominating arity test of that arm established (0, or 1 when an explicit self is passed), and an explicit index loop starts at that offset",
		Run: runCallAlign})
}

type linSide struct {
	kind string // "A" actuals, "F" formals
	c    int64
}

func runCallAlign(p *Program, r *RuleResult) {
	var callT *types.Named
	for _, T := range p.formImplementers() {
		for _, f := range structFields(T) {
			if f.Name() == "functionName" {
				callT = T
			}
		}
	}
	if callT == nil {
		for _, T := range p.formImplementers() {
			if strings.HasPrefix(T.Obj().Name(), "Call") {
				callT = T
			}
		}
	}
	if callT == nil {
		r.add(processPkg, "call-form", Undecided, "", "the call form was not found")
		return
	}
	var fns []*ssa.Function
	for _, name := range []string{"typecheckForm", "Transition", "TransitionNP"} {
		if m := p.MethodOpt(callT, name); m != nil {
			fns = append(fns, m)
			fns = append(fns, allAnon(m)...)
		}
	}
	// is v the length of the actuals / formals?
	// the actuals: the []Name field of the call form; the formals: a []Name field of any
	// other first-party struct (function definition, function signature)
	sliceOwner := func(v ssa.Value) *types.Named {
		for d := 0; d < 4; d++ {
			switch x := v.(type) {
			case *ssa.UnOp:
				v = x.X
				continue
			case *ssa.FieldAddr:
				if isNameSlice(x.Type().Underlying().(*types.Pointer).Elem()) {
					return namedOf(x.X.Type())
				}
				return nil
			case *ssa.Field:
				if isNameSlice(x.Type()) {
					return namedOf(x.X.Type())
				}
				return nil
			}
			break
		}
		return nil
	}
	isActualsPath := func(v ssa.Value) bool {
		o := sliceOwner(v)
		return o != nil && o.Obj() == callT.Obj()
	}
	isFormalsPath := func(v ssa.Value) bool {
		o := sliceOwner(v)
		return o != nil && o.Obj() != callT.Obj() && o.Obj().Pkg() != nil && o.Obj().Pkg().Path() == processPkg
	}
	arityFn := map[*ssa.Function]bool{}
	for _, fn := range p.SrcFuncs {
		if fn.Signature.Recv() == nil || fn.Blocks == nil || len(fn.Blocks) != 1 || fn.Signature.Results().Len() != 1 {
			continue
		}
		for _, in := range fn.Blocks[0].Instrs {
			if ret, ok := in.(*ssa.Return); ok && len(ret.Results) == 1 {
				if c, ok := ret.Results[0].(*ssa.Call); ok {
					if b, ok := c.Common().Value.(*ssa.Builtin); ok && b.Name() == "len" && isFormalsPath(c.Common().Args[0]) {
						arityFn[fn] = true
					}
				}
			}
		}
	}
	var side func(v ssa.Value, d int) (linSide, bool)
	side = func(v ssa.Value, d int) (linSide, bool) {
		if d > 4 {
			return linSide{}, false
		}
		switch x := v.(type) {
		case *ssa.Call:
			if b, ok := x.Common().Value.(*ssa.Builtin); ok && b.Name() == "len" && len(x.Common().Args) == 1 {
				switch {
				case isActualsPath(x.Common().Args[0]):
					return linSide{"A", 0}, true
				case isFormalsPath(x.Common().Args[0]):
					return linSide{"F", 0}, true
				}
			}
			if sc := x.Common().StaticCallee(); sc != nil && arityFn[sc] {
				return linSide{"F", 0}, true
			}
		case *ssa.BinOp:
			if k, ok := x.Y.(*ssa.Const); ok && (x.Op == token.ADD || x.Op == token.SUB) {
				if s, ok := side(x.X, d+1); ok {
					kv, _ := constant.Int64Val(constant.ToInt(k.Value))
					if x.Op == token.SUB {
						kv = -kv
					}
					s.c += kv
					return s, true
				}
			}
		case *ssa.UnOp:
			if al, ok := x.X.(*ssa.Alloc); ok {
				sts := storesTo(al)
				if len(sts) == 1 {
					return side(sts[0].Val, d+1)
				}
			}
		case *ssa.FreeVar, *ssa.Phi:
		}
		return linSide{}, false
	}
	armOffset := func(view *View, b *ssa.BasicBlock) (int64, bool) {
		found := false
		var d int64
		for f := range view.FactsAt(b) {
			bo, ok := f.v.(*ssa.BinOp)
			if !ok || f.k != factTrue || bo.Op != token.EQL {
				continue
			}
			l, ok1 := side(bo.X, 0)
			rr, ok2 := side(bo.Y, 0)
			if !ok1 || !ok2 || l.kind == rr.kind {
				continue
			}
			// A + a == F + b  =>  A - F = b - a
			var dd int64
			if l.kind == "A" {
				dd = rr.c - l.c
			} else {
				dd = l.c - rr.c
			}
			if found && dd != d {
				return 0, false
			}
			found, d = true, dd
		}
		return d, found
	}
	type idx struct {
		base ssa.Value
		c    int64
	}
	var idxOf func(v ssa.Value) idx
	idxOf = func(v ssa.Value) idx {
		switch x := v.(type) {
		case *ssa.Const:
			c, _ := constant.Int64Val(constant.ToInt(x.Value))
			return idx{nil, c}
		case *ssa.BinOp:
			if k, ok := x.Y.(*ssa.Const); ok && (x.Op == token.ADD || x.Op == token.SUB) {
				// the rotated range index (phi + 1, fed back into the phi) is one value
				if ph, isPhi := x.X.(*ssa.Phi); isPhi && x.Op == token.ADD {
					for _, e := range ph.Edges {
						if e == ssa.Value(x) {
							return idx{x, 0}
						}
					}
				}
				kv, _ := constant.Int64Val(constant.ToInt(k.Value))
				if x.Op == token.SUB {
					kv = -kv
				}
				in := idxOf(x.X)
				return idx{in.base, in.c + kv}
			}
		}
		return idx{v, 0}
	}
	// index expression of an element access: value loaded from IndexAddr(slice, i)
	var elemIndex func(v ssa.Value, wantActuals bool, d int) (ssa.Value, bool)
	elemIndex = func(v ssa.Value, wantActuals bool, d int) (ssa.Value, bool) {
		if d > 6 {
			return nil, false
		}
		switch x := v.(type) {
		case *ssa.UnOp:
			return elemIndex(x.X, wantActuals, d+1)
		case *ssa.Alloc:
			// a local copy of an element (`a := xs[i]`, a range value)
			for _, st := range storesTo(x) {
				if iv, ok := elemIndex(st.Val, wantActuals, d+1); ok {
					return iv, true
				}
			}
		case *ssa.FieldAddr:
			return elemIndex(x.X, wantActuals, d+1)
		case *ssa.Field:
			return elemIndex(x.X, wantActuals, d+1)
		case *ssa.IndexAddr:
			if wantActuals && isActualsPath(x.X) || !wantActuals && isFormalsPath(x.X) {
				return x.Index, true
			}
		case *ssa.Call:
			// Unfold(x, env) and the like: first argument
			if sc := x.Common().StaticCallee(); sc != nil && len(x.Common().Args) > 0 && isSessionTypeType(x.Type()) {
				return elemIndex(x.Common().Args[0], wantActuals, d+1)
			}
		case *ssa.Extract:
			if c, ok := x.Tuple.(*ssa.Call); ok && p.isConsumeFunc(c.Common().StaticCallee()) {
				return elemIndex(c.Common().Args[0], wantActuals, d+1)
			}
		}
		return nil, false
	}
	eqT := p.Func(typesPkg, "EqualType")
	n := 0
	for _, fn := range fns {
		view := p.View(fn)
		ord := 0
		for _, c := range p.callsIn(fn) {
			com := c.Common()
			var formalI, actualI ssa.Value
			what := ""
			switch {
			case com.IsInvoke() && com.Method.Name() == "Substitute" && len(com.Args) == 2:
				fi, ok1 := elemIndex(com.Args[0], false, 0)
				ai, ok2 := elemIndex(com.Args[1], true, 0)
				if ok1 && ok2 {
					formalI, actualI, what = fi, ai, "substitution"
				}
			case com.StaticCallee() == eqT && eqT != nil:
				for k := 0; k < 2; k++ {
					fi, ok1 := elemIndex(com.Args[k], false, 0)
					ai, ok2 := elemIndex(com.Args[1-k], true, 0)
					if ok1 && ok2 {
						formalI, actualI, what = fi, ai, "type-comparison"
					}
				}
			}
			if what == "" {
				continue
			}
			n++
			ord++
			construct := fmt.Sprintf("%s#%d", what, ord)
			pos := p.instrPos(c)
			want, ok := armOffset(view, c.Block())
			if !ok {
				r.add(fnName(fn), construct, Undecided, pos, "no single arity test (number of actuals against number of formals) dominates this pairing")
				continue
			}
			fi, ai := idxOf(formalI), idxOf(actualI)
			if fi.base != ai.base {
				r.add(fnName(fn), construct, Undecided, pos, "formal and actual are indexed by unrelated expressions")
				continue
			}
			got := ai.c - fi.c
			if got != want {
				r.add(fnName(fn), construct, Violated, pos,
					fmt.Sprintf("actual #i+%d is paired with formal #i+%d, but this arm is entered when the call has %d more actual(s) than the callee has formals: parameters are shifted by one against their declarations", ai.c, fi.c, want))
				continue
			}
			// explicit loop: first actual index is the offset
			if ph, isPhi := ai.base.(*ssa.Phi); isPhi {
				for _, e := range ph.Edges {
					if k, ok := e.(*ssa.Const); ok {
						kv, _ := constant.Int64Val(constant.ToInt(k.Value))
						if kv+ai.c != want {
							r.add(fnName(fn), construct, Violated, pos,
								fmt.Sprintf("the loop pairs actuals starting at #%d, but %d leading actual(s) stand for the explicit self in this arm", kv+ai.c, want))
							goto next
						}
					}
				}
			}
			r.add(fnName(fn), construct, Holds, pos, fmt.Sprintf("offset %d as established by the arm's arity test", want))
		next:
		}
	}
	r.count("formal/actual pairings", n)
}
