package main

import (
	"fmt"
	"go/constant"
	"go/token"
	"go/types"
	"sort"
	"strings"

	"golang.org/x/tools/go/ssa"
)

// R-CALL-ALIGN (C07, C01, C04, C14): formal and actual parameters of a call are paired with
// the offset that the arm's own arity test establishes.

func init() {
	register(&Rule{Name: "R-CALL-ALIGN", Min: 8,
		Doc: "in the typing rule of a call and in its two transition functions: wherever the i-th formal parameter of the callee is paired with the j-th actual parameter of the call (type comparison of a consumed actual against a formal; substitution of a formal by an actual), j - i equals the difference between the number of actuals and the number of formals that the dominating arity test of that arm established (0, or 1 when an explicit self is passed), and an explicit index loop starts at that offset",
		Run: runCallAlign})
}

type linSide struct {
	kind string // "A" actuals, "F" formals
	c    int64
}

func runCallAlign(p *Program, r *RuleResult) {
	var callT *types.Named
	for _, T := range p.formImplementers() {
		for _, f := range structFields(T) {
			if f.Name() == "functionName" {
				callT = T
			}
		}
	}
	if callT == nil {
		for _, T := range p.formImplementers() {
			if strings.HasPrefix(T.Obj().Name(), "Call") {
				callT = T
			}
		}
	}
	if callT == nil {
		r.add(processPkg, "call-form", Undecided, "", "the call form was not found")
		return
	}
	var fns []*ssa.Function
	for _, name := range []string{"typecheckForm", "Transition", "TransitionNP"} {
		if m := p.MethodOpt(callT, name); m != nil {
			fns = append(fns, m)
			fns = append(fns, allAnon(m)...)
		}
	}
	// helpers of those functions (a parameter loop moved into a method of its own): judged
	// once per call site, with the offset the calling arm established
	type hsiteT struct {
		caller *ssa.Function
		call   ssa.CallInstruction
	}
	helperSites := map[*ssa.Function][]hsiteT{}
	{
		inFns := map[*ssa.Function]bool{}
		for _, f := range fns {
			inFns[f] = true
		}
		for _, f := range fns {
			for _, c := range p.callsIn(f) {
				h := c.Common().StaticCallee()
				if h == nil || inFns[h] || !p.isFirstParty(h) || h.Blocks == nil || h.Pkg == nil || h.Pkg.Pkg.Path() != processPkg {
					continue
				}
				helperSites[h] = append(helperSites[h], hsiteT{f, c})
			}
		}
	}
	// is v the length of the actuals / formals?
	// the actuals: the []Name field of the call form; the formals: a []Name field of any
	// other first-party struct (function definition, function signature)
	sliceOwner := func(v ssa.Value) *types.Named {
		for d := 0; d < 4; d++ {
			switch x := v.(type) {
			case *ssa.UnOp:
				v = x.X
				continue
			case *ssa.FieldAddr:
				if isNameSlice(x.Type().Underlying().(*types.Pointer).Elem()) {
					return namedOf(x.X.Type())
				}
				return nil
			case *ssa.Field:
				if isNameSlice(x.Type()) {
					return namedOf(x.X.Type())
				}
				return nil
			}
			break
		}
		return nil
	}
	isActualsPath := func(v ssa.Value) bool {
		o := sliceOwner(v)
		return o != nil && o.Obj() == callT.Obj()
	}
	isFormalsPath := func(v ssa.Value) bool {
		o := sliceOwner(v)
		return o != nil && o.Obj() != callT.Obj() && o.Obj().Pkg() != nil && o.Obj().Pkg().Path() == processPkg
	}
	arityFn := map[*ssa.Function]bool{}
	for _, fn := range p.SrcFuncs {
		if fn.Signature.Recv() == nil || fn.Blocks == nil || len(fn.Blocks) != 1 || fn.Signature.Results().Len() != 1 {
			continue
		}
		for _, in := range fn.Blocks[0].Instrs {
			if ret, ok := in.(*ssa.Return); ok && len(ret.Results) == 1 {
				if c, ok := ret.Results[0].(*ssa.Call); ok {
					if b, ok := c.Common().Value.(*ssa.Builtin); ok && b.Name() == "len" && isFormalsPath(c.Common().Args[0]) {
						arityFn[fn] = true
					}
				}
			}
		}
	}
	var side func(v ssa.Value, d int) (linSide, bool)
	side = func(v ssa.Value, d int) (linSide, bool) {
		if d > 4 {
			return linSide{}, false
		}
		switch x := v.(type) {
		case *ssa.Call:
			if b, ok := x.Common().Value.(*ssa.Builtin); ok && b.Name() == "len" && len(x.Common().Args) == 1 {
				switch {
				case isActualsPath(x.Common().Args[0]):
					return linSide{"A", 0}, true
				case isFormalsPath(x.Common().Args[0]):
					return linSide{"F", 0}, true
				}
			}
			if sc := x.Common().StaticCallee(); sc != nil && arityFn[sc] {
				return linSide{"F", 0}, true
			}
		case *ssa.BinOp:
			if k, ok := x.Y.(*ssa.Const); ok && (x.Op == token.ADD || x.Op == token.SUB) {
				if s, ok := side(x.X, d+1); ok {
					kv, _ := constant.Int64Val(constant.ToInt(k.Value))
					if x.Op == token.SUB {
						kv = -kv
					}
					s.c += kv
					return s, true
				}
			}
		case *ssa.UnOp:
			if al, ok := x.X.(*ssa.Alloc); ok {
				sts := storesTo(al)
				if len(sts) == 1 {
					return side(sts[0].Val, d+1)
				}
			}
		case *ssa.FreeVar, *ssa.Phi:
		}
		return linSide{}, false
	}
	armOffset := func(view *View, b *ssa.BasicBlock) (int64, bool) {
		found := false
		var d int64
		for f := range view.FactsAt(b) {
			bo, ok := f.v.(*ssa.BinOp)
			if !ok || f.k != factTrue || bo.Op != token.EQL {
				continue
			}
			l, ok1 := side(bo.X, 0)
			rr, ok2 := side(bo.Y, 0)
			if !ok1 || !ok2 || l.kind == rr.kind {
				continue
			}
			// A + a == F + b  =>  A - F = b - a
			var dd int64
			if l.kind == "A" {
				dd = rr.c - l.c
			} else {
				dd = l.c - rr.c
			}
			if found && dd != d {
				return 0, false
			}
			found, d = true, dd
		}
		return d, found
	}
	type idx struct {
		base ssa.Value
		c    int64
		sym  *ssa.Parameter // an integer parameter of the enclosing helper added (k = 1) or subtracted (k = -1)
		k    int64
	}
	var idxOf func(v ssa.Value) idx
	idxOf = func(v ssa.Value) idx {
		switch x := v.(type) {
		case *ssa.Const:
			c, _ := constant.Int64Val(constant.ToInt(x.Value))
			return idx{base: nil, c: c}
		case *ssa.BinOp:
			if k, ok := x.Y.(*ssa.Const); ok && (x.Op == token.ADD || x.Op == token.SUB) {
				// the rotated range index (phi + 1, fed back into the phi) is one value
				if ph, isPhi := x.X.(*ssa.Phi); isPhi && x.Op == token.ADD {
					for _, e := range ph.Edges {
						if e == ssa.Value(x) {
							return idx{base: x}
						}
					}
				}
				kv, _ := constant.Int64Val(constant.ToInt(k.Value))
				if x.Op == token.SUB {
					kv = -kv
				}
				in := idxOf(x.X)
				in.c += kv
				return in
			}
			if prm, ok := x.Y.(*ssa.Parameter); ok && (x.Op == token.ADD || x.Op == token.SUB) {
				in := idxOf(x.X)
				if in.sym == nil {
					in.sym, in.k = prm, 1
					if x.Op == token.SUB {
						in.k = -1
					}
					return in
				}
			}
		}
		return idx{base: v}
	}
	// index expression of an element access: value loaded from IndexAddr(slice, i)
	var elemIndex func(v ssa.Value, wantActuals bool, d int) (ssa.Value, bool)
	elemIndex = func(v ssa.Value, wantActuals bool, d int) (ssa.Value, bool) {
		if d > 6 {
			return nil, false
		}
		switch x := v.(type) {
		case *ssa.UnOp:
			return elemIndex(x.X, wantActuals, d+1)
		case *ssa.Alloc:
			// a local copy of an element (`a := xs[i]`, a range value)
			for _, st := range storesTo(x) {
				if iv, ok := elemIndex(st.Val, wantActuals, d+1); ok {
					return iv, true
				}
			}
		case *ssa.FieldAddr:
			return elemIndex(x.X, wantActuals, d+1)
		case *ssa.Field:
			return elemIndex(x.X, wantActuals, d+1)
		case *ssa.IndexAddr:
			if wantActuals && isActualsPath(x.X) || !wantActuals && isFormalsPath(x.X) {
				return x.Index, true
			}
		case *ssa.Call:
			// Unfold(x, env) and the like: first argument
			if sc := x.Common().StaticCallee(); sc != nil && len(x.Common().Args) > 0 && isSessionTypeType(x.Type()) {
				return elemIndex(x.Common().Args[0], wantActuals, d+1)
			}
		case *ssa.Extract:
			if c, ok := x.Tuple.(*ssa.Call); ok && p.isConsumeFunc(c.Common().StaticCallee()) {
				return elemIndex(c.Common().Args[0], wantActuals, d+1)
			}
		}
		return nil, false
	}
	eqT := p.Func(typesPkg, "EqualType")
	n := 0
	var helperList []*ssa.Function
	for h := range helperSites {
		helperList = append(helperList, h)
	}
	sort.Slice(helperList, func(i, j int) bool { return fnName(helperList[i]) < fnName(helperList[j]) })
	for _, fn := range append(append([]*ssa.Function{}, fns...), helperList...) {
		view := p.View(fn)
		ord := 0
		for _, c := range p.callsIn(fn) {
			com := c.Common()
			var formalI, actualI ssa.Value
			what := ""
			switch {
			case com.IsInvoke() && com.Method.Name() == "Substitute" && len(com.Args) == 2:
				fi, ok1 := elemIndex(com.Args[0], false, 0)
				ai, ok2 := elemIndex(com.Args[1], true, 0)
				if ok1 && ok2 {
					formalI, actualI, what = fi, ai, "substitution"
				}
			case com.StaticCallee() == eqT && eqT != nil:
				for k := 0; k < 2; k++ {
					fi, ok1 := elemIndex(com.Args[k], false, 0)
					ai, ok2 := elemIndex(com.Args[1-k], true, 0)
					if ok1 && ok2 {
						formalI, actualI, what = fi, ai, "type-comparison"
					}
				}
			}
			if what == "" {
				continue
			}
			n++
			ord++
			construct := fmt.Sprintf("%s#%d", what, ord)
			pos := p.instrPos(c)
			want, ok := armOffset(view, c.Block())
			if sites := helperSites[fn]; !ok && len(sites) > 0 {
				// in a helper: the offset is the one each calling arm established, and an
				// integer parameter in the index arithmetic is the constant passed there
				fi, ai := idxOf(formalI), idxOf(actualI)
				if fi.base != ai.base {
					r.add(fnName(fn), construct, Undecided, pos, "formal and actual are indexed by unrelated expressions")
					continue
				}
				for si, hs := range sites {
					sconstruct := fmt.Sprintf("%s@call%d", construct, si+1)
					cw, cok := armOffset(p.View(hs.caller), hs.call.Block())
					if !cok {
						r.add(fnName(fn), sconstruct, Undecided, p.instrPos(hs.call), "no single arity test dominates the call of this helper")
						continue
					}
					val := func(prm *ssa.Parameter) (int64, bool) {
						for i, q := range fn.Params {
							if q == prm && i < len(hs.call.Common().Args) {
								if k, ok := hs.call.Common().Args[i].(*ssa.Const); ok && k.Value != nil {
									kv, _ := constant.Int64Val(constant.ToInt(k.Value))
									return kv, true
								}
							}
						}
						return 0, false
					}
					got := ai.c - fi.c
					okv := true
					for _, t := range []idx{ai, fi} {
						if t.sym != nil {
							v, ok := val(t.sym)
							if !ok {
								okv = false
							}
							if t == ai {
								got += t.k * v
							} else {
								got -= t.k * v
							}
						}
					}
					if !okv {
						r.add(fnName(fn), sconstruct, Undecided, p.instrPos(hs.call), "the index offset parameter of the helper is not a constant at this call")
						continue
					}
					if got != cw {
						r.add(fnName(fn), sconstruct, Violated, p.instrPos(hs.call),
							fmt.Sprintf("called from an arm with %d more actual(s) than formals, the helper pairs actual #i+%d with formal #i: parameters are shifted against their declarations", cw, got))
						continue
					}
					// the loop starts at the offset
					bad := false
					if ph, isPhi := ai.base.(*ssa.Phi); isPhi {
						for _, e := range ph.Edges {
							start, known := int64(0), false
							if k, ok := e.(*ssa.Const); ok {
								start, _ = constant.Int64Val(constant.ToInt(k.Value))
								known = true
							} else if prm, ok := e.(*ssa.Parameter); ok {
								start, known = val(prm)
							}
							if known && start+ai.c != cw {
								r.add(fnName(fn), sconstruct, Violated, p.instrPos(hs.call),
									fmt.Sprintf("the helper's loop pairs actuals starting at #%d, but %d leading actual(s) stand for the explicit self in the calling arm", start+ai.c, cw))
								bad = true
							}
						}
					}
					if !bad {
						r.add(fnName(fn), sconstruct, Holds, p.instrPos(hs.call), fmt.Sprintf("offset %d as established by the calling arm's arity test", cw))
					}
				}
				continue
			}
			if !ok {
				r.add(fnName(fn), construct, Undecided, pos, "no single arity test (number of actuals against number of formals) dominates this pairing")
				continue
			}
			fi, ai := idxOf(formalI), idxOf(actualI)
			if fi.base != ai.base {
				r.add(fnName(fn), construct, Undecided, pos, "formal and actual are indexed by unrelated expressions")
				continue
			}
			got := ai.c - fi.c
			if got != want {
				r.add(fnName(fn), construct, Violated, pos,
					fmt.Sprintf("actual #i+%d is paired with formal #i+%d, but this arm is entered when the call has %d more actual(s) than the callee has formals: parameters are shifted by one against their declarations", ai.c, fi.c, want))
				continue
			}
			// explicit loop: first actual index is the offset
			if ph, isPhi := ai.base.(*ssa.Phi); isPhi {
				for _, e := range ph.Edges {
					if k, ok := e.(*ssa.Const); ok {
						kv, _ := constant.Int64Val(constant.ToInt(k.Value))
						if kv+ai.c != want {
							r.add(fnName(fn), construct, Violated, pos,
								fmt.Sprintf("the loop pairs actuals starting at #%d, but %d leading actual(s) stand for the explicit self in this arm", kv+ai.c, want))
							goto next
						}
					}
				}
			}
			r.add(fnName(fn), construct, Holds, pos, fmt.Sprintf("offset %d as established by the arm's arity test", want))
		next:
		}
	}
	r.count("formal/actual pairings", n)
}
