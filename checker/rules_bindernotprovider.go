package main

import (
	"fmt"
	"go/types"
	"strings"

	"golang.org/x/tools/go/ssa"
)

// R-BINDER-NOT-PROVIDER (C01, C07, C14): a name that a typing rule inserts into the context
// (a client channel of the continuation) is not the name the provider goes by.

func init() {
	register(&Rule{Name: "R-BINDER-NOT-PROVIDER", Min: 6,
		Doc: "for every insertion of a binder of the form (key: the identifier of a name field of the form) into a typing context inside a typing rule: on every path to the insertion the provider test (the first-party predicate over a name and the shadow provider name) has been applied to that very name, with the rule's own shadow-name parameter, and found false - when the judgement that receives the context is typed under that same shadow name; when it is typed under a new provider name taken from the form (provider-side receive), the binder has been compared with that name by the name-equality method and found different. The continuation is typed with the same shadow name: were the binder called like the provider, every later use of it would be typed as a use of the provider while the interpreter substitutes the received/spawned client channel for it - an accepted program then dies with 'close on a client' or 'wait on self'",
		Run: runBinderNotProvider})
}

// providerTestFn: the first-party predicate (Name, *Name) bool of package process.
func (p *Program) providerTestFn() *ssa.Function {
	var out *ssa.Function
	for _, fn := range p.SrcFuncs {
		if fn.Pkg == nil || fn.Pkg.Pkg.Path() != processPkg || fn.Parent() != nil || fn.Signature.Recv() != nil {
			continue
		}
		sig := fn.Signature
		if sig.Params().Len() != 2 || sig.Results().Len() != 1 {
			continue
		}
		if b, ok := sig.Results().At(0).Type().Underlying().(*types.Basic); !ok || b.Kind() != types.Bool {
			continue
		}
		pt, ok := sig.Params().At(1).Type().Underlying().(*types.Pointer)
		if !ok || !isNamed(sig.Params().At(0).Type(), processPkg, "Name") || !isNamed(pt.Elem(), processPkg, "Name") {
			continue
		}
		if out != nil {
			anchorFail("the provider test: more than one predicate (Name, *Name) bool in package process")
		}
		out = fn
	}
	if out == nil {
		anchorFail("the provider test: a predicate (Name, *Name) bool in package process")
	}
	return out
}

func runBinderNotProvider(p *Program, r *RuleResult) {
	test := p.providerTestFn()
	r.note("provider test: %s", fnName(test))
	n := 0
	for _, m := range p.typecheckMethods() {
		if m.Shadow == nil {
			continue
		}
		view := p.View(m.Fn)
		name := fnName(m.Fn)
		ord := map[string]int{}
		for _, b := range view.Blocks() {
			for _, in := range view.Instrs(b) {
				mu, ok := in.(*ssa.MapUpdate)
				if !ok || !isCtxType(mu.Map.Type()) {
					continue
				}
				key := accessPath(mu.Key)
				if !strings.HasSuffix(key, ".Ident") {
					continue // judged (undecided) by R-FRESH-BINDER
				}
				binder := strings.TrimSuffix(key, ".Ident")
				n++
				ord[binder]++
				construct := fmt.Sprintf("binder-is-not-the-provider:%s#%d", binder, ord[binder])
				// the shadow name(s) under which the judgements that receive this context are typed
				var newShadows []string // paths of form fields that become the provider's name
				sameShadow := false
				nJudg := 0
				for _, k := range m.Conts {
					takes := false
					var sh ssa.Value
					for _, a := range k.Common().Args {
						if isCtxType(a.Type()) && origin(a) == origin(mu.Map) {
							takes = true
						}
						if pt, ok := a.Type().Underlying().(*types.Pointer); ok && isNamed(pt.Elem(), processPkg, "Name") {
							sh = a
						}
					}
					if !takes || sh == nil {
						continue
					}
					// only judgements the insertion flows to
					if len(view.mayReachFrom(mu, nil, func(x ssa.Instruction) bool { return x == ssa.Instruction(k) }, nil)) == 0 {
						continue
					}
					nJudg++
					if origin(sh) == ssa.Value(m.Shadow) {
						sameShadow = true
					} else if ap := accessPath(sh); ap != "" {
						newShadows = append(newShadows, ap)
					} else {
						sameShadow = true // unknown: demand the test against the incoming name
					}
				}
				if nJudg == 0 {
					sameShadow = true
				}
				found := true
				if sameShadow {
					found = false
					for f := range view.FactsAt(b) {
						c, isCall := f.v.(*ssa.Call)
						if !isCall || f.k != factFalse || c.Common().StaticCallee() != test || len(c.Common().Args) != 2 {
							continue
						}
						if accessPath(c.Common().Args[0]) == binder && origin(c.Common().Args[1]) == ssa.Value(m.Shadow) {
							found = true
						}
					}
				}
				// the continuation is typed under a new provider name taken from the form: the
				// binder must have been compared with that name and found different
				for _, ns := range newShadows {
					if ns == binder {
						found = false
						continue
					}
					distinct := false
					for f := range view.FactsAt(b) {
						c, isCall := f.v.(*ssa.Call)
						if !isCall || f.k != factFalse || len(c.Common().Args) != 2 {
							continue
						}
						sc := c.Common().StaticCallee()
						if sc == nil || sc.Signature.Recv() == nil || !isNamed(sc.Signature.Recv().Type(), processPkg, "Name") {
							if sc == nil || sc.Signature.Recv() == nil {
								continue
							}
							if pt, ok := sc.Signature.Recv().Type().Underlying().(*types.Pointer); !ok || !isNamed(pt.Elem(), processPkg, "Name") {
								continue
							}
						}
						a0, a1 := accessPath(c.Common().Args[0]), accessPath(c.Common().Args[1])
						if (a0 == binder && a1 == ns) || (a0 == ns && a1 == binder) {
							distinct = true
						}
					}
					if !distinct {
						found = false
					}
				}
				// re-insertion of a name that is already an entry of the incoming context (the
				// cut re-adds a reused name after the split): not a new binder
				if !found {
					for f := range view.FactsAt(b) {
						if ex, ok := f.v.(*ssa.Extract); ok && f.k == factTrue && ex.Index == 1 {
							if lk, ok := ex.Tuple.(*ssa.Lookup); ok && lk.CommaOk && accessPath(lk.Index) == key {
								found = true
							}
						}
					}
				}
				if found {
					r.add(name, construct, Holds, p.instrPos(mu), "")
				} else {
					r.add(name, construct, Violated, p.instrPos(mu),
						fmt.Sprintf("%s enters the context here and no path to this point has established that %s(%s, shadow name) is false: a binder called like the provider is typed as the provider in the continuation but bound to a client channel at run time", binder, test.Name(), binder))
				}
			}
		}
	}
	r.count("binder insertions", n)
}
