// gritscheck – repository-specific static checker for gertab/Grits.
//
// Every verdict is decided by inspecting the type-checked source of /repo (go/packages,
// go/types, go/ssa, call graphs, and the yacc grammar). No Grits code is executed.
package main

import (
	"encoding/json"
	"flag"
	"fmt"
	"os"
	"os/exec"
	"path/filepath"
	"sort"
	"strconv"
	"strings"
	"sync"
	"time"
)

type emitResult struct {
	Config  string        `json:"config"`
	Error   string        `json:"error,omitempty"`
	Results []*RuleResult `json:"results"`
	NPkgs   int           `json:"n_packages"`
	NFuncs  int           `json:"n_functions"`
}

func main() {
	var (
		prop     = flag.String("prop", "", "property id (C01..C19)")
		tier     = flag.String("tier", "", "quick|thorough (default $VERIF_TIER or quick)")
		repo     = flag.String("repo", "/repo", "repository to analyse")
		verif    = flag.String("verif", "", "verif directory (default: parent of the executable's dir)")
		ruleFlag = flag.String("rule", "", "developer: run a single rule and print its obligations")
		all      = flag.Bool("all", false, "developer: run all properties at the given tier")
		emit     = flag.Bool("emit", false, "internal: run the property's rules for one configuration and print JSON")
		tags     = flag.String("tags", "", "internal: build tags")
		goarch   = flag.String("goarch", "", "internal: GOARCH")
		cg       = flag.String("cg", "vta", "internal: call graph for reachability rules (vta|cha)")
		fixture  = flag.String("fixture", "", "internal: apply the named self-test fixture as an overlay")
		replay   = flag.String("replay", "", "replay a violation file")
		list     = flag.Bool("list", false, "list properties and rules")
		verbose  = flag.Bool("v", false, "print every obligation")
		evdir    = flag.String("evidence-dir", "", "developer: write evidence and violation files below this directory instead of <verif>/evidence")
	)
	flag.Parse()
	finaliseProps()
	if *verif == "" {
		exe, err := os.Executable()
		if err == nil {
			*verif = filepath.Dir(filepath.Dir(exe))
		} else {
			*verif = "/verif"
		}
	}
	if *tier == "" {
		*tier = os.Getenv("VERIF_TIER")
		if *tier == "" {
			*tier = "quick"
		}
	}
	if *tier != "quick" && *tier != "thorough" {
		fmt.Fprintln(os.Stderr, "bad -tier")
		os.Exit(2)
	}
	useCHA = *cg == "cha"
	verifDir = *verif
	evidenceDir = *evdir

	switch {
	case *list:
		for _, id := range sortedPropIDs() {
			ps := propSpecs[id]
			fmt.Printf("%s [%s] quick=%v thorough+=%v\n", id, ps.Level, ps.Quick, ps.Thorough)
		}
		for _, n := range sortedRuleNames() {
			fmt.Printf("%s (min %d): %s\n", n, ruleRegistry[n].Min, ruleRegistry[n].Doc)
		}
		return
	case *replay != "":
		os.Exit(doReplay(*replay, *repo, *verif))
	case *ruleFlag != "":
		os.Exit(devRunRules(strings.Split(*ruleFlag, ","), LoadConfig{RepoDir: *repo, Tags: *tags, GOARCH: *goarch}, *fixture))
	case *emit:
		doEmit(*prop, *tier, LoadConfig{RepoDir: *repo, Tags: *tags, GOARCH: *goarch}, *fixture)
		return
	case *all:
		code := 0
		for _, id := range sortedPropIDs() {
			if c := runProperty(id, *tier, *repo, *verif, *verbose); c != 0 {
				code = c
			}
		}
		os.Exit(code)
	case *prop != "":
		os.Exit(runProperty(*prop, *tier, *repo, *verif, *verbose))
	default:
		flag.Usage()
		os.Exit(2)
	}
}

var useCHA bool
var evidenceDir string

func rulesFor(ps *PropSpec, tier string) []string {
	rs := append([]string{}, ps.Quick...)
	if tier == "thorough" {
		rs = append(rs, ps.Thorough...)
	}
	return rs
}

func runRules(p *Program, names []string) []*RuleResult {
	var out []*RuleResult
	for _, n := range names {
		r := ruleRegistry[n]
		if r == nil {
			res := &RuleResult{Rule: n}
			res.add("<checker>", "unknown-rule", Undecided, "", "rule not registered: "+n)
			out = append(out, res)
			continue
		}
		out = append(out, runRule(p, r))
	}
	return out
}

func devRunRules(names []string, cfg LoadConfig, fixture string) int {
	if fixture != "" {
		ov, err := fixtureOverlay(cfg.RepoDir, fixture)
		if err != nil {
			fmt.Println("fixture:", err)
			return 2
		}
		cfg.Overlay = ov
	}
	t0 := time.Now()
	p, err := loadProgram(cfg)
	if err != nil {
		fmt.Println("LOAD ERROR:", err)
		return 1
	}
	fmt.Printf("loaded %d packages, %d functions in %.2fs\n", len(p.Pkgs), len(p.SrcFuncs), time.Since(t0).Seconds())
	if len(names) == 1 && names[0] == "all" {
		names = sortedRuleNames()
	}
	code := 0
	for _, res := range runRules(p, names) {
		h, vi, u := 0, 0, 0
		for _, o := range res.Obligations {
			switch o.Verdict {
			case Holds:
				h++
			case Violated:
				vi++
			default:
				u++
			}
			fmt.Printf("  [%s] %s | %s | %s  %s  %s\n", o.Verdict, o.Rule, o.Function, o.Construct, o.Pos, oneLine(o.Detail))
		}
		fmt.Printf("%s: %d obligations, %d hold, %d violated, %d undecided; analysed=%v\n", res.Rule, len(res.Obligations), h, vi, u, res.Analysed)
		for _, n := range res.Notes {
			fmt.Println("   note:", n)
		}
		if vi+u > 0 {
			code = 1
		}
	}
	fmt.Printf("total %.2fs\n", time.Since(t0).Seconds())
	return code
}

// doEmit runs the rules of one property on one configuration and prints JSON.
func doEmit(prop, tier string, cfg LoadConfig, fixture string) {
	out := emitResult{Config: cfg.String()}
	defer func() {
		json.NewEncoder(os.Stdout).Encode(out)
	}()
	ps := propSpecs[prop]
	if ps == nil {
		out.Error = "unknown property " + prop
		return
	}
	if fixture != "" {
		ov, err := fixtureOverlay(cfg.RepoDir, fixture)
		if err != nil {
			out.Error = "fixture: " + err.Error()
			return
		}
		cfg.Overlay = ov
	}
	p, err := loadProgram(cfg)
	if err != nil {
		out.Error = err.Error()
		return
	}
	out.NPkgs, out.NFuncs = len(p.Pkgs), len(p.SrcFuncs)
	names := rulesFor(ps, tier)
	if useCHA {
		var cgRules []string
		for _, n := range names {
			if r := ruleRegistry[n]; r != nil && ruleUsesCallGraph[n] {
				cgRules = append(cgRules, n)
			}
		}
		names = cgRules
	}
	out.Results = runRules(p, names)
	for _, r := range out.Results {
		for i := range r.Obligations {
			r.Obligations[i].VerdictS = r.Obligations[i].Verdict.String()
		}
	}
}

func parseVerdict(s string) Verdict {
	switch s {
	case "holds":
		return Holds
	case "violated":
		return Violated
	}
	return Undecided
}

// subRun executes this binary with -emit for another configuration.
func subRun(prop, tier, repo string, extra ...string) (*emitResult, error) {
	exe, err := os.Executable()
	if err != nil {
		return nil, err
	}
	args := append([]string{"-emit", "-prop", prop, "-tier", tier, "-repo", repo, "-verif", verifDir}, extra...)
	cmd := exec.Command(exe, args...)
	cmd.Stderr = os.Stderr
	data, err := cmd.Output()
	if err != nil {
		return nil, fmt.Errorf("sub-run %v: %v", extra, err)
	}
	var er emitResult
	if err := json.Unmarshal(data, &er); err != nil {
		return nil, fmt.Errorf("sub-run %v: bad output: %v", extra, err)
	}
	for _, r := range er.Results {
		for i := range r.Obligations {
			r.Obligations[i].Verdict = parseVerdict(r.Obligations[i].VerdictS)
		}
	}
	return &er, nil
}

func keyVerdicts(rs []*RuleResult, only map[string]bool) map[string]string {
	m := map[string]string{}
	for _, r := range rs {
		if only != nil && !only[r.Rule] {
			continue
		}
		for _, o := range r.Obligations {
			m[o.Key()] = o.Verdict.String()
		}
	}
	return m
}

func diffVerdicts(a, b map[string]string) []string {
	var out []string
	for k, va := range a {
		if vb, ok := b[k]; !ok {
			out = append(out, fmt.Sprintf("%s: %s vs (absent)", k, va))
		} else if va != vb {
			out = append(out, fmt.Sprintf("%s: %s vs %s", k, va, vb))
		}
	}
	for k, vb := range b {
		if _, ok := a[k]; !ok {
			out = append(out, fmt.Sprintf("%s: (absent) vs %s", k, vb))
		}
	}
	sort.Strings(out)
	return out
}

func runProperty(id, tier, repo, verif string, verbose bool) int {
	t0 := time.Now()
	ps := propSpecs[id]
	if ps == nil {
		fmt.Printf("unknown property %s\n", id)
		return 2
	}
	seed, _ := strconv.Atoi(os.Getenv("VERIF_SEED"))
	evRoot := filepath.Join(verif, "evidence")
	if evidenceDir != "" {
		evRoot = evidenceDir
	}
	evPath := filepath.Join(evRoot, id+".json")
	vioDir := filepath.Join(evRoot, "violations")
	cleanViolations(vioDir, id)

	known, kerr := loadKnownFindings(filepath.Join(verif, "known_findings.json"))

	var results []*RuleResult
	var configs []string
	var extra []Obligation // checker-level obligations (load failures, config disagreement, fixtures)
	addExtra := func(rule, construct string, v Verdict, detail string) {
		extra = append(extra, Obligation{Rule: rule, Function: "<checker>", Construct: construct, Verdict: v, VerdictS: v.String(), Detail: detail})
	}
	if kerr != nil {
		addExtra("CHECKER", "known-findings-file", Undecided, kerr.Error())
		known = &KnownFindingsFile{}
	}

	cfg := LoadConfig{RepoDir: repo}
	nPkgs, nFuncs := 0, 0
	p, err := loadProgram(cfg)
	if err != nil {
		addExtra("CHECKER", "load:"+cfg.String(), Undecided, "cannot load/type-check "+repo+": "+err.Error())
	} else {
		nPkgs, nFuncs = len(p.Pkgs), len(p.SrcFuncs)
		configs = append(configs, cfg.String())
		results = runRules(p, rulesFor(ps, tier))
	}

	fixturesRun, fixturesFired, fixturesSkipped := 0, 0, 0
	var fixtureNotes []string
	if err == nil && tier == "thorough" {
		base := keyVerdicts(results, nil)
		// other build configurations, each in its own process
		for _, ex := range [][]string{{"-tags", "verif"}, {"-goarch", "386"}} {
			er, e := subRun(id, tier, repo, ex...)
			if e != nil || er.Error != "" {
				msg := ""
				if e != nil {
					msg = e.Error()
				} else {
					msg = er.Error
				}
				addExtra("CHECKER", "load:"+strings.Join(ex, "="), Undecided, msg)
				continue
			}
			configs = append(configs, er.Config)
			if d := diffVerdicts(base, keyVerdicts(er.Results, nil)); len(d) > 0 {
				// a violation present only under another configuration is reported as such
				for _, r := range er.Results {
					for _, o := range r.Obligations {
						if o.Verdict != Holds && base[o.Key()] != o.Verdict.String() {
							o.Detail = "[" + er.Config + "] " + o.Detail
							extra = append(extra, o)
						}
					}
				}
				addExtra("CHECKER", "config-agreement:"+er.Config, Undecided, "obligation sets differ between build configurations: "+strings.Join(d, "; "))
			} else {
				addExtra("CHECKER", "config-agreement:"+er.Config, Holds, fmt.Sprintf("%d obligations identical to the default configuration", len(base)))
			}
		}
		// CHA cross-check of call-graph based rules
		only := map[string]bool{}
		needVTA := false
		for _, n := range rulesFor(ps, tier) {
			if ruleUsesCallGraph[n] {
				if _, imprecise := chaIncomparable[n]; imprecise {
					needVTA = true
					continue
				}
				only[n] = true
			}
		}
		if needVTA {
			// rules for which CHA is too coarse to compare verdicts (see chaIncomparable):
			// instead check that VTA loses no dynamic call site that CHA resolves
			if lost, n := p.vtaLostSites(); len(lost) > 0 {
				addExtra("CHECKER", "vta-resolves-every-site", Undecided, "dynamic call sites in functions reachable from main for which the VTA call graph has no callee although CHA has first-party ones: "+strings.Join(lost, "; "))
			} else {
				addExtra("CHECKER", "vta-resolves-every-site", Holds, fmt.Sprintf("%d dynamic call sites in functions reachable from main: VTA resolves each to at least one callee", n))
			}
		}
		if len(only) > 0 {
			er, e := subRun(id, tier, repo, "-cg", "cha")
			if e != nil || er.Error != "" {
				addExtra("CHECKER", "cha-cross-check", Undecided, fmt.Sprint(e, er))
			} else if d := diffVerdicts(keyVerdicts(results, only), keyVerdicts(er.Results, only)); len(d) > 0 {
				addExtra("CHECKER", "cha-cross-check", Undecided, "verdicts on the VTA and CHA call graphs differ: "+strings.Join(d, "; "))
			} else {
				addExtra("CHECKER", "cha-cross-check", Holds, fmt.Sprintf("%d call-graph rules agree on VTA and CHA", len(only)))
			}
		}
	}
	// positive fixtures (self-test of zero-expected rules): thorough runs all fixtures of the
	// property's rules; quick runs none (they cost one reload each).
	if err == nil && tier == "thorough" {
		ruleSet := map[string]bool{}
		for _, n := range rulesFor(ps, tier) {
			ruleSet[n] = true
		}
		var todo []Fixture
		for _, fx := range fixtures {
			if ruleSet[fx.Rule] {
				todo = append(todo, fx)
			}
		}
		type fxRes struct {
			fired, skipped bool
			note           string
		}
		results := make([]fxRes, len(todo))
		sem := make(chan struct{}, 6)
		var wg sync.WaitGroup
		for i, fx := range todo {
			wg.Add(1)
			go func(i int, fx Fixture) {
				defer wg.Done()
				sem <- struct{}{}
				defer func() { <-sem }()
				f, sk, n := runFixture(id, tier, repo, fx)
				results[i] = fxRes{f, sk, n}
			}(i, fx)
		}
		wg.Wait()
		for i, fx := range todo {
			fixturesRun++
			rr := results[i]
			if rr.skipped {
				fixturesSkipped++
				fixtureNotes = append(fixtureNotes, "skipped "+fx.Name+": "+rr.note)
				continue
			}
			if rr.fired {
				fixturesFired++
			} else {
				addExtra("CHECKER", "fixture:"+fx.Name, Undecided, "positive fixture no longer makes rule "+fx.Rule+" fire: "+rr.note)
			}
		}
	}

	// ---- verdict ----
	var summaries []ruleSummary
	var samples []Obligation
	total, discharged, nViol, nKnown := 0, 0, 0, 0
	var violations []Obligation
	var knownHits []string
	handle := func(o Obligation) {
		total++
		switch o.Verdict {
		case Holds:
			discharged++
		default:
			if kf := known.match(id, &o); kf != nil {
				nKnown++
				knownHits = append(knownHits, fmt.Sprintf("KNOWN-FINDING: property=%s rule=%s %s %s: %s", id, o.Rule, o.Function, o.Construct, kf.What))
			} else {
				nViol++
				violations = append(violations, o)
			}
		}
	}
	for _, r := range results {
		s := ruleSummary{Rule: r.Rule, Analysed: r.Analysed, Notes: r.Notes}
		if rr := ruleRegistry[r.Rule]; rr != nil {
			s.Doc, s.MinRequired = rr.Doc, rr.Min
		}
		n := 0
		for _, o := range r.Obligations {
			s.Obligations++
			switch o.Verdict {
			case Holds:
				s.Holds++
			case Violated:
				s.Violated++
			default:
				s.Undecided++
			}
			if o.Verdict != Holds && known.match(id, &o) != nil {
				s.Known++
			}
			if n < 6 || o.Verdict != Holds {
				samples = append(samples, o)
				n++
			}
			handle(o)
		}
		summaries = append(summaries, s)
	}
	for _, o := range extra {
		samples = append(samples, o)
		handle(o)
	}

	for _, l := range knownHits {
		fmt.Println(l)
	}
	for i, o := range violations {
		path := filepath.Join(vioDir, fmt.Sprintf("%s-%d.json", id, i+1))
		writeJSON(path, ViolationFile{Property: id, Tier: tier, Config: cfg.String(), Obligation: o,
			Replay: fmt.Sprintf("./bin/gritscheck -replay %s", path)})
		fmt.Printf("VIOLATION property=%s replay=%s\n", id, path)
		fmt.Printf("  %s: rule %s [%s] in %s, construct %s: %s\n", o.Pos, o.Rule, o.Verdict, o.Function, o.Construct, oneLine(o.Detail))
	}
	if verbose {
		for _, r := range results {
			for _, o := range r.Obligations {
				fmt.Printf("  [%s] %s | %s | %s %s %s\n", o.Verdict, o.Rule, o.Function, o.Construct, o.Pos, oneLine(o.Detail))
			}
		}
	}

	cov := map[string]interface{}{
		"explanation":        claimText(verif, id, ps.Explanation) + " Rules applied at this tier: " + strings.Join(rulesFor(ps, tier), ", ") + " (one entry each under coverage.rules with its statement and counts).",
		"obligations":        total,
		"discharged":         discharged,
		"known_findings":     nKnown,
		"checker_cmd":        fmt.Sprintf("./bin/gritscheck -prop %s -tier %s", id, tier),
		"trusted_base":       []string{"go/packages + go/types (loading, type-checking)", "go/ssa of x/tools v0.29.0", "the view/facts/SCCP engines of this checker", "VTA/CHA call graphs"},
		"rules":              summaries,
		"samples":            samples,
		"build_configs":      configs,
		"packages_analysed":  nPkgs,
		"functions_analysed": nFuncs,
		"call_graph":         "static callees + VTA (thorough: CHA cross-check)",
		"exhaustive":         ps.Exhaustive && nViol == 0,
		"not_decided":        ps.NotDecided,
		"evaluations":        total,
		"distinct_nontrivial": func() int {
			seen := map[string]bool{}
			for _, r := range results {
				for _, o := range r.Obligations {
					seen[o.Key()] = true
				}
			}
			return len(seen)
		}(),
		"rule": "one evaluation = one obligation (rule instance on one construct of /repo, keyed rule+function+construct); distinct = distinct keys; all are non-trivial in the sense that each names a concrete construct of the analysed source",
	}
	if tier == "thorough" {
		cov["fixtures_run"] = fixturesRun
		cov["fixtures_fired"] = fixturesFired
		cov["fixtures_skipped"] = fixturesSkipped
		if len(fixtureNotes) > 0 {
			cov["fixture_notes"] = fixtureNotes
		}
	}
	ev := Evidence{PropertyID: id, Tier: tier, Seed: seed, Level: ps.Level, Coverage: cov,
		Assumptions: ps.Assumptions, WallS: time.Since(t0).Seconds(), Violations: nViol}
	if e := writeJSON(evPath, ev); e != nil {
		fmt.Println("cannot write evidence:", e)
		return 1
	}
	fmt.Printf("%s %s: %d obligations, %d discharged, %d known findings, %d violations (%.1fs) configs=%d\n",
		id, tier, total, discharged, nKnown, nViol, time.Since(t0).Seconds(), len(configs))
	if nViol > 0 {
		return 1
	}
	return 0
}

func doReplay(path, repo, verif string) int {
	data, err := os.ReadFile(path)
	if err != nil {
		fmt.Println(err)
		return 2
	}
	var vf ViolationFile
	if err := json.Unmarshal(data, &vf); err != nil {
		fmt.Println(err)
		return 2
	}
	p, err := loadProgram(LoadConfig{RepoDir: repo})
	if err != nil {
		fmt.Println("LOAD ERROR:", err)
		return 1
	}
	r := ruleRegistry[vf.Obligation.Rule]
	if r == nil {
		fmt.Printf("violation was raised by the checker itself (%s): %s\n", vf.Obligation.Construct, vf.Obligation.Detail)
		return 1
	}
	res := runRule(p, r)
	for _, o := range res.Obligations {
		if o.Function == vf.Obligation.Function && o.Construct == vf.Obligation.Construct {
			fmt.Printf("[%s] %s | %s | %s  %s\n  %s\n", o.Verdict, o.Rule, o.Function, o.Construct, o.Pos, o.Detail)
			if o.Verdict != Holds {
				fmt.Printf("VIOLATION property=%s replay=%s\n", vf.Property, path)
				return 1
			}
			return 0
		}
	}
	fmt.Printf("obligation %s no longer exists on the current tree\n", vf.Obligation.Key())
	return 0
}

func sortedPropIDs() []string {
	var ids []string
	for id := range propSpecs {
		ids = append(ids, id)
	}
	sort.Strings(ids)
	return ids
}

// claimText: the claim as stated in the manifest (single source: checker/manifest_claims.json).
func claimText(verif, id, fallback string) string {
	data, err := os.ReadFile(filepath.Join(verif, "checker", "manifest_claims.json"))
	if err != nil {
		return fallback
	}
	var m map[string]struct {
		Text string `json:"text"`
	}
	if json.Unmarshal(data, &m) != nil || m[id].Text == "" {
		return fallback
	}
	return m[id].Text
}
