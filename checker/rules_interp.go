package main

import (
	"fmt"
	"go/types"
	"sort"
	"strings"

	"golang.org/x/tools/go/ssa"
)

// Interpreter rules (C02, C03): R-DUP-FIRST, R-GC-PROPAGATES.

func init() {
	register(&Rule{Name: "R-DUP-FIRST", Min: 6,
		Doc: "every raw operation on a message/control channel (send, receive, select case) and every invocation of a transition callback, in a function that has a *Process parameter, is dominated by the false edge of a 'more than one provider' test whose true edge calls the duplication routine; other raw channel operations exist only in the forward form's methods (layering)",
		Run: runDupFirst})
	register(&Rule{Name: "R-GC-PROPAGATES", Min: 6,
		Doc: "dropping reclaims transitively: the drop rule spawns a to-drop forward for the dropped client before continuing; the handler of a received GC request spawns one for every free name of the body and terminates; the positive to-drop forward spawns one for each initialised channel of the swallowed message",
		Run: runGCPropagates})
}

func isMsgChan(t types.Type) bool {
	ch, ok := t.Underlying().(*types.Chan)
	if !ok {
		return false
	}
	return isNamed(ch.Elem(), processPkg, "Message") || isNamed(ch.Elem(), processPkg, "ControlMessage")
}

// duplicationRoutines: methods on *Process that call CopyForm(process.Body) in a loop and spawn.
func (p *Program) duplicationRoutines() map[*ssa.Function]bool {
	out := map[*ssa.Function]bool{}
	for _, fn := range p.SrcFuncs {
		if fn.Pkg == nil || fn.Pkg.Pkg.Path() != processPkg || fn.Signature.Recv() == nil || !isNamed(fn.Signature.Recv().Type(), processPkg, "Process") {
			continue
		}
		view := p.View(fn)
		for _, c := range p.callsIn(fn) {
			sc := c.Common().StaticCallee()
			if sc == nil || sc.Name() != "CopyForm" {
				continue
			}
			if !strings.HasSuffix(accessPath(c.Common().Args[0]), ".Body") {
				continue
			}
			for _, l := range view.Loops() {
				if l.Body[c.Block()] {
					out[fn] = true
				}
			}
		}
	}
	return out
}

func runDupFirst(p *Program, r *RuleResult) {
	dups := p.duplicationRoutines()
	if len(dups) == 0 {
		r.add("process", "duplication-routine", Undecided, "", "no duplication routine (CopyForm of the process body per provider) found")
		return
	}
	var dn []string
	for f := range dups {
		dn = append(dn, fnName(f))
	}
	sort.Strings(dn)
	r.note("duplication routines found by role: %v", dn)
	fwd := p.Named(processPkg, "ForwardForm")
	nOps, nGuarded, nForward := 0, 0, 0
	for _, fn := range p.SrcFuncs {
		pk := fn.Pkg
		root := fn
		for root.Parent() != nil {
			root = root.Parent()
		}
		pk = root.Pkg
		if pk == nil {
			continue
		}
		view := p.View(fn)
		name := fnName(fn)
		ord := 0
		for _, b := range view.Blocks() {
			for _, in := range view.Instrs(b) {
				what := ""
				switch x := in.(type) {
				case *ssa.Send:
					if isMsgChan(x.Chan.Type()) {
						what = "send"
					}
				case *ssa.UnOp:
					if x.Op.String() == "<-" && isMsgChan(x.X.Type()) {
						what = "receive"
					}
				case *ssa.Select:
					for _, st := range x.States {
						if isMsgChan(st.Chan.Type()) {
							what = "select"
						}
					}
				case *ssa.Call:
					// invocation of a callback parameter func() / func(Message)
					if prm, ok := x.Common().Value.(*ssa.Parameter); ok && !x.Common().IsInvoke() {
						if sig, ok := prm.Type().Underlying().(*types.Signature); ok && sig.Results().Len() == 0 && sig.Params().Len() <= 1 {
							hasProc := false
							for _, q := range fn.Params {
								if isNamed(q.Type(), processPkg, "Process") {
									hasProc = true
								}
							}
							if hasProc {
								what = "callback " + prm.Name()
							}
						}
					}
				}
				if what == "" {
					continue
				}
				nOps++
				ord++
				construct := fmt.Sprintf("channel-op#%d:%s", ord, strings.SplitN(what, " ", 2)[0])
				// forward form methods are the carriers of duplication requests
				if root.Signature.Recv() != nil && namedOf(root.Signature.Recv().Type()) == fwd {
					nForward++
					r.add(name, construct, Holds, p.instrPos(in), "forward form (carrier of forward/duplication requests): exempt by kind")
					continue
				}
				if pk.Pkg.Path() != processPkg {
					r.add(name, construct, Violated, p.instrPos(in), "raw "+what+" on a process channel outside package process (layering)")
					continue
				}
				var procParam *ssa.Parameter
				for _, q := range fn.Params {
					if isNamed(q.Type(), processPkg, "Process") {
						procParam = q
					}
				}
				if procParam == nil {
					r.add(name, construct, Violated, p.instrPos(in), "raw "+what+" on a process channel in a function that is not one of the guarded transition helpers")
					continue
				}
				// guarded: fact (len(process.Providers) > 1) == false holds, and the true edge calls a duplication routine
				guarded := false
				for f := range view.FactsAt(b) {
					bo, isB := f.v.(*ssa.BinOp)
					if !isB {
						continue
					}
					lc, isL := bo.X.(*ssa.Call)
					if !isL {
						continue
					}
					bi, isBi := lc.Common().Value.(*ssa.Builtin)
					if !isBi || bi.Name() != "len" || accessPath(lc.Common().Args[0]) != procParam.Name()+".Providers" {
						continue
					}
					k, isK := bo.Y.(*ssa.Const)
					if !isK {
						continue
					}
					atMostOne := (bo.Op.String() == ">" && k.Int64() == 1 && f.k == factFalse) || (bo.Op.String() == ">=" && k.Int64() == 2 && f.k == factFalse) ||
						(bo.Op.String() == "<=" && k.Int64() == 1 && f.k == factTrue) || (bo.Op.String() == "<" && k.Int64() == 2 && f.k == factTrue)
					if !atMostOne {
						continue
					}
					// the other edge duplicates
					for _, bb := range view.Blocks() {
						other := factTrue
						if f.k == factTrue {
							other = factFalse
						}
						if !view.holdsAt(bb, bo, other) {
							continue
						}
						for _, i2 := range view.Instrs(bb) {
							if c, ok := i2.(ssa.CallInstruction); ok && dups[c.Common().StaticCallee()] {
								guarded = true
							}
						}
					}
				}
				if guarded {
					nGuarded++
					r.add(name, construct, Holds, p.instrPos(in), "only with a single provider; with several the process is duplicated first")
				} else {
					r.add(name, construct, Violated, p.instrPos(in), "a process declared under several provider names can "+what+" before it has been duplicated: its clients would interact with one shared copy")
				}
			}
		}
	}
	r.count("raw channel operations / callbacks", nOps)
	r.count("guarded", nGuarded)
	r.count("forward-form sites", nForward)
}

func runGCPropagates(p *Program, r *RuleResult) {
	// the to-drop forward constructor: the function storing true into ForwardForm.to_drop
	var dropCtor *ssa.Function
	for _, fn := range p.SrcFuncs {
		for _, b := range fn.Blocks {
			for _, in := range b.Instrs {
				st, ok := in.(*ssa.Store)
				if !ok {
					continue
				}
				if _, n, ok := fieldNameOf(st.Addr); ok && n == "to_drop" {
					if c, ok := st.Val.(*ssa.Const); ok && c.Value != nil && c.Value.String() == "true" {
						dropCtor = fn
					}
				}
			}
		}
	}
	if dropCtor == nil {
		r.add("process", "to-drop-forward-constructor", Undecided, "", "no constructor of a forward with the to_drop flag set found")
		return
	}
	// helpers creating a process whose body is such a forward
	makers := map[*ssa.Function]bool{}
	for _, fn := range p.SrcFuncs {
		if len(p.callsTo(fn, dropCtor)) > 0 {
			makers[fn] = true
		}
	}
	pr := p.Named(processPkg, "Process")
	spawn := p.Method(pr, "SpawnThenTransition")
	// helpers that make such a process from their own parameters and spawn it on every path
	// (create + spawn extracted into one function): a call of one counts as maker + spawn
	spawningMakers := map[*ssa.Function]bool{}
	for _, fn := range p.SrcFuncs {
		if makers[fn] || fn.Parent() != nil {
			continue
		}
		view := p.View(fn)
		for _, c := range p.callsIn(fn) {
			call, ok := c.(*ssa.Call)
			if !ok || !makers[call.Common().StaticCallee()] {
				continue
			}
			fromParams := true
			for _, a := range call.Common().Args {
				isP := false
				for _, prm := range fn.Params {
					if a == ssa.Value(prm) {
						isP = true
					}
				}
				if !isP {
					fromParams = false
				}
			}
			if !fromParams {
				continue
			}
			var sp ssa.Instruction
			for _, u := range *call.Referrers() {
				if s, ok := u.(*ssa.Call); ok && s.Common().StaticCallee() == spawn {
					sp = s
				}
			}
			if sp == nil {
				continue
			}
			always := true
			for _, b := range view.Blocks() {
				ins := view.Instrs(b)
				if ret, ok := ins[len(ins)-1].(*ssa.Return); ok && !view.passedBefore(ret, func(in ssa.Instruction) bool { return in == sp }) {
					always = false
				}
			}
			if always {
				spawningMakers[fn] = true
			}
		}
	}
	// spawnsDropFor: instruction pair (maker call, spawn of its result)
	spawnOfMaker := func(fn *ssa.Function) []*ssa.Call {
		var out []*ssa.Call
		for _, c := range p.callsIn(fn) {
			call, ok := c.(*ssa.Call)
			if ok && spawningMakers[call.Common().StaticCallee()] {
				out = append(out, call)
				continue
			}
			if !ok || !makers[call.Common().StaticCallee()] {
				continue
			}
			for _, u := range *call.Referrers() {
				if s, ok := u.(*ssa.Call); ok && s.Common().StaticCallee() == spawn {
					out = append(out, call)
				}
			}
		}
		return out
	}
	// (a) drop rule
	drop := p.Named(processPkg, "DropForm")
	dt := p.Method(drop, "Transition")
	okA := false
	whyA := "the drop rule does not spawn a to-drop forward for the dropped client"
	for _, fn := range append([]*ssa.Function{dt}, dt.AnonFuncs...) {
		for _, mk := range spawnOfMaker(fn) {
			// the dropped client is an argument
			for _, a := range mk.Common().Args {
				if strings.HasSuffix(accessPath(a), ".client_c") {
					// before continuing: the store to process.Body / transitionLoop call comes after
					view := p.View(fn)
					cont := view.mayReachFrom(mk, nil, func(in ssa.Instruction) bool {
						c, ok := in.(ssa.CallInstruction)
						return ok && p.isTransitionLoop(c.Common().StaticCallee())
					}, nil)
					if len(cont) > 0 && view.passedBefore(cont[0], func(in ssa.Instruction) bool { return in == ssa.Instruction(mk) }) {
						okA = true
						whyA = "spawned before the process continues"
					}
				}
			}
		}
	}
	v := Holds
	if !okA {
		v = Violated
	}
	r.add(fnName(dt), "drop-spawns-to-drop-forward", v, p.pos(dt.Pos()), whyA)
	// (b) GC request handler: the function called when a received message's Rule == GC
	var gcHandlers []*ssa.Function
	for _, fn := range p.SrcFuncs {
		view := p.View(fn)
		for _, b := range view.Blocks() {
			for f := range view.FactsAt(b) {
				bo, ok := f.v.(*ssa.BinOp)
				if !ok || f.k != factTrue || bo.Op.String() != "==" {
					continue
				}
				k, ok := bo.Y.(*ssa.Const)
				if !ok || !isNamed(k.Type(), processPkg, "Rule") {
					continue
				}
				if p.ruleConstName(k.Int64()) != "GC" {
					continue
				}
				for _, in := range view.Instrs(b) {
					if c, ok := in.(*ssa.Call); ok && c.Common().StaticCallee() != nil && p.isFirstParty(c.Common().StaticCallee()) && len(b.Preds) == 1 {
						gcHandlers = append(gcHandlers, c.Common().StaticCallee())
					}
				}
			}
		}
	}
	if len(gcHandlers) == 0 {
		r.add("process", "gc-request-handler", Violated, "", "no handler for a received GC request found: a dropped provider is never reclaimed")
	}
	seenH := map[*ssa.Function]bool{}
	for _, h := range gcHandlers {
		if seenH[h] || strings.HasPrefix(h.Name(), "log") {
			continue
		}
		seenH[h] = true
		view := p.View(h)
		okB := false
		for _, mk := range spawnOfMaker(h) {
			for _, l := range view.Loops() {
				if !l.Body[mk.Block()] {
					continue
				}
				// the loop ranges over Body.FreeNames()
				for _, c := range p.callsIn(h) {
					if c.Common().IsInvoke() && c.Common().Method.Name() == "FreeNames" && strings.HasSuffix(accessPath(c.Common().Value), ".Body") {
						okB = true
					}
				}
			}
		}
		term := false
		for _, c := range p.callsIn(h) {
			if sc := c.Common().StaticCallee(); sc != nil && p.countsDeath(sc) {
				term = true
			}
		}
		switch {
		case !okB:
			r.add(fnName(h), "gc-cascades-to-free-names", Violated, p.pos(h.Pos()), "the GC handler does not spawn a to-drop forward for every free name of the process body: providers that only the dropped process depended on stay blocked forever")
		case !term:
			r.add(fnName(h), "gc-cascades-to-free-names", Violated, p.pos(h.Pos()), "the GC handler does not terminate the process")
		default:
			r.add(fnName(h), "gc-cascades-to-free-names", Holds, p.pos(h.Pos()), "")
		}
	}
	// (c) positive to-drop forward: for every message kind a positive provider writes on its own
	// channel, and every Name field that writer sets, the swallowed message's field is dropped
	fwd := p.Named(processPkg, "ForwardForm")
	ft := p.Method(fwd, "Transition")
	fview := p.View(ft)
	writers, _ := protocolTables(p, "Transition")
	nameFieldsOfMessage := map[string]bool{}
	mst := p.Named(processPkg, "Message").Underlying().(*types.Struct)
	for i := 0; i < mst.NumFields(); i++ {
		if isNameType2(mst.Field(i).Type()) {
			nameFieldsOfMessage[mst.Field(i).Name()] = true
		}
	}
	// which message kinds does the block exclude?
	ruleT := p.Named(processPkg, "Rule")
	excludes := func(b *ssa.BasicBlock, kind string) bool {
		for f := range fview.FactsAt(b) {
			bo, ok := f.v.(*ssa.BinOp)
			if !ok || bo.Op.String() != "==" || !types.Identical(bo.X.Type(), ruleT) {
				continue
			}
			k, ok := bo.Y.(*ssa.Const)
			if !ok {
				continue
			}
			kn := p.ruleConstName(k.Int64())
			if f.k == factTrue && kn != kind {
				return true
			}
			if f.k == factFalse && kn == kind {
				return true
			}
		}
		return false
	}
	msgField := func(v ssa.Value) string {
		if _, fn2, ok := fieldNameOf(v); ok {
			return fn2
		}
		if ld, ok := v.(*ssa.UnOp); ok {
			if _, fn2, ok := fieldNameOf(ld.X); ok {
				return fn2
			}
		}
		return ""
	}
	// direct idiom: maker(…, message.F) spawned; list idiom: append(list, message.F) … maker(…, elem of list)
	type cover struct {
		field string
		b     *ssa.BasicBlock
	}
	var covers []cover
	listSpawned := false
	for _, mk := range spawnOfMaker(ft) {
		for _, a := range mk.Common().Args {
			if f := msgField(a); nameFieldsOfMessage[f] {
				covers = append(covers, cover{f, mk.Block()})
			} else if isNameType2(a.Type()) {
				listSpawned = true // an element of a collection
			}
		}
	}
	if listSpawned {
		for _, c := range p.callsIn(ft) {
			call, ok := c.(*ssa.Call)
			if !ok {
				continue
			}
			if bi, ok := call.Common().Value.(*ssa.Builtin); !ok || bi.Name() != "append" {
				continue
			}
			if elems, ok := varargElems(call.Common().Args[1]); ok {
				for _, e := range elems {
					if f := msgField(e.val); nameFieldsOfMessage[f] {
						covers = append(covers, cover{f, call.Block()})
					}
				}
			}
		}
		// slice literals []Name{message.A, message.B}
		for _, b := range fview.Blocks() {
			for _, in := range fview.Instrs(b) {
				if sl, ok := in.(*ssa.Slice); ok {
					if elems, ok := varargElems(sl); ok {
						for _, e := range elems {
							if f := msgField(e.val); nameFieldsOfMessage[f] {
								covers = append(covers, cover{f, b})
							}
						}
					}
				}
			}
		}
	}
	nPairs := 0
	seenPair := map[string]bool{}
	for _, w := range writers {
		if w.side != "own" || w.kind == "FWD" || w.kind == "GC" {
			continue
		}
		for f := range w.fields {
			if !nameFieldsOfMessage[f] || seenPair[w.kind+f] {
				continue
			}
			seenPair[w.kind+f] = true
			nPairs++
			construct := fmt.Sprintf("to-drop-forward-drops:%s.%s", w.kind, f)
			ok := false
			for _, cv := range covers {
				if cv.field == f && !excludes(cv.b, w.kind) {
					ok = true
				}
			}
			if ok {
				r.add(fnName(ft), construct, Holds, p.pos(ft.Pos()), "")
			} else {
				r.add(fnName(ft), construct, Violated, p.pos(ft.Pos()),
					fmt.Sprintf("a dropped provider may answer with a %s message (written by %s) whose %s names a live channel, but the positive to-drop forward does not propagate the drop to it: that channel's provider is never reclaimed", w.kind, w.form, f))
			}
		}
	}
	if nPairs == 0 {
		r.add(fnName(ft), "to-drop-forward-drops", Undecided, p.pos(ft.Pos()), "no positive message kind with a channel payload found")
	}
	// the to-drop forward actively sends GC on the negative side
	sendsGC := false
	for _, b := range ft.Blocks {
		for _, in := range b.Instrs {
			st, ok := in.(*ssa.Store)
			if !ok {
				continue
			}
			if _, fname, ok := fieldNameOf(st.Addr); ok && fname == "Rule" {
				if k, ok := st.Val.(*ssa.Const); ok && p.ruleConstName(k.Int64()) == "GC" {
					sendsGC = true
				}
			}
		}
	}
	v = Holds
	if !sendsGC {
		v = Violated
	}
	r.add(fnName(ft), "negative-to-drop-forward-sends-GC", v, p.pos(ft.Pos()), "")
}

func (p *Program) ruleConstName(v int64) string {
	for _, c := range p.EnumConsts(p.Named(processPkg, "Rule")) {
		if cv, ok := constantInt(c); ok && cv == v {
			return c.Name()
		}
	}
	return ""
}
