package main

import (
	"fmt"
	"go/types"
	"strings"

	"golang.org/x/tools/go/ssa"
)

// Ownership rules (C13, C03, C14, C19): R-SPAWN-OWNERSHIP, R-COPY-PER-USE, R-MONITOR-COPY.

func init() {
	register(&Rule{Name: "R-SPAWN-OWNERSHIP", Min: 10,
		Doc: "the body handed to every new process (NewProcess) is nil, freshly built (a constructor or CopyForm result, created per loop iteration), or a child subtree of the executing form while the spawner keeps a different child; never the spawner's own live body",
		Run: runSpawnOwnership})
	register(&Rule{Name: "R-COPY-PER-USE", Min: 4,
		Doc: "a function definition's body is read-only after parsing: outside the parser every read of FunctionDefinition.Body flows only into CopyForm, the typing judgement, or effect-free methods (String/StringShort/FreeNames; Polarity only with the type-caching flag off); nothing stores into it",
		Run: runCopyPerUse})
	register(&Rule{Name: "R-MONITOR-COPY", Min: 6,
		Doc: "every update sent to the monitor carries a process whose body is nil or a CopyForm result made in the sending function; the monitor's state is written only from functions below its loop and read elsewhere only after the synchronous stop handshake",
		Run: runMonitorCopy})
	ruleUsesCallGraph["R-MONITOR-COPY"] = true
}

type bodyClass struct {
	kind string // nil | copy | fresh | child | mixed | other
	path string
	call *ssa.Call
}

func (p *Program) isFormConstructor(fn *ssa.Function) bool {
	if fn == nil || fn.Pkg == nil || fn.Pkg.Pkg.Path() != processPkg || fn.Signature.Recv() != nil || fn.Signature.Results().Len() != 1 {
		return false
	}
	rt := fn.Signature.Results().At(0).Type()
	n := namedOf(rt)
	if n == nil || !isPtr(rt) {
		return false
	}
	form := p.Named(processPkg, "Form").Underlying().(*types.Interface)
	if !types.Implements(rt, form) {
		return false
	}
	// returns a fresh allocation
	for _, b := range fn.Blocks {
		for _, in := range b.Instrs {
			if ret, ok := in.(*ssa.Return); ok {
				if _, ok := ret.Results[0].(*ssa.Alloc); !ok {
					return false
				}
			}
		}
	}
	return true
}

func (p *Program) classifyBody(v ssa.Value, seen map[ssa.Value]bool) bodyClass {
	if seen[v] {
		return bodyClass{kind: "copy"}
	}
	seen[v] = true
	v = origin(v)
	switch x := v.(type) {
	case *ssa.Const:
		if x.Value == nil {
			return bodyClass{kind: "nil"}
		}
	case *ssa.Call:
		if sc := x.Common().StaticCallee(); sc != nil {
			if sc.Name() == "CopyForm" && sc.Pkg != nil && sc.Pkg.Pkg.Path() == processPkg {
				return bodyClass{kind: "copy", call: x}
			}
			if p.isFormConstructor(sc) {
				return bodyClass{kind: "fresh", call: x}
			}
		}
	case *ssa.MakeInterface:
		return p.classifyBody(x.X, seen)
	case *ssa.ChangeInterface:
		return p.classifyBody(x.X, seen)
	case *ssa.TypeAssert:
		return p.classifyBody(x.X, seen)
	case *ssa.Phi:
		var first bodyClass
		for i, e := range x.Edges {
			c := p.classifyBody(e, seen)
			if i == 0 {
				first = c
			} else if c.kind != first.kind {
				// no body on one path, a private copy on the other: private either way
				if (c.kind == "nil" && first.kind == "copy") || (c.kind == "copy" && first.kind == "nil") {
					if c.kind == "copy" {
						first = c
					}
					continue
				}
				return bodyClass{kind: "mixed", path: first.kind + "/" + c.kind}
			}
		}
		return first
	case *ssa.UnOp:
		if pth := accessPath(x); pth != "" {
			return bodyClass{kind: "child", path: pth}
		}
	}
	return bodyClass{kind: "other", path: describeVal(v)}
}

func runSpawnOwnership(p *Program, r *RuleResult) {
	np := p.Func(processPkg, "NewProcess")
	ord := map[string]int{}
	n := 0
	for _, fn := range p.SrcFuncs {
		if fn.Pkg != nil && fn.Pkg.Pkg.Path() != processPkg {
			continue
		}
		if fn.Pkg == nil && !(fn.Parent() != nil && p.isFirstParty(fn.Parent()) && strings.HasPrefix(fnName(fn), "(*process.") || strings.HasPrefix(fnName(fn), "process.")) {
			continue
		}
		calls := p.callsTo(fn, np)
		if len(calls) == 0 {
			continue
		}
		view := p.View(fn)
		for _, c := range calls {
			n++
			name := fnName(fn)
			ord[name]++
			construct := fmt.Sprintf("new-process-body#%d", ord[name])
			bc := p.classifyBody(c.Common().Args[0], map[ssa.Value]bool{})
			switch bc.kind {
			case "nil":
				r.add(name, construct, Holds, p.instrPos(c), "no body")
			case "fresh":
				r.add(name, construct, Holds, p.instrPos(c), "freshly constructed form")
			case "copy":
				// inside a loop: the copy must be made in the same loop
				bad := ""
				for _, l := range view.Loops() {
					if l.Body[c.Block()] && bc.call != nil && !l.Body[bc.call.Block()] {
						bad = "the copy is made once outside the loop and shared by every process created in it"
					}
				}
				if bad != "" {
					r.add(name, construct, Violated, p.instrPos(c), bad)
				} else {
					r.add(name, construct, Holds, p.instrPos(c), "CopyForm result")
				}
			case "child":
				// the spawner must keep a different child: a store to <process>.Body of another field of the same form
				root := strings.SplitN(bc.path, ".", 2)[0]
				kept := ""
				search := []*ssa.Function{fn}
				if fn.Parent() != nil {
					search = append(search, fn.Parent())
				}
				for _, f := range search {
					for _, b := range f.Blocks {
						for _, in := range b.Instrs {
							st, ok := in.(*ssa.Store)
							if !ok {
								continue
							}
							if _, fname, ok := fieldNameOf(st.Addr); !ok || fname != "Body" {
								continue
							}
							vp := accessPath(st.Val)
							if strings.HasPrefix(vp, root+".") && vp != bc.path {
								kept = vp
							}
						}
					}
				}
				isLive := strings.HasSuffix(bc.path, ".Body") // process.Body itself
				switch {
				case isLive:
					r.add(name, construct, Violated, p.instrPos(c), fmt.Sprintf("the new process is given %s, the spawner's own live body: two goroutines then own (and mutate by substitution) the same tree", bc.path))
				case kept == "":
					r.add(name, construct, Violated, p.instrPos(c), fmt.Sprintf("the new process is given %s but the spawner does not move on to a different child of the same form", bc.path))
				default:
					// ordering: when the new process starts running, the spawner's body must
					// already be the other child; as long as it is still the whole form, every
					// deep read of the spawner's body (monitor snapshot, logging) reads the
					// subtree the new goroutine is rewriting
					newProc, _ := c.(ssa.Value)
					late := ""
					if newProc != nil && fn.Parent() == nil || newProc != nil {
						isKeep := func(in ssa.Instruction) bool {
							st, ok := in.(*ssa.Store)
							if !ok {
								return false
							}
							if _, fname, ok := fieldNameOf(st.Addr); !ok || fname != "Body" {
								return false
							}
							vp := accessPath(st.Val)
							return strings.HasPrefix(vp, root+".") && vp != bc.path
						}
						for _, c2 := range p.callsIn(fn) {
							uses := false
							for _, a := range c2.Common().Args {
								if a == newProc {
									uses = true
								}
							}
							if !uses || c2 == c {
								continue
							}
							sc := c2.Common().StaticCallee()
							starts := false
							if _, isGo := c2.(*ssa.Go); isGo {
								starts = true
							}
							if sc != nil {
								for _, c3 := range p.callsIn(sc) {
									if _, isGo := c3.(*ssa.Go); isGo {
										starts = true
									}
								}
							}
							if starts && !view.passedBefore(c2, isKeep) {
								late = p.instrPos(c2)
							}
						}
					}
					if late != "" {
						r.add(name, construct, Violated, p.instrPos(c), fmt.Sprintf("the new process (body %s) is started at %s while the spawner's body is still the whole form: until the spawner moves on to %s, whatever reads the spawner's body deeply (the monitor's snapshot when the rule is reported, logging) reads the subtree the new goroutine is already rewriting", bc.path, late, kept))
					} else {
						r.add(name, construct, Holds, p.instrPos(c), fmt.Sprintf("disjoint subtrees: spawned %s, spawner keeps %s and has moved on to it before the new process starts", bc.path, kept))
					}
				}
			default:
				r.add(name, construct, Violated, p.instrPos(c), fmt.Sprintf("the body of the new process is neither fresh, a copy, nor a disjoint child of the executing form (%s %s): it may be shared with a running goroutine", bc.kind, bc.path))
			}
		}
	}
	r.count("NewProcess call sites", n)
}

func runCopyPerUse(p *Program, r *RuleResult) {
	fd := p.Named(processPkg, "FunctionDefinition")
	st := fd.Underlying().(*types.Struct)
	bodyIdx := -1
	for i := 0; i < st.NumFields(); i++ {
		if st.Field(i).Name() == "Body" {
			bodyIdx = i
		}
	}
	if bodyIdx < 0 {
		anchorFail("field FunctionDefinition.Body")
	}
	isFD := func(t types.Type) bool {
		if pt, ok := t.Underlying().(*types.Pointer); ok {
			t = pt.Elem()
		}
		return types.Identical(t, fd)
	}
	ord := map[string]int{}
	nReads := 0
	for _, fn := range p.SrcFuncs {
		pk := fn.Pkg
		if pk == nil && fn.Parent() != nil {
			pk = fn.Parent().Pkg
		}
		if pk == nil || pk.Pkg.Path() == parserPkg {
			continue
		}
		view := p.View(fn)
		name := fnName(fn)
		for _, b := range view.Blocks() {
			for _, in := range view.Instrs(b) {
				var val ssa.Value
				switch x := in.(type) {
				case *ssa.FieldAddr:
					if x.Field == bodyIdx && isFD(x.X.Type()) {
						// stores are forbidden, loads are reads
						for _, u := range *x.Referrers() {
							switch y := u.(type) {
							case *ssa.Store:
								if y.Addr == ssa.Value(x) {
									ord[name]++
									r.add(name, fmt.Sprintf("definition-body-write#%d", ord[name]), Violated, p.instrPos(y), "a function definition's body is overwritten after parsing")
								}
							case *ssa.UnOp:
								val = y
								nReads++
								ord[name]++
								judgeBodyRead(p, r, view, fn, y, fmt.Sprintf("definition-body-read#%d", ord[name]))
							}
						}
					}
				case *ssa.Field:
					if x.Field == bodyIdx && isFD(x.X.Type()) {
						nReads++
						ord[name]++
						judgeBodyRead(p, r, view, fn, x, fmt.Sprintf("definition-body-read#%d", ord[name]))
					}
				}
				_ = val
			}
		}
	}
	r.count("reads of FunctionDefinition.Body outside the parser", nReads)
}

func judgeBodyRead(p *Program, r *RuleResult, view *View, fn *ssa.Function, v ssa.Value, construct string) {
	bad := ""
	var check func(v ssa.Value, depth int)
	check = func(v ssa.Value, depth int) {
		refs := v.Referrers()
		if refs == nil || depth > 4 {
			return
		}
		for _, u := range *refs {
			switch x := u.(type) {
			case *ssa.DebugRef:
			case *ssa.Phi, *ssa.ChangeInterface, *ssa.MakeInterface:
				check(x.(ssa.Value), depth+1)
			case ssa.CallInstruction:
				com := x.Common()
				if sc := com.StaticCallee(); sc != nil && sc.Name() == "CopyForm" {
					continue
				}
				if com.IsInvoke() && com.Value == v {
					switch com.Method.Name() {
					case "String", "StringShort", "FreeNames", "typecheckForm":
						continue
					case "Polarity":
						// only with the type-caching flag off: first argument known false at this point
						if len(com.Args) > 0 && view.holdsAt(u.Block(), com.Args[0], factFalse) {
							continue
						}
						bad = "Polarity is invoked on the definition's body with the from-types flag possibly set (Name.Polarity then caches unfolded types in the shared tree)"
						continue
					}
					bad = fmt.Sprintf("method %s is invoked directly on the definition's body at %s: a run must only touch a CopyForm of it", com.Method.Name(), p.instrPos(u))
					continue
				}
				bad = fmt.Sprintf("the definition's body is passed to %s at %s without being copied", calleeName(x), p.instrPos(u))
			case *ssa.Store:
				if x.Val == v {
					bad = fmt.Sprintf("the definition's body itself is stored at %s (installed as a live body) instead of a copy", p.instrPos(u))
				}
			case *ssa.BinOp, *ssa.If:
			case *ssa.Return:
				bad = "the definition's body is returned to a caller"
			case *ssa.TypeAssert:
				check(x, depth+1)
			case *ssa.Extract:
				check(x, depth+1)
			default:
				bad = fmt.Sprintf("unrecognised use of the definition's body (%T) at %s", u, p.instrPos(u))
			}
		}
	}
	check(v, 0)
	pos := ""
	if in, ok := v.(ssa.Instruction); ok {
		pos = p.instrPos(in)
	}
	if bad != "" {
		r.add(fnName(fn), construct, Violated, pos, bad)
	} else {
		r.add(fnName(fn), construct, Holds, pos, "flows only into CopyForm / the typing judgement / effect-free methods")
	}
}

func runMonitorCopy(p *Program, r *RuleResult) {
	g := p.VTA()
	if useCHA {
		g = p.CHA()
	}
	mon := p.Named(processPkg, "Monitor")
	upd := p.Named(processPkg, "MonitorUpdate")
	// (1) sends of MonitorUpdate
	nSend := 0
	for _, fn := range p.SrcFuncs {
		view := p.View(fn)
		for _, b := range view.Blocks() {
			for _, in := range view.Instrs(b) {
				s, ok := in.(*ssa.Send)
				if !ok {
					continue
				}
				ch, ok := s.Chan.Type().Underlying().(*types.Chan)
				if !ok || !types.Identical(ch.Elem(), upd) {
					continue
				}
				nSend++
				name := fnName(fn)
				construct := "monitor-update"
				// the value: load of a local MonitorUpdate whose `process` field was stored a *NewProcess(...)
				var procVal ssa.Value
				procFn := fn
				fromLiteral := func(v ssa.Value) ssa.Value {
					var pv ssa.Value
					if ld, ok := v.(*ssa.UnOp); ok {
						if al, ok := ld.X.(*ssa.Alloc); ok {
							for _, u := range *al.Referrers() {
								fa, ok := u.(*ssa.FieldAddr)
								if !ok {
									continue
								}
								if _, n, _ := fieldNameOf(fa); n != "process" {
									continue
								}
								for _, st := range storesTo(fa) {
									pv = st.Val
								}
							}
						}
					}
					return pv
				}
				procVal = fromLiteral(s.X)
				if hc, ok := s.X.(*ssa.Call); ok && procVal == nil {
					// the update is built by a helper with one return: read its literal there
					if h := hc.Common().StaticCallee(); h != nil && p.isFirstParty(h) && h.Blocks != nil {
						nRet := 0
						var pv ssa.Value
						for _, hb := range h.Blocks {
							for _, hin := range hb.Instrs {
								if ret, ok := hin.(*ssa.Return); ok && len(ret.Results) == 1 {
									nRet++
									pv = fromLiteral(ret.Results[0])
								}
							}
						}
						if nRet == 1 && pv != nil {
							procVal, procFn = pv, h
						}
					}
				}
				if procVal == nil {
					r.add(name, construct, Undecided, p.instrPos(s), "cannot find the process carried by the update")
					continue
				}
				// *NewProcess(body, ...), here or in a snapshot helper all of whose returns are
				// such a freshly built process
				var body ssa.Value
				bodyFn := procFn
				newProcBody := func(v ssa.Value) ssa.Value {
					if ld, ok := v.(*ssa.UnOp); ok {
						if c, ok := ld.X.(*ssa.Call); ok && c.Common().StaticCallee() != nil && c.Common().StaticCallee().Name() == "NewProcess" {
							return c.Common().Args[0]
						}
					}
					return nil
				}
				body = newProcBody(procVal)
				if hc, ok := procVal.(*ssa.Call); ok && body == nil {
					if h := hc.Common().StaticCallee(); h != nil && p.isFirstParty(h) && h.Blocks != nil {
						var only ssa.Value
						nRet := 0
						for _, hb := range h.Blocks {
							for _, hin := range hb.Instrs {
								if ret, ok := hin.(*ssa.Return); ok && len(ret.Results) == 1 {
									nRet++
									only = newProcBody(ret.Results[0])
								}
							}
						}
						if nRet == 1 && only != nil {
							body, bodyFn = only, h
						}
					}
				}
				if body == nil {
					r.add(name, construct, Violated, p.instrPos(s), "the update carries a process that was not freshly built for the monitor (a live process is shared with the monitor goroutine)")
					continue
				}
				bc := p.classifyBody(body, map[ssa.Value]bool{})
				if bc.kind == "nil" || (bc.kind == "copy" && bc.call != nil && bc.call.Parent() == bodyFn) {
					r.add(name, construct, Holds, p.instrPos(s), "body is "+bc.kind)
				} else {
					r.add(name, construct, Violated, p.instrPos(s), fmt.Sprintf("the process sent to the monitor has a body that is not a private copy (%s %s): the monitor goroutine reads it while the process mutates it", bc.kind, bc.path))
				}
			}
		}
	}
	r.count("monitor update sends", nSend)
	// (2) confinement of the monitor's state
	loop := p.Method(mon, "monitorLoop")
	below := p.reachableFuncs([]*ssa.Function{loop}, useCHA)
	_ = g
	stateFields := map[string]bool{}
	mst := mon.Underlying().(*types.Struct)
	for i := 0; i < mst.NumFields(); i++ {
		f := mst.Field(i)
		switch f.Type().Underlying().(type) {
		case *types.Slice, *types.Map:
			stateFields[f.Name()] = true
		case *types.Basic:
			if f.Name() != "i" {
				stateFields[f.Name()] = true
			}
		}
	}
	stop := p.Method(mon, "stopMonitor")
	for _, fn := range p.SrcFuncs {
		view := p.View(fn)
		name := fnName(fn)
		ord := map[string]int{}
		for _, b := range view.Blocks() {
			for _, in := range view.Instrs(b) {
				fa, ok := in.(*ssa.FieldAddr)
				if !ok || !isNamed(fa.X.Type(), processPkg, "Monitor") {
					continue
				}
				_, fname, _ := fieldNameOf(fa)
				if !stateFields[fname] {
					continue
				}
				if _, fresh := fa.X.(*ssa.Alloc); fresh {
					continue // constructor literal
				}
				if below[fn] {
					continue
				}
				// access outside the monitor goroutine: only after the stop handshake
				ord[fname]++
				construct := fmt.Sprintf("monitor-state:%s#%d", fname, ord[fname])
				isStop := func(i ssa.Instruction) bool {
					c, ok := i.(*ssa.Call)
					return ok && c.Common().StaticCallee() == stop
				}
				// after the handshake here, or at every call site of this function (transitively)
				var afterStop func(f *ssa.Function, at ssa.Instruction, depth int) (bool, bool)
				afterStop = func(f *ssa.Function, at ssa.Instruction, depth int) (ok bool, reachable bool) {
					if p.View(f).passedBefore(at, isStop) {
						return true, true
					}
					if depth > 3 {
						return false, true
					}
					any := false
					all := true
					for _, caller := range p.SrcFuncs {
						for _, c := range p.callsIn(caller) {
							for _, callee := range p.Callees(g, c) {
								if callee != f {
									continue
								}
								any = true
								if o, _ := afterStop(caller, c, depth+1); !o {
									all = false
								}
							}
						}
					}
					if !any {
						return false, false
					}
					return all, true
				}
				after, reachable := afterStop(fn, fa, 0)
				if !reachable {
					r.note("%s reads monitor state %s but has no caller in the analysed program (not judged)", name, fname)
					continue
				}
				if after && p.isSyncSend(stop) {
					r.add(name, construct, Holds, p.instrPos(fa), "after the synchronous stop handshake")
				} else {
					r.add(name, construct, Violated, p.instrPos(fa), fmt.Sprintf("monitor state %s is accessed outside the monitor goroutine without the stop handshake before it", fname))
				}
			}
		}
	}
}

// isSyncSend: fn sends on a channel field that is created unbuffered.
func (p *Program) isSyncSend(fn *ssa.Function) bool {
	for _, b := range fn.Blocks {
		for _, in := range b.Instrs {
			if s, ok := in.(*ssa.Send); ok {
				_, fname, ok := fieldNameOf(func() ssa.Value {
					if ld, ok := s.Chan.(*ssa.UnOp); ok {
						return ld.X
					}
					return s.Chan
				}())
				if !ok {
					continue
				}
				// find the make(chan) stored into that field
				for _, f := range p.SrcFuncs {
					for _, bb := range f.Blocks {
						for _, i2 := range bb.Instrs {
							st, ok := i2.(*ssa.Store)
							if !ok {
								continue
							}
							if _, n2, ok := fieldNameOf(st.Addr); ok && n2 == fname {
								if mc, ok := origin(st.Val).(*ssa.MakeChan); ok {
									if c, ok := mc.Size.(*ssa.Const); ok && c.Int64() == 0 {
										return true
									}
								}
							}
						}
					}
				}
			}
		}
	}
	return false
}

// R-COPY-DEEP (C03, C13, C14): CopyForm returns a tree that shares no Form node with its argument.
func init() {
	register(&Rule{Name: "R-COPY-DEEP", Min: 9,
		Doc: "in CopyForm (and CopyType) every child of interface type Form/SessionType handed to the constructor of the copy is itself the result of a recursive copy, never a field of the original",
		Run: runCopyDeep})
}

func runCopyDeep(p *Program, r *RuleResult) {
	for _, spec := range []struct {
		pkg, fn string
		isChild func(t types.Type) bool
	}{
		{processPkg, "CopyForm", func(t types.Type) bool { return isFormType(t) || isBranchSlice(t) }},
		{typesPkg, "CopyType", func(t types.Type) bool { return isSessionTypeType(t) || isOptionSlice(t) }},
	} {
		fn := p.Func(spec.pkg, spec.fn)
		name := fnName(fn)
		n := 0
		for _, c := range p.callsIn(fn) {
			call, ok := c.(*ssa.Call)
			if !ok {
				continue
			}
			sc := call.Common().StaticCallee()
			if sc == nil || sc == fn || !p.isFirstParty(sc) || sc.Signature.Recv() != nil {
				continue
			}
			// constructor of a copy: returns a pointer to a struct implementing the copied interface
			resT := sc.Signature.Results()
			if resT.Len() != 1 || namedOf(resT.At(0).Type()) == nil || !isPtr(resT.At(0).Type()) {
				continue
			}
			for i, a := range call.Common().Args {
				if !spec.isChild(a.Type()) {
					continue
				}
				n++
				construct := fmt.Sprintf("%s-arg%d", sc.Name(), i+1)
				if isRecursiveCopy(a, fn, map[ssa.Value]bool{}) {
					r.add(name, construct, Holds, p.instrPos(call), "")
				} else {
					r.add(name, construct, Violated, p.instrPos(call),
						fmt.Sprintf("the copy built by %s receives child %s of the original instead of a copy of it: the subtree is shared by the definition and all its instances, so one instance's in-place substitutions are seen by the others", sc.Name(), describeVal(a)))
				}
			}
		}
		if n == 0 {
			r.add(name, "copy-constructors", Undecided, p.pos(fn.Pos()), "no constructor call with child arguments found")
		}
	}
}

// isRecursiveCopy: v is a result of `copyFn` (possibly asserted/converted), or a slice
// all of whose element stores are such results.
func isRecursiveCopy(v ssa.Value, copyFn *ssa.Function, seen map[ssa.Value]bool) bool {
	if seen[v] {
		return true
	}
	seen[v] = true
	switch x := v.(type) {
	case *ssa.Call:
		sc := x.Common().StaticCallee()
		if sc == copyFn {
			return true
		}
		// a helper of the same package that builds the copies (copyBranches): every value it
		// returns must itself be made of copies
		if sc == nil || sc.Pkg == nil || sc.Pkg != copyFn.Pkg || len(sc.Blocks) == 0 {
			return false
		}
		n := 0
		for _, b := range sc.Blocks {
			for _, in := range b.Instrs {
				if ret, ok := in.(*ssa.Return); ok {
					n++
					if len(ret.Results) != 1 || !isRecursiveCopy(ret.Results[0], copyFn, seen) {
						return false
					}
				}
			}
		}
		return n > 0
	case *ssa.TypeAssert:
		return isRecursiveCopy(x.X, copyFn, seen)
	case *ssa.ChangeInterface:
		return isRecursiveCopy(x.X, copyFn, seen)
	case *ssa.MakeInterface:
		return isRecursiveCopy(x.X, copyFn, seen)
	case *ssa.Extract:
		return isRecursiveCopy(x.Tuple, copyFn, seen)
	case *ssa.Phi:
		for _, e := range x.Edges {
			if !isRecursiveCopy(e, copyFn, seen) {
				return false
			}
		}
		return true
	case *ssa.UnOp:
		if o := origin(x); o != ssa.Value(x) {
			return isRecursiveCopy(o, copyFn, seen)
		}
		return false
	case *ssa.MakeSlice:
		// every element store into this slice must be a copy
		ok, any := true, false
		for _, u := range *x.Referrers() {
			ia, isIA := u.(*ssa.IndexAddr)
			if !isIA {
				continue
			}
			for _, w := range *ia.Referrers() {
				switch st := w.(type) {
				case *ssa.Store:
					if st.Addr == ssa.Value(ia) {
						any = true
						if !isRecursiveCopy(st.Val, copyFn, seen) {
							ok = false
						}
					}
				case *ssa.FieldAddr:
					// element struct fields (Option.SessionType)
					for _, w2 := range *st.Referrers() {
						if s2, isSt := w2.(*ssa.Store); isSt && s2.Addr == ssa.Value(st) {
							if isSessionTypeType(s2.Val.Type()) || isFormType(s2.Val.Type()) {
								any = true
								if !isRecursiveCopy(s2.Val, copyFn, seen) {
									ok = false
								}
							}
						}
					}
				}
			}
		}
		return ok && any
	}
	return false
}
