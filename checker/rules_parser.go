package main

import (
	"fmt"
	"go/token"
	"go/types"
	"path/filepath"
	"strings"

	"golang.org/x/tools/go/ssa"
)

// Parser rules: R-GENERATED (C12, C15, C11), R-KIND-EXH and R-PARSE-ERR (C12).

var verifDir = "/verif"

func init() {
	register(&Rule{Name: "R-GENERATED", Min: 4,
		Doc: "the committed parser.y.go is exactly goyacc(parser.y) (modulo //line comments and the header), the grammar has no conflicts and no error productions, and the accept action is on the end marker only",
		Run: runGenerated})
	register(&Rule{Name: "R-KIND-EXH", Min: 5,
		Doc: "every statement kind of the parser is handled in expandProcesses on a branch that appends to a returned collection (no declaration is silently dropped)",
		Run: runKindExh})
	register(&Rule{Name: "R-PARSE-ERR", Min: 4,
		Doc: "Parse reports the lexer's recorded error whenever one was recorded (success only through the default arm of the select on the error channel, after the generated parser ran), the error channel has capacity for it, and ParseReader/ParseString/ParseFile return success only when every callee error was nil",
		Run: runParseErr})
}

func runGenerated(p *Program, r *RuleResult) {
	fnm := "parser/parser.y"
	gf, err := regenerateParser(p.RepoDir, verifDir)
	if err != nil {
		r.add(fnm, "regenerate", Undecided, "", err.Error())
		return
	}
	if gf.Identical {
		r.add(fnm, "generated-file-up-to-date", Holds, "", "parser.y.go == goyacc(parser.y) modulo //line comments and header")
	} else {
		r.add(fnm, "generated-file-up-to-date", Violated, "parser/parser.y.go:1", "the committed parser is not what goyacc generates from the committed grammar: "+gf.Diff)
	}
	if strings.HasPrefix(gf.ConflictLine, "0 shift/reduce, 0 reduce/reduce") {
		r.add(fnm, "no-conflicts", Holds, "", gf.ConflictLine)
	} else {
		r.add(fnm, "no-conflicts", Violated, "", "goyacc reports: "+gf.ConflictLine+" (the printer/grammar agreement of C15 and the accept-on-end argument rely on a conflict-free grammar)")
	}
	if gf.AcceptOnEnd {
		r.add(fnm, "accept-on-end-marker-only", Holds, "", fmt.Sprintf("%d states", gf.States))
	} else {
		r.add(fnm, "accept-on-end-marker-only", Violated, "", "the accept action is not restricted to the end marker")
	}
	g, err := parseYacc(filepath.Join(p.RepoDir, "parser", "parser.y"))
	if err != nil {
		r.add(fnm, "grammar-readable", Undecided, "", err.Error())
		return
	}
	if g.HasErrorTk {
		r.add(fnm, "no-error-productions", Violated, "", "the grammar uses the error token: more than one syntax error could be reported into the 1-slot channel")
	} else {
		r.add(fnm, "no-error-productions", Holds, "", fmt.Sprintf("%d productions", len(g.Prods)))
	}
	r.count("productions", len(g.Prods))
	r.count("parser states", gf.States)
}

func runKindExh(p *Program, r *RuleResult) {
	kind := p.Named(parserPkg, "Kind")
	consts := p.EnumConsts(kind)
	fn := p.expandFunc()
	name := fnName(fn)
	r.count("statement kinds", len(consts))
	// the expansion function and the helpers it hands the statement list to (a pass over
	// the statements moved into a function of its own)
	scan := []*ssa.Function{fn}
	for _, c := range p.callsIn(fn) {
		h := c.Common().StaticCallee()
		if h == nil || h.Blocks == nil || h.Pkg != fn.Pkg || h == fn {
			continue
		}
		takes := false
		for _, a := range c.Common().Args {
			if sl, ok := a.Type().Underlying().(*types.Slice); ok {
				if st, ok := sl.Elem().Underlying().(*types.Struct); ok {
					for i := 0; i < st.NumFields(); i++ {
						if types.Identical(st.Field(i).Type(), kind) {
							takes = true
						}
					}
				}
			}
		}
		if takes {
			scan = append(scan, h)
		}
	}
	isAppend := func(in ssa.Instruction) bool {
		call, ok := in.(*ssa.Call)
		if !ok {
			return false
		}
		bi, ok := call.Common().Value.(*ssa.Builtin)
		return ok && bi.Name() == "append"
	}
	// kindTest: the branch compares a statement's kind with cv; returns the fact that holds
	// in the arm of that kind and the index of the successor entering it
	kindTest := func(iff *ssa.If, cv int64) (*ssa.BinOp, factKind, int, bool) {
		bo, ok := iff.Cond.(*ssa.BinOp)
		if !ok || (bo.Op != token.EQL && bo.Op != token.NEQ) {
			return nil, 0, 0, false
		}
		k, ok := bo.Y.(*ssa.Const)
		if !ok || !types.Identical(k.Type(), kind) || k.Int64() != cv {
			return nil, 0, 0, false
		}
		if bo.Op == token.EQL {
			return bo, factTrue, 0, true
		}
		return bo, factFalse, 1, true
	}
	for _, c := range consts {
		cv, _ := constantInt(c)
		handled := false
		why := "no comparison of a statement's kind with this constant"
		skip := ""
		for _, sf := range scan {
			view := p.View(sf)
			for _, b := range view.Blocks() {
				ins := view.Instrs(b)
				iff, ok := ins[len(ins)-1].(*ssa.If)
				if !ok {
					continue
				}
				bo, fk, armIdx, ok := kindTest(iff, cv)
				if !ok {
					continue
				}
				if !handled {
					why = "compared, but the branch does not append to a returned collection"
				}
				armHandled := false
				for _, rb := range view.Blocks() {
					if !view.holdsAt(rb, bo, fk) {
						continue
					}
					for _, in := range view.Instrs(rb) {
						if isAppend(in) {
							armHandled = true
						}
					}
				}
				if !armHandled {
					continue
				}
				handled = true
				// every statement of the kind: from the entry of the arm no way leads on to
				// the next statement (the loop header) without an append
				var loop *Loop
				for _, l := range view.Loops() {
					if l.Body[b] && (loop == nil || len(l.Body) < len(loop.Body)) {
						loop = l
					}
				}
				if loop == nil || len(view.Succs(b)) != 2 {
					continue
				}
				seen := map[*ssa.BasicBlock]bool{}
				var walk func(x *ssa.BasicBlock)
				walk = func(x *ssa.BasicBlock) {
					if skip != "" || seen[x] {
						return
					}
					seen[x] = true
					for _, in := range view.Instrs(x) {
						if isAppend(in) {
							return
						}
					}
					for _, su := range view.Succs(x) {
						if su == loop.Header {
							xi := view.Instrs(x)
							skip = p.instrPos(xi[len(xi)-1])
							if skip == "" || skip == "-" {
								skip = "block " + x.Comment
							}
							return
						}
						if loop.Body[su] {
							walk(su)
						}
					}
				}
				walk(view.Succs(b)[armIdx])
			}
		}
		if handled && skip != "" {
			r.add(name, "kind:"+c.Name(), Violated, p.pos(fn.Pos()), "a statement of kind "+c.Name()+" can be passed over without being added to any collection (the loop goes on to the next statement from "+skip+"): the declaration is silently ignored")
		} else if handled {
			r.add(name, "kind:"+c.Name(), Holds, p.pos(fn.Pos()), "")
		} else {
			r.add(name, "kind:"+c.Name(), Violated, p.pos(fn.Pos()), "statements of kind "+c.Name()+" are silently dropped: "+why)
		}
	}
}

func constantInt(c *types.Const) (int64, bool) {
	v := c.Val()
	if v == nil {
		return 0, false
	}
	s := v.ExactString()
	var n int64
	_, err := fmt.Sscan(s, &n)
	return n, err == nil
}

// nilSuccessDominated: every return of fn whose last (error) result is the nil constant is
// dominated by the nil edge of the error result of every call (to a function returning an
// error last) that precedes it on all paths.
func (p *Program) nilSuccessDominated(fn *ssa.Function) (bool, string) {
	view := p.View(fn)
	var errCalls []*ssa.Call
	errOf := map[*ssa.Call]ssa.Value{}
	for _, c := range p.callsIn(fn) {
		call, ok := c.(*ssa.Call)
		if !ok {
			continue
		}
		sig := call.Common().Signature()
		if sig.Results().Len() == 0 || !isErrorType(sig.Results().At(sig.Results().Len()-1).Type()) {
			continue
		}
		var ev ssa.Value
		if sig.Results().Len() == 1 {
			ev = call
		} else if refs := call.Referrers(); refs != nil {
			for _, u := range *refs {
				if ex, ok := u.(*ssa.Extract); ok && ex.Index == sig.Results().Len()-1 {
					ev = ex
				}
			}
		}
		errCalls = append(errCalls, call)
		errOf[call] = ev
	}
	for _, b := range view.Blocks() {
		ins := view.Instrs(b)
		ret, ok := ins[len(ins)-1].(*ssa.Return)
		if !ok || len(ret.Results) == 0 || !isNilConst(ret.Results[len(ret.Results)-1]) {
			continue
		}
		for _, c := range errCalls {
			if !view.passedBefore(ret, func(in ssa.Instruction) bool { return in == ssa.Instruction(c) }) {
				continue
			}
			ev := errOf[c]
			if ev == nil {
				return false, fmt.Sprintf("the error result of %s at %s is discarded and success is returned at %s", calleeName(c), p.instrPos(c), p.instrPos(ret))
			}
			if !view.holdsAt(b, ev, factNil) {
				return false, fmt.Sprintf("success is returned at %s although the error of %s (%s) was not established to be nil", p.instrPos(ret), calleeName(c), p.instrPos(c))
			}
		}
	}
	return true, ""
}

func calleeName(c ssa.CallInstruction) string {
	if sc := c.Common().StaticCallee(); sc != nil {
		return sc.Name()
	}
	if c.Common().IsInvoke() {
		return c.Common().Method.Name()
	}
	return "call"
}

func runParseErr(p *Program, r *RuleResult) {
	parse := p.Func(parserPkg, "Parse")
	view := p.View(parse)
	name := fnName(parse)
	// the generated parser entry: callee whose name ends in "Parse" taking the lexer
	var gen *ssa.Call
	for _, c := range p.callsIn(parse) {
		if sc := c.Common().StaticCallee(); sc != nil && sc != parse && strings.HasSuffix(sc.Name(), "Parse") && p.isFirstParty(sc) {
			gen, _ = c.(*ssa.Call)
		}
	}
	var sel *ssa.Select
	for _, b := range view.Blocks() {
		for _, in := range view.Instrs(b) {
			if s, ok := in.(*ssa.Select); ok {
				sel = s
			}
		}
	}
	if gen == nil || sel == nil {
		r.add(name, "error-channel-select", Undecided, p.pos(parse.Pos()), "shape of Parse changed: generated-parser call or select on the error channel not found")
	} else {
		okChan := false
		for _, st := range sel.States {
			if st.Dir != types.RecvOnly {
				continue
			}
			if ld, ok := st.Chan.(*ssa.UnOp); ok {
				if _, n, ok := fieldNameOf(ld.X); ok && n == "Errors" {
					okChan = true
				}
			}
		}
		okOrder := view.passedBefore(sel, func(in ssa.Instruction) bool { return in == ssa.Instruction(gen) })
		// success returns only under "no case ready"
		var idx ssa.Value
		for _, u := range *sel.Referrers() {
			if ex, ok := u.(*ssa.Extract); ok && ex.Index == 0 {
				idx = ex
			}
		}
		okSucc := true
		why := ""
		for _, b := range view.Blocks() {
			ins := view.Instrs(b)
			ret, ok := ins[len(ins)-1].(*ssa.Return)
			if !ok || !isNilConst(ret.Results[len(ret.Results)-1]) {
				continue
			}
			dominated := false
			for f := range view.FactsAt(b) {
				bo, isB := f.v.(*ssa.BinOp)
				if isB && bo.X == idx && bo.Op == token.EQL && f.k == factFalse {
					dominated = true
				}
			}
			if !dominated || sel.Blocking {
				okSucc = false
				why = "a nil error is returned at " + p.instrPos(ret) + " without having found the error channel empty"
			}
		}
		switch {
		case !okChan:
			r.add(name, "error-channel-select", Violated, p.instrPos(sel), "the select does not receive from the lexer's error channel")
		case !okOrder:
			r.add(name, "error-channel-select", Violated, p.instrPos(sel), "the error channel is polled before the generated parser has run")
		case !okSucc:
			r.add(name, "error-channel-select", Violated, p.instrPos(sel), why)
		default:
			r.add(name, "error-channel-select", Holds, p.instrPos(sel), "success only through the default arm, after the generated parser ran")
		}
	}
	// capacity of the error channel >= 1 (the Error callback must not block the parser)
	capOK, capWhy := false, "no make(chan error, n) stored into the lexer's Errors field found"
	for _, fn := range p.SrcFuncs {
		if fn.Pkg == nil || fn.Pkg.Pkg.Path() != parserPkg {
			continue
		}
		for _, b := range fn.Blocks {
			for _, in := range b.Instrs {
				st, ok := in.(*ssa.Store)
				if !ok {
					continue
				}
				if _, n, ok := fieldNameOf(st.Addr); !ok || n != "Errors" {
					continue
				}
				if mc, ok := st.Val.(*ssa.MakeChan); ok {
					if c, ok := mc.Size.(*ssa.Const); ok && c.Int64() >= 1 {
						capOK = true
						capWhy = fmt.Sprintf("capacity %d", c.Int64())
					} else {
						capWhy = "the error channel is unbuffered: the parser's Error callback would block forever"
					}
				}
			}
		}
	}
	v := Holds
	if !capOK {
		v = Violated
	}
	r.add("parser.newLexer", "error-channel-capacity", v, "", capWhy)
	// who may report into the error channel: the channel has room for what the generated
	// parser reports (one error: the grammar has no error productions); any other blocking
	// sender can fill it and then block the parser forever (Parse drains it only afterwards)
	g := p.VTA()
	if useCHA {
		g = p.CHA()
	}
	isGenerated := func(fn *ssa.Function) bool {
		for fn.Parent() != nil {
			fn = fn.Parent()
		}
		tf := p.Fset.File(fn.Pos())
		return tf != nil && strings.HasSuffix(tf.Name(), ".y.go")
	}
	nSend := 0
	for _, fn := range p.SrcFuncs {
		if fn.Pkg == nil || fn.Pkg.Pkg.Path() != parserPkg {
			continue
		}
		for _, b := range fn.Blocks {
			for _, in := range b.Instrs {
				snd, ok := in.(*ssa.Send)
				if !ok {
					continue
				}
				ld, ok := snd.Chan.(*ssa.UnOp)
				if !ok {
					continue
				}
				if _, n, ok := fieldNameOf(ld.X); !ok || n != "Errors" {
					continue
				}
				nSend++
				construct := fmt.Sprintf("error-channel-sender#%d", nSend)
				// all (transitive, depth 2) first-party callers of the sending function must be generated code
				bad := ""
				var visit func(f *ssa.Function, depth int)
				seenF := map[*ssa.Function]bool{}
				visit = func(f *ssa.Function, depth int) {
					if seenF[f] || depth > 3 {
						return
					}
					seenF[f] = true
					for _, caller := range p.SrcFuncs {
						for _, c := range p.callsIn(caller) {
							for _, callee := range p.Callees(g, c) {
								if callee != f {
									continue
								}
								if isGenerated(caller) {
									continue
								}
								if caller.Pkg != nil && caller.Pkg.Pkg.Path() == parserPkg {
									bad = fmt.Sprintf("%s (hand-written) reports into the parser's error channel at %s: together with the generated parser's own syntax error this exceeds the channel's capacity and the blocking send never returns", fnName(caller), p.instrPos(c))
								}
							}
						}
					}
				}
				visit(fn, 0)
				if bad != "" {
					r.add(fnName(fn), construct, Violated, p.instrPos(snd), bad)
				} else {
					r.add(fnName(fn), construct, Holds, p.instrPos(snd), "only the generated parser reports errors (at most one per parse: no error productions)")
				}
			}
		}
	}
	if nSend == 0 {
		r.add("parser", "error-channel-sender", Undecided, "", "no send on the lexer's error channel found")
	}
	for _, n := range []string{"ParseReader", "ParseString", "ParseFile"} {
		fn := p.Func(parserPkg, n)
		ok, why := p.nilSuccessDominated(fn)
		v := Holds
		if !ok {
			v = Violated
		}
		r.add(fnName(fn), "errors-propagated", v, p.pos(fn.Pos()), why)
	}
}

// R-COLLECT-THEN-RESOLVE (C14): declarations are collected completely before any of them
// is looked up, so that the order in which they are written does not matter.
func init() {
	register(&Rule{Name: "R-COLLECT-THEN-RESOLVE", Min: 3,
		Doc: "in the function that turns parsed statements into declarations: a collection that is still being appended to in a loop over the statements is not handed to a lookup (any first-party call other than append) inside that same loop; resolving a name against the declarations collected so far makes the result depend on the textual order of declarations",
		Run: runCollectThenResolve})
}

func runCollectThenResolve(p *Program, r *RuleResult) {
	fn := p.expandFunc()
	if fn == nil {
		r.add(parserPkg, "expand-function", Undecided, "", "the statement-expanding function was not found")
		return
	}
	view := p.View(fn)
	name := fnName(fn)
	n := 0
	for pli, l := range view.Loops() {
		// collections appended in this loop: header phis fed by an append result from the body
		for _, in := range l.Header.Instrs {
			ph, ok := in.(*ssa.Phi)
			if !ok {
				break
			}
			if _, isSl := ph.Type().Underlying().(*types.Slice); !isSl {
				continue
			}
			grows := false
			versions := map[ssa.Value]bool{ph: true}
			// all values of the collection inside the loop: phis and append results derived from ph
			for changed := true; changed; {
				changed = false
				for _, b := range fn.Blocks {
					if !l.Body[b] {
						continue
					}
					for _, x := range b.Instrs {
						switch y := x.(type) {
						case *ssa.Call:
							if bi, ok := y.Common().Value.(*ssa.Builtin); ok && bi.Name() == "append" && versions[y.Common().Args[0]] && !versions[y] {
								versions[y] = true
								grows = true
								changed = true
							}
						case *ssa.Phi:
							if versions[y] {
								continue
							}
							for _, e := range y.Edges {
								if versions[e] {
									versions[y] = true
									changed = true
								}
							}
						}
					}
				}
			}
			if !grows {
				continue
			}
			n++
			construct := fmt.Sprintf("collection:%s@loop%d", ph.Comment, pli+1)
			bad := ""
			for _, b := range fn.Blocks {
				if !l.Body[b] {
					continue
				}
				for _, x := range view.Instrs(b) {
					c, ok := x.(ssa.CallInstruction)
					if !ok {
						continue
					}
					if _, isB := c.Common().Value.(*ssa.Builtin); isB {
						continue
					}
					for _, a := range c.Common().Args {
						if versions[a] {
							callee := "a function"
							if sc := c.Common().StaticCallee(); sc != nil {
								callee = sc.Name()
							}
							bad = fmt.Sprintf("%s is handed to %s at %s while the loop that fills it is still running: only the declarations written earlier in the text are visible to that lookup", ph.Comment, callee, p.instrPos(c))
						}
					}
				}
			}
			if bad != "" {
				r.add(name, construct, Violated, p.pos(ph.Pos()), bad)
			} else {
				r.add(name, construct, Holds, p.pos(ph.Pos()), "only appended to inside the loop; looked up after it")
			}
		}
	}
	// collections held in a local cell (their address is taken, e.g. stored into the result)
	for li, l := range view.Loops() {
		for _, b := range fn.Blocks {
			for _, in := range b.Instrs {
				al, ok := in.(*ssa.Alloc)
				if !ok {
					continue
				}
				if _, isSl := al.Type().Underlying().(*types.Pointer).Elem().Underlying().(*types.Slice); !isSl {
					continue
				}
				grows := false
				for _, st := range storesTo(al) {
					if c, ok := st.Val.(*ssa.Call); ok && l.Body[st.Block()] {
						if bi, ok := c.Common().Value.(*ssa.Builtin); ok && bi.Name() == "append" {
							grows = true
						}
					}
				}
				if !grows {
					continue
				}
				n++
				construct := fmt.Sprintf("collection:%s@loop%d", al.Comment, li+1)
				bad := ""
				for _, bb := range fn.Blocks {
					if !l.Body[bb] {
						continue
					}
					for _, x := range view.Instrs(bb) {
						c, ok := x.(ssa.CallInstruction)
						if !ok {
							continue
						}
						if _, isB := c.Common().Value.(*ssa.Builtin); isB {
							continue
						}
						for _, a := range c.Common().Args {
							if ld, ok := a.(*ssa.UnOp); ok && ld.X == ssa.Value(al) {
								callee := "a function"
								if sc := c.Common().StaticCallee(); sc != nil {
									callee = sc.Name()
								}
								bad = fmt.Sprintf("%s is handed to %s at %s while the loop that fills it is still running: only the declarations written earlier in the text are visible to that lookup", al.Comment, callee, p.instrPos(c))
							}
						}
					}
				}
				if bad != "" {
					r.add(name, construct, Violated, p.pos(al.Pos()), bad)
				} else {
					r.add(name, construct, Holds, p.pos(al.Pos()), "only appended to inside the loop; looked up after it")
				}
			}
		}
	}
	r.count("collections filled in loops", n)
}
