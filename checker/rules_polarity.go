package main

import (
	"fmt"
	"go/types"
	"sort"
	"strings"

	"golang.org/x/tools/go/ssa"
)

// R-POLARITY-COHERENT (C01, C07): the constructor a typing rule asserts has the polarity
// the interpreter's direction for that role needs.

func init() {
	register(&Rule{Name: "R-POLARITY-COHERENT", Min: 14,
		Doc: "for each communicating form and role (principal channel is self / is a client) the type constructor asserted by the typing rule has, by constant evaluation of its Polarity method, the polarity implied by what the interpreter does in that role: sending on the own channel or receiving from a client = positive; sending to a client or receiving on the own channel = negative",
		Run: runPolarityCoherent})
}

type roleFacts map[string]bool // field -> isSelf/isProvider value

func consistentRoles(a, b roleFacts) (bool, int) {
	shared := 0
	for f, v := range a {
		if w, ok := b[f]; ok {
			if v != w {
				return false, 0
			}
			shared++
		}
	}
	return true, shared
}

func runPolarityCoherent(p *Program, r *RuleResult) {
	ev := NewEvaluator(p)
	polT := p.Named(typesPkg, "Polarity")
	polName := map[int64]string{}
	for _, c := range p.EnumConsts(polT) {
		v, _ := constantInt(c)
		polName[v] = c.Name()
	}
	polarityOf := func(T *types.Named) string {
		m := p.MethodOpt(T, "Polarity")
		if m == nil {
			return ""
		}
		res := ev.Eval(m, []AVal{aDyn(types.NewPointer(T))})
		if res.Ret.K == avConst && !res.Panics {
			if iv, ok := constantIntVal(res.Ret); ok {
				return polName[iv]
			}
		}
		return ""
	}
	msgT := p.Named(processPkg, "Message")
	tcByT := map[*types.Named]*tcMethod{}
	for _, m := range p.typecheckMethods() {
		tcByT[m.T] = m
	}
	for _, T := range p.formImplementers() {
		tr := p.MethodOpt(T, "Transition")
		m := tcByT[T]
		if tr == nil || m == nil {
			continue
		}
		// helper call sites in the transition method
		type hsite struct {
			roles roleFacts
			dir   string // send | receive
			side  string // own | client
			pos   string
		}
		var hs []hsite
		tview := p.View(tr)
		recvName := tr.Params[0].Name()
		for _, c := range p.callsIn(tr) {
			sc := c.Common().StaticCallee()
			if sc == nil || !p.isFirstParty(sc) {
				continue
			}
			var chv ssa.Value
			dir := ""
			for _, a := range c.Common().Args {
				if ch, ok := a.Type().Underlying().(*types.Chan); ok && types.Identical(ch.Elem(), msgT) {
					chv = a
				}
				if types.Identical(a.Type(), msgT) {
					dir = "send"
				}
				if sig, ok := a.Type().Underlying().(*types.Signature); ok && sig.Params().Len() == 1 && types.Identical(sig.Params().At(0).Type(), msgT) {
					dir = "receive"
				}
			}
			if chv == nil || dir == "" {
				continue
			}
			h := hsite{roles: roleFacts{}, dir: dir, side: chanSide(chv), pos: p.instrPos(c)}
			for f := range tview.FactsAt(c.Block()) {
				if f.k != factTrue && f.k != factFalse {
					continue
				}
				ap := accessPath(f.v)
				if strings.HasPrefix(ap, recvName+".") && strings.HasSuffix(ap, ".IsSelf") {
					h.roles[strings.TrimSuffix(strings.TrimPrefix(ap, recvName+"."), ".IsSelf")] = f.k == factTrue
				}
			}
			hs = append(hs, h)
		}
		if len(hs) == 0 {
			continue // not a communicating form
		}
		// assertion sites in the typing rule
		cview := p.View(m.Fn)
		crecv := m.Recv.Name()
		n := 0
		for _, b := range cview.Blocks() {
			for _, in := range cview.Instrs(b) {
				// a comma-ok assertion, written directly or through an assertion wrapper
				var ta ssa.Instruction
				var assertedT types.Type
				var tupleRefs *[]ssa.Instruction
				switch x := in.(type) {
				case *ssa.TypeAssert:
					if x.CommaOk {
						ta, assertedT, tupleRefs = x, x.AssertedType, x.Referrers()
					}
				case *ssa.Call:
					if at, isW := p.assertionWrapper(x.Common().StaticCallee()); isW {
						ta, assertedT, tupleRefs = x, at, x.Referrers()
					}
				}
				if ta == nil || typeIsInterface(assertedT) {
					continue
				}
				K := namedOf(assertedT)
				if K == nil || K.Obj().Pkg().Path() != typesPkg {
					continue
				}
				used := false
				for _, u := range *tupleRefs {
					if ex, ok := u.(*ssa.Extract); ok && ex.Index == 0 && ex.Referrers() != nil && len(*ex.Referrers()) > 0 {
						used = true
					}
				}
				if !used {
					continue // classification for an error message only
				}
				roles := roleFacts{}
				for f := range cview.FactsAt(b) {
					c, ok := f.v.(*ssa.Call)
					if !ok || (f.k != factTrue && f.k != factFalse) {
						continue
					}
					if !p.isProviderFunc(c.Common().StaticCallee()) {
						continue
					}
					ap := accessPath(c.Common().Args[0])
					if strings.HasPrefix(ap, crecv+".") {
						roles[strings.TrimPrefix(ap, crecv+".")] = f.k == factTrue
					}
				}
				// an assertion made before the role test (`t, ok := provider.(*Unit)` first, then
				// `if !isProvider(x) { error }`) serves the roles every success exit below it
				// has established
				{
					reachB := cview.blocksReachableFrom(b)
					var common roleFacts
					for _, ret := range p.successExits(m) {
						if ret.Block() != b && !reachB[ret.Block()] {
							continue
						}
						cur := roleFacts{}
						for f := range cview.FactsAt(ret.Block()) {
							c, ok := f.v.(*ssa.Call)
							if !ok || (f.k != factTrue && f.k != factFalse) || !p.isProviderFunc(c.Common().StaticCallee()) {
								continue
							}
							ap := accessPath(c.Common().Args[0])
							if strings.HasPrefix(ap, crecv+".") {
								cur[strings.TrimPrefix(ap, crecv+".")] = f.k == factTrue
							}
						}
						if common == nil {
							common = cur
							continue
						}
						for k, v := range common {
							if cv, ok := cur[k]; !ok || cv != v {
								delete(common, k)
							}
						}
					}
					for k, v := range common {
						if _, have := roles[k]; !have {
							roles[k] = v
						}
					}
				}
				n++
				var rk []string
				for f, v := range roles {
					rk = append(rk, fmt.Sprintf("%s=%v", f, v))
				}
				sort.Strings(rk)
				construct := fmt.Sprintf("role[%s]:%s", strings.Join(rk, ","), K.Obj().Name())
				// matching helper sites
				var match []hsite
				best := -1
				for _, h := range hs {
					ok, shared := consistentRoles(roles, h.roles)
					if !ok {
						continue
					}
					if shared > best {
						best = shared
						match = []hsite{h}
					} else if shared == best {
						match = append(match, h)
					}
				}
				if len(match) == 0 {
					r.add(fnName(m.Fn), construct, Undecided, p.instrPos(ta), "no transition arm corresponds to this typing arm")
					continue
				}
				// the interpreter picks its arm by the role of a particular channel; the typing
				// arm must be selected by (at least) the role of that same channel
				dispatched := false
				for _, h := range hs {
					if len(h.roles) > 0 {
						dispatched = true
					}
				}
				if dispatched && best == 0 {
					var hk []string
					for _, h := range hs {
						for f := range h.roles {
							hk = append(hk, f)
						}
					}
					sort.Strings(hk)
					r.add(fnName(m.Fn), construct, Violated, p.instrPos(ta),
						fmt.Sprintf("this typing arm is selected by the role of %v, but the interpreter chooses what the form does by the role of %v: the two can disagree about which end of the channel the process is", rk, uniqStrings(hk)))
					continue
				}
				pol := polarityOf(K)
				if pol == "" {
					r.add(fnName(m.Fn), construct, Undecided, p.instrPos(ta), "Polarity of "+K.Obj().Name()+" does not fold to a constant")
					continue
				}
				bad := ""
				for _, h := range match {
					want := ""
					switch {
					case h.dir == "send" && h.side == "own", h.dir == "receive" && h.side == "client":
						want = "POSITIVE"
					case h.dir == "send" && h.side == "client", h.dir == "receive" && h.side == "own":
						want = "NEGATIVE"
					}
					if want == "" {
						bad = "cannot classify the channel used at " + h.pos
					} else if want != pol {
						bad = fmt.Sprintf("the typing rule asserts %s (%s) but in this role the interpreter will %s on its %s channel (%s), which needs a %s type: an accepted program sends and receives in the same direction on both ends", K.Obj().Name(), pol, h.dir, h.side, h.pos, want)
					}
				}
				if bad != "" {
					r.add(fnName(m.Fn), construct, Violated, p.instrPos(ta), bad)
				} else {
					r.add(fnName(m.Fn), construct, Holds, p.instrPos(ta), fmt.Sprintf("%s is %s; interpreter: %s on %s channel", K.Obj().Name(), pol, match[0].dir, match[0].side))
				}
			}
		}
	}
}

func constantIntVal(a AVal) (int64, bool) {
	if a.K != avConst {
		return 0, false
	}
	var n int64
	_, err := fmt.Sscan(a.C.ExactString(), &n)
	return n, err == nil
}

// R-SHADOW-SELF (C01, C07, C14): whatever name the typechecker treats as the provider of a
// judgement is a name the interpreter turns into `self` before running that code.
func init() {
	register(&Rule{Name: "R-SHADOW-SELF", Min: 8,
		Doc: "every shadow-provider argument of a typing judgement is nil, the rule's own shadow parameter handed on, or a binder field of the form that the form's transition substitutes by a self name (a name with IsSelf set); the cut's binder is covered by the reuse dichotomy; root judgements pass nil",
		Run: runShadowSelf})
}

// returnsSelfName: fn returns a Name composite with IsSelf = true.
func returnsSelfName(fn *ssa.Function) bool {
	if fn == nil || fn.Blocks == nil {
		return false
	}
	for _, b := range fn.Blocks {
		for _, in := range b.Instrs {
			st, ok := in.(*ssa.Store)
			if !ok {
				continue
			}
			if _, n, ok := fieldNameOf(st.Addr); ok && n == "IsSelf" {
				if c, ok := st.Val.(*ssa.Const); ok && c.Value != nil && c.Value.String() == "true" {
					return true
				}
			}
		}
	}
	return false
}

func runShadowSelf(p *Program, r *RuleResult) {
	byFn := map[*ssa.Function]*tcMethod{}
	for _, m := range p.typecheckMethods() {
		byFn[m.Fn] = m
	}
	ord := map[string]int{}
	for _, fn := range p.SrcFuncs {
		if fn.Pkg == nil || fn.Pkg.Pkg.Path() != processPkg {
			continue
		}
		for _, c := range p.callsIn(fn) {
			call, ok := c.(*ssa.Call)
			if !ok || !call.Common().IsInvoke() || call.Common().Method.Name() != "typecheckForm" {
				continue
			}
			var shadow ssa.Value
			for _, a := range call.Common().Args {
				if isPtr(a.Type()) && isNameType(a.Type()) {
					shadow = a
				}
			}
			if shadow == nil {
				continue
			}
			name := fnName(fn)
			ord[name]++
			construct := fmt.Sprintf("judgement#%d-shadow", ord[name])
			m := byFn[fn]
			switch {
			case isNilConst(shadow):
				r.add(name, construct, Holds, p.instrPos(call), "nil: only `self` names the provider")
				continue
			case m != nil && origin(shadow) == ssa.Value(m.Shadow):
				r.add(name, construct, Holds, p.instrPos(call), "the rule's own shadow provider is handed on")
				continue
			}
			ap := accessPath(shadow)
			if m == nil || !strings.HasPrefix(ap, m.Recv.Name()+".") {
				r.add(name, construct, Violated, p.instrPos(call),
					fmt.Sprintf("the judgement treats %s as the provider, but nothing makes the interpreter treat that name as self (only names with IsSelf set are the provider at run time): accepted programs that use the name fail with 'should be self' / 'expected …'", describeVal(shadow)))
				continue
			}
			field := strings.TrimPrefix(ap, m.Recv.Name()+".")
			// the form's transitions substitute that field by a self name
			okAll := true
			checked := 0
			for _, fam := range []string{"Transition", "TransitionNP"} {
				tr := p.MethodOpt(m.T, fam)
				if tr == nil {
					continue
				}
				found := false
				for _, f2 := range append([]*ssa.Function{tr}, allAnon(tr)...) {
					for _, c2 := range p.callsIn(f2) {
						com := c2.Common()
						if !(com.IsInvoke() && com.Method.Name() == "Substitute") || len(com.Args) != 2 {
							continue
						}
						oldP := accessPath(com.Args[0])
						if !strings.HasSuffix(oldP, "."+lastSeg(field)) {
							continue
						}
						if nc, ok := com.Args[1].(*ssa.Call); ok && returnsSelfName(nc.Common().StaticCallee()) {
							found = true
						}
					}
				}
				checked++
				if !found {
					okAll = false
				}
			}
			switch {
			case okAll && checked > 0:
				r.add(name, construct, Holds, p.instrPos(call), "binder "+field+" is substituted by a self name when the form transitions")
			case p.reuseLookup(m, ap+".Ident") != nil:
				okD, why := p.checkReuseDichotomy(m, ap+".Ident")
				if okD {
					r.add(name, construct, Holds, p.instrPos(call), "the spawned body cannot mention the fresh binder (reuse dichotomy), so the shadow provider is never consulted for it")
				} else {
					r.add(name, construct, Violated, p.instrPos(call), why)
				}
			default:
				r.add(name, construct, Violated, p.instrPos(call), fmt.Sprintf("the judgement treats %s as the provider of the child, but the form's transition never substitutes it by a self name", field))
			}
		}
	}
}

func uniqStrings(xs []string) []string {
	var out []string
	for i, x := range xs {
		if i == 0 || x != xs[i-1] {
			out = append(out, x)
		}
	}
	return out
}

// R-SELF-TOLERANT-CONSUME (C01, C07): only one name of a form can stand for the provider.
func init() {
	register(&Rule{Name: "R-SELF-TOLERANT-CONSUME", Min: 2,
		Doc: "in the typing rules, the self-tolerant consume function (the one that answers with the provider's type when handed `self` or the shadow name) is never applied to a name on a path on which another name of the same form has already been established to be the provider: in that arm the name is something the process hands over, and handing over its own providing channel (`self.next<self>`) would leave the receiver holding a reference to `self`, which the interpreter cannot use",
		Run: runSelfTolerantConsume})
	register(&Rule{Name: "R-POLARITY-SOURCE", Min: 2,
		Doc: "the interpreter's polarity query on a name (a method with a flag saying whether the program was typechecked) answers, on every path on which the flag is true, with Polarity() of the name's own type, and no return is reached before the flag has been looked at: the user's optional annotation – which the copy of a form turns into a non-nil pointer to the zero value when it was absent – may only decide in untyped runs",
		Run: runPolaritySource})
}

func runSelfTolerantConsume(p *Program, r *RuleResult) {
	// the self-tolerant consume: a consume function with a *Name (shadow) parameter
	n := 0
	for _, m := range p.typecheckMethods() {
		view := p.View(m.Fn)
		recv := m.Recv.Name()
		ord := 0
		for _, c := range p.callsIn(m.Fn) {
			call, ok := c.(*ssa.Call)
			if !ok {
				continue
			}
			sc := call.Common().StaticCallee()
			if sc == nil || !(p.isConsumeFunc(sc) || looksLikeConsume(sc)) {
				continue
			}
			tolerant := false
			for _, prm := range sc.Params {
				if isNameType(prm.Type()) && isPtr(prm.Type()) {
					tolerant = true
				}
			}
			if !tolerant {
				continue
			}
			n++
			ord++
			subject := strings.TrimPrefix(accessPath(call.Common().Args[0]), recv+".")
			construct := fmt.Sprintf("self-tolerant-consume#%d:%s", ord, subject)
			bad := ""
			for f := range view.FactsAt(call.Block()) {
				pc, ok := f.v.(*ssa.Call)
				if !ok || f.k != factTrue || !p.isProviderFunc(pc.Common().StaticCallee()) {
					continue
				}
				other := strings.TrimPrefix(accessPath(pc.Common().Args[0]), recv+".")
				if other != "" && other != subject {
					bad = fmt.Sprintf("%s is consumed with the self-tolerant function although %s is the provider on this path: `self` would be accepted as the channel that is handed over", subject, other)
				}
			}
			if bad != "" {
				r.add(fnName(m.Fn), construct, Violated, p.instrPos(call), bad)
			} else {
				r.add(fnName(m.Fn), construct, Holds, p.instrPos(call), "no other name of the form is the provider here")
			}
		}
	}
	r.count("self-tolerant consumes in typing rules", n)
}

func runPolaritySource(p *Program, r *RuleResult) {
	nameT := p.Named(processPkg, "Name")
	n := 0
	ms := types.NewMethodSet(types.NewPointer(nameT))
	for i := 0; i < ms.Len(); i++ {
		fn := p.MethodOpt(nameT, ms.At(i).Obj().Name())
		if fn == nil || fn.Blocks == nil || fn.Signature.Results().Len() != 1 || !isNamed(fn.Signature.Results().At(0).Type(), typesPkg, "Polarity") {
			continue
		}
		var flag *ssa.Parameter
		for _, prm := range fn.Params[1:] {
			if b, ok := prm.Type().Underlying().(*types.Basic); ok && b.Kind() == types.Bool {
				flag = prm
			}
		}
		if flag == nil {
			continue
		}
		view := p.View(fn)
		recv := fn.Params[0].Name()
		ord := 0
		for _, b := range view.Blocks() {
			ins := view.Instrs(b)
			ret, ok := ins[len(ins)-1].(*ssa.Return)
			if !ok || len(ret.Results) != 1 {
				continue
			}
			n++
			ord++
			construct := fmt.Sprintf("return#%d", ord)
			switch {
			case view.holdsAt(b, flag, factTrue):
				c, isCall := ret.Results[0].(*ssa.Call)
				if isCall && c.Common().IsInvoke() && c.Common().Method.Name() == "Polarity" && strings.HasPrefix(accessPath(c.Common().Value), recv+".Type") {
					r.add(fnName(fn), construct, Holds, p.instrPos(ret), "typed run: the polarity of the name's own type")
				} else {
					r.add(fnName(fn), construct, Violated, p.instrPos(ret), "in a typechecked run this return does not answer with Polarity() of the name's type")
				}
			case view.holdsAt(b, flag, factFalse):
				r.add(fnName(fn), construct, Holds, p.instrPos(ret), "untyped run")
			default:
				r.add(fnName(fn), construct, Violated, p.instrPos(ret),
					"this return is reached without looking at whether the program was typechecked: in a typed run something other than the name's type (an annotation, or the zero value a form copy leaves in its place) decides the polarity, and a forward built from it matches no rule")
			}
		}
	}
	r.count("returns of the polarity query", n)
}
