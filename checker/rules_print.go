package main

import (
	"fmt"
	"go/constant"
	"go/token"
	"go/types"
	"path/filepath"
	"sort"
	"strings"
	"unicode"

	"golang.org/x/tools/go/ssa"
)

// R-PRINT-GRAMMAR (C15): the printer of types and forms, read as a grammar, re-parses to
// the same tree under the committed grammar's productions and precedences.

func init() {
	register(&Rule{Name: "R-PRINT-GRAMMAR", Min: 60,
		Doc: "print productions extracted from String() (string-shape domain) are matched, token by token through the scanner's static token table, with productions of parser.y; for every (parent production, child slot, child constructor) the yacc precedence/associativity resolution re-parses the printed text to the same tree, or the printer brackets the child",
		Run: runPrintGrammar})
}

// ---- the scanner's static token table ----

type scanTable struct {
	Ops      map[string]string // literal text -> token name
	Keywords map[string]string
	Default  string // token for other words (LABEL)
	Unit     string // token of "1"
	byValue  map[int64]string
}

func extractScanTable(p *Program) (*scanTable, error) {
	st := &scanTable{Ops: map[string]string{}, Keywords: map[string]string{}, byValue: map[int64]string{}}
	sc := p.ByPath[parserPkg].Types.Scope()
	for _, n := range sc.Names() {
		c, ok := sc.Lookup(n).(*types.Const)
		if !ok || c.Val().Kind() != constant.Int {
			continue
		}
		if v, ok := constant.Int64Val(c.Val()); ok && v >= 57346 && n == strings.ToUpper(n) {
			st.byValue[v] = n
		}
	}
	if len(st.byValue) < 20 {
		return nil, fmt.Errorf("token constants of the generated parser not found")
	}
	tokT := p.Named(parserPkg, "tok")
	ri := findScannerReader(p)
	for _, fn := range p.SrcFuncs {
		if fn.Pkg == nil || fn.Pkg.Pkg.Path() != parserPkg || fn.Parent() != nil {
			continue
		}
		res := fn.Signature.Results()
		if res.Len() == 0 || !types.Identical(res.At(0).Type(), tokT) {
			continue
		}
		view := p.View(fn)
		var resAlloc *ssa.Alloc
		type site struct {
			b   *ssa.BasicBlock
			val int64
		}
		var sites []site
		// a token looked up in a constant package-level table keyed by the character just
		// read (`if t, ok := singleCharTokens[ch]; ok { return t, … }`)
		var firstChar func(v ssa.Value, d int) bool
		firstChar = func(v ssa.Value, d int) bool {
			switch x := v.(type) {
			case *ssa.Parameter:
				return true
			case *ssa.Call:
				return x.Common().StaticCallee() == ri.Read && len(fn.Params) == 1
			case *ssa.Phi:
				if d > 3 {
					return false
				}
				for _, e := range x.Edges {
					if !firstChar(e, d+1) {
						return false
					}
				}
				return len(x.Edges) > 0
			}
			return false
		}
		tableOps := func(v ssa.Value) {
			ex, ok := v.(*ssa.Extract)
			if !ok || ex.Index != 0 {
				return
			}
			lk, ok := ex.Tuple.(*ssa.Lookup)
			if !ok || !lk.CommaOk || !firstChar(lk.Index, 0) {
				return
			}
			ld, ok := lk.X.(*ssa.UnOp)
			if !ok {
				return
			}
			g, ok := ld.X.(*ssa.Global)
			if !ok {
				return
			}
			for k, v := range p.globalMapTable(g) {
				var kv int64
				if _, err := fmt.Sscan(k, &kv); err != nil || v.K != avConst || v.C == nil {
					continue
				}
				if tv, ok := constant.Int64Val(constant.ToInt(v.C)); ok {
					if name, ok := st.byValue[tv]; ok {
						st.Ops[string(rune(kv))] = name
					}
				}
			}
		}
		for _, b := range view.Blocks() {
			for _, in := range view.Instrs(b) {
				ret, ok := in.(*ssa.Return)
				if !ok || len(ret.Results) == 0 {
					continue
				}
				if ld, ok := ret.Results[0].(*ssa.UnOp); ok {
					if al, ok := ld.X.(*ssa.Alloc); ok {
						resAlloc = al
						continue
					}
				}
				if c, ok := ret.Results[0].(*ssa.Const); ok && c.Value != nil {
					sites = append(sites, site{b, c.Int64()})
				}
				tableOps(ret.Results[0])
			}
		}
		if resAlloc != nil {
			for _, s := range storesTo(resAlloc) {
				if view.Live(s) {
					tableOps(s.Val)
				}
				if c, ok := s.Val.(*ssa.Const); ok && c.Value != nil && view.Live(s) {
					sites = append(sites, site{s.Block(), c.Int64()})
				}
			}
		}
		for _, s := range sites {
			name, ok := st.byValue[s.val]
			if !ok {
				continue
			}
			// characters established by the facts of this block
			var first, second []rune
			var word string
			wordSeen := false
			for f := range view.FactsAt(s.b) {
				bo, ok := f.v.(*ssa.BinOp)
				if !ok {
					continue
				}
				// `x == k` known true, or `x != k` known false (early exit on the other case)
				if !(bo.Op == token.EQL && f.k == factTrue) && !(bo.Op == token.NEQ && f.k == factFalse) {
					continue
				}
				c, ok := bo.Y.(*ssa.Const)
				if !ok || c.Value == nil {
					continue
				}
				if c.Value.Kind() == constant.String {
					word = constant.StringVal(c.Value)
					wordSeen = true
					continue
				}
				iv, ok := constant.Int64Val(c.Value)
				if !ok {
					continue
				}
				switch x := bo.X.(type) {
				case *ssa.Parameter:
					first = append(first, rune(iv))
				case *ssa.Phi:
					first = append(first, rune(iv))
				case *ssa.Call:
					if x.Common().StaticCallee() == ri.Read {
						// the first read in Scan is the first character; in the helper it is the second
						if len(fn.Params) > 1 { // helper with (s, ch)
							second = append(second, rune(iv))
						} else {
							first = append(first, rune(iv))
						}
					}
				}
			}
			// `case "recv", "receive":` – the block is entered over the true edge of either
			// comparison, so no single fact holds in it: read the words off the entering edges
			var words []string
			if !wordSeen {
				seenB := map[*ssa.BasicBlock]bool{}
				var into func(b *ssa.BasicBlock)
				into = func(b *ssa.BasicBlock) {
					if seenB[b] {
						return
					}
					seenB[b] = true
					for _, pr := range b.Preds {
						ins := view.Instrs(pr)
						if len(ins) == 0 {
							continue
						}
						switch last := ins[len(ins)-1].(type) {
						case *ssa.If:
							bo, ok := last.Cond.(*ssa.BinOp)
							if !ok || bo.Op != token.EQL || pr.Succs[0] != b {
								continue
							}
							if c, ok := bo.Y.(*ssa.Const); ok && c.Value != nil && c.Value.Kind() == constant.String {
								words = append(words, constant.StringVal(c.Value))
							}
						case *ssa.Jump:
							if len(ins) == 1 {
								into(pr)
							}
						}
					}
				}
				if len(s.b.Preds) > 1 {
					into(s.b)
				}
				if len(words) != len(s.b.Preds) {
					words = nil // some way in is not a word comparison
				}
			}
			switch {
			case len(words) > 0:
				for _, w := range words {
					st.Keywords[w] = name
				}
			case wordSeen:
				st.Keywords[word] = name
			case len(first) == 1 && len(second) == 1:
				st.Ops[string(first)+string(second)] = name
			case len(first) == 1 && len(second) == 0:
				if _, dup := st.Ops[string(first)]; !dup || true {
					st.Ops[string(first)] = name
				}
			case len(first) == 0 && len(second) == 0:
				// default of the word scanner
				if strings.Contains(strings.ToLower(fn.Name()), "label") {
					st.Default = name
				}
			}
		}
	}
	if st.Default == "" || len(st.Ops) < 15 || len(st.Keywords) < 20 {
		return nil, fmt.Errorf("scanner table incomplete: %d operators, %d keywords, default %q", len(st.Ops), len(st.Keywords), st.Default)
	}
	st.Unit = st.Ops["1"]
	return st, nil
}

func isWordRune(r rune) bool {
	return unicode.IsLetter(r) || unicode.IsDigit(r) || r == '_' || r == '\''
}

// tokenize splits literal printer text into token names using maximal munch over the
// extracted table. Words become keywords or the default token.
func (st *scanTable) tokenize(text string) ([]string, error) {
	var out []string
	rs := []rune(text)
	for i := 0; i < len(rs); {
		r := rs[i]
		if r == ' ' || r == '\t' || r == '\n' {
			i++
			continue
		}
		if isWordRune(r) {
			j := i
			for j < len(rs) && isWordRune(rs[j]) {
				j++
			}
			w := string(rs[i:j])
			if w == "1" && st.Unit != "" {
				out = append(out, st.Unit)
			} else if k, ok := st.Keywords[w]; ok {
				out = append(out, k)
			} else {
				out = append(out, st.Default)
			}
			i = j
			continue
		}
		if i+1 < len(rs) {
			if t, ok := st.Ops[string(rs[i:i+2])]; ok {
				out = append(out, t)
				i += 2
				continue
			}
		}
		if t, ok := st.Ops[string(rs[i:i+1])]; ok {
			out = append(out, t)
			i++
			continue
		}
		return nil, fmt.Errorf("the scanner has no token for %q in printed text %q", string(r), text)
	}
	return out, nil
}

// ---- print productions ----

type symKind int

const (
	symTerm  symKind = iota // terminal token
	symChild                // recursive child (same syntactic category)
	symAtom                 // closed sub-phrase of another category (modality, name, label)
	symList                 // list of elements
)

type psym struct {
	Kind      symKind
	Tok       string        // terminal name / category name
	Field     string        // child: field path
	Helper    *ssa.Function // child printed through a first-party helper (conditional brackets)
	Bracketed bool          // child always printed between ( and )
	Val       ssa.Value
	Elem      []psym
	Sep       []psym
}

func (s psym) String() string {
	switch s.Kind {
	case symTerm:
		return s.Tok
	case symChild:
		if s.Helper != nil {
			return "<" + s.Field + " via " + s.Helper.Name() + ">"
		}
		return "<" + s.Field + ">"
	case symAtom:
		return s.Tok
	}
	return "List[" + psymsString(s.Elem) + " / " + psymsString(s.Sep) + "]"
}

func psymsString(ss []psym) string {
	var out []string
	for _, s := range ss {
		out = append(out, s.String())
	}
	return strings.Join(out, " ")
}

type printCategory struct {
	Iface     *types.Named // SessionType or Form
	NT        string       // grammar nonterminal
	ChildMeth string       // method whose call on a child means "print the child"
}

type printer struct {
	p         *Program
	st        *scanTable
	g         *Grammar
	cat       *printCategory
	sh        *shaper
	depth     int
	listDepth int
}

// classify turns shape atoms into grammar symbols.
func (pr *printer) classify(atoms []Atom) ([]psym, error) {
	var out []psym
	for _, a := range atoms {
		switch a.Kind {
		case AtomConst:
			toks, err := pr.st.tokenize(a.Text)
			if err != nil {
				return nil, err
			}
			for _, t := range toks {
				out = append(out, psym{Kind: symTerm, Tok: t})
			}
		case AtomCall:
			s, err := pr.classifyCall(a)
			if err != nil {
				return nil, err
			}
			out = append(out, s...)
		default:
			return nil, fmt.Errorf("opaque text in the printed form: %s", a.Text)
		}
	}
	return out, nil
}

func (pr *printer) isCategory(t types.Type) bool {
	return types.Identical(t, pr.cat.Iface) || (namedOf(t) != nil && types.Implements(t, pr.cat.Iface.Underlying().(*types.Interface)))
}

func (pr *printer) classifyCall(a Atom) ([]psym, error) {
	var vt types.Type
	if a.Val != nil {
		vt = a.Val.Type()
	}
	field := strings.TrimPrefix(a.Arg, "load:")
	switch {
	case a.Text == "load" && vt != nil:
		// a string field printed verbatim (label / function name): an identifier
		if b, ok := vt.Underlying().(*types.Basic); ok && b.Kind() == types.String {
			return []psym{{Kind: symAtom, Tok: pr.st.Default, Field: field}}, nil
		}
	case vt != nil && pr.isCategory(vt) && (a.Text == pr.cat.ChildMeth):
		if !types.Identical(vt, pr.cat.Iface) && namedOf(vt) != nil {
			// a concrete sub-phrase (e.g. a case branch): inline its own print production
			if m := pr.p.MethodOpt(namedOf(vt), pr.cat.ChildMeth); m != nil && pr.depth < 3 {
				if ret := soleReturn(m); ret != nil {
					pr.depth++
					atoms, err := pr.sh.Shape(ret.Results[0])
					var syms []psym
					if err == nil {
						syms, err = pr.classify(atoms)
					}
					pr.depth--
					if err != nil {
						return nil, err
					}
					return syms, nil
				}
			}
		}
		return []psym{{Kind: symChild, Field: field, Val: a.Val}}, nil
	case vt != nil && isNamed(vt, typesPkg, "Modality") && a.Text == "String":
		return []psym{{Kind: symAtom, Tok: "modality", Field: field}}, nil
	case vt != nil && isNamed(vt, processPkg, "Name") && a.Text == "String":
		return []psym{{Kind: symAtom, Tok: "name", Field: field}}, nil
	case vt != nil && isNamed(vt, processPkg, "Label") && a.Text == "String":
		return []psym{{Kind: symAtom, Tok: pr.st.Default, Field: field}}, nil
	}
	// first-party helper
	if a.Call != nil {
		if sc := a.Call.Common().StaticCallee(); sc != nil && pr.p.isFirstParty(sc) && sc.Blocks != nil && len(sc.Params) >= 1 && pr.bindPrinterParams(sc, a.Call) {
			pt := sc.Params[0].Type()
			if sl, ok := pt.Underlying().(*types.Slice); ok {
				elem, sep, err := pr.listShape(sc)
				if err != nil {
					return nil, fmt.Errorf("list helper %s: %v", sc.Name(), err)
				}
				_ = sl
				return []psym{{Kind: symList, Field: field, Elem: elem, Sep: sep}}, nil
			}
			if pr.isCategory(pt) {
				return []psym{{Kind: symChild, Field: field, Val: a.Val, Helper: sc}}, nil
			}
		}
	}
	return nil, fmt.Errorf("cannot classify printed atom %s", a)
}

// bindPrinterParams: the helper takes the printed value first and, possibly, functions that
// print an element; at this call every such parameter is bound to a method expression
// (`SessionType.String`), whose method name then stands for the call of the parameter.
func (pr *printer) bindPrinterParams(h *ssa.Function, call ssa.CallInstruction) bool {
	if len(h.Params) == 1 {
		return true
	}
	args := call.Common().Args
	if len(args) != len(h.Params) {
		return false
	}
	bind := map[*ssa.Parameter]string{}
	for i := 1; i < len(h.Params); i++ {
		if _, isSig := h.Params[i].Type().Underlying().(*types.Signature); !isSig {
			return false
		}
		fnv, ok := args[i].(*ssa.Function)
		if !ok || len(fnv.Blocks) != 1 {
			return false
		}
		// the thunk of a method expression: one invoke of the method on its parameter
		name := ""
		for _, in := range fnv.Blocks[0].Instrs {
			if c, ok := in.(*ssa.Call); ok {
				if !c.Common().IsInvoke() || name != "" || len(fnv.Params) != 1 || c.Common().Value != ssa.Value(fnv.Params[0]) {
					return false
				}
				name = c.Common().Method.Name()
			}
		}
		if name == "" {
			return false
		}
		bind[h.Params[i]] = name
	}
	if pr.sh.funcBind == nil {
		pr.sh.funcBind = map[*ssa.Parameter]string{}
	}
	for k, v := range bind {
		if old, have := pr.sh.funcBind[k]; have && old != v {
			// the same helper bound differently at another call: shapes are per call,
			// and this one is computed now
			_ = old
		}
		pr.sh.funcBind[k] = v
	}
	return true
}

// listShape analyses a helper `func(xs []T) string` that prints a separated list:
// one buffer, one loop; writes on every iteration = element, conditional write = separator.
func (pr *printer) listShape(fn *ssa.Function) (elem, sep []psym, err error) {
	view := pr.p.View(fn)
	loops := view.Loops()
	if len(loops) != 1 {
		return nil, nil, fmt.Errorf("expected exactly one loop, found %d", len(loops))
	}
	l := loops[0]
	// latches: the blocks with a back edge
	var latches []*ssa.BasicBlock
	for _, b := range fn.Blocks {
		if !l.Body[b] {
			continue
		}
		for _, s := range view.Succs(b) {
			if s == l.Header {
				latches = append(latches, b)
			}
		}
	}
	onEveryIteration := func(b *ssa.BasicBlock) bool {
		for _, lt := range latches {
			if !b.Dominates(lt) {
				return false
			}
		}
		return len(latches) > 0
	}
	// the loop ends only by exhausting the list: any other way out (break, return) prints a
	// truncated list
	for _, b := range fn.Blocks {
		if !l.Body[b] || b == l.Header {
			continue
		}
		for _, s := range view.Succs(b) {
			if !l.Body[s] {
				return nil, nil, fmt.Errorf("the loop over the elements can be left early (from the block ending at %s): the printed list may omit elements", pr.p.instrPos(b.Instrs[len(b.Instrs)-1]))
			}
		}
	}
	// the elements are taken from the list argument itself, in its order: every element
	// access inside the loop indexes (or ranges over) the parameter, not a rearranged copy
	for b := range l.Body {
		for _, in := range view.Instrs(b) {
			var base ssa.Value
			switch x := in.(type) {
			case *ssa.IndexAddr:
				base = x.X
			case *ssa.Index:
				base = x.X
			case *ssa.Range:
				base = x.X
			}
			if base == nil {
				continue
			}
			if _, isSl := base.Type().Underlying().(*types.Slice); !isSl {
				continue
			}
			if !types.Identical(base.Type(), fn.Params[0].Type()) {
				continue
			}
			if origin(base) != ssa.Value(fn.Params[0]) {
				return nil, nil, fmt.Errorf("the loop takes its elements from %s, not from the list it was handed: a sorted, filtered or otherwise rearranged copy prints the elements in another order than the term holds them (at %s)", displayKey(base), pr.p.instrPos(in))
			}
		}
	}
	var ea, sa []Atom
	for _, b := range fn.Blocks {
		for _, in := range view.Instrs(b) {
			c, ok := in.(*ssa.Call)
			if !ok {
				continue
			}
			sc := c.Common().StaticCallee()
			if sc == nil || len(c.Common().Args) < 2 || !isBufferType(c.Common().Args[0].Type()) {
				continue
			}
			if !l.Body[b] {
				return nil, nil, fmt.Errorf("text is written outside the loop over the elements (%s): not a plain separated list", pr.p.instrPos(c))
			}
			if sc.Name() != "WriteString" {
				return nil, nil, fmt.Errorf("unsupported write %s", sc.Name())
			}
			as, e := pr.sh.Shape(c.Common().Args[1])
			if e != nil {
				return nil, nil, e
			}
			if onEveryIteration(b) {
				ea = append(ea, as...)
			} else {
				sa = append(sa, as...)
			}
		}
	}
	elem, err = pr.classify(mergeConsts(ea))
	if err != nil {
		return nil, nil, err
	}
	sep, err = pr.classify(mergeConsts(sa))
	return elem, sep, err
}

// helperBrackets decides, for child constructor K, whether helper h prints the child in
// brackets: evaluates h under the assumption that its parameter has dynamic type *K (E2)
// and reads the shape of the executable return.
func (pr *printer) helperBrackets(h *ssa.Function, K *types.Named) (bracketed bool, err error) {
	ev := NewEvaluator(pr.p)
	res := ev.Eval(h, []AVal{aDyn(types.NewPointer(K))})
	var rets []*ssa.Return
	for b := range res.ExecBlks {
		for _, in := range b.Instrs {
			if ret, ok := in.(*ssa.Return); ok {
				rets = append(rets, ret)
			}
		}
	}
	if len(rets) != 1 {
		return false, fmt.Errorf("%s does not have exactly one executable return for child %s (%d)", h.Name(), K.Obj().Name(), len(rets))
	}
	atoms, e := pr.sh.Shape(rets[0].Results[0])
	if e != nil {
		return false, e
	}
	syms, e := pr.classify(atoms)
	if e != nil {
		return false, e
	}
	lp, rp := pr.st.Ops["("], pr.st.Ops[")"]
	switch {
	case len(syms) == 1 && syms[0].Kind == symChild:
		return false, nil
	case len(syms) == 3 && syms[0].Kind == symTerm && syms[0].Tok == lp && syms[1].Kind == symChild && syms[2].Kind == symTerm && syms[2].Tok == rp:
		return true, nil
	}
	return false, fmt.Errorf("%s prints child %s as [%s]: neither the child nor the bracketed child", h.Name(), K.Obj().Name(), psymsString(syms))
}

// flatten a print production to the grammar symbol sequence (lists become their nonterminal name placeholder).
// hasBracketProduction: NT -> ( NT )
func (pr *printer) hasBracketProduction() bool {
	lp, rp := pr.st.Ops["("], pr.st.Ops[")"]
	for _, prod := range pr.g.ProdsOf(pr.cat.NT) {
		if len(prod.RHS) == 3 && prod.RHS[0] == lp && prod.RHS[1] == pr.cat.NT && prod.RHS[2] == rp {
			return true
		}
	}
	return false
}

// collapseBrackets turns "( <child> )" into a bracketed child when the grammar has NT -> ( NT ).
func (pr *printer) collapseBrackets(syms []psym) []psym {
	if !pr.hasBracketProduction() {
		return syms
	}
	lp, rp := pr.st.Ops["("], pr.st.Ops[")"]
	var out []psym
	for i := 0; i < len(syms); i++ {
		if i+2 < len(syms) && syms[i].Kind == symTerm && syms[i].Tok == lp && syms[i+1].Kind == symChild && syms[i+2].Kind == symTerm && syms[i+2].Tok == rp {
			c := syms[i+1]
			c.Bracketed = true
			out = append(out, c)
			i += 2
			continue
		}
		out = append(out, syms[i])
	}
	return out
}

func (pr *printer) matchProduction(syms []psym) (*Production, string) {
	cands := pr.g.ProdsOf(pr.cat.NT)
	var tried []string
outer:
	for _, prod := range cands {
		if len(prod.RHS) != len(syms) {
			continue
		}
		for i, s := range syms {
			g := prod.RHS[i]
			switch s.Kind {
			case symTerm:
				if g != s.Tok {
					continue outer
				}
			case symChild:
				if g != pr.cat.NT {
					continue outer
				}
			case symAtom:
				if !pr.atomMatches(s.Tok, g) {
					continue outer
				}
			case symList:
				if ok, _ := pr.listMatches(s, g); !ok {
					continue outer
				}
			}
		}
		return prod, ""
	}
	for _, prod := range cands {
		tried = append(tried, strings.Join(prod.RHS, " "))
	}
	return nil, fmt.Sprintf("no production of %s matches the printed form [%s]", pr.cat.NT, psymsString(syms))
}

// atomMatches: a closed atom of category `tok` against grammar symbol g (terminal, or a
// nonterminal all of whose productions are closed phrases ending/beginning with terminals
// that can produce it, e.g. modality -> LABEL, name -> SELF | LABEL | polarity LABEL ...).
func (pr *printer) atomMatches(tok, g string) bool {
	if tok == g {
		return true
	}
	if pr.g.IsTerminal(g) {
		// a modality prints as a word: LABEL
		return tok == "modality" && g == pr.st.Default
	}
	// nonterminal: modality -> LABEL ; name -> ...
	if tok == pr.st.Default {
		for _, prod := range pr.g.ProdsOf(g) {
			if len(prod.RHS) == 1 && prod.RHS[0] == pr.st.Default {
				return true
			}
		}
	}
	return false
}

// listMatches: nonterminal g derives elem (sep elem)* (right- or left-recursive), possibly empty.
func (pr *printer) listMatches(s psym, g string) (bool, string) {
	if pr.g.IsTerminal(g) {
		return false, ""
	}
	prods := pr.g.ProdsOf(g)
	matchSeq := func(rhs []string, syms []psym) bool {
		if len(rhs) != len(syms) {
			return false
		}
		for i, y := range syms {
			switch y.Kind {
			case symTerm:
				if rhs[i] != y.Tok {
					return false
				}
			case symChild:
				if rhs[i] != pr.cat.NT {
					return false
				}
			case symAtom:
				if !pr.atomMatches(y.Tok, rhs[i]) {
					return false
				}
			default:
				return false
			}
		}
		return true
	}
	single, rec := false, false
	isSameList := func(h string) bool {
		if h == g {
			return true
		}
		if pr.listDepth > 2 {
			return false
		}
		pr.listDepth++
		ok, _ := pr.listMatches(s, h)
		pr.listDepth--
		return ok
	}
	for _, prod := range prods {
		switch {
		case len(prod.RHS) == 0:
		case matchSeq(prod.RHS, s.Elem):
			single = true
		case len(prod.RHS) == len(s.Elem)+len(s.Sep)+1 && !pr.g.IsTerminal(prod.RHS[len(prod.RHS)-1]) &&
			matchSeq(prod.RHS[:len(s.Elem)], s.Elem) && matchSeq(prod.RHS[len(s.Elem):len(s.Elem)+len(s.Sep)], s.Sep) && isSameList(prod.RHS[len(prod.RHS)-1]):
			rec = true // elem sep list
		case len(prod.RHS) == len(s.Elem)+len(s.Sep)+1 && prod.RHS[0] == g &&
			matchSeq(prod.RHS[1:1+len(s.Sep)], s.Sep) && matchSeq(prod.RHS[1+len(s.Sep):], s.Elem):
			rec = true // list sep elem
		default:
			// a list of names etc. (names: name | name COMMA names) handled by the same cases; anything else fails
			return false, ""
		}
	}
	return single && rec, ""
}

type prodInfo struct {
	T     *types.Named
	Syms  []psym
	Prod  *Production
	Fn    *ssa.Function
	OpenL bool
	OpenR bool
}

// printInfosCache: print productions of the last analysed program, per category NT
// (filled by runPrintGrammar, reused by R-PRINT-SLOTS).
var printInfosCache = map[string][]*prodInfo{}

func runPrintGrammar(p *Program, r *RuleResult) {
	st, err := extractScanTable(p)
	if err != nil {
		r.add("parser scanner", "static-token-table", Undecided, "", err.Error())
		return
	}
	r.count("scanner operators", len(st.Ops))
	r.count("scanner keywords", len(st.Keywords))
	g, err := parseYacc(filepath.Join(p.RepoDir, "parser", "parser.y"))
	if err != nil {
		r.add("parser/parser.y", "grammar-readable", Undecided, "", err.Error())
		return
	}
	cats := []*printCategory{
		{Iface: p.Named(typesPkg, "SessionType"), NT: "session_type_init", ChildMeth: "String"},
		{Iface: p.Named(processPkg, "Form"), NT: "expression", ChildMeth: "String"},
	}
	for _, cat := range cats {
		pr := &printer{p: p, st: st, g: g, cat: cat, sh: &shaper{p: p}}
		// operators that can extend a complete phrase of this category: NT -> NT t ...
		extend := map[string]*Production{}
		for _, prod := range g.ProdsOf(cat.NT) {
			if len(prod.RHS) >= 2 && prod.RHS[0] == cat.NT && g.IsTerminal(prod.RHS[1]) {
				extend[prod.RHS[1]] = prod
			}
		}
		impls := p.Implementers(cat.Iface)
		var infos []*prodInfo
		for _, T := range impls {
			fn := p.Method(T, "String")
			name := fnName(fn)
			ret := soleReturn(fn)
			if ret == nil {
				r.add(name, "print-production", Undecided, p.pos(fn.Pos()), "String() has no single return")
				continue
			}
			atoms, e := pr.sh.Shape(ret.Results[0])
			if e != nil {
				r.add(name, "print-production", Undecided, p.pos(fn.Pos()), "cannot extract the print production: "+e.Error())
				continue
			}
			syms, e := pr.classify(atoms)
			if e != nil {
				r.add(name, "print-production", Violated, p.pos(fn.Pos()), e.Error())
				continue
			}
			syms = pr.collapseBrackets(syms)
			prod, why := pr.matchProduction(syms)
			if prod == nil {
				if cat.NT == "expression" && T.Obj().Name() == "BranchForm" {
					// a branch is not an expression of its own: matched as the element of the case's list
					r.add(name, "print-production", Holds, p.pos(fn.Pos()), "element of the branch list: ["+psymsString(syms)+"]")
					continue
				}
				r.add(name, "print-production", Violated, p.pos(fn.Pos()), why+": the printed text does not parse back")
				continue
			}
			r.add(name, "print-production", Holds, p.pos(fn.Pos()), "["+psymsString(syms)+"] = "+cat.NT+" → "+strings.Join(prod.RHS, " "))
			pi := &prodInfo{T: T, Syms: syms, Prod: prod, Fn: fn}
			pi.OpenL = len(syms) > 0 && syms[0].Kind == symChild
			pi.OpenR = len(syms) > 0 && syms[len(syms)-1].Kind == symChild
			infos = append(infos, pi)
		}
		printInfosCache[cat.NT] = infos
		// triples
		nTriples := 0
		for _, par := range infos {
			for i, s := range par.Syms {
				if s.Kind != symChild {
					continue
				}
				for _, ch := range infos {
					nTriples++
					construct := fmt.Sprintf("triple:%s.%s<-%s", par.T.Obj().Name(), lastSeg(s.Field), ch.T.Obj().Name())
					name := fnName(par.Fn)
					bracketed := s.Bracketed
					if s.Helper != nil {
						b, e := pr.helperBrackets(s.Helper, ch.T)
						if e != nil {
							r.add(name, construct, Undecided, p.pos(par.Fn.Pos()), e.Error())
							continue
						}
						bracketed = b
					}
					if bracketed {
						// needs the bracket production
						r.add(name, construct, Holds, p.pos(par.Fn.Pos()), "child is printed in brackets")
						continue
					}
					bad := ""
					last := i == len(par.Syms)-1
					if !last && ch.OpenR {
						nxt := par.Syms[i+1]
						if nxt.Kind == symTerm {
							if _, canExtend := extend[nxt.Tok]; canExtend {
								// need reduce of the child's production before nxt
								_, cl := g.ProdPrec(ch.Prod)
								tl, hasT := g.PrecLevel[nxt.Tok]
								reduce := hasT && cl != 0 && (cl > tl || (cl == tl && g.Assoc[nxt.Tok] == "left"))
								if !reduce {
									bad = fmt.Sprintf("a %s in slot %s is printed without brackets before %s; the parser shifts %s (precedence/associativity), so the text re-parses with the %s swallowing what follows", ch.T.Obj().Name(), lastSeg(s.Field), nxt.Tok, nxt.Tok, ch.T.Obj().Name())
								}
							}
						}
					}
					if bad == "" && last && ch.OpenL && i > 0 {
						// the child's own operator follows its first sub-child: need shift over reducing the parent
						op := ""
						if len(ch.Syms) > 1 && ch.Syms[1].Kind == symTerm {
							op = ch.Syms[1].Tok
						}
						_, pl := g.ProdPrec(par.Prod)
						ol, hasO := g.PrecLevel[op]
						shift := pl == 0 || !hasO || pl < ol || (pl == ol && g.Assoc[op] == "right")
						if !shift {
							bad = fmt.Sprintf("a %s in the last slot of %s is printed without brackets; the parser reduces the %s first, so the text re-parses left-nested", ch.T.Obj().Name(), par.T.Obj().Name(), par.T.Obj().Name())
						}
					}
					if bad != "" {
						r.add(name, construct, Violated, p.pos(par.Fn.Pos()), bad)
					} else {
						r.add(name, construct, Holds, p.pos(par.Fn.Pos()), "")
					}
				}
			}
		}
		r.count("triples ("+cat.NT+")", nTriples)
		var ex []string
		for t := range extend {
			ex = append(ex, t)
		}
		sort.Strings(ex)
		r.note("%s: %d constructors, infix operators that can extend a phrase: %v", cat.NT, len(infos), ex)
	}
}

func lastSeg(s string) string {
	if i := strings.LastIndex(s, "."); i >= 0 {
		return s[i+1:]
	}
	return s
}

func soleReturn(fn *ssa.Function) *ssa.Return {
	var ret *ssa.Return
	for _, b := range fn.Blocks {
		for _, in := range b.Instrs {
			if rr, ok := in.(*ssa.Return); ok {
				if ret != nil {
					return nil
				}
				ret = rr
			}
		}
	}
	if ret == nil || len(ret.Results) != 1 {
		return nil
	}
	return ret
}
