package main

import (
	"fmt"
	"go/types"
	"strings"

	"golang.org/x/tools/go/ssa"
)

// R-MUST-CHECK (C07, C01, C05): a type taken out of the context (or the provider type) is
// checked before the rule succeeds. R-CASE-EXACT (C07, C05): a case covers exactly the labels
// of the scrutinee's own choice type.

func init() {
	register(&Rule{Name: "R-MUST-CHECK", Min: 30,
		Doc: "in every typing rule, each type consumed from the context and the provider type reach a success exit only through a check fed by it (EqualType true, successful constructor assertion, IsWeakenable/IsContractable true) or are handed on (stored into the continuation's context, or forwarded as the continuation's provider type)",
		Run: runMustCheck})
	register(&Rule{Name: "R-CASE-EXACT", Min: 6,
		Doc: "in both arms of the case rule: every branch label is looked up in the scrutinee's own choice type (not found ⇒ error), repeated labels are rejected through a set written in the loop, and after the loop the number of distinct labels is compared with the number of branches of the same choice type (fewer ⇒ error)",
		Run: runCaseExact})
}

// derivedTypes: closure of v under Unfold-like calls, phis and interface conversions.
func derivedTypes(v ssa.Value, unfold map[*ssa.Function]bool) map[ssa.Value]bool {
	out := map[ssa.Value]bool{v: true}
	work := []ssa.Value{v}
	for len(work) > 0 {
		x := work[len(work)-1]
		work = work[:len(work)-1]
		refs := x.Referrers()
		if refs == nil {
			continue
		}
		for _, u := range *refs {
			var nv ssa.Value
			switch y := u.(type) {
			case *ssa.Call:
				if sc := y.Common().StaticCallee(); sc != nil && (unfold[sc] || sc.Name() == "CopyType") && len(y.Common().Args) > 0 && y.Common().Args[0] == x {
					nv = y
				}
			case *ssa.Phi:
				nv = y
			case *ssa.ChangeInterface:
				nv = y
			}
			if nv != nil && !out[nv] {
				out[nv] = true
				work = append(work, nv)
			}
		}
	}
	return out
}

func runMustCheck(p *Program, r *RuleResult) {
	ua := newUnfoldAnalysis(p)
	eqT := p.Func(typesPkg, "EqualType")
	predNames := map[string]bool{"IsWeakenable": true, "IsContractable": true}
	nSources := 0
	for _, m := range p.typecheckMethods() {
		view := p.View(m.Fn)
		loops := view.Loops()
		name := fnName(m.Fn)
		exits := map[ssa.Instruction]bool{}
		for _, ret := range p.successExits(m) {
			exits[ret] = true
		}
		contCalls := map[ssa.Instruction]bool{}
		for _, c := range m.Conts {
			contCalls[c] = true
		}
		type source struct {
			v         ssa.Value
			after     ssa.Instruction
			construct string
			provider  bool
		}
		var sources []source
		ord := map[string]int{}
		for _, c := range p.callsIn(m.Fn) {
			call, ok := c.(*ssa.Call)
			if !ok {
				continue
			}
			sc := call.Common().StaticCallee()
			if !p.isConsumeFunc(sc) {
				continue
			}
			for _, u := range *call.Referrers() {
				if ex, ok := u.(*ssa.Extract); ok && ex.Index == 0 {
					k := accessPath(call.Common().Args[0])
					ord[k]++
					sources = append(sources, source{ex, ex, fmt.Sprintf("consumed:%s#%d", k, ord[k]), false})
				}
			}
		}
		if len(m.Fn.Blocks) > 0 && len(m.Fn.Blocks[0].Instrs) > 0 {
			sources = append(sources, source{m.Provider, nil, "provider-type", true})
		}
		for _, s := range sources {
			nSources++
			D := derivedTypes(s.v, ua.unfoldFn)
			inD := func(v ssa.Value) bool { return D[v] || D[origin(v)] }
			// blocks where a check on D has succeeded
			checked := func(b *ssa.BasicBlock) bool {
				for f := range view.FactsAt(b) {
					if f.k != factTrue {
						continue
					}
					switch x := f.v.(type) {
					case *ssa.Call:
						sc := x.Common().StaticCallee()
						if sc == eqT && (inD(x.Common().Args[0]) || inD(x.Common().Args[1])) {
							return true
						}
						if sc != nil && predNames[sc.Name()] && inD(x.Common().Args[0]) {
							return true
						}
					case *ssa.Extract:
						if ax, at, ok := p.assertOf(x); ok && x.Index == 1 && inD(ax) && !typeIsInterface(at) {
							return true
						}
					}
				}
				return false
			}
			// instructions that hand the type on
			moves := func(in ssa.Instruction) bool {
				switch x := in.(type) {
				case *ssa.Store:
					if inD(x.Val) {
						if _, fname, ok := fieldNameOf(x.Addr); ok && fname == "Type" {
							if fa, ok := x.Addr.(*ssa.FieldAddr); ok && isNamed(fa.X.Type(), processPkg, "NamesType") {
								return true
							}
						}
					}
				case *ssa.Call:
					com := x.Common()
					if com.IsInvoke() && com.Method.Name() == "typecheckForm" {
						for _, a := range com.Args {
							if inD(a) {
								return true // forwarded as the continuation's provider type
							}
						}
					}
					if p.isConsumeFunc(com.StaticCallee()) {
						for _, a := range com.Args {
							if inD(a) {
								return true // handed to the self-aware consumer: its result is a source of its own
							}
						}
					}
				}
				return false
			}
			bad := ""
			seen := map[*ssa.BasicBlock]bool{}
			var visit func(b *ssa.BasicBlock, from int)
			visit = func(b *ssa.BasicBlock, from int) {
				ins := view.Instrs(b)
				for i := from; i < len(ins); i++ {
					if moves(ins[i]) {
						return
					}
					if exits[ins[i]] {
						bad = fmt.Sprintf("success at %s is reachable without any check of this type", p.instrPos(ins[i]))
						return
					}
					if !s.provider && contCalls[ins[i]] {
						bad = fmt.Sprintf("the continuation is typed at %s although the consumed type was neither checked nor handed on", p.instrPos(ins[i]))
						return
					}
				}
				for _, su := range view.Succs(b) {
					if !seen[su] && !checked(su) {
						// zero-iteration exit of a loop whose body hands the type on: the loop over a
						// case's branches runs at least once (option lists are non-empty in the grammar and
						// R-CASE-EXACT's coverage test rejects a case with fewer labels than the type)
						skip := false
						if s.provider {
							for _, l := range loops {
								if l.Header == b && !l.Body[su] && loopMoves(l, view, moves) {
									skip = true
								}
							}
						}
						if skip {
							continue
						}
						seen[su] = true
						visit(su, 0)
					}
				}
			}
			if s.after != nil {
				visit(s.after.Block(), indexIn(s.after.Block(), s.after)+1)
			} else {
				visit(m.Fn.Blocks[0], 0)
			}
			if bad != "" {
				r.add(name, s.construct, Violated, p.pos(m.Fn.Pos()), bad)
			} else {
				r.add(name, s.construct, Holds, p.pos(m.Fn.Pos()), "")
			}
		}
	}
	r.count("type sources", nSources)
}

func runCaseExact(p *Program, r *RuleResult) {
	var cm *tcMethod
	for _, m := range p.typecheckMethods() {
		if m.T.Obj().Name() == "CaseForm" {
			cm = m
		}
	}
	if cm == nil {
		anchorFail("CaseForm.typecheckForm")
	}
	view := p.View(cm.Fn)
	name := fnName(cm.Fn)
	loops := view.Loops()
	arm := 0
	for _, b := range view.Blocks() {
		for _, in := range view.Instrs(b) {
			ta, ok := in.(*ssa.TypeAssert)
			if !ok || !ta.CommaOk {
				continue
			}
			T := namedOf(ta.AssertedType)
			if T == nil || T.Obj().Pkg().Path() != typesPkg {
				continue
			}
			// choice types: have a field of []Option
			hasBranches := false
			for _, f := range structFields(T) {
				if isOptionSlice(f.Type()) {
					hasBranches = true
				}
			}
			if !hasBranches {
				continue
			}
			var val ssa.Value
			for _, u := range *ta.Referrers() {
				if ex, ok := u.(*ssa.Extract); ok && ex.Index == 0 {
					val = ex
				}
			}
			if val == nil {
				continue
			}
			arm++
			tag := fmt.Sprintf("arm#%d(%s)", arm, T.Obj().Name())
			// (a) lookup of each branch label in val.Branches, inside a loop over p.branches
			var lookup *ssa.Call
			for _, c := range p.callsIn(cm.Fn) {
				call, ok := c.(*ssa.Call)
				if !ok || len(call.Common().Args) != 2 {
					continue
				}
				if !fieldOf(call.Common().Args[0], val, "Branches") {
					continue
				}
				if strings.Contains(accessPath(call.Common().Args[1]), ".branches[].label") {
					lookup = call
				}
			}
			if lookup == nil {
				r.add(name, "label-lookup:"+tag, Violated, p.instrPos(ta), "the branch labels are not looked up in the branches of the scrutinee's own (asserted) choice type")
				continue
			}
			var loop *Loop
			for _, l := range loops {
				if l.Body[lookup.Block()] {
					loop = l
				}
			}
			// not-found ⇒ error
			var found ssa.Value
			for _, u := range *lookup.Referrers() {
				if ex, ok := u.(*ssa.Extract); ok && ex.Index == 1 {
					found = ex
				}
			}
			errOnMiss := false
			if found != nil {
				for _, bb := range view.Blocks() {
					if view.holdsAt(bb, found, factFalse) {
						ins := view.Instrs(bb)
						if ret, ok := ins[len(ins)-1].(*ssa.Return); ok && isErrorValue(ret.Results[0], view, bb, map[ssa.Value]bool{}) {
							errOnMiss = true
						}
					}
				}
			}
			switch {
			case loop == nil:
				r.add(name, "label-lookup:"+tag, Violated, p.instrPos(lookup), "the label lookup is not inside a loop over the case's branches")
			case !errOnMiss:
				r.add(name, "label-lookup:"+tag, Violated, p.instrPos(lookup), "a branch whose label is not in the scrutinee's type does not lead to an error")
			default:
				r.add(name, "label-lookup:"+tag, Holds, p.instrPos(lookup), "")
			}
			if loop == nil {
				continue
			}
			// (b) duplicate labels: a set looked up and written inside the loop, hit ⇒ error
			dupOK := false
			var setVal ssa.Value
			for bb := range loop.Body {
				for _, i2 := range view.Instrs(bb) {
					mu, ok := i2.(*ssa.MapUpdate)
					if !ok || !isMapStringBool(mu.Map.Type()) || !strings.Contains(accessPath(mu.Key), ".branches[].label") {
						continue
					}
					// a lookup of the same map and key in the loop whose true edge errors
					for bb2 := range loop.Body {
						for _, i3 := range view.Instrs(bb2) {
							lk, ok := i3.(*ssa.Lookup)
							if !ok || origin(lk.X) != origin(mu.Map) {
								continue
							}
							for _, eb := range view.Blocks() {
								if view.holdsAt(eb, lk, factTrue) {
									ins := view.Instrs(eb)
									if ret, ok := ins[len(ins)-1].(*ssa.Return); ok && isErrorValue(ret.Results[0], view, eb, map[ssa.Value]bool{}) {
										dupOK = true
										setVal = origin(mu.Map)
									}
								}
							}
						}
					}
				}
			}
			if dupOK {
				r.add(name, "duplicate-labels-rejected:"+tag, Holds, p.instrPos(lookup), "")
			} else {
				r.add(name, "duplicate-labels-rejected:"+tag, Violated, p.instrPos(lookup), "a label repeated among the case's branches is not rejected (no set that is both consulted and written in the loop with an error on a hit)")
			}
			// (c) after the loop: len(set) < len(val.Branches) ⇒ error, here or in a helper that is
			// handed the set and the branches and whose error this rule returns
			covOK := coverageTest(view, func(v ssa.Value) bool { return setVal != nil && origin(v) == setVal },
				func(v ssa.Value) bool { return fieldOf(v, val, "Branches") }, loop.Body)
			if !covOK && setVal != nil {
				for _, c := range p.callsIn(cm.Fn) {
					call, ok := c.(*ssa.Call)
					if !ok || loop.Body[call.Block()] {
						continue
					}
					h := call.Common().StaticCallee()
					if h == nil || !p.isFirstParty(h) || h.Blocks == nil || h == cm.Fn {
						continue
					}
					si, bi := -1, -1
					for i, a := range call.Common().Args {
						if origin(a) == setVal {
							si = i
						}
						if fieldOf(a, val, "Branches") {
							bi = i
						}
					}
					if si < 0 || bi < 0 || si >= len(h.Params) || bi >= len(h.Params) {
						continue
					}
					if !coverageTest(p.View(h), func(v ssa.Value) bool { return v == ssa.Value(h.Params[si]) },
						func(v ssa.Value) bool { return v == ssa.Value(h.Params[bi]) }, nil) {
						continue
					}
					// the helper's error is this rule's error
					for _, rb := range view.Blocks() {
						if !view.holdsAt(rb, call, factNonNil) {
							continue
						}
						ins2 := view.Instrs(rb)
						if ret, ok := ins2[len(ins2)-1].(*ssa.Return); ok && (ret.Results[0] == ssa.Value(call) || isErrorValue(ret.Results[0], view, rb, map[ssa.Value]bool{})) {
							covOK = true
						}
					}
				}
			}
			if covOK {
				r.add(name, "all-labels-covered:"+tag, Holds, p.instrPos(lookup), "")
			} else {
				r.add(name, "all-labels-covered:"+tag, Violated, p.instrPos(lookup), "after the branches were checked the rule does not compare the number of distinct labels with the number of branches of the scrutinee's type: a case that omits a label is accepted")
			}
		}
	}
}

func loopMoves(l *Loop, view *View, moves func(ssa.Instruction) bool) bool {
	for b := range l.Body {
		for _, in := range view.Instrs(b) {
			if moves(in) {
				return true
			}
		}
	}
	return false
}

// R-FUNC-KEY (C01, C07): function definitions are unique for exactly the key by which the
// typechecker's function environment identifies them.
func init() {
	register(&Rule{Name: "R-FUNC-KEY", Min: 2,
		Doc: "the duplicate-definition check of functions uses the same key (string shape) as the function environment the calls are typed against; otherwise two definitions the environment cannot tell apart are both admitted and a call is checked against one and executed as another",
		Run: runFuncKey})
}

func runFuncKey(p *Program, r *RuleResult) {
	sh := &shaper{p: p}
	// environment key
	var envKey []Atom
	var envFn *ssa.Function
	for _, fn := range p.SrcFuncs {
		if fn.Pkg == nil || fn.Pkg.Pkg.Path() != processPkg {
			continue
		}
		for _, b := range fn.Blocks {
			for _, in := range b.Instrs {
				mu, ok := in.(*ssa.MapUpdate)
				if !ok || !isNamed(mu.Map.Type(), processPkg, "FunctionTypesEnv") {
					continue
				}
				as, err := sh.Shape(mu.Key)
				if err == nil {
					envKey = as
					envFn = fn
				}
			}
		}
	}
	if envFn == nil {
		r.add("process", "function-environment-key", Undecided, "", "construction of the function environment not found")
		return
	}
	norm := func(as []Atom) string {
		var ss []string
		for _, a := range as {
			s := a.String()
			// normalise the range variable: keep the path from the collection element on
			if i := strings.Index(s, "[]"); i >= 0 {
				s = "…" + strings.TrimRight(s[i:], ")")
			}
			ss = append(ss, s)
		}
		return strings.Join(ss, " ")
	}
	r.add(fnName(envFn), "function-environment-key", Holds, p.pos(envFn.Pos()), "key shape: "+norm(envKey))
	// uniqueness check: a local set written with a key derived from FunctionDefinitions elements, in a driver phase
	d := findTypecheckDriver(p)
	found := false
	for _, ph := range d.Phases {
		fn := ph.Common().StaticCallee()
		view := p.View(fn)
		for _, b := range view.Blocks() {
			for _, in := range view.Instrs(b) {
				mu, ok := in.(*ssa.MapUpdate)
				if !ok {
					continue
				}
				// a local set keyed by strings (map[string]bool, map[string]struct{}, …)
				if mt, isMap := mu.Map.Type().Underlying().(*types.Map); !isMap {
					continue
				} else if kb, isB := mt.Key().Underlying().(*types.Basic); !isB || kb.Kind() != types.String {
					continue
				}
				if _, local := origin(mu.Map).(*ssa.MakeMap); !local {
					continue
				}
				as, err := sh.Shape(mu.Key)
				if err != nil || !strings.Contains(shapeString(as), "FunctionDefinitions[]") {
					continue
				}
				found = true
				if norm(as) == norm(envKey) {
					r.add(fnName(fn), "function-uniqueness-key", Holds, p.instrPos(mu), "same key as the function environment")
				} else {
					r.add(fnName(fn), "function-uniqueness-key", Violated, p.instrPos(mu),
						fmt.Sprintf("function definitions are checked for duplicates by [%s] but the environment used to type calls is keyed by [%s]: definitions that differ only in the extra component are all admitted, the environment keeps one of them, and the interpreter may run another", norm(as), norm(envKey)))
				}
			}
		}
	}
	if !found {
		r.add(fnName(d.Driver), "function-uniqueness-key", Violated, p.pos(d.Driver.Pos()), "no duplicate-definition check for functions found in the typechecking phases")
	}
}

// coverageTest: some branch outside `notIn` compares len(set) with len(branches) and the
// "fewer labels than branches" edge ends in error returns only.
func coverageTest(view *View, isSet, isBranches func(ssa.Value) bool, notIn map[*ssa.BasicBlock]bool) bool {
	for _, bb := range view.Blocks() {
		ins := view.Instrs(bb)
		iff, ok := ins[len(ins)-1].(*ssa.If)
		if !ok {
			continue
		}
		bo, ok := iff.Cond.(*ssa.BinOp)
		if !ok {
			continue
		}
		lenOf := func(v ssa.Value) ssa.Value {
			c, ok := v.(*ssa.Call)
			if !ok {
				return nil
			}
			if bi, ok := c.Common().Value.(*ssa.Builtin); ok && bi.Name() == "len" {
				return c.Common().Args[0]
			}
			return nil
		}
		a, bv := lenOf(bo.X), lenOf(bo.Y)
		if a == nil || bv == nil {
			continue
		}
		setFirst := isSet(a) && isBranches(bv)
		setSecond := isSet(bv) && isBranches(a)
		fewerEdge := -1
		switch {
		case setFirst && (bo.Op.String() == "<" || bo.Op.String() == "!="):
			fewerEdge = 0
		case setFirst && bo.Op.String() == ">=" || setFirst && bo.Op.String() == "==":
			fewerEdge = 1
		case setSecond && (bo.Op.String() == ">" || bo.Op.String() == "!="):
			fewerEdge = 0
		case setSecond && (bo.Op.String() == "<=" || bo.Op.String() == "=="):
			fewerEdge = 1
		}
		if fewerEdge < 0 {
			continue
		}
		// that edge must end in an error, and the test must be after the loop
		tgt := bb.Succs[fewerEdge]
		allErr := true
		for rb := range view.blocksReachableFrom(tgt) {
			if view.Exit(rb) == ExitReturn {
				ins2 := view.Instrs(rb)
				ret := ins2[len(ins2)-1].(*ssa.Return)
				if !isErrorValue(ret.Results[0], view, rb, map[ssa.Value]bool{}) && view.holdsAt(rb, bo, map[int]factKind{0: factTrue, 1: factFalse}[fewerEdge]) {
					allErr = false
				}
			}
		}
		if allErr && !notIn[bb] {
			return true
		}
	}
	return false
}
