//go:build tools

package main

import _ "golang.org/x/tools/cmd/goyacc"
