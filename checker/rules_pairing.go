package main

import (
	"fmt"
	"go/types"
	"os"
	"sort"
	"strings"

	"golang.org/x/tools/go/ssa"
)

// R-PAIRING (C04, C07, C01): the component of the session type that a typing rule gives to
// a name field is the component the run-time message slot carries to the peer's field.

func init() {
	register(&Rule{Name: "R-PAIRING", Min: 8,
		Doc: "for every message kind and payload slot: the name field the writer puts into the slot and the name field the reader binds from the slot are given the same component (Left/Right/Continuation/…) of the same type constructor by their typing rules",
		Run: runPairing})
}

// typingComponents: per asserted constructor K, name field -> component field of K.
func (p *Program) typingComponents(m *tcMethod, ua *unfoldAnalysis) map[string]map[string]string {
	out := map[string]map[string]string{}
	recv := m.Recv.Name()
	set := func(K, field, comp string) {
		if out[K] == nil {
			out[K] = map[string]string{}
		}
		out[K][field] = comp
	}
	// component of a value: derives (through Unfold/phi) from load X.Comp where X is an asserted value
	var compOf func(v ssa.Value, depth int) (string, string)
	compOf = func(v ssa.Value, depth int) (string, string) {
		if depth > 6 {
			return "", ""
		}
		v = origin(v)
		switch x := v.(type) {
		case *ssa.UnOp:
			if fa, ok := x.X.(*ssa.FieldAddr); ok {
				if ex, ok := fa.X.(*ssa.Extract); ok {
					if ta, ok := ex.Tuple.(*ssa.TypeAssert); ok && ex.Index == 0 {
						if K := namedOf(ta.AssertedType); K != nil {
							_, comp, _ := fieldNameOf(fa)
							return K.Obj().Name(), comp
						}
					}
				}
				// a field of an option found in X.Branches: the component is the option list
				if k, c := compOf(fa.X, depth+1); k != "" {
					return k, c
				}
			}
		case *ssa.Call:
			if sc := x.Common().StaticCallee(); sc != nil && ua.unfoldFn[sc] && len(x.Common().Args) > 0 {
				return compOf(x.Common().Args[0], depth+1)
			}
			// result of a branch lookup: LookupBranchByLabel(X.Branches, label) / FetchSelectBranch
			if sc := x.Common().StaticCallee(); sc != nil && len(x.Common().Args) == 2 && isOptionSlice(x.Common().Args[0].Type()) {
				return compOf(x.Common().Args[0], depth+1)
			}
		case *ssa.Extract:
			return compOf(x.Tuple, depth+1)
		case *ssa.Phi:
			for _, e := range x.Edges {
				if k, c := compOf(e, depth+1); k != "" {
					return k, c
				}
			}
		case *ssa.FieldAddr:
			return compOf(x.X, depth+1)
		}
		return "", ""
	}
	// field consumed by a consume call result
	consumedField := func(v ssa.Value) string {
		seen := map[ssa.Value]bool{}
		var walk func(v ssa.Value, d int) string
		walk = func(v ssa.Value, d int) string {
			if d > 6 || seen[v] {
				return ""
			}
			seen[v] = true
			v = origin(v)
			switch x := v.(type) {
			case *ssa.Extract:
				if c, ok := x.Tuple.(*ssa.Call); ok && x.Index == 0 && p.isConsumeFunc(c.Common().StaticCallee()) {
					ap := accessPath(c.Common().Args[0])
					if strings.HasPrefix(ap, recv+".") {
						return strings.TrimPrefix(ap, recv+".")
					}
				}
			case *ssa.Call:
				if sc := x.Common().StaticCallee(); sc != nil && ua.unfoldFn[sc] && len(x.Common().Args) > 0 {
					return walk(x.Common().Args[0], d+1)
				}
			case *ssa.Phi:
				for _, e := range x.Edges {
					if f := walk(e, d+1); f != "" {
						return f
					}
				}
			}
			return ""
		}
		return walk(v, 0)
	}
	eqT := p.Func(typesPkg, "EqualType")
	for _, c := range p.callsIn(m.Fn) {
		call, ok := c.(*ssa.Call)
		if !ok {
			continue
		}
		com := call.Common()
		switch {
		case com.StaticCallee() == eqT:
			for i := 0; i < 2; i++ {
				K, comp := compOf(com.Args[i], 0)
				f := consumedField(com.Args[1-i])
				if K != "" && f != "" {
					set(K, f, comp)
				}
			}
		case com.IsInvoke() && com.Method.Name() == "typecheckForm":
			// shadow provider &p.F typed at a component
			var shadow, prov ssa.Value
			for _, a := range com.Args {
				if isPtr(a.Type()) && isNameType(a.Type()) {
					shadow = a
				}
				if isSessionTypeType(a.Type()) {
					prov = a
				}
			}
			if shadow != nil && prov != nil {
				ap := accessPath(shadow)
				if K, comp := compOf(prov, 0); K != "" && strings.HasPrefix(ap, recv+".") {
					set(K, strings.TrimSuffix(strings.TrimPrefix(ap, recv+"."), "[]"), comp)
				}
			}
		}
	}
	for _, b := range m.Fn.Blocks {
		for _, in := range b.Instrs {
			mu, ok := in.(*ssa.MapUpdate)
			if !ok || !isCtxType(mu.Map.Type()) {
				continue
			}
			ap := accessPath(mu.Key)
			if !strings.HasPrefix(ap, recv+".") || !strings.HasSuffix(ap, ".Ident") {
				continue
			}
			field := strings.TrimSuffix(strings.TrimPrefix(ap, recv+"."), ".Ident")
			// the stored NamesType{Type: v}
			if ld, ok := mu.Value.(*ssa.UnOp); ok {
				if al, ok := ld.X.(*ssa.Alloc); ok {
					for _, u := range *al.Referrers() {
						if fa, ok := u.(*ssa.FieldAddr); ok {
							if _, n, _ := fieldNameOf(fa); n == "Type" {
								for _, st := range storesTo(fa) {
									if K, comp := compOf(st.Val, 0); K != "" {
										set(K, field, comp)
									}
								}
							}
						}
					}
				}
			}
		}
	}
	return out
}

func runPairing(p *Program, r *RuleResult) {
	ua := newUnfoldAnalysis(p)
	comps := map[string]map[string]map[string]string{} // form -> K -> field -> comp
	for _, m := range p.typecheckMethods() {
		comps[m.T.Obj().Name()] = p.typingComponents(m, ua)
	}
	nChecked := 0
	if os.Getenv("GRITS_DEBUG_PAIRING") != "" {
		for f, m := range comps {
			fmt.Fprintf(os.Stderr, "comps %s: %v\n", f, m)
		}
	}
	for _, family := range []string{"Transition", "TransitionNP"} {
		writers, readers := protocolTables(p, family)
		wslots := writerSlots(p, family, writers)
		for _, rd := range readers {
			if rd.kind == "" {
				continue
			}
			// reader slot -> bound field: Substitute(f.F, message.Slot) / Substitute(f.F, NewSelf(message.Slot.Ident))
			rslots := map[string]string{}
			recvName := rd.fn.Params[0].Name()
			for _, c := range p.callsIn(rd.clo) {
				com := c.Common()
				if !(com.IsInvoke() && com.Method.Name() == "Substitute") || len(com.Args) != 2 {
					continue
				}
				fp := accessPath(com.Args[0])
				var field string
				switch {
				case strings.HasPrefix(fp, recvName+"."):
					field = strings.TrimPrefix(fp, recvName+".")
				case strings.HasPrefix(fp, "f."):
					field = strings.TrimPrefix(fp, "f.")
				default:
					// branch payloads: j.payload_c
					if i := strings.LastIndex(fp, "."); i >= 0 {
						field = "branches[]." + fp[i+1:]
					}
				}
				slot := messageSlotOf(com.Args[1], rd.clo.Params[0])
				if nc, ok := com.Args[1].(*ssa.Call); ok && returnsSelfName(nc.Common().StaticCallee()) {
					// bound to self: the channel is whatever the closure installs as the provider
					// (the identifier handed to the self constructor is only printed)
					slot = providersSlot(rd.clo, rd.clo.Params[0])
				}
				if field != "" && slot != "" {
					rslots[slot] = strings.TrimSuffix(field, "[]")
				}
			}
			opp := map[string]string{"own": "client", "client": "own"}
			for _, w := range writers {
				if w.kind != rd.kind || w.side != opp[rd.side] {
					continue
				}
				// the slot the reader installs as its own provider must be the writer's own
				// provider: the reader takes over the writer's place
				if ps := providersSlot(rd.clo, rd.clo.Params[0]); ps != "" {
					nChecked++
					construct := fmt.Sprintf("%s:%s.%s:%s-provider-handed-over-to-%s", family, w.kind, ps, w.form, rd.form)
					if wf, has := wslots[w][ps]; has && wf == "<self>" {
						r.add(fnName(rd.fn), construct, Holds, rd.pos, "the reader continues under the writer's own provider")
					} else {
						what := "nothing"
						if has {
							what = w.form + "." + wf
						}
						r.add(fnName(rd.fn), construct, Violated, rd.pos,
							fmt.Sprintf("the reader of %s makes slot %s its provider, but the writer (%s) puts %s there instead of its own provider: the reader continues on a channel it is a client of, and the writer's clients are left without a provider", w.kind, ps, w.form, what))
					}
				}
				var slots []string
				for s := range wslots[w] {
					slots = append(slots, s)
				}
				sort.Strings(slots)
				for _, slot := range slots {
					wf := wslots[w][slot]
					rf, ok := rslots[slot]
					if !ok || wf == "<self>" {
						continue
					}
					// compare components under every constructor both typing rules know
					var verdicts []string
					bad := ""
					for K, wm := range comps[w.form] {
						wc, ok1 := wm[normField(wf)]
						rc, ok2 := comps[rd.form][K][normField(rf)]
						if !ok1 || !ok2 {
							continue
						}
						verdicts = append(verdicts, fmt.Sprintf("%s: %s.%s=%s vs %s.%s=%s", K, w.form, wf, wc, rd.form, rf, rc))
						if wc != rc {
							bad = fmt.Sprintf("message %s slot %s carries %s.%s, typed as %s.%s, to %s.%s, which the reader's typing rule types as %s.%s", w.kind, slot, w.form, wf, K, wc, rd.form, rf, K, rc)
						}
					}
					if len(verdicts) == 0 {
						continue
					}
					nChecked++
					construct := fmt.Sprintf("%s:%s.%s:%s.%s->%s.%s", family, w.kind, slot, w.form, wf, rd.form, rf)
					if bad != "" {
						r.add(fnName(rd.fn), construct, Violated, rd.pos, bad)
					} else {
						sort.Strings(verdicts)
						r.add(fnName(rd.fn), construct, Holds, rd.pos, strings.Join(verdicts, "; "))
					}
				}
			}
		}
	}
	r.count("slot pairings checked", nChecked)
}

func normField(f string) string {
	return strings.TrimSuffix(strings.Replace(f, "branches[].", "branches[].", 1), "[]")
}

// messageSlotOf: v is message.Slot, or NewSelf(message.Slot.Ident)-like.
func messageSlotOf(v ssa.Value, msg *ssa.Parameter) string {
	isMsgCell := func(x ssa.Value) bool {
		if x == ssa.Value(msg) {
			return true
		}
		if al, ok := x.(*ssa.Alloc); ok {
			for _, st := range storesTo(al) {
				if st.Val == ssa.Value(msg) {
					return true
				}
			}
		}
		return false
	}
	var walk func(v ssa.Value, d int) string
	walk = func(v ssa.Value, d int) string {
		if d > 6 {
			return ""
		}
		switch x := v.(type) {
		case *ssa.Field:
			if isMsgCell(x.X) {
				_, n, _ := fieldNameOf(x)
				return n
			}
			return walk(x.X, d+1)
		case *ssa.UnOp:
			return walk(x.X, d+1)
		case *ssa.FieldAddr:
			if isMsgCell(x.X) {
				_, n, _ := fieldNameOf(x)
				return n
			}
			return walk(x.X, d+1)
		case *ssa.Call:
			for _, a := range x.Common().Args {
				if s := walk(a, d+1); s != "" {
					return s
				}
			}
		}
		return ""
	}
	return walk(v, 0)
}

// providersSlot: the message slot the closure stores as the process's (single) provider.
func providersSlot(clo *ssa.Function, msg *ssa.Parameter) string {
	for _, b := range clo.Blocks {
		for _, in := range b.Instrs {
			st, ok := in.(*ssa.Store)
			if !ok {
				continue
			}
			if _, n, ok := fieldNameOf(st.Addr); !ok || n != "Providers" {
				continue
			}
			sl, ok := st.Val.(*ssa.Slice)
			if !ok {
				continue
			}
			al, ok := sl.X.(*ssa.Alloc)
			if !ok {
				continue
			}
			for _, u := range *al.Referrers() {
				ia, ok := u.(*ssa.IndexAddr)
				if !ok {
					continue
				}
				for _, est := range storesTo(ia) {
					if s := messageSlotOf(est.Val, msg); s != "" {
						return s
					}
				}
			}
		}
	}
	return ""
}

// writerSlots: for every message writer, which field of the writing form goes into which
// slot of the Message literal ("<self>" for the process's own provider).
func writerSlots(p *Program, family string, writers []*msgWriter) map[*msgWriter]map[string]string {
	msgT := p.Named(processPkg, "Message")
	wslots := map[*msgWriter]map[string]string{}
	for _, w := range writers {
		wslots[w] = map[string]string{}
	}
	form := p.Named(processPkg, "Form")
	for _, T := range p.Implementers(form) {
		root := p.MethodOpt(T, family)
		if root == nil {
			continue
		}
		for _, fn := range append([]*ssa.Function{root}, allAnon(root)...) {
			recvName := root.Params[0].Name()
			for _, b := range fn.Blocks {
				for _, in := range b.Instrs {
					al, ok := in.(*ssa.Alloc)
					if !ok || !types.Identical(al.Type().Underlying().(*types.Pointer).Elem(), msgT) {
						continue
					}
					kind := ""
					slots := map[string]string{}
					for _, u := range *al.Referrers() {
						fa, ok := u.(*ssa.FieldAddr)
						if !ok {
							continue
						}
						_, fname, _ := fieldNameOf(fa)
						for _, st := range storesTo(fa) {
							if fname == "Rule" {
								if k, ok := st.Val.(*ssa.Const); ok {
									kind = p.ruleConstName(k.Int64())
								}
								continue
							}
							ap := accessPath(st.Val)
							switch {
							case strings.HasPrefix(ap, recvName+"."):
								slots[fname] = strings.TrimPrefix(ap, recvName+".")
							case strings.Contains(ap, ".Providers[]"):
								slots[fname] = "<self>"
							}
						}
					}
					for _, w := range writers {
						if w.fn == root && w.kind == kind && w.pos == p.instrPos(al) {
							wslots[w] = slots
						}
					}
				}
			}
		}
	}
	return wslots
}

// R-RELAY (C04, C02): a process that receives a message and re-creates the form that sent it
// (the positive forward, which must then behave exactly like the original sender) hands
// every slot of the message to the constructor parameter that initialises the field the
// original writer took that slot from.
func init() {
	register(&Rule{Name: "R-RELAY", Min: 3,
		Doc: "where a received message of kind K is turned back into a form by a constructor call (forwarding), the constructed form is one that writes kind K on its own channel, and every message slot passed to the constructor initialises exactly the field from which that form's own transition fills that slot: relaying preserves payload/continuation/label positions",
		Run: runRelay})
}

// ctorFieldOfParam: for a constructor function returning *T: parameter index -> field name.
func ctorFieldOfParam(fn *ssa.Function) (map[int]string, *types.Named) {
	if fn == nil || fn.Blocks == nil || fn.Signature.Results().Len() != 1 {
		return nil, nil
	}
	out := map[int]string{}
	var T *types.Named
	for _, b := range fn.Blocks {
		for _, in := range b.Instrs {
			st, ok := in.(*ssa.Store)
			if !ok {
				continue
			}
			fa, ok := st.Addr.(*ssa.FieldAddr)
			if !ok {
				continue
			}
			_, fname, _ := fieldNameOf(fa)
			for i, prm := range fn.Params {
				if st.Val == ssa.Value(prm) || origin(st.Val) == ssa.Value(prm) {
					out[i] = fname
					T = namedOf(fa.X.Type())
				}
			}
		}
	}
	return out, T
}

func runRelay(p *Program, r *RuleResult) {
	msgT := p.Named(processPkg, "Message")
	n := 0
	for _, family := range []string{"Transition", "TransitionNP"} {
		writers, _ := protocolTables(p, family)
		wslots := writerSlots(p, family, writers)
		for _, fn := range p.SrcFuncs {
			if fn.Pkg == nil || fn.Pkg.Pkg.Path() != processPkg {
				continue
			}
			root := rootMethod(fn)
			if root.Name() != family {
				continue
			}
			view := p.View(fn)
			for _, c := range p.callsIn(fn) {
				sc := c.Common().StaticCallee()
				fields, T := ctorFieldOfParam(sc)
				if T == nil || len(fields) == 0 || sc.Signature.Recv() != nil {
					continue
				}
				// args that are message slots
				argSlots := map[int]string{}
				var msgCell ssa.Value
				for i, a := range c.Common().Args {
					if slot, cell := slotOfAnyMessage(a, msgT); slot != "" {
						argSlots[i] = slot
						msgCell = cell
					}
				}
				if len(argSlots) == 0 {
					continue
				}
				// the kind this arm handles: a fact message.Rule == K on the path
				kind := ""
				for f := range view.FactsAt(c.Block()) {
					if f.k != factTrue {
						continue
					}
					if bo, ok := f.v.(*ssa.BinOp); ok && bo.Op.String() == "==" {
						for _, pair := range [][2]ssa.Value{{bo.X, bo.Y}, {bo.Y, bo.X}} {
							if k, ok := pair[1].(*ssa.Const); ok {
								if s, cell := slotOfAnyMessage(pair[0], msgT); s == "Rule" && cell == msgCell {
									kind = p.ruleConstName(k.Int64())
								}
							}
						}
					}
				}
				n++
				construct := fmt.Sprintf("%s:relay-%s-as-%s", family, kind, T.Obj().Name())
				if kind == "" {
					r.add(fnName(fn), construct, Undecided, p.instrPos(c), "a form is built from message slots on a path where the message kind is not fixed by a test of its Rule field")
					continue
				}
				// the writer of that kind in T's own-side transition
				var tbl map[string]string
				for _, w := range writers {
					if w.form == T.Obj().Name() && w.kind == kind && w.side == "own" {
						tbl = wslots[w]
					}
				}
				if tbl == nil {
					r.add(fnName(fn), construct, Violated, p.instrPos(c),
						fmt.Sprintf("a received %s message is turned into a %s, but that form never sends %s on its own channel: the relayed message changes kind", kind, T.Obj().Name(), kind))
					continue
				}
				bad := ""
				var idx []int
				for i := range argSlots {
					idx = append(idx, i)
				}
				sort.Ints(idx)
				covered := map[string]bool{}
				for _, i := range idx {
					slot := argSlots[i]
					covered[slot] = true
					if tbl[slot] != fields[i] {
						bad = fmt.Sprintf("slot %s of the received %s message initialises %s.%s, but %s fills slot %s from its field %s when it sends: the relayed message carries the names in different positions than the original", slot, kind, T.Obj().Name(), fields[i], T.Obj().Name(), slot, tbl[slot])
					}
				}
				for slot, f := range tbl {
					if f != "<self>" && !covered[slot] {
						bad = fmt.Sprintf("slot %s (field %s) of the received %s message is not handed to the re-created %s: the relayed message loses it", slot, f, kind, T.Obj().Name())
					}
				}
				if bad != "" {
					r.add(fnName(fn), construct, Violated, p.instrPos(c), bad)
				} else {
					r.add(fnName(fn), construct, Holds, p.instrPos(c), fmt.Sprintf("slots %v -> fields as written by %s", argSlots, T.Obj().Name()))
				}
			}
		}
	}
	r.count("relay constructor sites", n)
}

// slotOfAnyMessage: v is (a load of) field Slot of some Message-typed cell; returns the
// slot and the cell.
func slotOfAnyMessage(v ssa.Value, msgT *types.Named) (string, ssa.Value) {
	for d := 0; d < 4; d++ {
		switch x := v.(type) {
		case *ssa.UnOp:
			v = x.X
			continue
		case *ssa.Field:
			if types.Identical(x.X.Type(), msgT) {
				_, n, _ := fieldNameOf(x)
				return n, origin(x.X)
			}
			return "", nil
		case *ssa.FieldAddr:
			if pt, ok := x.X.Type().Underlying().(*types.Pointer); ok && types.Identical(pt.Elem(), msgT) {
				_, n, _ := fieldNameOf(x)
				return n, x.X
			}
			return "", nil
		}
		break
	}
	return "", nil
}
