package main

import (
	"fmt"
	"go/constant"
	"go/token"
	"go/types"
	"sort"
	"strings"

	"golang.org/x/tools/go/ssa"
)

// R-CLI-GATE (C18): the program is started only behind the parse and typecheck gates.

func init() {
	register(&Rule{Name: "R-CLI-GATE", Min: 12,
		Doc: "in every driver outside package process, each call that starts processes is reached only through the nil edge of the parse error and the nil edge of Typecheck's error (for the CLI: under the assumption that typechecking is requested); the error edges end in log.Fatal or a return without starting anything; --noexecute / --execute=false make every start call unreachable (SCCP with flag assumptions)",
		Run: runCliGate})
}

func (p *Program) startSet() map[*ssa.Function]bool {
	out := map[*ssa.Function]bool{}
	out[p.Func(processPkg, "InitializeProcesses")] = true
	re := p.Named(processPkg, "RuntimeEnvironment")
	out[p.Method(re, "StartTransitions")] = true
	pr := p.Named(processPkg, "Process")
	out[p.Method(pr, "SpawnThenTransition")] = true
	if m := p.MethodOpt(pr, "SpawnThenTransitionNP"); m != nil {
		out[m] = true
	}
	return out
}

// execMustPassEdge: on the executable subgraph of res, does every path from the entry to
// the block of `at` take an edge whose branch facts satisfy pred?
func execMustPassEdge(view *View, res EvalResult, at ssa.Instruction, pred func(fs factSet) bool) bool {
	fn := view.Fn
	in := map[*ssa.BasicBlock]bool{}
	known := map[*ssa.BasicBlock]bool{}
	entry := fn.Blocks[0]
	known[entry] = true
	for changed := true; changed; {
		changed = false
		for _, b := range fn.Blocks {
			if !known[b] || !res.ExecBlks[b] {
				continue
			}
			for i, s := range view.Succs(b) {
				if !res.ExecEdges[[2]*ssa.BasicBlock{b, s}] {
					continue
				}
				out := in[b]
				ef := view.edgeFacts(factSet{}, b, i)
				if pred(ef) {
					out = true
				}
				if !known[s] {
					known[s] = true
					in[s] = out
					changed = true
				} else if in[s] && !out {
					in[s] = false
					changed = true
				}
			}
		}
	}
	return known[at.Block()] && in[at.Block()]
}

func runCliGate(p *Program, r *RuleResult) {
	starts := p.startSet()
	parseFns := map[*ssa.Function]bool{}
	for _, n := range []string{"ParseFile", "ParseString", "ParseReader"} {
		parseFns[p.Func(parserPkg, n)] = true
	}
	tc := p.Func(processPkg, "Typecheck")
	nDrivers, nStarts := 0, 0
	// a function of a driver package that starts processes handed to it, parses nothing
	// itself and is called from the driver (the execution part of a driver moved into a
	// function of its own) is a start function for its callers
	outside := func(fn *ssa.Function) bool {
		pk := fn.Pkg
		if pk == nil && fn.Parent() != nil {
			pk = fn.Parent().Pkg
		}
		return pk != nil && pk.Pkg.Path() != processPkg && p.isFirstParty(fn)
	}
	starterHelper := map[*ssa.Function]bool{}
	for changed := true; changed; {
		changed = false
		for _, fn := range p.SrcFuncs {
			if !outside(fn) || fn.Parent() != nil || starts[fn] {
				continue
			}
			startsSomething, parses := false, false
			for _, c := range p.callsIn(fn) {
				if starts[c.Common().StaticCallee()] {
					startsSomething = true
				}
				if parseFns[c.Common().StaticCallee()] {
					parses = true
				}
			}
			if !startsSomething || parses {
				continue
			}
			called := false
			for _, caller := range p.SrcFuncs {
				if outside(caller) && caller != fn && len(p.callsTo(caller, fn)) > 0 {
					called = true
				}
			}
			if called {
				starts[fn] = true
				starterHelper[fn] = true
				changed = true
			}
		}
	}
	for _, fn := range p.SrcFuncs {
		pk := fn.Pkg
		if pk == nil && fn.Parent() != nil {
			pk = fn.Parent().Pkg
		}
		if pk == nil || pk.Pkg.Path() == processPkg || starterHelper[fn] {
			continue
		}
		var startCalls []ssa.CallInstruction
		for _, c := range p.callsIn(fn) {
			if starts[c.Common().StaticCallee()] {
				startCalls = append(startCalls, c)
			}
		}
		if len(startCalls) == 0 {
			continue
		}
		nDrivers++
		view := p.View(fn)
		name := fnName(fn)
		// gates
		errOf := func(c *ssa.Call) ssa.Value {
			sig := c.Common().Signature()
			n := sig.Results().Len()
			if n == 1 {
				return c
			}
			for _, u := range *c.Referrers() {
				if ex, ok := u.(*ssa.Extract); ok && ex.Index == n-1 {
					return ex
				}
			}
			return nil
		}
		var parseErrs, checkErrs []ssa.Value
		for _, c := range p.callsIn(fn) {
			call, ok := c.(*ssa.Call)
			if !ok {
				continue
			}
			if parseFns[call.Common().StaticCallee()] {
				if e := errOf(call); e != nil {
					parseErrs = append(parseErrs, e)
				}
			}
			if call.Common().StaticCallee() == tc {
				checkErrs = append(checkErrs, call)
			}
		}
		// flags
		flags := map[string]ssa.Value{}
		for _, c := range p.callsIn(fn) {
			call, ok := c.(*ssa.Call)
			if !ok {
				continue
			}
			if sc := call.Common().StaticCallee(); sc != nil && sc.String() == "flag.Bool" {
				if k, ok := call.Common().Args[0].(*ssa.Const); ok && k.Value != nil && k.Value.Kind() == constant.String {
					flags[constant.StringVal(k.Value)] = call
				}
			}
		}
		evalWith := func(assume map[string]bool) EvalResult {
			ev := NewEvaluator(p)
			ev.MaxDepth = 0
			for k, v := range assume {
				if ptr, ok := flags[k]; ok {
					ev.Loads[ptr] = aBool(v)
				}
			}
			args := make([]AVal, len(fn.Params))
			for i := range args {
				args[i] = aTop
			}
			return ev.Eval(fn, args)
		}
		nilEdge := func(errs []ssa.Value) func(fs factSet) bool {
			return func(fs factSet) bool {
				for _, e := range errs {
					if fs[fact{e, factNil}] {
						return true
					}
				}
				return false
			}
		}
		hasTCFlags := flags["typecheck"] != nil || flags["notypecheck"] != nil
		assumeReq := map[string]bool{"typecheck": true, "notypecheck": false}
		resDefault := evalWith(nil)
		resReq := evalWith(assumeReq)
		for i, s := range startCalls {
			nStarts++
			tag := fmt.Sprintf("%s#%d", s.Common().StaticCallee().Name(), i+1)
			// parse gate
			switch {
			case len(parseErrs) == 0:
				r.add(name, "parsed-before:"+tag, Undecided, p.instrPos(s), "the driver starts processes it did not parse itself; its callers are not analysed")
			case !resDefault.ExecBlks[s.Block()]:
				r.add(name, "parsed-before:"+tag, Holds, p.instrPos(s), "start call not executable")
			case execMustPassEdge(view, resDefault, s, nilEdge(parseErrs)):
				r.add(name, "parsed-before:"+tag, Holds, p.instrPos(s), "every path passes the nil edge of the parse error")
			default:
				r.add(name, "parsed-before:"+tag, Violated, p.instrPos(s), "processes can be started on a path that did not pass the nil edge of the parse error")
			}
			// typecheck gate
			res := resDefault
			cond := ""
			if hasTCFlags {
				res = resReq
				cond = " (assuming --typecheck and not --notypecheck)"
			}
			switch {
			case len(checkErrs) == 0:
				r.add(name, "typechecked-before:"+tag, Violated, p.instrPos(s), "the driver never calls process.Typecheck before starting processes")
			case !res.ExecBlks[s.Block()]:
				r.add(name, "typechecked-before:"+tag, Holds, p.instrPos(s), "start call not executable"+cond)
			case execMustPassEdge(view, res, s, nilEdge(checkErrs)):
				r.add(name, "typechecked-before:"+tag, Holds, p.instrPos(s), "every path passes the nil edge of Typecheck's error"+cond)
			default:
				r.add(name, "typechecked-before:"+tag, Violated, p.instrPos(s), "processes can be started on a path that did not pass the nil edge of Typecheck's error"+cond)
			}
			// execution switches
			for _, sw := range []struct {
				flag string
				val  bool
			}{{"noexecute", true}, {"execute", false}} {
				if flags[sw.flag] == nil {
					continue
				}
				rs := evalWith(map[string]bool{sw.flag: sw.val})
				if rs.ExecBlks[s.Block()] {
					r.add(name, fmt.Sprintf("not-started-with:%s=%v:%s", sw.flag, sw.val, tag), Violated, p.instrPos(s), fmt.Sprintf("with --%s=%v the start call is still reachable", sw.flag, sw.val))
				} else {
					r.add(name, fmt.Sprintf("not-started-with:%s=%v:%s", sw.flag, sw.val, tag), Holds, p.instrPos(s), "start call unreachable under this flag value")
				}
			}
		}
		// drivers whose failure sink is a no-return call (exit status semantics): a normal return
		// after a successful parse means "exit status 0", so it must have passed the typecheck gate
		fatalSink := false
		for _, e := range checkErrs {
			for _, b := range view.Blocks() {
				if view.holdsAt(b, e, factNonNil) && view.Exit(b) == ExitPanic {
					fatalSink = true
				}
			}
		}
		if fatalSink && len(parseErrs) > 0 && len(checkErrs) > 0 {
			res := resDefault
			if hasTCFlags {
				res = resReq
			}
			n := 0
			for _, b := range view.Blocks() {
				ins := view.Instrs(b)
				ret, ok := ins[len(ins)-1].(*ssa.Return)
				if !ok || !res.ExecBlks[b] {
					continue
				}
				if !execMustPassEdge(view, res, ret, nilEdge(parseErrs)) {
					continue // returns before/without parsing (other modes of the driver)
				}
				n++
				construct := fmt.Sprintf("success-exit-typechecked#%d", n)
				if execMustPassEdge(view, res, ret, nilEdge(checkErrs)) {
					r.add(name, construct, Holds, p.instrPos(ret), "")
				} else {
					r.add(name, construct, Violated, p.instrPos(ret), "the driver can return normally (exit status 0) after a successful parse without having passed the nil edge of Typecheck's error although typechecking is requested: an ill-typed file is then silently accepted")
				}
			}
		}
		// the error edges do not start anything: from the non-nil edge of a gate error no start call is reachable
		for gi, e := range append(append([]ssa.Value{}, parseErrs...), checkErrs...) {
			kind := "parse"
			if gi >= len(parseErrs) {
				kind = "typecheck"
			}
			bad := ""
			for _, b := range view.Blocks() {
				ins := view.Instrs(b)
				iff, ok := ins[len(ins)-1].(*ssa.If)
				if !ok {
					continue
				}
				for si := 0; si < 2; si++ {
					fs := factSet{}
					addCondFacts(fs, iff.Cond, si == 0)
					if !fs[fact{e, factNonNil}] {
						continue
					}
					hits := view.mayReachFrom(nil, b.Succs[si], func(in ssa.Instruction) bool {
						c, ok := in.(ssa.CallInstruction)
						return ok && starts[c.Common().StaticCallee()]
					}, nil)
					if len(hits) > 0 {
						bad = fmt.Sprintf("after a %s error control can still reach the start call at %s", kind, p.instrPos(hits[0]))
					}
				}
			}
			construct := fmt.Sprintf("%s-error-stops#%d", kind, gi+1)
			if bad != "" {
				r.add(name, construct, Violated, p.pos(fn.Pos()), bad)
			} else {
				r.add(name, construct, Holds, p.pos(fn.Pos()), "the error edge ends in a no-return call or a return")
			}
		}
		var fl []string
		for k := range flags {
			fl = append(fl, k)
		}
		sort.Strings(fl)
		if len(fl) > 0 {
			r.note("%s: boolean flags %s", name, strings.Join(fl, ","))
		}
	}
	r.count("drivers", nDrivers)
	r.count("start calls", nStarts)
	// main calls Cli and nothing after it starts processes
	if mainFn := p.FuncOpt("grits", "main"); mainFn != nil {
		ok := true
		for _, c := range p.callsIn(mainFn) {
			if starts[c.Common().StaticCallee()] {
				ok = false
			}
		}
		v := Holds
		if !ok {
			v = Violated
		}
		r.add(fnName(mainFn), "main-does-not-start-processes-itself", v, p.pos(mainFn.Pos()), "")
	}
}

// R-TYPECHECKED-FLAG (C18, C09): the interpreter is told "this program was typechecked"
// only on paths on which it was.
func init() {
	register(&Rule{Name: "R-TYPECHECKED-FLAG", Min: 3,
		Doc: "in every driver outside package process, each store into RuntimeEnvironment.Typechecked of a value that can be true is reached, on every path consistent with that value being true (branches on the same value take their true edge, constant branches their constant edge), only after the call of process.Typecheck: the interpreter reads types off the names when the flag is set, and an unchecked name has none (nil dereference in the forward rule)",
		Run: runTypecheckedFlag})
}

func runTypecheckedFlag(p *Program, r *RuleResult) {
	tc := p.Func(processPkg, "Typecheck")
	reT := p.Named(processPkg, "RuntimeEnvironment")
	n := 0
	// avoiding: is there a path entry -> at in fn, consistent with v being true, that does not
	// call Typecheck? When v is a parameter of fn the question moves to every call of fn.
	var avoiding func(fn *ssa.Function, at ssa.Instruction, v ssa.Value, depth int) (bool, string)
	avoiding = func(fn *ssa.Function, at ssa.Instruction, v ssa.Value, depth int) (bool, string) {
		view := p.View(fn)
		if k, isC := v.(*ssa.Const); isC && k.Value != nil && k.Value.Kind() == constant.Bool && !constant.BoolVal(k.Value) {
			return false, ""
		}
		seen := map[*ssa.BasicBlock]bool{}
		var walk func(b *ssa.BasicBlock) bool
		walk = func(b *ssa.BasicBlock) bool {
			if seen[b] {
				return false
			}
			seen[b] = true
			ins := view.Instrs(b)
			for _, x := range ins {
				if x == at {
					return true
				}
				if c, ok := x.(*ssa.Call); ok && c.Common().StaticCallee() == tc {
					return false
				}
			}
			succs := view.Succs(b)
			if len(ins) > 0 {
				if iff, ok := ins[len(ins)-1].(*ssa.If); ok && len(b.Succs) == 2 {
					if k, isC := iff.Cond.(*ssa.Const); isC && k.Value != nil && k.Value.Kind() == constant.Bool {
						if constant.BoolVal(k.Value) {
							succs = []*ssa.BasicBlock{b.Succs[0]}
						} else {
							succs = []*ssa.BasicBlock{b.Succs[1]}
						}
					} else if origin(iff.Cond) == origin(v) {
						succs = []*ssa.BasicBlock{b.Succs[0]}
					} else if un, ok := iff.Cond.(*ssa.UnOp); ok && un.Op == token.NOT && origin(un.X) == origin(v) {
						succs = []*ssa.BasicBlock{b.Succs[1]}
					}
				}
			}
			for _, s := range succs {
				// the stored value is a phi of s: coming in over an edge that carries
				// the constant false, the value is not true on this path
				if ph, isPhi := v.(*ssa.Phi); isPhi && ph.Block() == s {
					skip := false
					for i, pr := range s.Preds {
						if pr == b {
							if k, isC := ph.Edges[i].(*ssa.Const); isC && k.Value != nil && k.Value.Kind() == constant.Bool && !constant.BoolVal(k.Value) {
								skip = true
							}
						}
					}
					if skip {
						continue
					}
				}
				if walk(s) {
					return true
				}
			}
			return false
		}
		if len(fn.Blocks) == 0 || !walk(fn.Blocks[0]) {
			return false, ""
		}
		// a path inside fn avoids Typecheck: if the value is handed in, ask the callers
		if prm, isPrm := origin(v).(*ssa.Parameter); isPrm && depth < 2 {
			idx := -1
			for i, q := range fn.Params {
				if q == prm {
					idx = i
				}
			}
			sites := 0
			for _, caller := range p.SrcFuncs {
				for _, c := range p.callsTo(caller, fn) {
					if idx < 0 || idx >= len(c.Common().Args) {
						continue
					}
					sites++
					if bad, where := avoiding(caller, c, c.Common().Args[idx], depth+1); bad {
						return true, where
					}
				}
			}
			if sites > 0 {
				return false, ""
			}
		}
		return true, fmt.Sprintf("%s (%s)", fnName(fn), displayKey(v))
	}
	for _, fn := range p.SrcFuncs {
		pk := fn.Pkg
		if pk == nil && fn.Parent() != nil {
			pk = fn.Parent().Pkg
		}
		if pk == nil || pk.Pkg.Path() == processPkg {
			continue
		}
		view := p.View(fn)
		ord := 0
		for _, b := range view.Blocks() {
			for _, in := range view.Instrs(b) {
				st, ok := in.(*ssa.Store)
				if !ok {
					continue
				}
				fa, ok := st.Addr.(*ssa.FieldAddr)
				if !ok || !isNamed(fa.X.Type(), processPkg, reT.Obj().Name()) {
					continue
				}
				if _, fname, _ := fieldNameOf(fa); fname != "Typechecked" {
					continue
				}
				n++
				ord++
				construct := fmt.Sprintf("typechecked-flag#%d", ord)
				if bad, where := avoiding(fn, st, st.Val, 0); bad {
					r.add(fnName(fn), construct, Violated, p.instrPos(st),
						fmt.Sprintf("the flag is set to %s, and a path on which that is true reaches this store without calling process.Typecheck (in %s): the interpreter then trusts types nobody assigned", displayKey(st.Val), where))
				} else {
					r.add(fnName(fn), construct, Holds, p.instrPos(st), "every path on which the stored value is true has called process.Typecheck")
				}
			}
		}
	}
	r.count("stores into Typechecked outside package process", n)
}

// R-ONE-DIAGNOSTIC (C18): a rejected program is answered with one diagnostic.
func init() {
	register(&Rule{Name: "R-ONE-DIAGNOSTIC", Min: 0,
		Doc: "below the parser's entry points and process.Typecheck no error value is assembled from several errors: no call of errors.Join, no multi-%w fmt.Errorf, no slice of errors that a loop appends to. The command-line tool prints whatever error it is handed with one log.Fatal; an aggregate error prints one line per collected error, so a file with two ill-typed definitions would be answered with two diagnostics. The expected count is zero; a fixture keeps the positive example",
		Run: runOneDiagnostic})
}

func runOneDiagnostic(p *Program, r *RuleResult) {
	var roots []*ssa.Function
	for _, n := range []string{"ParseString", "ParseReader", "ParseFile"} {
		if f := p.FuncOpt(parserPkg, n); f != nil {
			roots = append(roots, f)
		}
	}
	d := findTypecheckDriver(p)
	roots = append(roots, d.Entry, d.Driver)
	reach := p.reachableFuncs(roots, useCHA)
	n := 0
	var fns []*ssa.Function
	for fn := range reach {
		if fn.Blocks != nil && p.isFirstParty(fn) {
			fns = append(fns, fn)
		}
	}
	sort.Slice(fns, func(i, j int) bool { return fnName(fns[i]) < fnName(fns[j]) })
	errT := types.Universe.Lookup("error").Type()
	for _, fn := range fns {
		ord := 0
		for _, c := range p.callsIn(fn) {
			com := c.Common()
			bad := ""
			if sc := com.StaticCallee(); sc != nil && sc.Pkg != nil && sc.Pkg.Pkg.Path() == "errors" && sc.Name() == "Join" {
				bad = "errors.Join assembles one error from several"
			}
			if bi, ok := com.Value.(*ssa.Builtin); ok && bi.Name() == "append" && len(com.Args) > 0 {
				if sl, ok := com.Args[0].Type().Underlying().(*types.Slice); ok && types.Identical(sl.Elem(), errT) {
					bad = "errors are collected in a slice"
				}
			}
			if bad == "" {
				continue
			}
			n++
			ord++
			r.add(fnName(fn), fmt.Sprintf("aggregate-error#%d", ord), Violated, p.instrPos(c),
				bad+": the checker goes on after the first error and hands all of them to the caller, which prints them as several diagnostics")
		}
	}
	if n == 0 {
		r.add("parser and typechecker", "first-error-only", Holds, "", fmt.Sprintf("%d functions below the entry points, none aggregates errors", len(fns)))
	}
	r.count("error aggregations", n)
}
