package main

import (
	"fmt"
	"go/token"
	"go/types"

	"golang.org/x/tools/go/ssa"
)

// E1 – control-flow views of go/ssa functions.
//
// A View is the CFG of one function after the "no-return" normalisation: a block that
// calls a function which never returns (panic-only first-party helpers such as
// re.error/re.errorf, log.Fatal*, os.Exit) ends at that call and has no successors.
// All path queries (facts, must-pass, may-reach) run on views.

type View struct {
	P  *Program
	Fn *ssa.Function
	// cut[b] >= 0: index of the no-return call that ends block b.
	cut   map[*ssa.BasicBlock]int
	reach map[*ssa.BasicBlock]bool

	facts     map[*ssa.BasicBlock]factSet // facts at block entry
	factsDone bool

	// optional: virtual stores through helpers in lastStoreAll (set by the caller of that query)
	virtMatch func(key string) bool
	virtGood  func(val ssa.Value) bool
	synth     map[string]*ssa.Call // interned synthetic predicate calls (guard helpers)
}

var stdNoReturn = map[string]bool{
	"log.Fatal": true, "log.Fatalf": true, "log.Fatalln": true,
	"log.Panic": true, "log.Panicf": true, "log.Panicln": true,
	"(*log.Logger).Fatal": true, "(*log.Logger).Fatalf": true, "(*log.Logger).Fatalln": true,
	"(*log.Logger).Panic": true, "(*log.Logger).Panicf": true, "(*log.Logger).Panicln": true,
	"os.Exit": true, "runtime.Goexit": true,
}

// computeNoReturn finds the first-party functions none of whose paths reach a return.
func (p *Program) computeNoReturn() {
	if p.noRetDone {
		return
	}
	p.noRet = map[*ssa.Function]bool{}
	for changed := true; changed; {
		changed = false
		for _, fn := range p.SrcFuncs {
			if p.noRet[fn] {
				continue
			}
			v := p.buildView(fn)
			returns := false
			for b := range v.reach {
				ins := v.Instrs(b)
				if len(ins) > 0 {
					if _, ok := ins[len(ins)-1].(*ssa.Return); ok {
						returns = true
						break
					}
				}
			}
			if !returns {
				p.noRet[fn] = true
				changed = true
			}
		}
	}
	p.noRetDone = true
	p.views = map[*ssa.Function]*View{}
}

// IsNoReturnCall reports whether the call instruction never returns.
func (p *Program) isNoReturnCall(in ssa.Instruction) bool {
	c, ok := in.(*ssa.Call)
	if !ok {
		return false
	}
	callee := c.Common().StaticCallee()
	if callee == nil {
		return false
	}
	if stdNoReturn[callee.String()] {
		return true
	}
	return p.noRet[callee]
}

func (p *Program) buildView(fn *ssa.Function) *View {
	v := &View{P: p, Fn: fn, cut: map[*ssa.BasicBlock]int{}, reach: map[*ssa.BasicBlock]bool{}}
	for _, b := range fn.Blocks {
		v.cut[b] = -1
		for i, in := range b.Instrs {
			if p.isNoReturnCall(in) {
				v.cut[b] = i
				break
			}
		}
	}
	if len(fn.Blocks) > 0 {
		var walk func(b *ssa.BasicBlock)
		walk = func(b *ssa.BasicBlock) {
			if v.reach[b] {
				return
			}
			v.reach[b] = true
			for _, s := range v.Succs(b) {
				walk(s)
			}
		}
		walk(fn.Blocks[0])
		if fn.Recover != nil {
			walk(fn.Recover)
		}
	}
	return v
}

// View returns the (cached) view of fn.
func (p *Program) View(fn *ssa.Function) *View {
	p.computeNoReturn()
	if v, ok := p.views[fn]; ok {
		return v
	}
	v := p.buildView(fn)
	p.views[fn] = v
	return v
}

func (v *View) Succs(b *ssa.BasicBlock) []*ssa.BasicBlock {
	if v.cut[b] >= 0 {
		return nil
	}
	return b.Succs
}

func (v *View) Instrs(b *ssa.BasicBlock) []ssa.Instruction {
	if c := v.cut[b]; c >= 0 {
		return b.Instrs[:c+1]
	}
	return b.Instrs
}

func (v *View) Reachable(b *ssa.BasicBlock) bool { return v.reach[b] }

// Live reports whether instruction in is reachable in the view (its block is reachable
// and it is not after a no-return call).
func (v *View) Live(in ssa.Instruction) bool {
	b := in.Block()
	if b == nil || !v.reach[b] {
		return false
	}
	if c := v.cut[b]; c >= 0 {
		for i, o := range b.Instrs {
			if o == in {
				return i <= c
			}
		}
		return false
	}
	return true
}

// Blocks returns the reachable blocks in index order.
func (v *View) Blocks() []*ssa.BasicBlock {
	var out []*ssa.BasicBlock
	for _, b := range v.Fn.Blocks {
		if v.reach[b] {
			out = append(out, b)
		}
	}
	return out
}

// ExitKind classifies how a reachable block leaves the function.
type ExitKind int

const (
	NotExit ExitKind = iota
	ExitReturn
	ExitPanic // explicit panic instruction or no-return call
)

func (v *View) Exit(b *ssa.BasicBlock) ExitKind {
	ins := v.Instrs(b)
	if len(ins) == 0 {
		return NotExit
	}
	if v.cut[b] >= 0 {
		return ExitPanic
	}
	switch ins[len(ins)-1].(type) {
	case *ssa.Return:
		return ExitReturn
	case *ssa.Panic:
		return ExitPanic
	}
	return NotExit
}

func indexIn(b *ssa.BasicBlock, in ssa.Instruction) int {
	for i, o := range b.Instrs {
		if o == in {
			return i
		}
	}
	return -1
}

// ---------------------------------------------------------------------------
// Facts: a forward must-analysis of branch conditions.

type factKind int

const (
	factTrue factKind = iota
	factFalse
	factNil
	factNonNil
)

type fact struct {
	v ssa.Value
	k factKind
}

type factSet map[fact]bool

func (s factSet) clone() factSet {
	n := make(factSet, len(s))
	for k := range s {
		n[k] = true
	}
	return n
}

func isNilConst(v ssa.Value) bool {
	c, ok := v.(*ssa.Const)
	return ok && c.Value == nil && !isBasicNonNilable(c.Type())
}

func isBasicNonNilable(t types.Type) bool {
	switch u := t.Underlying().(type) {
	case *types.Basic:
		return u.Kind() != types.UntypedNil && u.Kind() != types.UnsafePointer
	case *types.Struct, *types.Array:
		return true
	}
	return false
}

// addCondFacts adds what is known when cond evaluates to `val`.
func addCondFacts(s factSet, cond ssa.Value, val bool) {
	if val {
		s[fact{cond, factTrue}] = true
	} else {
		s[fact{cond, factFalse}] = true
	}
	switch c := cond.(type) {
	case *ssa.UnOp:
		if c.Op == token.NOT {
			addCondFacts(s, c.X, !val)
		}
	case *ssa.BinOp:
		if c.Op == token.EQL || c.Op == token.NEQ {
			var x ssa.Value
			if isNilConst(c.Y) {
				x = c.X
			} else if isNilConst(c.X) {
				x = c.Y
			}
			if x != nil {
				isNil := (c.Op == token.EQL) == val
				if isNil {
					s[fact{x, factNil}] = true
				} else {
					s[fact{x, factNonNil}] = true
				}
			}
		}
	}
}

// edgeFacts returns the facts that hold on the edge b -> b.Succs[i] given facts at the end of b.
func (v *View) edgeFacts(out factSet, b *ssa.BasicBlock, i int) factSet {
	ins := v.Instrs(b)
	if len(ins) == 0 {
		return out
	}
	if iff, ok := ins[len(ins)-1].(*ssa.If); ok && len(b.Succs) == 2 {
		if b.Succs[0] == b.Succs[1] {
			return out
		}
		n := out.clone()
		addCondFacts(n, iff.Cond, i == 0)
		v.addImpliedFacts(n, out)
		return n
	}
	return out
}

// Guard helpers. `if err := h(x); err != nil { return err }` where h is a small first-party
// function establishes, on the nil edge, whatever is known at every nil-return of h - e.g.
// that a predicate over h's parameters is true. The facts are instantiated over the caller's
// arguments as synthetic call values (interned per call site), so that rules looking for a
// dominating predicate call see through one level of "extract function".
type guardFact struct {
	callee ssa.Value
	params []int
	k      factKind
}

func (p *Program) guardSummary(h *ssa.Function, k factKind) []guardFact {
	if p.guardMemo == nil {
		p.guardMemo = map[*ssa.Function]map[factKind][]guardFact{}
		p.guardBusy = map[*ssa.Function]bool{}
	}
	if m, ok := p.guardMemo[h]; ok {
		return m[k]
	}
	if p.guardBusy[h] || h.Blocks == nil || len(h.Blocks) > 12 {
		return nil
	}
	p.guardBusy[h] = true
	defer delete(p.guardBusy, h)
	view := p.View(h)
	res := map[factKind][]guardFact{}
	for _, kind := range []factKind{factNil, factNonNil, factTrue, factFalse} {
		var common map[string]guardFact
		n := 0
		for _, b := range view.Blocks() {
			ins := view.Instrs(b)
			ret, ok := ins[len(ins)-1].(*ssa.Return)
			if !ok || len(ret.Results) != 1 {
				continue
			}
			rv := ret.Results[0]
			may := true
			switch kind {
			case factNil:
				if isErrorValue(rv, view, b, map[ssa.Value]bool{}) {
					may = false
				}
				if c, ok := rv.(*ssa.Const); ok && !c.IsNil() {
					may = false
				}
			case factNonNil:
				if c, ok := rv.(*ssa.Const); ok && c.IsNil() {
					may = false
				}
				if view.holdsAt(b, rv, factNil) {
					may = false
				}
			case factTrue, factFalse:
				c, ok := rv.(*ssa.Const)
				if ok && c.Value != nil && (c.Value.String() == "true") != (kind == factTrue) {
					may = false
				}
			}
			if !may {
				continue
			}
			n++
			cur := map[string]guardFact{}
			for f := range view.FactsAt(b) {
				call, ok := f.v.(*ssa.Call)
				if !ok || call.Common().IsInvoke() || call.Common().StaticCallee() == nil {
					continue
				}
				var idx []int
				okArgs := true
				for _, a := range call.Common().Args {
					found := -1
					for i, q := range h.Params {
						if a == ssa.Value(q) {
							found = i
						}
					}
					if found < 0 {
						okArgs = false
						break
					}
					idx = append(idx, found)
				}
				if !okArgs || len(idx) == 0 {
					continue
				}
				key := fmt.Sprintf("%s|%v|%d", call.Common().StaticCallee().String(), idx, f.k)
				cur[key] = guardFact{call.Common().Value, idx, f.k}
			}
			if common == nil {
				common = cur
			} else {
				for key := range common {
					if _, ok := cur[key]; !ok {
						delete(common, key)
					}
				}
			}
		}
		if n > 0 {
			for _, gf := range common {
				res[kind] = append(res[kind], gf)
			}
		}
	}
	p.guardMemo[h] = res
	return res[k]
}

func (v *View) addImpliedFacts(n, before factSet) {
	for f := range n {
		if before[f] {
			continue
		}
		call, ok := f.v.(*ssa.Call)
		if !ok {
			continue
		}
		h := call.Common().StaticCallee()
		if h == nil || !v.P.isFirstParty(h) || h == v.Fn || call.Common().IsInvoke() {
			continue
		}
		args := call.Common().Args
		for gi, gf := range v.P.guardSummary(h, f.k) {
			if v.synth == nil {
				v.synth = map[string]*ssa.Call{}
			}
			key := fmt.Sprintf("%p|%d|%d", call, f.k, gi)
			sc, ok := v.synth[key]
			if !ok {
				sc = &ssa.Call{}
				sc.Call.Value = gf.callee
				for _, pi := range gf.params {
					if pi < len(args) {
						sc.Call.Args = append(sc.Call.Args, args[pi])
					}
				}
				v.synth[key] = sc
			}
			n[fact{sc, gf.k}] = true
		}
	}
}

// successFactsAt: what is known when the function succeeds through ret. When ret hands back
// the result of a first-party helper (`return finalChecks(...)`), success means that the
// helper returned nil, which establishes the helper's guard summary over its arguments.
func (v *View) successFactsAt(ret *ssa.Return) factSet {
	base := v.FactsAt(ret.Block())
	if len(ret.Results) == 0 {
		return base
	}
	call, ok := ret.Results[len(ret.Results)-1].(*ssa.Call)
	if !ok {
		return base
	}
	if h := call.Common().StaticCallee(); h == nil || !v.P.isFirstParty(h) {
		return base
	}
	n := base.clone()
	n[fact{call, factNil}] = true
	v.addImpliedFacts(n, base)
	return n
}

func (v *View) computeFacts() {
	if v.factsDone {
		return
	}
	v.factsDone = true
	v.facts = map[*ssa.BasicBlock]factSet{}
	blocks := v.Blocks()
	if len(blocks) == 0 {
		return
	}
	// optimistic initialisation: nil == "top" (all facts); entry = empty
	entry := v.Fn.Blocks[0]
	v.facts[entry] = factSet{}
	if v.Fn.Recover != nil {
		v.facts[v.Fn.Recover] = factSet{}
	}
	for changed := true; changed; {
		changed = false
		for _, b := range blocks {
			in, ok := v.facts[b]
			if !ok {
				continue
			}
			for i, s := range v.Succs(b) {
				ef := v.edgeFacts(in, b, i)
				old, have := v.facts[s]
				if !have {
					v.facts[s] = ef.clone()
					changed = true
					continue
				}
				// intersection
				for f := range old {
					if !ef[f] {
						delete(old, f)
						changed = true
					}
				}
			}
		}
	}
}

// Holds reports whether fact (val,k) is known at the entry of block b.
func (v *View) holdsAt(b *ssa.BasicBlock, val ssa.Value, k factKind) bool {
	v.computeFacts()
	fs, ok := v.facts[b]
	return ok && fs[fact{val, k}]
}

// Infeasible reports whether the facts known at the entry of b are contradictory
// (the same condition both true and false, or a value both nil and non-nil).
func (v *View) Infeasible(b *ssa.BasicBlock) bool {
	fs := v.FactsAt(b)
	for f := range fs {
		switch f.k {
		case factTrue:
			if fs[fact{f.v, factFalse}] {
				return true
			}
		case factNil:
			if fs[fact{f.v, factNonNil}] {
				return true
			}
		}
	}
	return false
}

// FactsAt returns the facts known at the entry of block b.
func (v *View) FactsAt(b *ssa.BasicBlock) factSet {
	v.computeFacts()
	return v.facts[b]
}

// ---------------------------------------------------------------------------
// Path queries.

// InstrPred selects instructions.
type InstrPred func(in ssa.Instruction) bool

// mustPassBefore computes, for every reachable block, whether every path from the
// function entry to the block's entry passes an instruction satisfying pred.
func (v *View) mustPassBefore(pred InstrPred) map[*ssa.BasicBlock]bool {
	blocks := v.Blocks()
	gen := map[*ssa.BasicBlock]bool{}
	for _, b := range blocks {
		for _, in := range v.Instrs(b) {
			if pred(in) {
				gen[b] = true
				break
			}
		}
	}
	in := map[*ssa.BasicBlock]bool{}
	known := map[*ssa.BasicBlock]bool{}
	entry := v.Fn.Blocks[0]
	in[entry] = false
	known[entry] = true
	if v.Fn.Recover != nil {
		in[v.Fn.Recover] = false
		known[v.Fn.Recover] = true
	}
	for changed := true; changed; {
		changed = false
		for _, b := range blocks {
			if !known[b] {
				continue
			}
			out := in[b] || gen[b]
			for _, s := range v.Succs(b) {
				if !known[s] {
					known[s] = true
					in[s] = out
					changed = true
				} else if in[s] && !out {
					in[s] = false
					changed = true
				}
			}
		}
	}
	return in
}

// passedBefore reports whether every path from entry to instruction `at` passes pred
// strictly before `at`.
func (v *View) passedBefore(at ssa.Instruction, pred InstrPred) bool {
	in := v.mustPassBefore(pred)
	b := at.Block()
	if in[b] {
		return true
	}
	for _, o := range v.Instrs(b) {
		if o == at {
			return false
		}
		if pred(o) {
			return true
		}
	}
	return false
}

// mayReachFrom reports the instructions satisfying pred that are reachable from the point
// just after instruction `from` (or from the entry of block `fromBlock` if from is nil),
// without passing an instruction satisfying stop (stop is checked before pred).
func (v *View) mayReachFrom(from ssa.Instruction, fromBlock *ssa.BasicBlock, pred InstrPred, stop InstrPred) []ssa.Instruction {
	var hits []ssa.Instruction
	seen := map[*ssa.BasicBlock]bool{}
	var scan func(b *ssa.BasicBlock, start int)
	scan = func(b *ssa.BasicBlock, start int) {
		ins := v.Instrs(b)
		for i := start; i < len(ins); i++ {
			if stop != nil && stop(ins[i]) {
				return
			}
			if pred(ins[i]) {
				hits = append(hits, ins[i])
			}
		}
		for _, s := range v.Succs(b) {
			if !seen[s] {
				seen[s] = true
				scan(s, 0)
			}
		}
	}
	if from != nil {
		b := from.Block()
		scan(b, indexIn(b, from)+1)
	} else {
		seen[fromBlock] = true
		scan(fromBlock, 0)
	}
	return hits
}

// blocksReachableFrom returns the set of blocks reachable from the entry of b (b included).
func (v *View) blocksReachableFrom(b *ssa.BasicBlock) map[*ssa.BasicBlock]bool {
	seen := map[*ssa.BasicBlock]bool{}
	var walk func(x *ssa.BasicBlock)
	walk = func(x *ssa.BasicBlock) {
		if seen[x] {
			return
		}
		seen[x] = true
		for _, s := range v.Succs(x) {
			walk(s)
		}
	}
	walk(b)
	return seen
}

// mustReachBeforeExit reports whether every path starting just after `from` passes an
// instruction satisfying pred before reaching a Return (panic exits are ignored when
// ignorePanic is set). Returns the offending exit block if not.
func (v *View) mustReachBeforeExit(from ssa.Instruction, pred InstrPred, ignorePanic bool) (bool, *ssa.BasicBlock) {
	seen := map[*ssa.BasicBlock]bool{}
	var bad *ssa.BasicBlock
	var scan func(b *ssa.BasicBlock, start int) bool
	scan = func(b *ssa.BasicBlock, start int) bool {
		ins := v.Instrs(b)
		for i := start; i < len(ins); i++ {
			if pred(ins[i]) {
				return true
			}
		}
		switch v.Exit(b) {
		case ExitReturn:
			bad = b
			return false
		case ExitPanic:
			if ignorePanic {
				return true
			}
			bad = b
			return false
		}
		for _, s := range v.Succs(b) {
			if seen[s] {
				continue
			}
			seen[s] = true
			if !scan(s, 0) {
				return false
			}
		}
		return true
	}
	b := from.Block()
	ok := scan(b, indexIn(b, from)+1)
	return ok, bad
}

// ---------------------------------------------------------------------------
// natural loops (for R-LOOP-EOF and friends)

type Loop struct {
	Header *ssa.BasicBlock
	Body   map[*ssa.BasicBlock]bool
}

// Loops finds natural loops using the SSA dominator tree restricted to the view.
func (v *View) Loops() []*Loop {
	byHeader := map[*ssa.BasicBlock]*Loop{}
	var order []*ssa.BasicBlock
	for _, b := range v.Blocks() {
		for _, s := range v.Succs(b) {
			if s.Dominates(b) { // back edge b -> s
				l := byHeader[s]
				if l == nil {
					l = &Loop{Header: s, Body: map[*ssa.BasicBlock]bool{s: true}}
					byHeader[s] = l
					order = append(order, s)
				}
				// add all blocks that reach b without passing s
				var stack []*ssa.BasicBlock
				if !l.Body[b] {
					l.Body[b] = true
					stack = append(stack, b)
				}
				for len(stack) > 0 {
					x := stack[len(stack)-1]
					stack = stack[:len(stack)-1]
					for _, pr := range x.Preds {
						if v.reach[pr] && !l.Body[pr] {
							l.Body[pr] = true
							stack = append(stack, pr)
						}
					}
				}
			}
		}
	}
	var out []*Loop
	for _, h := range order {
		out = append(out, byHeader[h])
	}
	return out
}
