package main

import (
	"fmt"
	"go/token"
	"go/types"
	"strings"

	"golang.org/x/tools/go/ssa"
)

// R-INFER-PURE (C16): mode inference has no effect on the types it inspects and starts
// every root inference with a fresh visited set; assignment writes only the own tree.
// R-NAME-EQ (C04, C03, C02, C14): run-time name sets compare names through Name.Equal only.

func init() {
	register(&Rule{Name: "R-INFER-PURE", Min: 12,
		Doc: "every inferModality implementation (and its helpers) writes nothing but its visited-set argument and fresh local values; every root call of inferModality passes a visited set created for that call (in the same loop iteration); SetModalityTypeDef writes only the definition's own Modality in its inference loop and rebuilds the environment before assigning; assignUnsetModalities writes only fields of its receiver",
		Run: runInferPure})
	register(&Rule{Name: "R-NAME-EQ", Min: 3,
		Doc: "in the functions reachable from Form.FreeNames and Form.Substitute (outside the methods of Name itself) names are never compared or keyed by their identifier: distinct live channels can share an identifier, so name sets must use Name.Equal",
		Run: runNameEq})
	ruleUsesCallGraph["R-NAME-EQ"] = true
}

// heapWrites lists the stores of fn that are not to function-local allocations.
func heapWrites(fn *ssa.Function) []ssa.Instruction {
	var out []ssa.Instruction
	isLocal := func(addr ssa.Value) bool {
		for i := 0; i < 6; i++ {
			switch x := addr.(type) {
			case *ssa.Alloc:
				return true
			case *ssa.FieldAddr:
				addr = x.X
				continue
			case *ssa.IndexAddr:
				// element of a local array / of a slice made in this function
				switch b := x.X.(type) {
				case *ssa.Alloc:
					return true
				case *ssa.MakeSlice:
					return true
				case *ssa.Slice:
					addr = b.X
					continue
				case *ssa.Call:
					// append result of a local slice
					if bi, ok := b.Common().Value.(*ssa.Builtin); ok && bi.Name() == "append" {
						return true
					}
				}
				return false
			}
			return false
		}
		return false
	}
	for _, b := range fn.Blocks {
		for _, in := range b.Instrs {
			switch x := in.(type) {
			case *ssa.Store:
				if !isLocal(x.Addr) {
					out = append(out, in)
				}
			case *ssa.MapUpdate:
				out = append(out, in)
			}
		}
	}
	return out
}

func runInferPure(p *Program, r *RuleResult) {
	// (1) inferModality implementations
	implSet := map[*ssa.Function]bool{}
	for _, T := range p.sessionTypeImplementers() {
		fn := p.Method(T, "inferModality")
		implSet[fn] = true
		var visited *ssa.Parameter
		for _, prm := range fn.Params {
			if isMapStringBool(prm.Type()) {
				visited = prm
			}
		}
		bad := ""
		for _, w := range heapWrites(fn) {
			if mu, ok := w.(*ssa.MapUpdate); ok && visited != nil && origin(mu.Map) == ssa.Value(visited) {
				continue
			}
			if mu, ok := w.(*ssa.MapUpdate); ok {
				if _, fresh := origin(mu.Map).(*ssa.MakeMap); fresh {
					continue
				}
			}
			bad = fmt.Sprintf("inference writes to shared state at %s", p.instrPos(w))
		}
		// helper calls: only pure first-party helpers
		for _, c := range p.callsIn(fn) {
			sc := c.Common().StaticCallee()
			if sc == nil || !p.isFirstParty(sc) || implSet[sc] {
				continue
			}
			for _, w := range heapWrites(sc) {
				if mu, ok := w.(*ssa.MapUpdate); ok {
					if _, fresh := origin(mu.Map).(*ssa.MakeMap); fresh {
						continue
					}
				}
				bad = fmt.Sprintf("helper %s writes to shared state at %s", sc.Name(), p.instrPos(w))
			}
		}
		if bad != "" {
			r.add(fnName(fn), "inference-is-effect-free", Violated, p.pos(fn.Pos()), bad)
		} else {
			r.add(fnName(fn), "inference-is-effect-free", Holds, p.pos(fn.Pos()), "")
		}
	}
	// (2) root calls of inferModality
	nRoots := 0
	for _, fn := range p.SrcFuncs {
		if implSet[fn] {
			continue
		}
		view := p.View(fn)
		ord := 0
		for _, c := range p.callsIn(fn) {
			com := c.Common()
			if !(com.IsInvoke() && com.Method.Name() == "inferModality") {
				continue
			}
			nRoots++
			ord++
			construct := fmt.Sprintf("root-inference#%d", ord)
			var vis ssa.Value
			for _, a := range com.Args {
				if isMapStringBool(a.Type()) {
					vis = a
				}
			}
			mk, fresh := origin(vis).(*ssa.MakeMap)
			switch {
			case vis == nil || !fresh:
				r.add(fnName(fn), construct, Violated, p.instrPos(c), "the visited set passed to the root inference is not created for this call")
			default:
				shared := false
				for _, l := range view.Loops() {
					if l.Body[c.Block()] && !l.Body[mk.Block()] {
						shared = true
					}
				}
				// also: no other use of the same map by another inference call
				uses := 0
				for _, c2 := range p.callsIn(fn) {
					for _, a := range c2.Common().Args {
						if origin(a) == ssa.Value(mk) {
							uses++
						}
					}
				}
				if shared || uses > 1 {
					r.add(fnName(fn), construct, Violated, p.instrPos(c), "one visited set is shared by the inferences of several definitions: a name visited for an earlier definition looks like a mode-less cycle to a later one, so the inferred mode depends on declaration order")
				} else {
					r.add(fnName(fn), construct, Holds, p.instrPos(c), "fresh visited set per inference")
				}
			}
		}
	}
	r.count("root inference calls", nRoots)
	// (3) SetModalityTypeDef
	sm := p.Func(typesPkg, "SetModalityTypeDef")
	view := p.View(sm)
	loops := view.Loops()
	var inferLoop, assignLoop *Loop
	for _, l := range loops {
		for b := range l.Body {
			for _, in := range view.Instrs(b) {
				if c, ok := in.(*ssa.Call); ok && c.Common().IsInvoke() {
					switch c.Common().Method.Name() {
					case "inferModality":
						inferLoop = l
					case "assignUnsetModalities":
						assignLoop = l
					}
				}
			}
		}
	}
	if inferLoop == nil || assignLoop == nil || inferLoop == assignLoop {
		r.add(fnName(sm), "two-phase-structure", Violated, p.pos(sm.Pos()), "inference of all definition modes and assignment are not two separate loops: a definition may be assigned before the modes of the names it refers to are inferred")
	} else {
		r.add(fnName(sm), "two-phase-structure", Holds, p.pos(sm.Pos()), "")
		bad := ""
		for b := range inferLoop.Body {
			for _, in := range view.Instrs(b) {
				if st, ok := in.(*ssa.Store); ok {
					if _, fname, ok := fieldNameOf(st.Addr); ok && fname == "Modality" {
						continue
					}
					if _, isAlloc := st.Addr.(*ssa.Alloc); isAlloc {
						continue
					}
					bad = "the inference loop writes something other than the definition's own Modality at " + p.instrPos(st)
				}
			}
		}
		v := Holds
		if bad != "" {
			v = Violated
		}
		r.add(fnName(sm), "inference-loop-writes-only-own-mode", v, p.pos(sm.Pos()), bad)
		// environment rebuilt between the loops and used by the second
		rebuilt := false
		for _, c := range p.callsIn(sm) {
			call, ok := c.(*ssa.Call)
			if !ok || call.Common().StaticCallee() == nil || !isNamed(call.Type(), typesPkg, "LabelledTypesEnv") {
				continue
			}
			afterInfer := view.passedBefore(call, func(in ssa.Instruction) bool { return in.Block() == inferLoop.Header })
			if afterInfer && !inferLoop.Body[call.Block()] && !assignLoop.Body[call.Block()] {
				// used by the assignment calls
				for b := range assignLoop.Body {
					for _, in := range view.Instrs(b) {
						if ac, ok := in.(*ssa.Call); ok && ac.Common().IsInvoke() && ac.Common().Method.Name() == "assignUnsetModalities" {
							for _, a := range ac.Common().Args {
								if origin(a) == ssa.Value(call) {
									rebuilt = true
								}
							}
						}
					}
				}
			}
		}
		v = Holds
		d := ""
		if !rebuilt {
			v = Violated
			d = "assignment does not use an environment rebuilt after all definition modes were inferred"
		}
		r.add(fnName(sm), "environment-rebuilt-between-phases", v, p.pos(sm.Pos()), d)
	}
	// (4) assignUnsetModalities writes only receiver fields
	for _, T := range p.sessionTypeImplementers() {
		fn := p.Method(T, "assignUnsetModalities")
		bad := ""
		for _, w := range heapWrites(fn) {
			st, ok := w.(*ssa.Store)
			if ok {
				if fa, isFA := st.Addr.(*ssa.FieldAddr); isFA && fa.X == ssa.Value(fn.Params[0]) {
					continue
				}
			}
			bad = "writes outside its own node at " + p.instrPos(w)
		}
		v := Holds
		if bad != "" {
			v = Violated
		}
		r.add(fnName(fn), "assignment-writes-only-own-node", v, p.pos(fn.Pos()), bad)
	}
}

func runNameEq(p *Program, r *RuleResult) {
	form := p.Named(processPkg, "Form")
	var roots []*ssa.Function
	for _, T := range p.Implementers(form) {
		roots = append(roots, p.Method(T, "FreeNames"), p.Method(T, "Substitute"))
	}
	reach := p.reachableFuncs(roots, useCHA)
	nFns, nSites := 0, 0
	for _, fn := range sortedFuncs(reach) {
		if fn.Blocks == nil || !p.isFirstParty(fn) {
			continue
		}
		root := fn
		for root.Parent() != nil {
			root = root.Parent()
		}
		if root.Signature.Recv() != nil && isNameType(root.Signature.Recv().Type()) {
			continue // methods of Name define the equality
		}
		if root.Pkg == nil || root.Pkg.Pkg.Path() != processPkg {
			continue
		}
		nFns++
		bad := ""
		for _, b := range fn.Blocks {
			for _, in := range b.Instrs {
				isIdent := func(v ssa.Value) bool {
					ld, ok := v.(*ssa.UnOp)
					if ok && ld.Op == token.MUL {
						if fa, ok := ld.X.(*ssa.FieldAddr); ok {
							_, n, _ := fieldNameOf(fa)
							return n == "Ident" && isNameType(fa.X.Type())
						}
					}
					if f, ok := v.(*ssa.Field); ok {
						_, n, _ := fieldNameOf(f)
						return n == "Ident" && isNameType2(f.X.Type())
					}
					return false
				}
				switch x := in.(type) {
				case *ssa.BinOp:
					if (x.Op == token.EQL || x.Op == token.NEQ) && (isIdent(x.X) || isIdent(x.Y)) {
						nSites++
						bad = fmt.Sprintf("names are compared by identifier at %s", p.instrPos(x))
					}
				case *ssa.MapUpdate:
					if isIdent(x.Key) {
						nSites++
						bad = fmt.Sprintf("a name set is keyed by identifier at %s", p.instrPos(x))
					}
				case *ssa.Lookup:
					if isIdent(x.Index) {
						if _, isMap := x.X.Type().Underlying().(*types.Map); isMap {
							nSites++
							bad = fmt.Sprintf("a name set is looked up by identifier at %s", p.instrPos(x))
						}
					}
				}
			}
		}
		if bad != "" {
			r.add(fnName(fn), "names-compared-by-Equal", Violated, p.pos(fn.Pos()), bad+": two distinct live channels with the same identifier (two calls of one function, duplicated copies) are treated as one name, so duplication and dropping miss a channel")
		} else if strings.Contains(fnName(fn), "Name") || len(fn.Params) > 0 {
			r.add(fnName(fn), "names-compared-by-Equal", Holds, p.pos(fn.Pos()), "")
		}
	}
	r.count("functions below FreeNames/Substitute", nFns)
	_ = nSites
}
