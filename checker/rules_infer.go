package main

import (
	"fmt"
	"go/token"
	"go/types"
	"sort"
	"strings"

	"golang.org/x/tools/go/ssa"
)

// R-INFER-PURE (C16): mode inference has no effect on the types it inspects and starts
// every root inference with a fresh visited set; assignment writes only the own tree.
// R-NAME-EQ (C04, C03, C02, C14): run-time name sets compare names through Name.Equal only.

func init() {
	register(&Rule{Name: "R-INFER-PURE", Min: 12,
		Doc: "every inferModality implementation (and its helpers) writes nothing but its visited-set argument and fresh local values; every root call of inferModality passes a visited set created for that call (in the same loop iteration); SetModalityTypeDef writes only the definition's own Modality in its inference loop and rebuilds the environment before assigning; assignUnsetModalities writes only fields of its receiver",
		Run: runInferPure})
	register(&Rule{Name: "R-NAME-EQ", Min: 3,
		Doc: "in the functions reachable from Form.FreeNames and Form.Substitute (outside the methods of Name itself) names are never compared or keyed by their identifier: distinct live channels can share an identifier, so name sets must use Name.Equal",
		Run: runNameEq})
	ruleUsesCallGraph["R-NAME-EQ"] = true
}

// heapWrites lists the stores of fn that are not to function-local allocations.
func heapWrites(fn *ssa.Function) []ssa.Instruction {
	var out []ssa.Instruction
	isLocal := func(addr ssa.Value) bool {
		for i := 0; i < 6; i++ {
			switch x := addr.(type) {
			case *ssa.Alloc:
				return true
			case *ssa.FieldAddr:
				addr = x.X
				continue
			case *ssa.IndexAddr:
				// element of a local array / of a slice made in this function
				switch b := x.X.(type) {
				case *ssa.Alloc:
					return true
				case *ssa.MakeSlice:
					return true
				case *ssa.Slice:
					addr = b.X
					continue
				case *ssa.Call:
					// append result of a local slice
					if bi, ok := b.Common().Value.(*ssa.Builtin); ok && bi.Name() == "append" {
						return true
					}
				}
				return false
			}
			return false
		}
		return false
	}
	for _, b := range fn.Blocks {
		for _, in := range b.Instrs {
			switch x := in.(type) {
			case *ssa.Store:
				if !isLocal(x.Addr) {
					out = append(out, in)
				}
			case *ssa.MapUpdate:
				out = append(out, in)
			}
		}
	}
	return out
}

func runInferPure(p *Program, r *RuleResult) {
	// (1) inferModality implementations
	implSet := map[*ssa.Function]bool{}
	for _, T := range p.sessionTypeImplementers() {
		fn := p.Method(T, "inferModality")
		implSet[fn] = true
		var visited *ssa.Parameter
		for _, prm := range fn.Params {
			if isMapStringBool(prm.Type()) {
				visited = prm
			}
		}
		bad := ""
		for _, w := range heapWrites(fn) {
			if mu, ok := w.(*ssa.MapUpdate); ok && visited != nil && origin(mu.Map) == ssa.Value(visited) {
				continue
			}
			if mu, ok := w.(*ssa.MapUpdate); ok {
				if _, fresh := origin(mu.Map).(*ssa.MakeMap); fresh {
					continue
				}
			}
			bad = fmt.Sprintf("inference writes to shared state at %s", p.instrPos(w))
		}
		// helper calls: only pure first-party helpers
		for _, c := range p.callsIn(fn) {
			sc := c.Common().StaticCallee()
			if sc == nil || !p.isFirstParty(sc) || implSet[sc] {
				continue
			}
			for _, w := range heapWrites(sc) {
				if mu, ok := w.(*ssa.MapUpdate); ok {
					if _, fresh := origin(mu.Map).(*ssa.MakeMap); fresh {
						continue
					}
				}
				bad = fmt.Sprintf("helper %s writes to shared state at %s", sc.Name(), p.instrPos(w))
			}
		}
		if bad != "" {
			r.add(fnName(fn), "inference-is-effect-free", Violated, p.pos(fn.Pos()), bad)
		} else {
			r.add(fnName(fn), "inference-is-effect-free", Holds, p.pos(fn.Pos()), "")
		}
	}
	// (2) root calls of inferModality
	nRoots := 0
	for _, fn := range p.SrcFuncs {
		if implSet[fn] {
			continue
		}
		view := p.View(fn)
		ord := 0
		for _, c := range p.callsIn(fn) {
			com := c.Common()
			if !(com.IsInvoke() && com.Method.Name() == "inferModality") {
				continue
			}
			nRoots++
			ord++
			construct := fmt.Sprintf("root-inference#%d", ord)
			var vis ssa.Value
			for _, a := range com.Args {
				if isMapStringBool(a.Type()) {
					vis = a
				}
			}
			mk, fresh := origin(vis).(*ssa.MakeMap)
			switch {
			case vis == nil || !fresh:
				r.add(fnName(fn), construct, Violated, p.instrPos(c), "the visited set passed to the root inference is not created for this call")
			default:
				shared := false
				for _, l := range view.Loops() {
					if l.Body[c.Block()] && !l.Body[mk.Block()] {
						shared = true
					}
				}
				// also: no other use of the same map by another inference call
				uses := 0
				for _, c2 := range p.callsIn(fn) {
					for _, a := range c2.Common().Args {
						if origin(a) == ssa.Value(mk) {
							uses++
						}
					}
				}
				if shared || uses > 1 {
					r.add(fnName(fn), construct, Violated, p.instrPos(c), "one visited set is shared by the inferences of several definitions: a name visited for an earlier definition looks like a mode-less cycle to a later one, so the inferred mode depends on declaration order")
				} else {
					r.add(fnName(fn), construct, Holds, p.instrPos(c), "fresh visited set per inference")
				}
			}
		}
	}
	r.count("root inference calls", nRoots)
	// (3) SetModalityTypeDef
	sm := p.Func(typesPkg, "SetModalityTypeDef")
	view := p.View(sm)
	loops := view.Loops()
	var inferLoop, assignLoop *Loop
	for _, l := range loops {
		for b := range l.Body {
			for _, in := range view.Instrs(b) {
				if c, ok := in.(*ssa.Call); ok && c.Common().IsInvoke() {
					switch c.Common().Method.Name() {
					case "inferModality":
						inferLoop = l
					case "assignUnsetModalities":
						assignLoop = l
					}
				}
			}
		}
	}
	if inferLoop == nil || assignLoop == nil || inferLoop == assignLoop {
		r.add(fnName(sm), "two-phase-structure", Violated, p.pos(sm.Pos()), "inference of all definition modes and assignment are not two separate loops: a definition may be assigned before the modes of the names it refers to are inferred")
	} else {
		r.add(fnName(sm), "two-phase-structure", Holds, p.pos(sm.Pos()), "")
		bad := ""
		for b := range inferLoop.Body {
			for _, in := range view.Instrs(b) {
				if st, ok := in.(*ssa.Store); ok {
					if _, fname, ok := fieldNameOf(st.Addr); ok && fname == "Modality" {
						continue
					}
					if _, isAlloc := st.Addr.(*ssa.Alloc); isAlloc {
						continue
					}
					bad = "the inference loop writes something other than the definition's own Modality at " + p.instrPos(st)
				}
			}
		}
		v := Holds
		if bad != "" {
			v = Violated
		}
		r.add(fnName(sm), "inference-loop-writes-only-own-mode", v, p.pos(sm.Pos()), bad)
		// environment rebuilt between the loops and used by the second
		rebuilt := false
		for _, c := range p.callsIn(sm) {
			call, ok := c.(*ssa.Call)
			if !ok || call.Common().StaticCallee() == nil || !isNamed(call.Type(), typesPkg, "LabelledTypesEnv") {
				continue
			}
			afterInfer := view.passedBefore(call, func(in ssa.Instruction) bool { return in.Block() == inferLoop.Header })
			if afterInfer && !inferLoop.Body[call.Block()] && !assignLoop.Body[call.Block()] {
				// used by the assignment calls
				for b := range assignLoop.Body {
					for _, in := range view.Instrs(b) {
						if ac, ok := in.(*ssa.Call); ok && ac.Common().IsInvoke() && ac.Common().Method.Name() == "assignUnsetModalities" {
							for _, a := range ac.Common().Args {
								if origin(a) == ssa.Value(call) {
									rebuilt = true
								}
							}
						}
					}
				}
			}
		}
		v = Holds
		d := ""
		if !rebuilt {
			v = Violated
			d = "assignment does not use an environment rebuilt after all definition modes were inferred"
		}
		r.add(fnName(sm), "environment-rebuilt-between-phases", v, p.pos(sm.Pos()), d)
	}
	// (4) assignUnsetModalities writes only receiver fields
	for _, T := range p.sessionTypeImplementers() {
		fn := p.Method(T, "assignUnsetModalities")
		bad := ""
		for _, w := range heapWrites(fn) {
			st, ok := w.(*ssa.Store)
			if ok {
				if fa, isFA := st.Addr.(*ssa.FieldAddr); isFA && fa.X == ssa.Value(fn.Params[0]) {
					continue
				}
			}
			bad = "writes outside its own node at " + p.instrPos(w)
		}
		v := Holds
		if bad != "" {
			v = Violated
		}
		r.add(fnName(fn), "assignment-writes-only-own-node", v, p.pos(fn.Pos()), bad)
	}
}

func runNameEq(p *Program, r *RuleResult) {
	form := p.Named(processPkg, "Form")
	var roots []*ssa.Function
	for _, T := range p.Implementers(form) {
		roots = append(roots, p.Method(T, "FreeNames"), p.Method(T, "Substitute"))
	}
	reach := p.reachableFuncs(roots, useCHA)
	nFns, nSites := 0, 0
	for _, fn := range sortedFuncs(reach) {
		if fn.Blocks == nil || !p.isFirstParty(fn) {
			continue
		}
		root := fn
		for root.Parent() != nil {
			root = root.Parent()
		}
		if root.Signature.Recv() != nil && isNameType(root.Signature.Recv().Type()) {
			continue // methods of Name define the equality
		}
		if root.Pkg == nil || root.Pkg.Pkg.Path() != processPkg {
			continue
		}
		nFns++
		bad := ""
		for _, b := range fn.Blocks {
			for _, in := range b.Instrs {
				isIdent := func(v ssa.Value) bool {
					ld, ok := v.(*ssa.UnOp)
					if ok && ld.Op == token.MUL {
						if fa, ok := ld.X.(*ssa.FieldAddr); ok {
							_, n, _ := fieldNameOf(fa)
							return n == "Ident" && isNameType(fa.X.Type())
						}
					}
					if f, ok := v.(*ssa.Field); ok {
						_, n, _ := fieldNameOf(f)
						return n == "Ident" && isNameType2(f.X.Type())
					}
					return false
				}
				switch x := in.(type) {
				case *ssa.BinOp:
					if (x.Op == token.EQL || x.Op == token.NEQ) && (isIdent(x.X) || isIdent(x.Y)) {
						nSites++
						bad = fmt.Sprintf("names are compared by identifier at %s", p.instrPos(x))
					}
				case *ssa.MapUpdate:
					if isIdent(x.Key) {
						nSites++
						bad = fmt.Sprintf("a name set is keyed by identifier at %s", p.instrPos(x))
					}
				case *ssa.Lookup:
					if isIdent(x.Index) {
						if _, isMap := x.X.Type().Underlying().(*types.Map); isMap {
							nSites++
							bad = fmt.Sprintf("a name set is looked up by identifier at %s", p.instrPos(x))
						}
					}
				}
			}
		}
		if bad != "" {
			r.add(fnName(fn), "names-compared-by-Equal", Violated, p.pos(fn.Pos()), bad+": two distinct live channels with the same identifier (two calls of one function, duplicated copies) are treated as one name, so duplication and dropping miss a channel")
		} else if strings.Contains(fnName(fn), "Name") || len(fn.Params) > 0 {
			r.add(fnName(fn), "names-compared-by-Equal", Holds, p.pos(fn.Pos()), "")
		}
	}
	r.count("functions below FreeNames/Substitute", nFns)
	_ = nSites
}

// R-FRESH-TREES (C16, C13, C19), R-ENV-FIRST (C14, C16), R-ANNOTATIONS (C10, C16).
func init() {
	register(&Rule{Name: "R-FRESH-TREES", Min: 9,
		Doc: "every toSessionType implementation returns a node freshly allocated in that call (a constructor result) or the conversion of a child; parsed types are never cached or shared between occurrences",
		Run: runFreshTrees})
	register(&Rule{Name: "R-ENV-FIRST", Min: 4,
		Doc: "the type and function-signature environments are built from the whole declaration slices before the first per-declaration judgement in typecheckFunctionDefinitions and typecheckProcesses",
		Run: runEnvFirst})
	register(&Rule{Name: "R-ANNOTATIONS", Min: 5,
		Doc: "every type annotation that enters the checker (function provider type, function parameter types, assumed-name types, process types, cut annotations) is passed through AddMissingModalities and then through the well-formedness check, whose error is propagated",
		Run: runAnnotations})
}

func runFreshTrees(p *Program, r *RuleResult) {
	I := p.Named(typesPkg, "SessionTypeInitial")
	for _, T := range p.Implementers(I) {
		fn := p.Method(T, "toSessionType")
		ok := true
		why := ""
		n := 0
		for _, b := range fn.Blocks {
			for _, in := range b.Instrs {
				ret, isRet := in.(*ssa.Return)
				if !isRet {
					continue
				}
				n++
				v := ret.Results[0]
				if mi, isMI := v.(*ssa.MakeInterface); isMI {
					v = mi.X
				}
				call, isCall := v.(*ssa.Call)
				switch {
				case !isCall:
					ok, why = false, "returns a value that is not the result of a constructor or of a child's conversion"
				case call.Common().IsInvoke() && call.Common().Method.Name() == fn.Name():
					// conversion of a child
				case call.Common().StaticCallee() != nil && p.returnsFreshAlloc(call.Common().StaticCallee(), 0):
				default:
					ok, why = false, "returns the result of "+calleeName(call)+", which does not allocate a fresh node"
				}
			}
		}
		v := Holds
		if !ok || n == 0 {
			v = Violated
		}
		r.add(fnName(fn), "returns-fresh-node", v, p.pos(fn.Pos()), why)
	}
}

func runEnvFirst(p *Program, r *RuleResult) {
	drv := findTypecheckDriver(p)
	for _, ph := range drv.Phases {
		fn := ph.Common().StaticCallee()
		hasJudgement := false
		for _, c := range p.callsIn(fn) {
			if c.Common().IsInvoke() && c.Common().Method.Name() == "typecheckForm" {
				hasJudgement = true
			}
		}
		if !hasJudgement {
			continue
		}
		view := p.View(fn)
		var judgements []*ssa.Call
		for _, c := range p.callsIn(fn) {
			if call, ok := c.(*ssa.Call); ok && call.Common().IsInvoke() && call.Common().Method.Name() == "typecheckForm" {
				judgements = append(judgements, call)
			}
		}
		if len(judgements) == 0 {
			r.add(fnName(fn), "judgement", Undecided, p.pos(fn.Pos()), "no root judgement found")
			continue
		}
		for _, envName := range []string{"LabelledTypesEnv", "FunctionTypesEnv"} {
			construct := "env-before-judgements:" + envName
			okAll := true
			why := ""
			for _, j := range judgements {
				var arg ssa.Value
				for _, a := range j.Common().Args {
					if isNamed(a.Type(), typesPkg, envName) || isNamed(a.Type(), processPkg, envName) {
						arg = a
					}
				}
				if arg == nil {
					okAll, why = false, "the environment passed to the judgement is not built in this function"
					continue
				}
				// built here, or handed in by the driver which built it before this phase
				bview, before, val := view, ssa.Instruction(j), origin(arg)
				if prm, isPrm := val.(*ssa.Parameter); isPrm {
					for i, q := range fn.Params {
						if q == prm && i < len(ph.Common().Args) {
							bview, before, val = p.View(drv.PhaseFn), ph, origin(ph.Common().Args[i])
						}
					}
				}
				mk, isCall := val.(*ssa.Call)
				if !isCall {
					okAll, why = false, "the environment passed to the judgement is built neither in this function nor by the driver before this phase"
					continue
				}
				// built outside every loop, before the judgement, from the whole slice
				for _, l := range bview.Loops() {
					if l.Body[mk.Block()] {
						okAll, why = false, "the environment is (re)built inside the per-declaration loop"
					}
				}
				whole := false
				for _, a := range mk.Common().Args {
					ap := accessPath(a)
					if strings.HasSuffix(ap, ".Types") || strings.HasSuffix(ap, ".FunctionDefinitions") {
						whole = true
					}
				}
				if !whole {
					okAll, why = false, "the environment is not built from the whole declaration slice of the global environment"
				}
				if !bview.passedBefore(before, func(in ssa.Instruction) bool { return in == ssa.Instruction(mk) }) {
					okAll, why = false, "a judgement can run before the environment is built"
				}
			}
			v := Holds
			if !okAll {
				v = Violated
			}
			r.add(fnName(fn), construct, v, p.pos(fn.Pos()), why)
		}
	}
}

func runAnnotations(p *Program, r *RuleResult) {
	add := p.Func(typesPkg, "AddMissingModalities")
	// annotation classes (specification side) and where their sources are collected (by type)
	classes := []string{"function provider type", "function parameter types", "assumed-name types", "process types"}
	drv := findTypecheckDriver(p)
	type coll struct {
		fn   *ssa.Function
		call ssa.Instruction
	}
	found := map[string][]coll{}
	// the phase functions, and helpers of theirs whose error the phase hands back (a block of
	// a phase moved into a function of its own)
	var scan []*ssa.Function
	inScan := map[*ssa.Function]bool{}
	for _, ph := range drv.Phases {
		fn := ph.Common().StaticCallee()
		if !inScan[fn] {
			inScan[fn] = true
			scan = append(scan, fn)
		}
		pview := p.View(fn)
		for _, c := range p.callsIn(fn) {
			call, ok := c.(*ssa.Call)
			if !ok {
				continue
			}
			h := call.Common().StaticCallee()
			if h == nil || inScan[h] || !p.isFirstParty(h) || h.Blocks == nil || h.Pkg != fn.Pkg {
				continue
			}
			res := h.Signature.Results()
			if res.Len() == 0 || !isErrorType(res.At(res.Len()-1).Type()) {
				continue
			}
			var errV ssa.Value = call
			if res.Len() > 1 {
				errV = nil
				for _, u := range *call.Referrers() {
					if ex, ok := u.(*ssa.Extract); ok && ex.Index == res.Len()-1 {
						errV = ex
					}
				}
			}
			if errV == nil {
				continue
			}
			handedBack := false
			for _, b := range pview.Blocks() {
				if !pview.holdsAt(b, errV, factNonNil) {
					continue
				}
				ins := pview.Instrs(b)
				if ret, ok := ins[len(ins)-1].(*ssa.Return); ok && len(ret.Results) == 1 && (ret.Results[0] == errV || isErrorValue(ret.Results[0], pview, b, map[ssa.Value]bool{})) {
					handedBack = true
				}
			}
			if handedBack {
				inScan[h] = true
				scan = append(scan, h)
			}
		}
	}
	for _, fn := range scan {
		for _, c := range p.callsIn(fn) {
			call, ok := c.(*ssa.Call)
			if !ok {
				continue
			}
			bi, ok := call.Common().Value.(*ssa.Builtin)
			if !ok || bi.Name() != "append" {
				continue
			}
			elems, ok := varargElems(call.Common().Args[1])
			if !ok {
				continue
			}
			for _, e := range elems {
				var owner types.Type
				fname := ""
				switch x := e.val.(type) {
				case *ssa.UnOp:
					if a, ok := x.X.(*ssa.FieldAddr); ok {
						owner = a.X.Type()
						_, fname, _ = fieldNameOf(a)
					}
				case *ssa.Field:
					owner = x.X.Type()
					_, fname, _ = fieldNameOf(x)
				}
				if fname != "Type" || owner == nil {
					continue
				}
				ap := accessPath(e.val)
				cls := ""
				switch {
				case isNamed(owner, processPkg, "FunctionDefinition"):
					cls = "function provider type"
				case isNamed(owner, processPkg, "Process"):
					cls = "process types"
				case isNamed(owner, processPkg, "Name") && strings.Contains(ap, ".Parameters[]"):
					cls = "function parameter types"
				case isNamed(owner, processPkg, "Name"):
					cls = "assumed-name types"
				}
				if cls != "" {
					found[cls] = append(found[cls], coll{fn, call})
				}
			}
		}
	}
	for _, cls := range classes {
		construct := "annotation:" + cls
		cs := found[cls]
		if len(cs) == 0 {
			r.add(fnName(drv.Driver), construct, Violated, p.pos(drv.Driver.Pos()), "the "+cls+" are not collected for mode completion and well-formedness checking in any typechecking phase")
			continue
		}
		okAdd, okCheck := false, false
		var fn *ssa.Function
		for _, cl := range cs {
			fn = cl.fn
			view := p.View(cl.fn)
			if len(view.mayReachFrom(cl.call, nil, func(in ssa.Instruction) bool {
				c, ok := in.(*ssa.Call)
				return ok && c.Common().StaticCallee() == add
			}, nil)) > 0 {
				okAdd = true
			}
			checks := view.mayReachFrom(cl.call, nil, func(in ssa.Instruction) bool {
				c, ok := in.(*ssa.Call)
				if !ok {
					return false
				}
				return p.callsWellFormedness(c.Common().StaticCallee(), 0)
			}, nil)
			for _, ch := range checks {
				call := ch.(*ssa.Call)
				for _, b := range view.Blocks() {
					if view.holdsAt(b, call, factNonNil) {
						ins := view.Instrs(b)
						if ret, ok := ins[len(ins)-1].(*ssa.Return); ok && len(ret.Results) > 0 && isErrorValue(ret.Results[len(ret.Results)-1], view, b, map[ssa.Value]bool{}) {
							okCheck = true
						}
					}
				}
			}
		}
		switch {
		case !okAdd:
			r.add(fnName(fn), construct, Violated, p.pos(fn.Pos()), "the "+cls+" never reach AddMissingModalities: omitted modes stay unset")
		case !okCheck:
			r.add(fnName(fn), construct, Violated, p.pos(fn.Pos()), "the "+cls+" are not well-formedness checked with the error propagated")
		default:
			r.add(fnName(fn), construct, Holds, p.pos(fn.Pos()), "")
		}
	}
	// cut annotation
	var nm *tcMethod
	for _, m := range p.typecheckMethods() {
		if m.T.Obj().Name() == "NewForm" {
			nm = m
		}
	}
	if nm == nil {
		anchorFail("NewForm.typecheckForm")
	}
	view := p.View(nm.Fn)
	var addCall *ssa.Call
	for _, c := range p.callsTo(nm.Fn, add) {
		if strings.HasSuffix(accessPath(c.Common().Args[0]), ".new_name_c.Type") {
			addCall = c.(*ssa.Call)
		}
	}
	if addCall == nil {
		r.add(fnName(nm.Fn), "annotation:cut annotation", Violated, p.pos(nm.Fn.Pos()), "the cut's type annotation never reaches AddMissingModalities")
		return
	}
	// the body judgement typed at the annotation is dominated by a nil well-formedness result
	ok := false
	for _, k := range nm.Conts {
		uses := false
		for _, a := range k.Common().Args {
			if strings.HasSuffix(accessPath(a), ".new_name_c.Type") {
				uses = true
			}
		}
		if !uses {
			continue
		}
		for f := range view.FactsAt(k.Block()) {
			c, isCall := f.v.(*ssa.Call)
			if isCall && f.k == factNil && c.Common().StaticCallee() != nil && p.callsWellFormedness(c.Common().StaticCallee(), 0) {
				if view.passedBefore(c, func(in ssa.Instruction) bool { return in == ssa.Instruction(addCall) }) {
					ok = true
				}
			}
		}
	}
	v := Holds
	d := ""
	if !ok {
		v = Violated
		d = "the spawned body is typed at the annotation without a preceding successful well-formedness check of the mode-completed annotation"
	}
	r.add(fnName(nm.Fn), "annotation:cut annotation", v, p.instrPos(addCall), d)
	// the check sees the annotation the user wrote (mode-completed), not a replacement:
	// nothing is stored into the annotation between completing it and checking it
	var checks []*ssa.Call
	for _, c := range p.callsIn(nm.Fn) {
		call, isCall := c.(*ssa.Call)
		if !isCall || call.Common().StaticCallee() == nil || !p.callsWellFormedness(call.Common().StaticCallee(), 0) {
			continue
		}
		if len(view.mayReachFrom(addCall, nil, func(in ssa.Instruction) bool { return in == ssa.Instruction(call) }, nil)) > 0 {
			checks = append(checks, call)
		}
	}
	bad := ""
	for _, b := range view.Blocks() {
		for _, in := range view.Instrs(b) {
			st, isSt := in.(*ssa.Store)
			if !isSt || !strings.HasSuffix(accessPath(st.Addr), ".new_name_c.Type") {
				continue
			}
			afterAdd := len(view.mayReachFrom(addCall, nil, func(x ssa.Instruction) bool { return x == ssa.Instruction(st) }, nil)) > 0
			if !afterAdd {
				continue
			}
			for _, chk := range checks {
				if len(view.mayReachFrom(st, nil, func(x ssa.Instruction) bool { return x == ssa.Instruction(chk) }, nil)) > 0 {
					bad = fmt.Sprintf("the annotation is overwritten at %s after its modes were completed and before it is checked at %s: what is validated is the replacement (an unfolded definition), so the mode written on the annotation itself is never checked", p.instrPos(st), p.instrPos(chk))
				}
			}
		}
	}
	if len(checks) > 0 {
		if bad != "" {
			r.add(fnName(nm.Fn), "annotation:cut annotation checked as written", Violated, p.instrPos(addCall), bad)
		} else {
			r.add(fnName(nm.Fn), "annotation:cut annotation checked as written", Holds, p.instrPos(addCall), "nothing replaces the annotation between mode completion and the well-formedness check")
		}
	}
}

func (p *Program) callsWellFormedness(fn *ssa.Function, depth int) bool {
	if fn == nil || fn.Blocks == nil || depth > 2 {
		return false
	}
	if fn.Name() == "CheckTypeWellFormedness" || fn.Name() == "SanityChecksType" {
		return true
	}
	for _, c := range p.callsIn(fn) {
		if p.callsWellFormedness(c.Common().StaticCallee(), depth+1) {
			return true
		}
	}
	return false
}

// R-INFER-THROUGH-NAMES (C16): a reference to a named type gets its mode by inferring the
// definition, not by reading a mode field that inference has not filled in yet.
func init() {
	register(&Rule{Name: "R-INFER-THROUGH-NAMES", Min: 1,
		Doc: "in the mode-inference family (the SessionType method taking the definition environment and a visited set and returning a mode): an implementation that looks a name up in the environment continues by calling the same inference method on the looked-up definition (under the visited-set test); it does not answer with the Modality() of the definition's head, which is unset until inference has run for that definition and therefore depends on the order in which definitions are processed",
		Run: runInferThroughNames})
}

func runInferThroughNames(p *Program, r *RuleResult) {
	st := p.Named(typesPkg, "SessionType")
	n := 0
	for _, T := range p.Implementers(st) {
		m := p.MethodOpt(T, "inferModality")
		if m == nil || m.Blocks == nil {
			continue
		}
		looks := false
		for _, b := range m.Blocks {
			for _, in := range b.Instrs {
				if lk, ok := in.(*ssa.Lookup); ok && isNamed(lk.X.Type(), typesPkg, "LabelledTypesEnv") {
					looks = true
				}
			}
		}
		if !looks {
			continue
		}
		n++
		recurses, readsHead := false, ""
		for _, c := range p.callsIn(m) {
			com := c.Common()
			if !com.IsInvoke() {
				continue
			}
			// receiver derives from the environment lookup?
			fromEnv := false
			var walk func(v ssa.Value, d int)
			walk = func(v ssa.Value, d int) {
				if d > 6 || fromEnv {
					return
				}
				switch x := v.(type) {
				case *ssa.Lookup:
					if isNamed(x.X.Type(), typesPkg, "LabelledTypesEnv") {
						fromEnv = true
					}
				case *ssa.Extract:
					walk(x.Tuple, d+1)
				case *ssa.UnOp:
					walk(x.X, d+1)
				case *ssa.Field:
					walk(x.X, d+1)
				case *ssa.FieldAddr:
					walk(x.X, d+1)
				case *ssa.Alloc:
					for _, s := range storesTo(x) {
						walk(s.Val, d+1)
					}
				}
			}
			walk(com.Value, 0)
			if !fromEnv {
				continue
			}
			switch com.Method.Name() {
			case "inferModality":
				recurses = true
			case "Modality":
				readsHead = p.instrPos(c)
			}
		}
		switch {
		case recurses && readsHead == "":
			r.add(fnName(m), "infers-the-definition", Holds, p.pos(m.Pos()), "the looked-up definition is inferred recursively")
		case readsHead != "":
			r.add(fnName(m), "infers-the-definition", Violated, readsHead, "the mode of a referenced definition is read from its head node (Modality()) instead of being inferred: while the definitions are being completed that field is still unset for definitions not yet processed, so the result depends on declaration order and is not stable under writing out the inferred annotation")
		default:
			r.add(fnName(m), "infers-the-definition", Violated, p.pos(m.Pos()), "a name is looked up in the environment but its definition is not inferred")
		}
	}
	r.count("inference implementations that follow names", n)
}

// R-VISIT-ONCE (C11): a recursion over the type definitions that carries a visited set
// explores every definition once, not once per path.
func init() {
	register(&Rule{Name: "R-VISIT-ONCE", Min: 2,
		Doc: "in the recursive traversals of package types that carry a visited set (a map[string]bool parameter handed from call to call, the functions reached from the parser's expansion included), every recursive call of the same family passes on the visited set it received, not a copy of it: with a copy per branch, a definition referred to from two branches is traversed again for each, so n chained definitions with two references each take 2^n steps – `type A0 = +{a : A1, b : A1} … type A20 = 1` (600 bytes) keeps parser.ParseString busy for ten seconds, four more definitions for minutes",
		Run: runVisitOnce})
}

func runVisitOnce(p *Program, r *RuleResult) {
	n := 0
	var fns []*ssa.Function
	for _, fn := range p.SrcFuncs {
		if fn.Pkg != nil && fn.Pkg.Pkg.Path() == typesPkg && fn.Blocks != nil && fn.Parent() == nil {
			fns = append(fns, fn)
		}
	}
	sort.Slice(fns, func(i, j int) bool { return fnName(fns[i]) < fnName(fns[j]) })
	type famT struct {
		copies []string // positions of recursive calls that receive a copy
		shared int
		memo   bool // the name-following member consults a table of finished results
		pos    string
	}
	fams := map[string]*famT{}
	var order []string
	for _, fn := range fns {
		var visited *ssa.Parameter
		for _, prm := range fn.Params {
			if isMapStringBool(prm.Type()) {
				visited = prm
			}
		}
		if visited == nil {
			continue
		}
		fam := fams[fn.Name()]
		for _, c := range p.callsIn(fn) {
			com := c.Common()
			sameFamily := false
			if com.IsInvoke() && com.Method.Name() == fn.Name() {
				sameFamily = true
			}
			if sc := com.StaticCallee(); sc != nil && sc.Name() == fn.Name() && sc.Pkg == fn.Pkg {
				sameFamily = true
			}
			if !sameFamily {
				continue
			}
			var arg ssa.Value
			for _, a := range com.Args {
				if isMapStringBool(a.Type()) {
					arg = a
				}
			}
			if arg == nil {
				continue
			}
			if fam == nil {
				fam = &famT{pos: p.pos(fn.Pos())}
				fams[fn.Name()] = fam
				order = append(order, fn.Name())
			}
			n++
			if origin(arg) == ssa.Value(visited) {
				fam.shared++
			} else {
				fam.copies = append(fam.copies, fnName(fn)+" at "+p.instrPos(c))
			}
		}
		// a table of finished results: a lookup in a map that is neither the definition
		// environment nor the visited set, in a member that follows a name
		followsEnv := false
		for _, b := range fn.Blocks {
			for _, in := range b.Instrs {
				if lk, ok := in.(*ssa.Lookup); ok && isNamed(lk.X.Type(), typesPkg, "LabelledTypesEnv") {
					followsEnv = true
				}
			}
		}
		if followsEnv && fam != nil {
			for _, b := range fn.Blocks {
				for _, in := range b.Instrs {
					lk, ok := in.(*ssa.Lookup)
					if !ok || isNamed(lk.X.Type(), typesPkg, "LabelledTypesEnv") || origin(lk.X) == ssa.Value(visited) {
						continue
					}
					if _, isMap := lk.X.Type().Underlying().(*types.Map); isMap {
						fam.memo = true
					}
				}
			}
		}
	}
	for _, name := range order {
		fam := fams[name]
		construct := "each-definition-once"
		switch {
		case len(fam.copies) == 0:
			r.add("types "+name+" family", construct, Holds, fam.pos, fmt.Sprintf("all %d recursive calls hand on the visited set they received", fam.shared))
		case fam.memo:
			r.add("types "+name+" family", construct, Holds, fam.pos, "branches get their own visited set, and finished definitions are taken from a table")
		default:
			r.add("types "+name+" family", construct, Violated, fam.pos,
				fmt.Sprintf("%d recursive call(s) receive a copy of the visited set (%s) and nothing records finished definitions: what one branch visits is forgotten when the next starts, so a definition shared by several branches is traversed once per path – exponential in the depth of the definitions", len(fam.copies), strings.Join(fam.copies, "; ")))
		}
	}
	r.count("recursive calls carrying a visited set", n)
}
