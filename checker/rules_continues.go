package main

import (
	"fmt"
	"go/token"
	"go/types"
	"sort"
	"strings"

	"golang.org/x/tools/go/ssa"
)

// R-CONTINUES (C02): a transition step never just returns: every way through a form's
// transition (and through the rule closures it hands to the transition helpers) ends by
// stepping on, by terminating the process, or because the run was cancelled.

func init() {
	register(&Rule{Name: "R-CONTINUES", Min: 40,
		Doc: "for every form and both interpreters: every return of the transition method, of each rule closure it passes to a transition helper, and of the helpers themselves is preceded on all paths by a call that steps the process on (the transition loop / a dispatch on the body), one that terminates it (the functions that count a process as dead), or a helper that is itself shown to do so with the closure it is given; the only other accepted exit is the branch of a select that received from the run's context Done channel",
		Run: runContinues})
}

func runContinues(p *Program, r *RuleResult) {
	ends := map[*ssa.Function]bool{}
	delegates := map[*ssa.Function]map[int]bool{} // helper -> func-typed params it relies on
	var procFns []*ssa.Function
	for _, fn := range p.SrcFuncs {
		if fn.Pkg == nil || fn.Pkg.Pkg.Path() != processPkg || fn.Blocks == nil {
			continue
		}
		procFns = append(procFns, fn)
		if p.isTransitionLoop(fn) || p.countsDeath(fn) || p.isLifecycleEnd(fn) {
			ends[fn] = true
		}
	}
	isDoneChan := func(v ssa.Value) bool {
		c, ok := v.(*ssa.Call)
		return ok && c.Common().IsInvoke() && c.Common().Method.Name() == "Done"
	}
	cancelled := func(view *View, b *ssa.BasicBlock) bool {
		for f := range view.FactsAt(b) {
			bo, ok := f.v.(*ssa.BinOp)
			if !ok || bo.Op != token.EQL || f.k != factTrue {
				continue
			}
			ex, ok := bo.X.(*ssa.Extract)
			k, ok2 := bo.Y.(*ssa.Const)
			if !ok || !ok2 || ex.Index != 0 {
				continue
			}
			sel, ok := ex.Tuple.(*ssa.Select)
			if !ok {
				continue
			}
			i := int(k.Int64())
			if i >= 0 && i < len(sel.States) && sel.States[i].Dir == types.RecvOnly && isDoneChan(sel.States[i].Chan) {
				return true
			}
		}
		return false
	}
	closureOf := func(v ssa.Value) *ssa.Function {
		switch x := v.(type) {
		case *ssa.MakeClosure:
			return x.Fn.(*ssa.Function)
		case *ssa.Function:
			return x
		}
		return nil
	}
	// failing return of fn under the current `ends` (nil if none)
	failing := func(fn *ssa.Function, record bool) ssa.Instruction {
		view := p.View(fn)
		pred := func(in ssa.Instruction) bool {
			c, ok := in.(ssa.CallInstruction)
			if !ok {
				return false
			}
			if _, isGo := c.(*ssa.Go); isGo {
				return false
			}
			if _, isDefer := c.(*ssa.Defer); isDefer {
				return false
			}
			com := c.Common()
			if com.IsInvoke() {
				return com.Method.Name() == "Transition" || com.Method.Name() == "TransitionNP"
			}
			if sc := com.StaticCallee(); sc != nil {
				if !ends[sc] {
					return false
				}
				for i := range delegates[sc] {
					if i >= len(com.Args) {
						return false
					}
					g := closureOf(com.Args[i])
					if g == nil || !ends[g] {
						// the closure may also be one of fn's own func parameters (handed on)
						if prm, ok := com.Args[i].(*ssa.Parameter); ok {
							for pi, q := range fn.Params {
								if q == prm && record {
									if delegates[fn] == nil {
										delegates[fn] = map[int]bool{}
									}
									delegates[fn][pi] = true
								}
							}
							continue
						}
						return false
					}
				}
				return true
			}
			// call of one of fn's own func-typed parameters / captured funcs: delegation
			switch v := com.Value.(type) {
			case *ssa.Parameter:
				for pi, q := range fn.Params {
					if q == v {
						if record {
							if delegates[fn] == nil {
								delegates[fn] = map[int]bool{}
							}
							delegates[fn][pi] = true
						}
						return true
					}
				}
			}
			return false
		}
		must := view.mustPassBefore(pred)
		for _, b := range view.Blocks() {
			ins := view.Instrs(b)
			if len(ins) == 0 {
				continue
			}
			ret, ok := ins[len(ins)-1].(*ssa.Return)
			if !ok {
				continue
			}
			if must[b] || cancelled(view, b) {
				continue
			}
			passed := false
			for _, in := range ins {
				if pred(in) {
					passed = true
				}
			}
			if !passed && p.feasibleAvoidingPath(view, b, pred) {
				return ret
			}
		}
		return nil
	}
	for changed := true; changed; {
		changed = false
		for _, fn := range procFns {
			if ends[fn] {
				continue
			}
			if fn.Signature.Results().Len() != 0 {
				continue
			}
			hasRet := false
			for _, b := range fn.Blocks {
				if len(b.Instrs) > 0 {
					if _, ok := b.Instrs[len(b.Instrs)-1].(*ssa.Return); ok {
						hasRet = true
					}
				}
			}
			if !hasRet {
				continue
			}
			if failing(fn, true) == nil {
				// a function without any relevant call and without returns passing… must have at least one ending call
				uses := false
				for _, c := range p.callsIn(fn) {
					com := c.Common()
					if com.IsInvoke() && (com.Method.Name() == "Transition" || com.Method.Name() == "TransitionNP") {
						uses = true
					}
					if sc := com.StaticCallee(); sc != nil && ends[sc] {
						uses = true
					}
					if _, ok := com.Value.(*ssa.Parameter); ok {
						uses = true
					}
				}
				if uses {
					ends[fn] = true
					changed = true
				}
			}
		}
	}
	form := p.Named(processPkg, "Form")
	n := 0
	var names []string
	for fn := range ends {
		if fn.Parent() == nil {
			names = append(names, fn.Name())
		}
	}
	sort.Strings(names)
	r.note("functions shown to step on or terminate on every path: %v", names)
	for _, T := range p.Implementers(form) {
		for _, fam := range []string{"Transition", "TransitionNP"} {
			root := p.MethodOpt(T, fam)
			if root == nil || root.Blocks == nil {
				continue
			}
			for _, fn := range append([]*ssa.Function{root}, allAnon(root)...) {
				n++
				construct := fam + ":steps-on-or-terminates"
				if bad := failing(fn, false); bad != nil {
					r.add(fnName(fn), construct, Violated, p.instrPos(bad),
						"this return can be reached without stepping the process on, terminating it, or a cancelled run: the process silently stops while its peers keep waiting for it")
				} else {
					r.add(fnName(fn), construct, Holds, p.pos(fn.Pos()), "")
				}
			}
		}
	}
	// the helpers handed closures
	var hs []*ssa.Function
	for h := range delegates {
		hs = append(hs, h)
	}
	sort.Slice(hs, func(i, j int) bool { return fnName(hs[i]) < fnName(hs[j]) })
	for _, h := range hs {
		if h.Parent() != nil {
			continue
		}
		n++
		if bad := failing(h, false); bad != nil {
			r.add(fnName(h), "helper:steps-on-or-terminates", Violated, p.instrPos(bad), "the helper can return without running the rule it was given, stepping on or terminating")
		} else {
			r.add(fnName(h), "helper:steps-on-or-terminates", Holds, p.pos(h.Pos()), fmt.Sprintf("relies on its func parameter(s) %v, checked at the call sites", keysOf(delegates[h])))
		}
	}
	r.count("transition functions and closures", n)
}

func keysOf(m map[int]bool) []int {
	var out []int
	for k := range m {
		out = append(out, k)
	}
	sort.Ints(out)
	return out
}

// isLifecycleEnd: a method of *Process that reports the end of this process's life under its
// current identity: it signals the heartbeat, does not dispatch a transition and is not the
// per-rule completion notice (which takes the rule as a parameter and is followed by the
// next step). On today's tree: terminate, terminateForward, terminateBeforeRename, renamed.
func (p *Program) isLifecycleEnd(fn *ssa.Function) bool {
	if fn == nil || fn.Blocks == nil || fn.Signature.Recv() == nil || !isNamed(fn.Signature.Recv().Type(), processPkg, "Process") {
		return false
	}
	for i := 0; i < fn.Signature.Params().Len(); i++ {
		if isNamed(fn.Signature.Params().At(i).Type(), processPkg, "Rule") {
			return false
		}
	}
	if p.isTransitionLoop(fn) {
		return false
	}
	return p.signalsHeartbeat(fn, 0)
}

// signalsHeartbeat: fn sends on the heartbeat channel itself or through a small first-party
// helper that does (the send moved into a method of the runtime environment).
func (p *Program) signalsHeartbeat(fn *ssa.Function, depth int) bool {
	for _, b := range fn.Blocks {
		for _, in := range b.Instrs {
			switch x := in.(type) {
			case *ssa.Send:
				if _, n, ok := fieldNameOf(x.Chan); ok && n == "heartbeat" {
					return true
				}
				if ld, ok := x.Chan.(*ssa.UnOp); ok {
					if _, n, ok := fieldNameOf(ld.X); ok && n == "heartbeat" {
						return true
					}
				}
			case *ssa.Call:
				h := x.Common().StaticCallee()
				if depth < 1 && h != nil && p.isFirstParty(h) && len(h.Blocks) == 1 && h.Signature.Results().Len() == 0 && p.signalsHeartbeat(h, depth+1) {
					return true
				}
			}
		}
	}
	return false
}

// feasibleAvoidingPath: is there a path from the entry to the end of block `to` that passes
// no instruction satisfying pred and whose branch conditions are not contradictory?
// Conditions are normalised to (expression, constant) comparisons and boolean field loads
// (go/ssa does not share the two evaluations of `x == C` in two if-chains); a value of an
// enumerated type that differs from every constant of its type is contradictory too.
func (p *Program) feasibleAvoidingPath(view *View, to *ssa.BasicBlock, pred InstrPred) bool {
	fn := view.Fn
	stored := map[string]bool{} // field paths written in fn: not stable
	for _, b := range fn.Blocks {
		for _, in := range b.Instrs {
			if st, ok := in.(*ssa.Store); ok {
				stored[exprKey(st.Addr)] = true
			}
		}
	}
	type lit struct {
		key string
		val bool
	}
	var norm func(c ssa.Value, val bool, d int) (lit, bool)
	norm = func(c ssa.Value, val bool, d int) (lit, bool) {
		if d > 4 {
			return lit{}, false
		}
		switch x := c.(type) {
		case *ssa.UnOp:
			if x.Op == token.NOT {
				return norm(x.X, !val, d+1)
			}
			if x.Op == token.MUL {
				k := exprKey(x.X)
				if k != "" && !stored[k] {
					return lit{"load:" + k, val}, true
				}
			}
		case *ssa.BinOp:
			if x.Op == token.EQL || x.Op == token.NEQ {
				if k, ok := x.Y.(*ssa.Const); ok && k.Value != nil {
					ek := exprKey(x.X)
					if ek != "" {
						return lit{"eq:" + ek + "==" + k.Value.ExactString(), val == (x.Op == token.EQL)}, true
					}
				}
			}
		}
		return lit{}, false
	}
	enumOf := map[string][]string{} // "eq:<expr>" -> constants of its enum type
	consistent := func(facts map[string]bool) bool {
		// group eq facts by expression
		byExpr := map[string]map[string]bool{}
		for k, v := range facts {
			if len(k) > 3 && k[:3] == "eq:" {
				i := lastIndex(k, "==")
				e, c := k[:i], k[i+2:]
				if byExpr[e] == nil {
					byExpr[e] = map[string]bool{}
				}
				byExpr[e][c] = v
			}
		}
		for e, m := range byExpr {
			nTrue := 0
			for _, v := range m {
				if v {
					nTrue++
				}
			}
			if nTrue > 1 {
				return false
			}
			if cs, ok := enumOf[e]; ok && nTrue == 0 {
				all := true
				for _, c := range cs {
					if v, known := m[c]; !known || v {
						all = false
					}
				}
				if all && len(cs) > 0 {
					return false
				}
			}
		}
		return true
	}
	// enum domains
	for _, b := range fn.Blocks {
		for _, in := range b.Instrs {
			bo, ok := in.(*ssa.BinOp)
			if !ok || (bo.Op != token.EQL && bo.Op != token.NEQ) {
				continue
			}
			if _, ok := bo.Y.(*ssa.Const); !ok {
				continue
			}
			if nt, ok := bo.X.Type().(*types.Named); ok && nt.Obj().Pkg() != nil {
				if _, isBasic := nt.Underlying().(*types.Basic); isBasic {
					var cs []string
					for _, c := range p.EnumConsts(nt) {
						cs = append(cs, c.Val().ExactString())
					}
					if ek := exprKey(bo.X); ek != "" && len(cs) > 0 {
						enumOf["eq:"+ek] = cs
					}
				}
			}
		}
	}
	entry := view.Blocks()
	if len(entry) == 0 {
		return false
	}
	budget := 20000
	var dfs func(b *ssa.BasicBlock, facts map[string]bool, onPath map[*ssa.BasicBlock]bool) bool
	dfs = func(b *ssa.BasicBlock, facts map[string]bool, onPath map[*ssa.BasicBlock]bool) bool {
		budget--
		if budget < 0 {
			return true // give up: assume feasible
		}
		ins := view.Instrs(b)
		for _, in := range ins {
			if pred(in) {
				return false
			}
		}
		if b == to {
			return true
		}
		succs := view.Succs(b)
		var cond ssa.Value
		if len(ins) > 0 {
			if iff, ok := ins[len(ins)-1].(*ssa.If); ok {
				cond = iff.Cond
			}
		}
		for i, su := range succs {
			if onPath[su] {
				continue
			}
			nf := facts
			if cond != nil && len(succs) == 2 {
				if l, ok := norm(cond, i == 0, 0); ok {
					if old, known := facts[l.key]; known && old != l.val {
						continue
					}
					nf = make(map[string]bool, len(facts)+1)
					for k, v := range facts {
						nf[k] = v
					}
					nf[l.key] = l.val
					if !consistent(nf) {
						continue
					}
				}
			}
			onPath[su] = true
			ok := dfs(su, nf, onPath)
			delete(onPath, su)
			if ok {
				return true
			}
		}
		return false
	}
	e := fn.Blocks[0]
	return dfs(e, map[string]bool{}, map[*ssa.BasicBlock]bool{e: true})
}

func lastIndex(s, sub string) int {
	for i := len(s) - len(sub); i >= 0; i-- {
		if s[i:i+len(sub)] == sub {
			return i
		}
	}
	return -1
}

// R-STEP-ATOMIC (C03, C04): what a step does that can be observed happens inside the rule
// the transition helper runs, not before the helper has decided whether the step runs at
// all (it may first duplicate the process or serve a pending request and come back to the
// same form, or find the run cancelled).
func init() {
	register(&Rule{Name: "R-STEP-ATOMIC", Min: 30,
		Doc: "in every transition method (both interpreters), no observable effect - writing to standard output, sending on a channel, storing into the process, spawning, ending the process - can be executed on a path that afterwards reaches a call of a transition helper that is handed the rule as a closure: such a helper may return without running the rule and the form is then executed again, repeating the effect",
		Run: runStepAtomic})
}

func runStepAtomic(p *Program, r *RuleResult) {
	// helpers: first-party functions of package process that call one of their own func-typed parameters
	helper := map[*ssa.Function]bool{}
	for _, fn := range p.SrcFuncs {
		if fn.Pkg == nil || fn.Pkg.Pkg.Path() != processPkg || fn.Parent() != nil {
			continue
		}
		for _, c := range p.callsIn(fn) {
			if prm, ok := c.Common().Value.(*ssa.Parameter); ok {
				if _, isSig := prm.Type().Underlying().(*types.Signature); isSig {
					helper[fn] = true
				}
			}
		}
	}
	if len(helper) == 0 {
		r.add(processPkg, "transition-helpers", Undecided, "", "no function that runs a rule passed as a closure was found")
		return
	}
	effect := func(in ssa.Instruction) string {
		switch x := in.(type) {
		case *ssa.Send:
			return "a channel send"
		case *ssa.Go:
			return "a goroutine start"
		case *ssa.Store:
			if fa, ok := x.Addr.(*ssa.FieldAddr); ok {
				if n := namedOf(fa.X.Type()); n != nil && n.Obj().Pkg() != nil && n.Obj().Pkg().Path() == processPkg && n.Obj().Name() == "Process" {
					_, f, _ := fieldNameOf(fa)
					return "a store to the process's " + f
				}
			}
		case ssa.CallInstruction:
			sc := x.Common().StaticCallee()
			if sc == nil {
				return ""
			}
			if sc.Pkg != nil && sc.Pkg.Pkg.Path() == "fmt" {
				switch sc.Name() {
				case "Print", "Printf", "Println":
					return "output written by fmt." + sc.Name()
				case "Fprint", "Fprintf", "Fprintln":
					if ld, ok := x.Common().Args[0].(*ssa.MakeInterface); ok {
						if u, ok := ld.X.(*ssa.UnOp); ok {
							if g, ok := u.X.(*ssa.Global); ok && g.Name() == "Stdout" {
								return "output written to os.Stdout"
							}
						}
					}
				}
			}
			if p.isLifecycleEnd(sc) || p.countsDeath(sc) {
				return "the end of the process (" + sc.Name() + ")"
			}
			if sc.Signature.Recv() != nil && isNamed(sc.Signature.Recv().Type(), processPkg, "Process") {
				for _, c2 := range p.callsIn(sc) {
					if _, isGo := c2.(*ssa.Go); isGo {
						return "a spawn (" + sc.Name() + ")"
					}
				}
			}
		}
		return ""
	}
	form := p.Named(processPkg, "Form")
	n := 0
	for _, T := range p.Implementers(form) {
		for _, fam := range []string{"Transition", "TransitionNP"} {
			root := p.MethodOpt(T, fam)
			if root == nil || root.Blocks == nil {
				continue
			}
			view := p.View(root)
			ord := 0
			for _, c := range p.callsIn(root) {
				sc := c.Common().StaticCallee()
				if sc == nil || !helper[sc] {
					continue
				}
				n++
				ord++
				construct := fmt.Sprintf("%s:before-%s#%d", fam, sc.Name(), ord)
				bad := ""
				for _, b := range view.Blocks() {
					for _, in := range view.Instrs(b) {
						what := effect(in)
						if what == "" || in == ssa.Instruction(c) {
							continue
						}
						if len(view.mayReachFrom(in, nil, func(x ssa.Instruction) bool { return x == ssa.Instruction(c) }, nil)) > 0 {
							bad = fmt.Sprintf("%s at %s happens before %s decides whether the step runs: when the helper first duplicates the process, serves a pending request or sees the run cancelled, the same form is executed again (or never) and the effect is repeated (or was premature)", what, p.instrPos(in), sc.Name())
						}
					}
				}
				if bad != "" {
					r.add(fnName(root), construct, Violated, p.instrPos(c), bad)
				} else {
					r.add(fnName(root), construct, Holds, p.instrPos(c), "")
				}
			}
		}
	}
	r.count("helper calls in transition methods", n)
}

// R-CONFIG-ACYCLIC (C02): the top-level configuration is checked to be acyclic.
func init() {
	ruleUsesCallGraph["R-CONFIG-ACYCLIC"] = false
	register(&Rule{Name: "R-CONFIG-ACYCLIC", Min: 2,
		Doc: "below the typechecking driver there is a check that the 'uses' relation among the top-level process declarations (a declaration uses the providers named free in its body) has no cycle: recognised by role as an error-returning function over the declared processes that follows the free names of a body and is recursive (depth-first search); typing each body separately cannot exclude `prc[a] … wait b …  prc[b] … wait a …`, which waits forever",
		Run: runConfigAcyclic})
}

func runConfigAcyclic(p *Program, r *RuleResult) {
	d := findTypecheckDriver(p)
	reach := p.reachableFuncs([]*ssa.Function{d.Driver}, false)
	var found []string
	for _, fn := range sortedFuncs(reach) {
		if fn.Blocks == nil || fn.Pkg == nil || fn.Pkg.Pkg.Path() != processPkg {
			continue
		}
		root := fn
		for root.Parent() != nil {
			root = root.Parent()
		}
		// error-returning (itself or its root)
		retErr := false
		for _, t := range sigResults(root) {
			if isErrorType(t) || isNamed(t, processPkg, "TypeError") {
				retErr = true
			}
		}
		if !retErr {
			continue
		}
		usesFree, recursive, overProcs := false, false, false
		// the check may be a function with a recursive closure, or a function that sets up a
		// small state struct and calls a recursive error-returning method on it
		cluster := append([]*ssa.Function{root}, allAnon(root)...)
		inCluster := map[*ssa.Function]bool{}
		for _, g := range cluster {
			inCluster[g] = true
		}
		for _, g := range append([]*ssa.Function{}, cluster...) {
			for _, c := range p.callsIn(g) {
				h := c.Common().StaticCallee()
				if h == nil || inCluster[h] || h.Blocks == nil || h.Pkg == nil || h.Pkg.Pkg.Path() != processPkg || h.Signature.Recv() == nil {
					continue
				}
				res := h.Signature.Results()
				if res.Len() != 1 || !isErrorType(res.At(0).Type()) {
					continue
				}
				selfRec := false
				for _, c2 := range p.callsIn(h) {
					if c2.Common().StaticCallee() == h {
						selfRec = true
					}
				}
				if selfRec {
					inCluster[h] = true
					cluster = append(cluster, h)
				}
			}
		}
		for _, g := range cluster {
			for _, prm := range g.Params {
				if sl, ok := prm.Type().Underlying().(*types.Slice); ok {
					if n := namedOf(sl.Elem()); n != nil && n.Obj().Name() == "Process" {
						overProcs = true
					}
				}
			}
			for _, c := range p.callsIn(g) {
				com := c.Common()
				if com.IsInvoke() && com.Method.Name() == "FreeNames" {
					usesFree = true
				}
				if sc := com.StaticCallee(); sc != nil {
					for _, c2 := range p.callsIn(sc) {
						if c2.Common().IsInvoke() && c2.Common().Method.Name() == "FreeNames" {
							usesFree = true
						}
					}
					r2 := sc
					for r2.Parent() != nil {
						r2 = r2.Parent()
					}
					if sc == g || (r2 == root && sc == g) || sc == root && g != root {
						recursive = true
					}
				}
				// a closure calling itself through its captured variable
				if ld, ok := com.Value.(*ssa.UnOp); ok {
					if fv, ok := ld.X.(*ssa.FreeVar); ok {
						if _, isSig := fv.Type().(*types.Pointer).Elem().Underlying().(*types.Signature); isSig && g.Parent() != nil {
							recursive = true
						}
					}
				}
			}
		}
		if usesFree && recursive && overProcs {
			dup := false
			for _, f := range found {
				if f == fnName(root) {
					dup = true
				}
			}
			if !dup {
				found = append(found, fnName(root))
			}
		}
	}
	if len(found) > 0 {
		r.add("process typechecking phases", "top-level-configuration-acyclic", Holds, "", fmt.Sprintf("cycle check recognised in %v", found))
		// its verdict is used: every call site returns the error it reports
		isCheck := map[string]bool{}
		for _, f := range found {
			isCheck[f] = true
		}
		nSites := 0
		for _, fn := range sortedFuncs(reach) {
			if fn.Blocks == nil {
				continue
			}
			view := p.View(fn)
			for _, c := range p.callsIn(fn) {
				call, ok := c.(*ssa.Call)
				if !ok || call.Common().StaticCallee() == nil || !isCheck[fnName(call.Common().StaticCallee())] || call.Common().StaticCallee() == fn {
					continue
				}
				nSites++
				prop := false
				for _, b := range view.Blocks() {
					if view.holdsAt(b, call, factNonNil) {
						ins := view.Instrs(b)
						if ret, ok := ins[len(ins)-1].(*ssa.Return); ok && len(ret.Results) > 0 && (ret.Results[len(ret.Results)-1] == ssa.Value(call) || isErrorValue(ret.Results[len(ret.Results)-1], view, b, map[ssa.Value]bool{})) {
							prop = true
						}
					}
				}
				if prop {
					r.add(fnName(fn), "cycle-error-propagated", Holds, p.instrPos(call), "")
				} else {
					r.add(fnName(fn), "cycle-error-propagated", Violated, p.instrPos(call), "the result of the cycle check is not returned as an error: a cyclic configuration is still accepted")
				}
			}
		}
		if nSites == 0 {
			r.add("process typechecking phases", "cycle-check-called", Violated, "", "the cycle check is never called below the typechecking driver")
		}
		return
	}
	r.add("process typechecking phases", "top-level-configuration-acyclic", Violated, p.pos(d.Driver.Pos()),
		"no phase checks that the top-level declarations do not use each other in a cycle: `prc[a] : 1 = wait b; close self   prc[b] : 1 = wait a; close self` is accepted and both processes wait forever (the run ends only through the inactivity timeout, with 0 of 2 processes finished)")
}

// R-CANCEL-CHECKED (C19): a cancelled run does not take another step.
func init() {
	register(&Rule{Name: "R-CANCEL-CHECKED", Min: 6,
		Doc: "in every transition helper (a function of the interpreter that runs a rule handed to it as a closure), each call of that closure is preceded on all paths by a select that listens on the run context's Done channel: once a run has been cancelled no process of it performs a further step, so nothing of an earlier run keeps executing (and printing) during a later one",
		Run: runCancelChecked})
}

func runCancelChecked(p *Program, r *RuleResult) {
	n := 0
	for _, fn := range p.SrcFuncs {
		if fn.Pkg == nil || fn.Pkg.Pkg.Path() != processPkg || fn.Parent() != nil || fn.Blocks == nil {
			continue
		}
		if !fnMentionsProcess(fn) {
			continue // not a helper of the interpreter (e.g. the heartbeat's cancel function)
		}
		view := p.View(fn)
		ord := 0
		for _, c := range p.callsIn(fn) {
			prm, ok := c.Common().Value.(*ssa.Parameter)
			if !ok {
				continue
			}
			if _, isSig := prm.Type().Underlying().(*types.Signature); !isSig {
				continue
			}
			n++
			ord++
			construct := fmt.Sprintf("rule-call#%d", ord)
			listens := func(in ssa.Instruction) bool {
				sel, ok := in.(*ssa.Select)
				if !ok {
					return false
				}
				for _, st := range sel.States {
					if cc, ok := st.Chan.(*ssa.Call); ok && st.Dir == types.RecvOnly && cc.Common().IsInvoke() && cc.Common().Method.Name() == "Done" {
						return true
					}
				}
				return false
			}
			if view.passedBefore(c, listens) {
				r.add(fnName(fn), construct, Holds, p.instrPos(c), "the rule runs only after a select that listens for cancellation")
			} else {
				r.add(fnName(fn), construct, Violated, p.instrPos(c),
					"the rule handed to this helper can run without the run's context having been consulted: a process that only takes such steps never notices that its run was cancelled and keeps executing while the next program runs")
			}
		}
	}
	r.count("rule calls in transition helpers", n)
}

// R-STEP-PROGRESS (C02, C01, C04): a step replaces the form by something else, and a case
// continues with the branch whose label was received.
func init() {
	register(&Rule{Name: "R-STEP-PROGRESS", Min: 28,
		Doc: "in the transition functions of both interpreters: (1) no store makes the executing form itself the process body again (the process would repeat the same step forever); (2) where the new body is chosen among the branches of a case, the branch's continuation is taken on the true edge of the comparison of that branch's label with the label carried by the message",
		Run: runStepProgress})
}

func runStepProgress(p *Program, r *RuleResult) {
	form := p.Named(processPkg, "Form")
	n := 0
	for _, T := range p.Implementers(form) {
		for _, fam := range []string{"Transition", "TransitionNP"} {
			root := p.MethodOpt(T, fam)
			if root == nil || root.Blocks == nil {
				continue
			}
			recv := root.Params[0]
			for _, fn := range append([]*ssa.Function{root}, allAnon(root)...) {
				view := p.View(fn)
				ord := 0
				isSelfForm := func(v ssa.Value) bool {
					v = origin(v)
					if mi, ok := v.(*ssa.MakeInterface); ok {
						v = origin(mi.X)
					}
					if v == ssa.Value(recv) {
						return true
					}
					// captured receiver: load of the free variable cell named like the receiver
					if ld, ok := v.(*ssa.UnOp); ok {
						if fv, ok := ld.X.(*ssa.FreeVar); ok && fv.Name() == recv.Name() {
							return true
						}
					}
					return false
				}
				for _, b := range view.Blocks() {
					for _, in := range view.Instrs(b) {
						st, ok := in.(*ssa.Store)
						if !ok {
							continue
						}
						if _, fname, ok := fieldNameOf(st.Addr); !ok || fname != "Body" || !isFormType(st.Val.Type()) {
							continue
						}
						n++
						ord++
						construct := fmt.Sprintf("%s:body-store#%d", fam, ord)
						if isSelfForm(st.Val) {
							r.add(fnName(fn), construct, Violated, p.instrPos(st), "the process body is set to the very form that is executing: the step is repeated forever instead of continuing with what follows")
							continue
						}
						// branch selection: value arrives through a phi from a block inside a loop over branches
						bad := ""
						var chk func(v ssa.Value, d int)
						chk = func(v ssa.Value, d int) {
							ph, ok := v.(*ssa.Phi)
							if !ok || d > 3 {
								return
							}
							for i, e := range ph.Edges {
								if isNilConst(e) {
									continue
								}
								if inner, ok := e.(*ssa.Phi); ok {
									chk(inner, d+1)
									continue
								}
								ld, ok := origin(e).(*ssa.UnOp)
								if !ok {
									continue
								}
								fa, ok := ld.X.(*ssa.FieldAddr)
								if !ok {
									continue
								}
								// a field of a branch (element of the form's branch list)
								if accessPathHasIndex(accessPath(fa)) || strings.Contains(describeVal(fa.X), "[") || true {
									pred := ph.Block().Preds[i]
									// the label comparison that is true on the way into pred
									okLabel := false
									sawCmp := false
									for f := range view.FactsAt(pred) {
										c, isCall := f.v.(*ssa.Call)
										if !isCall || len(c.Common().Args) < 1 {
											continue
										}
										name := ""
										if sc := c.Common().StaticCallee(); sc != nil {
											name = sc.Name()
										} else if c.Common().IsInvoke() {
											name = c.Common().Method.Name()
										}
										if name != "Equal" {
											continue
										}
										if !strings.Contains(accessPath(c.Common().Args[0])+accessPath(c.Common().Args[len(c.Common().Args)-1]), "label") &&
											!strings.Contains(strings.ToLower(types.TypeString(c.Common().Args[0].Type(), nil)), "label") {
											continue
										}
										sawCmp = true
										if f.k == factTrue {
											okLabel = true
										}
									}
									if sawCmp && !okLabel {
										bad = "the continuation of a branch is chosen where the comparison of its label with the received label is false (" + p.instrPos(ld) + "): the case continues with a branch that was not selected"
									}
								}
							}
						}
						chk(st.Val, 0)
						if bad != "" {
							r.add(fnName(fn), construct, Violated, p.instrPos(st), bad)
						} else {
							r.add(fnName(fn), construct, Holds, p.instrPos(st), "")
						}
					}
				}
			}
		}
	}
	r.count("body stores", n)
}

func accessPathHasIndex(ap string) bool { return strings.Contains(ap, "[]") }

// R-FAMILY-CONSISTENT (C03, C04, C01): a process keeps running under the interpreter it was
// started under.
func init() {
	register(&Rule{Name: "R-FAMILY-CONSISTENT", Min: 20,
		Doc: "the two interpreters (polarized: methods Transition; non-polarized: methods TransitionNP) each have their own step loop and spawn function, found by role (the *Process method that dispatches the family's method on the body; the function that starts it on a goroutine). No transition method or rule closure of one family re-enters the loop, or spawns through the spawn function, of the other family: the process (and everything it spawns) would go on under rules that do not serve the other interpreter's control messages",
		Run: runFamilyConsistent})
}

func runFamilyConsistent(p *Program, r *RuleResult) {
	fams := []string{"Transition", "TransitionNP"}
	loops := map[string]map[*ssa.Function]bool{}
	spawns := map[string]map[*ssa.Function]bool{}
	for _, f := range fams {
		loops[f] = map[*ssa.Function]bool{}
		spawns[f] = map[*ssa.Function]bool{}
	}
	for _, fn := range p.SrcFuncs {
		if fn.Pkg == nil || fn.Pkg.Pkg.Path() != processPkg || fn.Blocks == nil {
			continue
		}
		for _, c := range p.callsIn(fn) {
			com := c.Common()
			if com.IsInvoke() {
				for _, f := range fams {
					if com.Method.Name() == f && fn.Signature.Recv() != nil && isNamed(fn.Signature.Recv().Type(), processPkg, "Process") {
						loops[f][fn] = true
					}
				}
			}
		}
	}
	for _, fn := range p.SrcFuncs {
		if fn.Pkg == nil || fn.Pkg.Pkg.Path() != processPkg || fn.Blocks == nil {
			continue
		}
		for _, c := range p.callsIn(fn) {
			if g, ok := c.(*ssa.Go); ok {
				for _, f := range fams {
					if loops[f][g.Common().StaticCallee()] {
						spawns[f][fn] = true
					}
				}
			}
		}
	}
	for _, f := range fams {
		if len(loops[f]) == 0 || len(spawns[f]) == 0 {
			r.add(processPkg, "family-anchors:"+f, Undecided, "", "the step loop or the spawn function of this interpreter was not found")
			return
		}
	}
	other := map[string]string{"Transition": "TransitionNP", "TransitionNP": "Transition"}
	form := p.Named(processPkg, "Form")
	n := 0
	for _, T := range p.Implementers(form) {
		for _, f := range fams {
			root := p.MethodOpt(T, f)
			if root == nil || root.Blocks == nil {
				continue
			}
			for _, fn := range append([]*ssa.Function{root}, allAnon(root)...) {
				n++
				bad := ""
				for _, c := range p.callsIn(fn) {
					sc := c.Common().StaticCallee()
					if sc == nil {
						continue
					}
					if loops[other[f]][sc] {
						bad = fmt.Sprintf("it continues with %s, the step loop of the other interpreter, at %s", sc.Name(), p.instrPos(c))
					}
					if spawns[other[f]][sc] {
						bad = fmt.Sprintf("it spawns through %s, the spawn function of the other interpreter, at %s", sc.Name(), p.instrPos(c))
					}
				}
				if bad != "" {
					r.add(fnName(fn), f+":stays-in-its-interpreter", Violated, p.pos(fn.Pos()), bad+": from there on the process runs under the other interpreter's rules, which do not serve this interpreter's control messages (forward, split, duplicate requests are never taken)")
				} else {
					r.add(fnName(fn), f+":stays-in-its-interpreter", Holds, p.pos(fn.Pos()), "")
				}
				// a step loop entered by a plain call continues the process that is executing;
				// any other process gets its own goroutine through the spawn function
				for _, c := range p.callsIn(fn) {
					call, isCall := c.(*ssa.Call)
					if !isCall {
						continue
					}
					sc := call.Common().StaticCallee()
					if sc == nil || !(loops["Transition"][sc] || loops["TransitionNP"][sc]) || len(call.Common().Args) == 0 {
						continue
					}
					recv := origin(call.Common().Args[0])
					own := false
					switch x := recv.(type) {
					case *ssa.Parameter:
						own = isNamed(x.Type(), processPkg, "Process")
					case *ssa.FreeVar:
						if b, ok := freeVarBinding(x).(*ssa.Parameter); ok {
							own = isNamed(b.Type(), processPkg, "Process")
						} else if b := freeVarBinding(x); b != nil {
							if ld, ok := b.(*ssa.UnOp); ok {
								_ = ld
							}
							_, isPrm := origin(b).(*ssa.Parameter)
							own = isPrm
						}
					}
					construct := f + ":loop-continues-own-process"
					if own {
						r.add(fnName(fn), construct, Holds, p.instrPos(call), "")
					} else {
						r.add(fnName(fn), construct, Violated, p.instrPos(call),
							fmt.Sprintf("the step loop is entered by a plain call for a process other than the one executing (%s): the caller runs that process to its next blocking point on its own goroutine – if that process first waits for a message from the caller, both wait forever", displayKey(call.Common().Args[0])))
					}
				}
			}
		}
	}
	r.count("transition functions and closures", n)
}

// R-WATCHDOG-ARMED (C18, C02): the inactivity watchdog never waits for a heartbeat without an
// alternative.
func init() {
	register(&Rule{Name: "R-WATCHDOG-ARMED", Min: 1,
		Doc: "every receive from the run's heartbeat channel is a case of a select that has another way out (the timer, a done channel, or a default): a bare `<-heartbeat` in the watchdog blocks forever when nothing is running (a program that declares no process), so the run is never cancelled and the command never returns",
		Run: runWatchdogArmed})
}

func runWatchdogArmed(p *Program, r *RuleResult) {
	isHeartbeat := func(v ssa.Value) bool {
		if _, n, ok := fieldNameOf(v); ok && n == "heartbeat" {
			return true
		}
		if ld, ok := v.(*ssa.UnOp); ok {
			if _, n, ok := fieldNameOf(ld.X); ok && n == "heartbeat" {
				return true
			}
		}
		return false
	}
	n := 0
	for _, fn := range p.SrcFuncs {
		pk := fn.Pkg
		if pk == nil && fn.Parent() != nil {
			pk = fn.Parent().Pkg
		}
		if pk == nil || pk.Pkg.Path() != processPkg {
			continue
		}
		view := p.View(fn)
		ord := 0
		for _, b := range view.Blocks() {
			for _, in := range view.Instrs(b) {
				switch x := in.(type) {
				case *ssa.UnOp:
					if x.Op == token.ARROW && isHeartbeat(x.X) {
						n++
						ord++
						r.add(fnName(fn), fmt.Sprintf("heartbeat-receive#%d", ord), Violated, p.instrPos(x),
							"the watchdog waits for a heartbeat with no timer, done channel or default beside it: when no process is running (nothing was declared, or all have finished before this point) it waits forever and the run is never cancelled")
					}
				case *ssa.Select:
					for _, st := range x.States {
						if st.Dir != types.RecvOnly || !isHeartbeat(st.Chan) {
							continue
						}
						n++
						ord++
						construct := fmt.Sprintf("heartbeat-receive#%d", ord)
						if !x.Blocking || len(x.States) > 1 {
							r.add(fnName(fn), construct, Holds, p.instrPos(x), "one case of a select with another way out")
						} else {
							r.add(fnName(fn), construct, Violated, p.instrPos(x), "the only case of a blocking select")
						}
					}
				}
			}
		}
	}
	// every arming of the watchdog's timer uses the same duration
	for _, fn := range p.SrcFuncs {
		pk := fn.Pkg
		if pk == nil || pk.Pkg.Path() != processPkg || fn.Parent() != nil {
			continue
		}
		recvsHeartbeat := false
		for _, g := range append([]*ssa.Function{fn}, allAnon(fn)...) {
			for _, b := range g.Blocks {
				for _, in := range b.Instrs {
					if sel, ok := in.(*ssa.Select); ok {
						for _, st := range sel.States {
							if st.Dir == types.RecvOnly && isHeartbeat(st.Chan) {
								recvsHeartbeat = true
							}
						}
					}
				}
			}
		}
		if !recvsHeartbeat {
			continue
		}
		var durs []ssa.Value
		var sites []ssa.Instruction
		for _, c := range p.callsIn(fn) {
			sc := c.Common().StaticCallee()
			if sc == nil || sc.Pkg == nil || sc.Pkg.Pkg.Path() != "time" {
				continue
			}
			switch sc.Name() {
			case "NewTimer", "After", "AfterFunc":
				durs = append(durs, c.Common().Args[0])
				sites = append(sites, c)
			case "Reset":
				if len(c.Common().Args) == 2 {
					durs = append(durs, c.Common().Args[1])
					sites = append(sites, c)
				}
			}
		}
		if len(durs) < 2 {
			continue
		}
		bad := ""
		for i := 1; i < len(durs); i++ {
			if origin(durs[i]) != origin(durs[0]) && exprKey(durs[i]) != exprKey(durs[0]) {
				bad = fmt.Sprintf("the watchdog is armed with %s at %s but with %s at %s: after a heartbeat it tolerates a different silence than before the first one (a process that sleeps its step delay looks dead)", displayKey(durs[0]), p.instrPos(sites[0]), displayKey(durs[i]), p.instrPos(sites[i]))
			}
		}
		if bad != "" {
			r.add(fnName(fn), "one-watchdog-duration", Violated, p.instrPos(sites[0]), bad)
		} else {
			r.add(fnName(fn), "one-watchdog-duration", Holds, p.instrPos(sites[0]), fmt.Sprintf("%d armings, one duration", len(durs)))
		}
	}
	r.count("receives from the heartbeat channel", n)
}
