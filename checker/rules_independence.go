package main

import (
	"fmt"
	"sort"
	"strings"

	"golang.org/x/tools/go/ssa"
)

// R-INDEPENDENCE (C06): every root judgement Γ ⊢ P :: (c : A_m) is covered by the
// declaration of independence (every x : B_k in Γ has k ≥ m).

func init() {
	register(&Rule{Name: "R-INDEPENDENCE", Min: 4,
		Doc: "every root judgement site (typecheckForm on a fresh context: function bodies, top-level processes, cut bodies) is covered by the mode-independence check applied to that judgement's own context names and provider type; the cut additionally checks new ≥ provider",
		Run: runIndependence})
}

// independenceFuncs finds, by role, the functions that implement the check: a call of
// Modality().CanBeDownshiftedTo(Modality()) whose false edge is an error (the "one" check),
// and wrappers that loop over names calling it and propagate the error.
var independenceSkips = map[*ssa.Function]string{}

// independenceOne: the functions holding the comparison itself -> "" or the operand that is
// not the Modality() of a type.
var independenceOne = map[*ssa.Function]string{}

func phiLeaves(v ssa.Value) []ssa.Value {
	var out []ssa.Value
	seen := map[ssa.Value]bool{}
	var walk func(v ssa.Value)
	walk = func(v ssa.Value) {
		if seen[v] {
			return
		}
		seen[v] = true
		if ph, ok := v.(*ssa.Phi); ok {
			for _, e := range ph.Edges {
				walk(e)
			}
			return
		}
		out = append(out, v)
	}
	walk(v)
	return out
}

func independenceFuncs(p *Program) map[*ssa.Function]bool {
	out := map[*ssa.Function]bool{}
	for _, fn := range p.SrcFuncs {
		if fn.Pkg == nil || fn.Pkg.Pkg.Path() != processPkg || fn.Parent() != nil {
			continue
		}
		if fn.Signature.Results().Len() != 1 || !isErrorType(fn.Signature.Results().At(0).Type()) {
			continue
		}
		view := p.View(fn)
		for _, c := range p.callsIn(fn) {
			call, ok := c.(*ssa.Call)
			if !ok || !call.Common().IsInvoke() || call.Common().Method.Name() != "CanBeDownshiftedTo" {
				continue
			}
			isMod := func(v ssa.Value) bool {
				mc, ok := v.(*ssa.Call)
				return ok && mc.Common().IsInvoke() && mc.Common().Method.Name() == "Modality"
			}
			wrong := ""
			if !isMod(call.Common().Value) || !isMod(call.Common().Args[0]) {
				// a comparison fed by something else on some path (a field of the type, a
				// selected mode) is still the check, but it no longer compares the modes the
				// names live in
				for _, side := range []ssa.Value{call.Common().Value, call.Common().Args[0]} {
					for _, leaf := range phiLeaves(side) {
						if !isMod(leaf) {
							wrong = displayKey(leaf)
						}
					}
				}
				if wrong == "" {
					continue
				}
			}
			for _, b := range view.Blocks() {
				if !view.holdsAt(b, call, factFalse) {
					continue
				}
				ins := view.Instrs(b)
				if ret, ok := ins[len(ins)-1].(*ssa.Return); ok && isErrorValue(ret.Results[0], view, b, map[ssa.Value]bool{}) {
					out[fn] = true
					independenceOne[fn] = wrong
				}
			}
		}
	}
	// wrappers
	for changed := true; changed; {
		changed = false
		for _, fn := range p.SrcFuncs {
			if out[fn] || fn.Pkg == nil || fn.Pkg.Pkg.Path() != processPkg || fn.Parent() != nil {
				continue
			}
			if fn.Signature.Results().Len() != 1 || !isErrorType(fn.Signature.Results().At(0).Type()) || len(fn.Params) != 2 {
				continue
			}
			view := p.View(fn)
			for _, c := range p.callsIn(fn) {
				call, ok := c.(*ssa.Call)
				if !ok || !out[call.Common().StaticCallee()] {
					continue
				}
				inLoop := false
				for _, l := range view.Loops() {
					if l.Body[call.Block()] {
						inLoop = true
					}
				}
				// error propagated
				prop := false
				for _, u := range *call.Referrers() {
					if _, ok := u.(*ssa.Return); ok {
						prop = true
					}
				}
				for _, b := range view.Blocks() {
					if view.holdsAt(b, call, factNonNil) {
						ins := view.Instrs(b)
						if ret, ok := ins[len(ins)-1].(*ssa.Return); ok && (ret.Results[0] == ssa.Value(call) || isErrorValue(ret.Results[0], view, b, map[ssa.Value]bool{})) {
							prop = true
						}
					}
				}
				if inLoop && prop {
					out[fn] = true
					changed = true
					if w := skipsIteration(p, view, call); w != "" {
						independenceSkips[fn] = w
					}
				}
			}
		}
	}
	return out
}

func runIndependence(p *Program, r *RuleResult) {
	ind := independenceFuncs(p)
	if len(ind) == 0 {
		r.add("process", "independence-check", Undecided, "", "no function implementing the mode-independence check found")
		return
	}
	var names []string
	for f := range ind {
		names = append(names, fnName(f))
	}
	r.note("independence check implemented by: %v", names)
	for f := range ind {
		if len(f.Params) != 2 || !strings.HasPrefix(f.Params[0].Type().String(), "[]") {
			continue
		}
		if w, bad := independenceSkips[f]; bad {
			r.add(fnName(f), "checks-every-name", Violated, p.pos(f.Pos()),
				"the loop over the context's names can complete an iteration without comparing that name's mode with the provider's (iteration ending at "+w+"): some channel of the context is never checked")
		} else {
			r.add(fnName(f), "checks-every-name", Holds, p.pos(f.Pos()), "every iteration of the loop over the names runs the mode comparison")
		}
	}
	for f := range ind {
		w, isOne := independenceOne[f]
		if !isOne {
			continue
		}
		if w != "" {
			r.add(fnName(f), "compares-the-modes-the-names-live-in", Violated, p.pos(f.Pos()),
				"on some path the comparison is fed by "+w+" instead of the Modality() of the antecedent's / the provider's whole type: a name of type m \\/ n A lives in mode n, whatever it can be shifted to")
		} else {
			r.add(fnName(f), "compares-the-modes-the-names-live-in", Holds, p.pos(f.Pos()), "both operands are Modality() of a whole type on every path")
		}
	}
	d := findTypecheckDriver(p)
	dview := p.View(d.PhaseFn)

	// all invokes of typecheckForm in package process
	type site struct {
		fn   *ssa.Function
		call *ssa.Call
		ctx  ssa.Value
		prov ssa.Value
	}
	var roots []site
	for _, fn := range p.SrcFuncs {
		if fn.Pkg == nil || fn.Pkg.Pkg.Path() != processPkg {
			continue
		}
		for _, c := range p.callsIn(fn) {
			call, ok := c.(*ssa.Call)
			if !ok || !call.Common().IsInvoke() || call.Common().Method.Name() != "typecheckForm" {
				continue
			}
			var ctx, prov ssa.Value
			for _, a := range call.Common().Args {
				if isCtxType(a.Type()) {
					ctx = a
				} else if isSessionTypeType(a.Type()) {
					prov = a
				}
			}
			if ctx == nil || prov == nil {
				continue
			}
			src := origin(ctx)
			fresh := false
			switch x := src.(type) {
			case *ssa.Call:
				if p.isFreshCtxFunc(x.Common().StaticCallee()) {
					fresh = true
				}
			case *ssa.Extract:
				if cc, ok := x.Tuple.(*ssa.Call); ok && x.Index == 0 {
					if p.isSplitCtxFunc(cc.Common().StaticCallee()) {
						fresh = true
					}
				}
			}
			if fresh {
				roots = append(roots, site{fn, call, src, prov})
			}
		}
	}
	r.count("root judgement sites", len(roots))
	ord := map[string]int{}
	for _, s := range roots {
		view := p.View(s.fn)
		name := fnName(s.fn)
		ord[name]++
		if _, isCut := s.ctx.(*ssa.Extract); isCut {
			construct := fmt.Sprintf("root-site:cut-body#%d", ord[name])
			// (1) Γ_left ≥ new type, dominating the body judgement
			ok := false
			for f := range view.FactsAt(s.call.Block()) {
				c, isCall := f.v.(*ssa.Call)
				if !isCall || f.k != factNil || !ind[c.Common().StaticCallee()] || len(c.Common().Args) != 2 {
					continue
				}
				// arg0 = names of the same context, arg1 = the same provider type
				namesOf := false
				if gc, ok := c.Common().Args[0].(*ssa.Call); ok && len(gc.Common().Args) == 1 && origin(gc.Common().Args[0]) == s.ctx {
					namesOf = true
				}
				if namesOf && sameTypeValue(c.Common().Args[1], s.prov) {
					ok = true
				}
			}
			if ok {
				r.add(name, construct, Holds, p.instrPos(s.call), "the spawned body's context is checked against the new channel's type before the body is typed")
			} else {
				r.add(name, construct, Violated, p.instrPos(s.call), "the body of the cut is typed without the independence check of its context against the new channel's type")
			}
			// (2) new ≥ provider on every path from here to a success exit
			construct2 := fmt.Sprintf("cut-new-vs-provider#%d", ord[name])
			m := (*tcMethod)(nil)
			for _, tm := range p.typecheckMethods() {
				if tm.Fn == s.fn {
					m = tm
				}
			}
			if m == nil {
				r.add(name, construct2, Undecided, p.instrPos(s.call), "cut site outside a typecheckForm method")
				continue
			}
			gated := func(b *ssa.BasicBlock) bool {
				for f := range view.FactsAt(b) {
					c, isCall := f.v.(*ssa.Call)
					if isCall && f.k == factNil && ind[c.Common().StaticCallee()] && len(c.Common().Args) == 2 && origin(c.Common().Args[1]) == ssa.Value(m.Provider) {
						return true
					}
				}
				return false
			}
			exits := map[ssa.Instruction]bool{}
			for _, ret := range p.successExits(m) {
				exits[ret] = true
			}
			bad := ""
			seen := map[*ssa.BasicBlock]bool{}
			var visit func(b *ssa.BasicBlock, from int)
			visit = func(b *ssa.BasicBlock, from int) {
				ins := view.Instrs(b)
				for i := from; i < len(ins); i++ {
					if exits[ins[i]] {
						bad = "success at " + p.instrPos(ins[i]) + " is reachable from the cut without the check that the new channel's mode is at least the provider's"
					}
				}
				for _, su := range view.Succs(b) {
					if !seen[su] && !gated(su) {
						seen[su] = true
						visit(su, 0)
					}
				}
			}
			visit(s.call.Block(), indexIn(s.call.Block(), s.call)+1)
			if bad != "" {
				r.add(name, construct2, Violated, p.instrPos(s.call), bad)
			} else {
				r.add(name, construct2, Holds, p.instrPos(s.call), "")
			}
			continue
		}
		// collection site: keyed by the kind of declaration (stable under renaming of the phase function)
		declKind := "declarations"
		if ld, ok := origin(s.prov).(*ssa.UnOp); ok {
			if fa, ok := ld.X.(*ssa.FieldAddr); ok {
				if n := namedOf(fa.X.Type()); n != nil {
					declKind = n.Obj().Name()
				}
			}
		} else if f, ok := origin(s.prov).(*ssa.Field); ok {
			if n := namedOf(f.X.Type()); n != nil {
				declKind = n.Obj().Name()
			}
		}
		construct := "root-site:declared-" + declKind
		name = "process typechecking phases"
		provPath := accessPath(s.prov)
		if provPath == "" {
			r.add(name, construct, Undecided, p.instrPos(s.call), "provider type of the root judgement is not a field path")
			continue
		}
		norm := normaliseCollectionPath(provPath)
		// the phase call of s.fn in the driver
		var phase *ssa.Call
		for _, ph := range d.Phases {
			if ph.Common().StaticCallee() == s.fn {
				phase = ph
			}
		}
		if phase == nil {
			r.add(name, construct, Undecided, p.instrPos(s.call), "the root site's function is not a phase of the driver")
			continue
		}
		found := ""
		skipped := ""
		partial := ""
		namesPath := ""
		if cc, ok := origin(s.ctx).(*ssa.Call); ok && len(cc.Common().Args) == 1 {
			namesPath = normaliseCollectionPath(accessPath(cc.Common().Args[0]))
		}
		for _, ph := range d.Phases {
			g := ph.Common().StaticCallee()
			if ph != phase && !dview.passedBefore(phase, func(in ssa.Instruction) bool { return in == ssa.Instruction(ph) }) {
				continue
			}
			gview := p.View(g)
			for _, c := range p.callsIn(g) {
				call, ok := c.(*ssa.Call)
				if !ok || !ind[call.Common().StaticCallee()] || len(call.Common().Args) != 2 {
					continue
				}
				if normaliseCollectionPath(accessPath(call.Common().Args[1])) != norm {
					continue
				}
				// the names checked are the whole name list the root's context is built from
				// (not a slice of it, not another list)
				if namesPath != "" {
					if got := normaliseCollectionPath(accessPath(call.Common().Args[0])); got != namesPath {
						partial = fmt.Sprintf("the check in %s at %s is applied to %s, not to the names the judgement's context is built from (%s); ", fnName(g), p.instrPos(call), displayKey(call.Common().Args[0]), namesPath)
						continue
					}
				}
				inLoop := false
				for _, l := range gview.Loops() {
					if l.Body[call.Block()] {
						inLoop = true
					}
				}
				errExit := false
				for _, b := range gview.Blocks() {
					if gview.holdsAt(b, call, factNonNil) {
						ins := gview.Instrs(b)
						if ret, ok := ins[len(ins)-1].(*ssa.Return); ok && isErrorValue(ret.Results[0], gview, b, map[ssa.Value]bool{}) {
							errExit = true
						}
					}
				}
				if inLoop && errExit {
					if w := skipsIteration(p, gview, call); w != "" {
						skipped = fmt.Sprintf("the check in %s can be skipped for some elements of the collection (iteration ending at %s); ", fnName(g), w)
						continue
					}
					found = fnName(g) + " at " + p.instrPos(call)
				}
			}
		}
		if found != "" {
			r.add(name, construct, Holds, p.instrPos(s.call), "covered by the check in "+found+" (same collection, element's own names and type), which precedes this phase")
		} else {
			r.add(name, construct, Violated, p.instrPos(s.call),
				skipped+partial+fmt.Sprintf("the root judgements typed here (provider type %s) are never covered by the mode-independence check: a provider can depend on a channel of a weaker mode", provPath))
		}
	}
}

// normaliseCollectionPath: "globalEnv.FunctionDefinitions[].Type" stays; a local range
// variable name as root is replaced by its collection when available. Paths are compared
// from the first "[]" on, plus the collection's last field name.
func normaliseCollectionPath(p string) string {
	i := strings.Index(p, "[]")
	if i < 0 {
		return p
	}
	head := p[:i]
	if j := strings.LastIndex(head, "."); j >= 0 {
		head = head[j+1:]
	}
	return head + p[i:]
}

// sameTypeValue: two values denote the same session type: identical, same origin, or
// loads of the same field path.
func sameTypeValue(a, b ssa.Value) bool {
	if a == b || origin(a) == origin(b) {
		return true
	}
	pa, pb := accessPath(a), accessPath(b)
	return pa != "" && pa == pb
}

// skipsIteration: in a loop of view containing call, is there a way round the loop (from the
// header back to the header, inside the loop) that does not execute call? Returns the
// position of the back-edge source of such an iteration. Iterations that skip because the
// element has no type at all (a nil test on a SessionType) are not counted.
func skipsIteration(p *Program, view *View, call ssa.Instruction) string {
	for _, l := range view.Loops() {
		if !l.Body[call.Block()] {
			continue
		}
		seen := map[*ssa.BasicBlock]bool{}
		var hit string
		var walk func(b *ssa.BasicBlock)
		walk = func(b *ssa.BasicBlock) {
			if hit != "" {
				return
			}
			if b == call.Block() {
				return // executes the call
			}
			for _, su := range view.Succs(b) {
				if su == l.Header {
					nilSkip := false
					for f := range view.FactsAt(b) {
						if f.k == factNil && isSessionTypeType(f.v.Type()) {
							nilSkip = true
						}
					}
					if !nilSkip {
						ins := view.Instrs(b)
						hit = p.instrPos(ins[len(ins)-1])
						if hit == "" || strings.HasPrefix(hit, "-") {
							hit = "block " + b.Comment
						}
					}
					continue
				}
				if l.Body[su] && !seen[su] {
					seen[su] = true
					walk(su)
				}
			}
		}
		for _, su := range view.Succs(l.Header) {
			if l.Body[su] && !seen[su] {
				seen[su] = true
				walk(su)
			}
		}
		if hit != "" {
			return hit
		}
	}
	return ""
}

// R-CHECK-ALL (C10, C06, C09): validation loops validate every element.
func init() {
	register(&Rule{Name: "R-CHECK-ALL", Min: 10,
		Doc: "in the type library and the typechecker, wherever a loop over a collection calls an error-returning check on the loop's element and returns that error, no iteration can complete without running the check (a nil test of the element is the only accepted skip)",
		Run: runCheckAll})
}

func runCheckAll(p *Program, r *RuleResult) {
	n := 0
	var conditional []string
	for _, fn := range p.SrcFuncs {
		if fn.Pkg == nil || !(fn.Pkg.Pkg.Path() == typesPkg || fn.Pkg.Pkg.Path() == processPkg) || fn.Blocks == nil {
			continue
		}
		if rm := rootMethod(fn); strings.HasPrefix(rm.Name(), "Transition") {
			continue
		}
		view := p.View(fn)
		loops := view.Loops()
		if len(loops) == 0 {
			continue
		}
		ord := 0
		for _, c := range p.callsIn(fn) {
			call, ok := c.(*ssa.Call)
			if !ok {
				continue
			}
			res := call.Type()
			if !(isErrorType(res) || isNamed(res, processPkg, "TypeError")) {
				continue
			}
			// a named check (function or method), not a local func value: a recursive
			// closure that walks a graph skips visited nodes by design
			if call.Common().StaticCallee() == nil && !call.Common().IsInvoke() {
				continue
			}
			if sc := call.Common().StaticCallee(); sc != nil && sc.Parent() != nil {
				continue
			}
			// the function calling itself while walking a graph (depth-first search with a
			// visited set) visits conditionally by design; validation loops call other checks
			if call.Common().StaticCallee() == fn {
				continue
			}
			var loop *Loop
			for _, l := range loops {
				if l.Body[call.Block()] && (loop == nil || len(l.Body) < len(loop.Body)) {
					loop = l
				}
			}
			if loop == nil {
				continue
			}
			// the error is returned from inside the loop
			prop := false
			for _, b := range view.Blocks() {
				if loop.Body[b] || true {
					if view.holdsAt(b, call, factNonNil) {
						ins := view.Instrs(b)
						if _, ok := ins[len(ins)-1].(*ssa.Return); ok {
							prop = true
						}
					}
				}
			}
			if !prop {
				continue
			}
			// takes the loop's element: an argument derives from a value defined in the loop
			// by indexing / ranging (Next, IndexAddr, Lookup)
			elem := false
			var fromElem func(v ssa.Value, d int) bool
			fromElem = func(v ssa.Value, d int) bool {
				if d > 6 {
					return false
				}
				switch x := v.(type) {
				case *ssa.Extract:
					if _, ok := x.Tuple.(*ssa.Next); ok {
						return loop.Body[x.Block()]
					}
					return fromElem(x.Tuple, d+1)
				case *ssa.UnOp:
					return fromElem(x.X, d+1)
				case *ssa.IndexAddr:
					return loop.Body[x.Block()]
				case *ssa.Index:
					return loop.Body[x.Block()]
				case *ssa.Lookup:
					return loop.Body[x.Block()]
				case *ssa.FieldAddr:
					return fromElem(x.X, d+1)
				case *ssa.Field:
					return fromElem(x.X, d+1)
				case *ssa.MakeInterface:
					return fromElem(x.X, d+1)
				case *ssa.ChangeInterface:
					return fromElem(x.X, d+1)
				case *ssa.Call:
					for _, a := range x.Common().Args {
						if fromElem(a, d+1) {
							return true
						}
					}
					if x.Common().IsInvoke() {
						return fromElem(x.Common().Value, d+1)
					}
				case *ssa.Alloc:
					for _, st := range storesTo(x) {
						if loop.Body[st.Block()] && fromElem(st.Val, d+1) {
							return true
						}
					}
				}
				return false
			}
			for _, a := range call.Common().Args {
				if fromElem(a, 0) {
					elem = true
				}
			}
			if call.Common().IsInvoke() && fromElem(call.Common().Value, 0) {
				elem = true
			}
			if !elem {
				continue
			}
			callee := "dynamic"
			if sc := call.Common().StaticCallee(); sc != nil {
				callee = sc.Name()
			} else if call.Common().IsInvoke() {
				callee = call.Common().Method.Name()
			}
			ord++
			construct := fmt.Sprintf("every-element:%s#%d", callee, ord)
			w := skipsIteration(p, view, call)
			if w == "" {
				w = leavesLoopEarly(p, view, call)
			}
			if w == "" {
				n++
				r.add(fnName(fn), construct, Holds, p.instrPos(call), "every iteration runs the check")
			} else {
				conditional = append(conditional, fmt.Sprintf("%s %s (%s; skip ends at %s)", fnName(fn), construct, p.instrPos(call), w))
				r.add(fnName(fn), construct, Violated, p.instrPos(call), "an iteration can end at "+w+" without this check")
			}
		}
	}
	sort.Strings(conditional)
	for _, c := range conditional {
		r.note("conditional: %s", c)
	}
	r.count("unconditional element checks", n)
}

// leavesLoopEarly: the innermost loop containing call can be left from inside its body
// (break, return of a non-error value) - i.e. other than by exhausting the collection or
// through an error exit. Returns a position, "" if not.
func leavesLoopEarly(p *Program, view *View, call ssa.Instruction) string {
	var loop *Loop
	for _, l := range view.Loops() {
		if l.Body[call.Block()] && (loop == nil || len(l.Body) < len(loop.Body)) {
			loop = l
		}
	}
	if loop == nil {
		return ""
	}
	for b := range loop.Body {
		if b == loop.Header {
			continue
		}
		for _, su := range view.Succs(b) {
			if loop.Body[su] {
				continue
			}
			// leaving the loop from its body: fine only if it goes straight to an error exit
			ins := view.Instrs(su)
			if len(ins) > 0 {
				if ret, ok := ins[len(ins)-1].(*ssa.Return); ok && len(ret.Results) > 0 {
					last := ret.Results[len(ret.Results)-1]
					if isErrorValue(last, view, su, map[ssa.Value]bool{}) {
						continue
					}
					if c, ok := last.(*ssa.Const); ok && c.Value != nil && c.Value.String() == "false" {
						continue // a boolean check answering "no"
					}
				}
			}
			bi := view.Instrs(b)
			pos := p.instrPos(bi[len(bi)-1])
			if pos == "" || pos == "-" {
				pos = "block " + b.Comment
			}
			return "the loop is left at " + pos
		}
		// a return inside the body that is not an error
		ins := view.Instrs(b)
		if len(ins) > 0 {
			if ret, ok := ins[len(ins)-1].(*ssa.Return); ok && len(ret.Results) > 0 {
				last := ret.Results[len(ret.Results)-1]
				if !isErrorValue(last, view, b, map[ssa.Value]bool{}) {
					if c, ok := last.(*ssa.Const); !(ok && c.Value != nil && c.Value.String() == "false") {
						return "success is returned from inside the loop at " + p.instrPos(ret)
					}
				}
			}
		}
	}
	return ""
}
