package main

import (
	"fmt"
	"go/constant"
	"go/types"
	"sort"
	"strings"

	"golang.org/x/tools/go/ssa"
)

// R-NAME-TOKEN (C15): what a name prints first never fuses with what a form printed just
// before it.

func init() {
	register(&Rule{Name: "R-NAME-TOKEN", Min: 12,
		Doc: "the first character a name can print (first write of Name.String on every path) appended to the last character of any literal a form printer writes immediately before a name never spells one of the scanner's longer operators nor extends a word: `<` followed by a name that prints `-x` is read back as the arrow `<-`",
		Run: runNameToken})
}

// firstWrites collects, for a printer, what can be the first text written into its buffer:
// constants (their first rune), "ident" for a string field of the receiver printed
// verbatim, "" when a path returns without writing, "?" for anything else.
func firstWrites(p *Program, fn *ssa.Function) map[string]string {
	out := map[string]string{} // class -> position
	view := p.View(fn)
	seen := map[*ssa.BasicBlock]bool{}
	var walk func(b *ssa.BasicBlock)
	walk = func(b *ssa.BasicBlock) {
		if seen[b] {
			return
		}
		seen[b] = true
		ins := view.Instrs(b)
		for _, in := range ins {
			c, ok := in.(*ssa.Call)
			if !ok {
				if ret, isRet := in.(*ssa.Return); isRet {
					// nothing written so far: what is returned decides
					cls := "?"
					if len(ret.Results) == 1 {
						switch x := ret.Results[0].(type) {
						case *ssa.Const:
							if x.Value != nil && x.Value.Kind() == constant.String {
								cls = ""
								if t := []rune(constant.StringVal(x.Value)); len(t) > 0 {
									cls = string(t[0])
								}
							}
						case *ssa.Call:
							if sc := x.Common().StaticCallee(); sc != nil && sc.Name() == "String" && len(x.Common().Args) == 1 && isBufferType(x.Common().Args[0].Type()) {
								cls = ""
							}
						case *ssa.UnOp:
							if fa, isF := x.X.(*ssa.FieldAddr); isF && len(fn.Params) > 0 && fa.X == ssa.Value(fn.Params[0]) {
								cls = "ident"
							}
						}
					}
					out[cls] = p.instrPos(ret)
				}
				continue
			}
			com := c.Common()
			sc := com.StaticCallee()
			if sc == nil || len(com.Args) < 1 || !isBufferType(com.Args[0].Type()) {
				continue
			}
			switch sc.Name() {
			case "WriteString", "WriteRune", "WriteByte":
			case "String", "Len", "Reset":
				continue
			default:
				out["?"] = p.instrPos(c)
				return
			}
			arg := com.Args[1]
			if k, isC := arg.(*ssa.Const); isC && k.Value != nil {
				txt := ""
				if k.Value.Kind() == constant.String {
					txt = constant.StringVal(k.Value)
				} else if iv, ok := constant.Int64Val(k.Value); ok {
					txt = string(rune(iv))
				}
				if txt == "" {
					continue // writes nothing
				}
				out[string([]rune(txt)[0])] = p.instrPos(c)
				return
			}
			if ld, isLoad := arg.(*ssa.UnOp); isLoad {
				if fa, isF := ld.X.(*ssa.FieldAddr); isF && len(fn.Params) > 0 && fa.X == ssa.Value(fn.Params[0]) {
					if bt, ok := ld.Type().Underlying().(*types.Basic); ok && bt.Kind() == types.String {
						// an identifier as the scanner delivered it; empty only where the
						// printer has tested it
						out["ident"] = p.instrPos(c)
						return
					}
				}
			}
			out["?"] = p.instrPos(c)
			return
		}
		if len(ins) > 0 {
			if iff, ok := ins[len(ins)-1].(*ssa.If); ok {
				if k, isC := iff.Cond.(*ssa.Const); isC && k.Value != nil && k.Value.Kind() == constant.Bool {
					if constant.BoolVal(k.Value) {
						walk(b.Succs[0])
					} else {
						walk(b.Succs[1])
					}
					return
				}
			}
		}
		for _, s := range view.Succs(b) {
			walk(s)
		}
	}
	if len(fn.Blocks) > 0 {
		walk(fn.Blocks[0])
	}
	return out
}

func runNameToken(p *Program, r *RuleResult) {
	st, err := extractScanTable(p)
	if err != nil {
		r.add("parser scanner", "static-token-table", Undecided, "", err.Error())
		return
	}
	nameT := p.Named(processPkg, "Name")
	nameStr := p.MethodOpt(nameT, "String")
	if nameStr == nil {
		r.add("process.Name", "printer", Undecided, "", "Name has no String method")
		return
	}
	first := firstWrites(p, nameStr)
	var classes []string
	for k := range first {
		classes = append(classes, k)
	}
	sort.Strings(classes)
	r.note("a name can start with: %q", classes)
	if pos, bad := first["?"]; bad {
		r.add(fnName(nameStr), "first-text-known", Undecided, pos, "the first text the name printer writes could not be determined")
	} else if pos, bad := first[""]; bad {
		r.add(fnName(nameStr), "first-text-known", Violated, pos, "on some path a name prints as the empty text")
	} else {
		r.add(fnName(nameStr), "first-text-known", Holds, p.pos(nameStr.Pos()), fmt.Sprintf("first characters: %q", classes))
	}
	// two-character operators of the scanner
	var ops2 []string
	for op := range st.Ops {
		if len([]rune(op)) == 2 {
			ops2 = append(ops2, op)
		}
	}
	sort.Strings(ops2)
	r.note("two-character operators: %q", ops2)
	fuses := func(x rune, class string) string {
		cands := []rune{}
		if class == "ident" {
			for c := rune('0'); c <= 'z'; c++ {
				if isWordRune(c) {
					cands = append(cands, c)
				}
			}
		} else if class != "" && class != "?" {
			cands = []rune(class)[:1]
		}
		for _, c := range cands {
			if isWordRune(x) && isWordRune(c) {
				return fmt.Sprintf("%c directly followed by %c reads as one word", x, c)
			}
			for _, op := range ops2 {
				if op == string([]rune{x, c}) {
					return fmt.Sprintf("%c directly followed by %c reads as the operator %s", x, c, op)
				}
			}
		}
		return ""
	}
	isNameSlot := func(a Atom) bool {
		if a.Kind != AtomCall || a.Val == nil {
			return false
		}
		if isNamed(a.Val.Type(), processPkg, "Name") && a.Text == "String" {
			return true
		}
		// a list helper over names: its first element follows directly
		if a.Call != nil {
			if sc := a.Call.Common().StaticCallee(); sc != nil && len(sc.Params) == 1 {
				if sl, ok := sc.Params[0].Type().Underlying().(*types.Slice); ok && isNamed(sl.Elem(), processPkg, "Name") {
					return true
				}
			}
		}
		return false
	}
	sh := &shaper{p: p}
	judged := 0
	for _, T := range p.Implementers(p.Named(processPkg, "Form")) {
		fn := p.MethodOpt(T, "String")
		if fn == nil {
			continue
		}
		ret := soleReturn(fn)
		if ret == nil {
			continue // reported by R-PRINT-GRAMMAR
		}
		atoms, e := sh.Shape(ret.Results[0])
		if e != nil {
			continue // reported by R-PRINT-GRAMMAR
		}
		atoms = mergeConsts(atoms)
		var scan func(as []Atom, before string) (bad string, n int)
		scan = func(as []Atom, before string) (string, int) {
			bad, n := "", 0
			prev := before
			for _, a := range as {
				switch a.Kind {
				case AtomConst:
					if a.Text != "" {
						prev = a.Text
					}
					continue
				case AtomList:
					sepTxt := prev
					for _, s := range a.Sep {
						if s.Kind == AtomConst && s.Text != "" {
							sepTxt = s.Text
						}
					}
					for _, start := range []string{prev, sepTxt} {
						b, k := scan(a.Elem, start)
						n += k
						if bad == "" {
							bad = b
						}
					}
					prev = ""
					continue
				}
				if isNameSlot(a) && prev != "" {
					n++
					x := []rune(prev)[len([]rune(prev))-1]
					for _, cl := range classes {
						if w := fuses(x, cl); w != "" && bad == "" {
							bad = fmt.Sprintf("after the literal %q the name %s is printed with nothing in between: %s", prev, strings.TrimPrefix(a.Arg, "load:"), w)
						}
					}
				}
				prev = ""
			}
			return bad, n
		}
		bad, n := scan(atoms, "")
		if n == 0 {
			continue
		}
		judged++
		if bad != "" {
			r.add(fnName(fn), "name-after-literal", Violated, p.pos(fn.Pos()), bad+": the printed term does not parse back to itself")
		} else {
			r.add(fnName(fn), "name-after-literal", Holds, p.pos(fn.Pos()), fmt.Sprintf("%d name(s) printed directly after a literal, none fuses", n))
		}
	}
	r.count("form printers with a name after a literal", judged)
}
