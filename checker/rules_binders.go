package main

import (
	"fmt"
	"go/constant"
	"go/types"
	"sort"
	"strings"

	"golang.org/x/tools/go/ssa"
)

// R-BINDERS (C14, C04, C03): Substitute, FreeNames and the typing rule of every form agree
// on its binders; every name field and every child is reached by both recursions.

func init() {
	register(&Rule{Name: "R-BINDERS", Min: 40,
		Doc: "per form: the name fields whose equality with the substituted name stops substitution into a child are exactly the fields removed as bound names from that child's free names, and include every field the typing rule binds in the context; every other name field is substituted unconditionally and reported free; every child form is reached by Substitute and by FreeNames",
		Run: runBinders})
}

func isNameType2(t types.Type) bool { return isNamed(t, processPkg, "Name") && !isPtr(t) }
func isNameSlice(t types.Type) bool {
	sl, ok := t.Underlying().(*types.Slice)
	return ok && isNameType2(sl.Elem())
}
func isFormType(t types.Type) bool { return isNamed(t, processPkg, "Form") && !isPtr(t) }
func isBranchSlice(t types.Type) bool {
	sl, ok := t.Underlying().(*types.Slice)
	return ok && isNamed(sl.Elem(), processPkg, "BranchForm")
}

type formBinders struct {
	T *types.Named
	// per child field: binder fields guarding substitution into it
	substGuards map[string][]string
	substNames  map[string]bool     // name fields substituted
	nameGuards  map[string][]string // per name field: binder comparisons its substitution depends on
	freeBound   map[string][]string // per child: fields removed as bound
	freeNames   map[string]bool     // name fields reported free
	freeChild   map[string]bool
	typeBinds   map[string]bool // fields bound in the context by the typing rule
	typeShadow  map[string]bool // fields used as shadow provider of a child
}

func runBinders(p *Program, r *RuleResult) {
	tcByT := map[*types.Named]*tcMethod{}
	for _, m := range p.typecheckMethods() {
		tcByT[m.T] = m
	}
	for _, T := range p.formImplementers() {
		fb := &formBinders{T: T, substGuards: map[string][]string{}, substNames: map[string]bool{}, nameGuards: map[string][]string{}, freeBound: map[string][]string{}, freeNames: map[string]bool{}, freeChild: map[string]bool{}, typeBinds: map[string]bool{}, typeShadow: map[string]bool{}}
		var nameFields, nameSlices, children []string
		for _, f := range structFields(T) {
			switch {
			case isNameType2(f.Type()):
				nameFields = append(nameFields, f.Name())
			case isNameSlice(f.Type()):
				nameSlices = append(nameSlices, f.Name())
			case isFormType(f.Type()), isBranchSlice(f.Type()):
				children = append(children, f.Name())
			}
		}
		tname := T.Obj().Name()
		// ---- Substitute ----
		sub := p.Method(T, "Substitute")
		sview := p.View(sub)
		recv := sub.Params[0].Name()
		oldP := sub.Params[1]
		fieldOfRecv := func(v ssa.Value) string {
			ap := accessPath(v)
			if strings.HasPrefix(ap, recv+".") {
				return strings.TrimPrefix(ap, recv+".")
			}
			return ""
		}
		for _, c := range p.callsIn(sub) {
			com := c.Common()
			// Name.Substitute(&p.f, old, new)
			if sc := com.StaticCallee(); sc != nil && sc.Name() == "Substitute" && len(com.Args) == 3 && isNameType(com.Args[0].Type()) {
				if f := fieldOfRecv(com.Args[0]); f != "" {
					fb.substNames[strings.TrimSuffix(f, "[]")] = true
					// is the rewriting conditional on the substituted name differing from a binder?
					for ft := range sview.FactsAt(c.Block()) {
						ec, ok := ft.v.(*ssa.Call)
						if !ok || (ft.k != factFalse && ft.k != factTrue) {
							continue
						}
						if sc2 := ec.Common().StaticCallee(); sc2 != nil && sc2.Name() == "Equal" && len(ec.Common().Args) == 2 && origin(ec.Common().Args[1]) == ssa.Value(oldP) {
							if g := fieldOfRecv(ec.Common().Args[0]); g != "" {
								fb.nameGuards[strings.TrimSuffix(f, "[]")] = append(fb.nameGuards[strings.TrimSuffix(f, "[]")], g)
							}
						}
					}
				}
				continue
			}
			// child.Substitute(old, new): invoke on a Form, or a static call on *BranchForm
			isChildCall := (com.IsInvoke() && com.Method.Name() == "Substitute") ||
				(com.StaticCallee() != nil && com.StaticCallee().Name() == "Substitute" && len(com.Args) == 3 && !isNameType(com.Args[0].Type()))
			if !isChildCall {
				continue
			}
			var target ssa.Value
			if com.IsInvoke() {
				target = com.Value
			} else {
				target = com.Args[0]
			}
			child := strings.TrimSuffix(fieldOfRecv(target), "[]")
			if child == "" {
				continue
			}
			var guards []string
			for f := range sview.FactsAt(c.Block()) {
				ec, ok := f.v.(*ssa.Call)
				if !ok || f.k != factFalse {
					continue
				}
				if sc := ec.Common().StaticCallee(); sc != nil && sc.Name() == "Equal" && len(ec.Common().Args) == 2 && origin(ec.Common().Args[1]) == ssa.Value(oldP) {
					if g := fieldOfRecv(ec.Common().Args[0]); g != "" {
						guards = append(guards, g)
					}
				}
			}
			sort.Strings(guards)
			fb.substGuards[child] = guards
		}
		// ---- FreeNames ----
		fnm := p.Method(T, "FreeNames")
		frecv := fnm.Params[0].Name()
		fField := func(v ssa.Value) string {
			ap := accessPath(v)
			if strings.HasPrefix(ap, frecv+".") {
				return strings.TrimPrefix(ap, frecv+".")
			}
			return ""
		}
		// value -> child it derives from (FreeNames() of a child, possibly through removeBoundName)
		var childOf func(v ssa.Value, depth int) string
		childOf = func(v ssa.Value, depth int) string {
			if depth > 6 {
				return ""
			}
			switch x := v.(type) {
			case *ssa.Call:
				com := x.Common()
				if com.IsInvoke() && com.Method.Name() == "FreeNames" {
					return strings.TrimSuffix(fField(com.Value), "[]")
				}
				if sc := com.StaticCallee(); sc != nil {
					if sc.Name() == "FreeNames" && len(com.Args) == 1 {
						return strings.TrimSuffix(fField(com.Args[0]), "[]")
					}
					if p.isRemoveBound(sc) {
						return childOf(com.Args[0], depth+1)
					}
				}
			case *ssa.Phi:
				for _, e := range x.Edges {
					if c := childOf(e, depth+1); c != "" {
						return c
					}
				}
			}
			return ""
		}
		for _, c := range p.callsIn(fnm) {
			com := c.Common()
			sc := com.StaticCallee()
			if com.IsInvoke() && com.Method.Name() == "FreeNames" {
				if ch := strings.TrimSuffix(fField(com.Value), "[]"); ch != "" {
					fb.freeChild[ch] = true
				}
				continue
			}
			if sc == nil {
				continue
			}
			switch {
			case sc.Name() == "FreeNames" && len(com.Args) == 1:
				if ch := strings.TrimSuffix(fField(com.Args[0]), "[]"); ch != "" {
					fb.freeChild[ch] = true
				}
			case p.isRemoveBound(sc):
				ch := childOf(com.Args[0], 0)
				b := fField(com.Args[1])
				if ch != "" && b != "" {
					fb.freeBound[ch] = append(fb.freeBound[ch], b)
				}
			case len(com.Args) >= 1 && isNameType2(com.Args[0].Type()) && sc.Signature.Results().Len() == 1 && isNameSlice(sc.Signature.Results().At(0).Type()):
				// appendIfNotSelf(p.f, fn)
				if f := fField(com.Args[0]); f != "" {
					fb.freeNames[strings.TrimSuffix(f, "[]")] = true
				}
			}
		}
		for ch := range fb.freeBound {
			sort.Strings(fb.freeBound[ch])
		}
		// ---- typing rule ----
		if m := tcByT[T]; m != nil {
			trecv := m.Recv.Name()
			for _, b := range m.Fn.Blocks {
				for _, in := range b.Instrs {
					if mu, ok := in.(*ssa.MapUpdate); ok && isCtxType(mu.Map.Type()) {
						ap := accessPath(mu.Key)
						if strings.HasPrefix(ap, trecv+".") && strings.HasSuffix(ap, ".Ident") {
							fb.typeBinds[strings.TrimSuffix(strings.TrimPrefix(ap, trecv+"."), ".Ident")] = true
						}
					}
				}
			}
			// … or through a helper that inserts the name it is handed
			for _, c := range p.callsIn(m.Fn) {
				if _, ni, _, ok := p.ctxInsertHelper(c.Common().StaticCallee()); ok && ni < len(c.Common().Args) {
					ap := accessPath(c.Common().Args[ni])
					if strings.HasPrefix(ap, trecv+".") {
						fb.typeBinds[strings.TrimPrefix(ap, trecv+".")] = true
					}
				}
			}
			for _, k := range m.Conts {
				for _, a := range k.Common().Args {
					if isNameType(a.Type()) && isPtr(a.Type()) {
						ap := accessPath(a)
						if strings.HasPrefix(ap, trecv+".") {
							fb.typeShadow[strings.TrimPrefix(ap, trecv+".")] = true
						}
					}
				}
			}
		}
		// ---- obligations ----
		fn := "process." + tname
		for _, ch := range children {
			sg, okS := fb.substGuards[ch]
			if !okS {
				r.add(fn, "child-substituted:"+ch, Violated, p.pos(sub.Pos()), "Substitute never recurses into child "+ch+": received channels are not substituted there")
			} else {
				r.add(fn, "child-substituted:"+ch, Holds, p.pos(sub.Pos()), "under binders ["+strings.Join(sg, ",")+"]")
			}
			if !fb.freeChild[ch] {
				r.add(fn, "child-free-names:"+ch, Violated, p.pos(fnm.Pos()), "FreeNames never recurses into child "+ch)
			} else {
				r.add(fn, "child-free-names:"+ch, Holds, p.pos(fnm.Pos()), "")
			}
			if okS && fb.freeChild[ch] {
				fbnd := fb.freeBound[ch]
				if strings.Join(sg, ",") == strings.Join(fbnd, ",") {
					r.add(fn, "binders-agree:"+ch, Holds, p.pos(sub.Pos()), "Substitute and FreeNames both bind ["+strings.Join(sg, ",")+"] in "+ch)
				} else {
					r.add(fn, "binders-agree:"+ch, Violated, p.pos(sub.Pos()),
						fmt.Sprintf("Substitute stops at binders [%s] of child %s but FreeNames removes [%s]: a name can be captured or leak", strings.Join(sg, ","), ch, strings.Join(fbnd, ",")))
				}
			}
		}
		binders := map[string]bool{}
		for _, gs := range fb.substGuards {
			for _, g := range gs {
				binders[g] = true
			}
		}
		// typing binds ⊆ binders (branch payloads are bound by the enclosing case rule)
		for b := range fb.typeBinds {
			if strings.Contains(b, "[]") {
				continue // judged on the element form (BranchForm) below
			}
			if binders[b] {
				r.add(fn, "typing-binder-protected:"+b, Holds, "", "")
			} else {
				r.add(fn, "typing-binder-protected:"+b, Violated, p.pos(sub.Pos()), "the typing rule binds "+b+" in the continuation's context, but Substitute does not treat it as a binder: a received channel with the same name is substituted under it")
			}
		}
		for b := range binders {
			if fb.typeBinds[b] || fb.typeShadow[b] || tname == "BranchForm" {
				continue
			}
			r.add(fn, "binder-is-bound-by-typing:"+b, Violated, p.pos(sub.Pos()), "Substitute treats "+b+" as a binder but the typing rule neither binds it in a context nor uses it as the shadow provider")
		}
		// free-occurrence fields
		for _, f := range append(append([]string{}, nameFields...), nameSlices...) {
			if binders[f] {
				if fb.substNames[f] {
					r.add(fn, "binder-not-substituted:"+f, Violated, p.pos(sub.Pos()), "the binder field "+f+" is itself rewritten by Substitute")
				} else {
					r.add(fn, "binder-not-substituted:"+f, Holds, "", "")
				}
				continue
			}
			switch {
			case !fb.substNames[f]:
				r.add(fn, "name-substituted:"+f, Violated, p.pos(sub.Pos()), "name field "+f+" is not a binder but Substitute does not rewrite it: it keeps referring to the formal name after a channel was received for it")
			case len(fb.nameGuards[f]) > 0:
				sort.Strings(fb.nameGuards[f])
				r.add(fn, "name-substituted:"+f, Violated, p.pos(sub.Pos()), fmt.Sprintf("name field %s is rewritten only depending on whether the substituted name equals %v, but %s is not in the scope of those binders (it names the channel the form acts on): when the form re-binds the identifier of that channel, the channel itself is never replaced by the received / actual channel", f, fb.nameGuards[f], f))
			case !fb.freeNames[f]:
				r.add(fn, "name-substituted:"+f, Violated, p.pos(fnm.Pos()), "name field "+f+" is not reported by FreeNames: duplication, dropping and context splitting miss this channel")
			default:
				r.add(fn, "name-substituted:"+f, Holds, "", "")
			}
		}
	}
	// branch payloads: bound by the case typing rule, protected by BranchForm.Substitute
	bf := p.Named(processPkg, "BranchForm")
	bsub := p.Method(bf, "Substitute")
	protected := false
	for _, c := range p.callsIn(bsub) {
		if sc := c.Common().StaticCallee(); sc != nil && sc.Name() == "Equal" && strings.HasSuffix(accessPath(c.Common().Args[0]), ".payload_c") {
			protected = true
		}
	}
	v := Holds
	if !protected {
		v = Violated
	}
	r.add("process.BranchForm", "typing-binder-protected:payload_c", v, p.pos(bsub.Pos()), "bound by the case rule (branches[].payload_c)")
}

// isRemoveBound: fn(names []Name, bound Name) []Name that keeps the names not Equal to bound.
func (p *Program) isRemoveBound(fn *ssa.Function) bool {
	if fn == nil || fn.Blocks == nil || len(fn.Params) != 2 || !isNameSlice(fn.Params[0].Type()) || !isNameType2(fn.Params[1].Type()) {
		return false
	}
	if fn.Signature.Results().Len() != 1 || !isNameSlice(fn.Signature.Results().At(0).Type()) {
		return false
	}
	for _, c := range p.callsIn(fn) {
		if sc := c.Common().StaticCallee(); sc != nil && sc.Name() == "Equal" {
			return true
		}
	}
	return false
}

// ---------------------------------------------------------------------------
// R-SUBST-CONTRA (C14, C02): the predicate that stops substitution at a binder must be
// implied by the predicate that rewrites an occurrence of the bound name.

func init() {
	register(&Rule{Name: "R-SUBST-CONTRA", Min: 8,
		Doc: "contradiction rule on Name.Equal vs Name.Substitute, decided by abstract evaluation (SCCP over abstract structs) for every combination of {name initialised or not} × {substituted name initialised with the same/another channel or not} × {identifiers equal or not}: whenever an occurrence in that state is rewritten, a binder in the same state must compare Equal",
		Run: runSubstContra})
}

func runSubstContra(p *Program, r *RuleResult) {
	nameT := p.Named(processPkg, "Name")
	eq := p.Method(nameT, "Equal")
	sub := p.Method(nameT, "Substitute")
	ptrT := types.NewPointer(nameT)
	mkName := func(ident string, ch AVal) map[string]AVal {
		return map[string]AVal{
			"Ident":   aConst(constantString(ident)),
			"Channel": ch,
		}
	}
	type st struct {
		label          string
		n              map[string]AVal
		old            map[string]AVal
		nSelf, oldSelf bool
	}
	var states []st
	chA, chB := aObj("chanA"), aObj("chanB")
	type selfCombo struct{ n, old bool }
	for _, sc := range []selfCombo{{false, false}, {true, false}, {true, true}, {false, true}} {
		for _, nInit := range []bool{false, true} {
			for _, oldKind := range []string{"uninit", "init-same", "init-other"} {
				if !nInit && oldKind == "init-same" {
					continue
				}
				for _, identEq := range []bool{true, false} {
					nCh := aNil
					if nInit {
						nCh = chA
					}
					var oCh AVal
					switch oldKind {
					case "uninit":
						oCh = aNil
					case "init-same":
						oCh = chA
					default:
						oCh = chB
					}
					oIdent := "x"
					if !identEq {
						oIdent = "y"
					}
					ni := "uninit"
					if nInit {
						ni = "init"
					}
					ie := "equal"
					if !identEq {
						ie = "differ"
					}
					lbl := fmt.Sprintf("n=%s,old=%s,ident=%s", ni, oldKind, ie)
					if sc.n || sc.old {
						lbl += fmt.Sprintf(",n-self=%v,old-self=%v", sc.n, sc.old)
					}
					nm, om := mkName("x", nCh), mkName(oIdent, oCh)
					nm["IsSelf"], om["IsSelf"] = aBool(sc.n), aBool(sc.old)
					states = append(states, st{label: lbl, n: nm, old: om, nSelf: sc.n, oldSelf: sc.old})
				}
			}
		}
	}
	for _, s := range states {
		ev := NewEvaluator(p)
		ev.NoCache = true
		// Equal(name1 *Name, name2 Name) bool
		resE := ev.Eval(eq, []AVal{aStructPtr(ptrT, s.n), aStruct(s.old)})
		equal, okE := resE.Ret.IsBool()
		// Substitute(n *Name, old, new Name): does any store to a field of n execute?
		ev2 := NewEvaluator(p)
		ev2.NoCache = true
		newName := mkName("z", aObj("chanNew"))
		newName["IsSelf"] = aBool(false)
		resS := ev2.Eval(sub, []AVal{aStructPtr(ptrT, s.n), aStruct(s.old), aStruct(newName)})
		rewritten, undecided := false, false
		for b := range resS.ExecBlks {
			for _, in := range b.Instrs {
				if sto, ok := in.(*ssa.Store); ok {
					if fa, ok := sto.Addr.(*ssa.FieldAddr); ok && fa.X == ssa.Value(sub.Params[0]) {
						rewritten = true
					}
				}
			}
		}
		// executable set must be decided: every executed If had a constant condition
		for b := range resS.ExecBlks {
			if iff, ok := b.Instrs[len(b.Instrs)-1].(*ssa.If); ok {
				if _, isB := resS.Vals[iff.Cond].IsBool(); !isB {
					if c, isC := iff.Cond.(*ssa.Const); !isC || c.Value == nil {
						undecided = true
					}
				}
			}
		}
		construct := "state:" + s.label
		switch {
		case !okE || undecided:
			r.add("(*process.Name).Equal / Substitute", construct, Undecided, p.pos(sub.Pos()), "the two predicates do not fold to constants in this abstract state: "+resE.describe())
		case s.nSelf && !s.oldSelf && rewritten && !isInitSame(s.label):
			r.add("(*process.Name).Equal / Substitute", construct, Violated, p.pos(sub.Pos()),
				"a reference to self is rewritten when an ordinary (non-provider) name with the same identifier is substituted: the identifier of a self reference is only its display name (the sender's provider after a receive, the explicit provider of a function), so a later binder that happens to have that identifier turns `self` into a client channel and the process fails with 'close on a client' / sends on the wrong channel")
		case s.nSelf && equal && !rewritten:
			// a self reference is never a binder: the converse clause does not apply
			r.add("(*process.Name).Equal / Substitute", construct, Holds, p.pos(sub.Pos()), fmt.Sprintf("self reference: rewritten=%v equal=%v", rewritten, equal))
		case rewritten && !equal:
			r.add("(*process.Name).Equal / Substitute", construct, Violated, p.pos(sub.Pos()),
				"in this state Substitute rewrites the name although Name.Equal does not equate it with the substituted name: binders (which are protected by Equal) and occurrences disagree, so re-bound names are captured or a callee's placeholder captures a caller's live channel of the same identifier")
		case equal && !rewritten:
			r.add("(*process.Name).Equal / Substitute", construct, Violated, p.pos(sub.Pos()),
				"in this state Name.Equal equates the name with the substituted one although Substitute would not rewrite it: a binder in this state stops the substitution from descending (forms protect their binders with Equal) while the occurrences below it are exactly the ones that still have to be rewritten")
		default:
			r.add("(*process.Name).Equal / Substitute", construct, Holds, p.pos(sub.Pos()), fmt.Sprintf("rewritten=%v equal=%v", rewritten, equal))
		}
	}
}

func constantString(s string) constant.Value { return constant.MakeString(s) }

// R-BINDER-INSTANTIATED (C04, C01, C14): when a form steps to its continuation, every name
// the form binds in that continuation has been replaced by a run-time channel.
func init() {
	register(&Rule{Name: "R-BINDER-INSTANTIATED", Min: 20,
		Doc: "for every form whose typing rule inserts binders into the context: in each of its transition functions (both interpreters, including the rule closures), every store of a continuation of the form into the process body is preceded on all paths by a Substitute call on that same continuation for each binder field, and the replacement is not the binder itself",
		Run: runBinderInstantiated})
}

func runBinderInstantiated(p *Program, r *RuleResult) {
	n := 0
	for _, m := range p.typecheckMethods() {
		// binder fields: keys inserted into a context by the typing rule
		binders := map[string]bool{}
		for _, b := range m.Fn.Blocks {
			for _, in := range b.Instrs {
				if mu, ok := in.(*ssa.MapUpdate); ok && isCtxType(mu.Map.Type()) {
					k := accessPath(mu.Key)
					if strings.HasSuffix(k, ".Ident") {
						binders[lastSeg(strings.TrimSuffix(k, ".Ident"))] = true
					}
				}
			}
		}
		// … or handed to a helper that inserts them
		for _, c := range p.callsIn(m.Fn) {
			if _, ni, _, ok := p.ctxInsertHelper(c.Common().StaticCallee()); ok && ni < len(c.Common().Args) {
				if k := accessPath(c.Common().Args[ni]); k != "" {
					binders[lastSeg(k)] = true
				}
			}
		}
		if len(binders) == 0 {
			continue
		}
		var bl []string
		for b := range binders {
			bl = append(bl, b)
		}
		sort.Strings(bl)
		for _, fam := range []string{"Transition", "TransitionNP"} {
			root := p.MethodOpt(m.T, fam)
			if root == nil {
				continue
			}
			for _, fn := range append([]*ssa.Function{root}, allAnon(root)...) {
				view := p.View(fn)
				ord := 0
				for _, b := range view.Blocks() {
					for _, in := range view.Instrs(b) {
						st, ok := in.(*ssa.Store)
						if !ok {
							continue
						}
						if _, fname, ok := fieldNameOf(st.Addr); !ok || fname != "Body" || !isFormType(st.Val.Type()) {
							continue
						}
						// the continuation(s) committed here: a load of a Form-typed field, possibly
						// selected by a phi (the loop over the branches of a case)
						type cand struct {
							src  ssa.Value
							pred *ssa.BasicBlock // non-nil: the value arrives through a phi edge from this block
						}
						var cands []cand
						var collect func(v ssa.Value, from *ssa.BasicBlock, d int)
						collect = func(v ssa.Value, from *ssa.BasicBlock, d int) {
							if d > 4 {
								return
							}
							if ph, ok := v.(*ssa.Phi); ok {
								for i, e := range ph.Edges {
									if isNilConst(e) {
										continue
									}
									collect(e, ph.Block().Preds[i], d+1)
								}
								return
							}
							o := origin(v)
							if ph, ok := o.(*ssa.Phi); ok && o != v {
								collect(ph, from, d+1)
								return
							}
							if ld, ok := o.(*ssa.UnOp); ok {
								if _, ok := ld.X.(*ssa.FieldAddr); ok {
									cands = append(cands, cand{o, from})
								}
							}
						}
						collect(st.Val, nil, 0)
						if len(cands) == 0 {
							continue
						}
						ord++
						for ci, cd := range cands {
							fa := cd.src.(*ssa.UnOp).X.(*ssa.FieldAddr)
							_, contField, _ := fieldNameOf(fa)
							for _, bf := range bl {
								n++
								construct := fmt.Sprintf("%s:commit#%d.%d(%s):binder-%s", fam, ord, ci+1, contField, bf)
								var selfSub ssa.Instruction
								src := cd.src
								pred := func(x ssa.Instruction) bool {
									c, ok := x.(ssa.CallInstruction)
									if !ok {
										return false
									}
									com := c.Common()
									if !(com.IsInvoke() && com.Method.Name() == "Substitute") || len(com.Args) != 2 {
										return false
									}
									if origin(com.Value) != src {
										return false
									}
									oldP := accessPath(com.Args[0])
									if lastSeg(oldP) != bf {
										return false
									}
									if np := accessPath(com.Args[1]); np != "" && np == oldP {
										selfSub = x
										return false
									}
									return true
								}
								passed := false
								if cd.pred == nil {
									passed = view.passedBefore(st, pred)
								} else {
									passed = view.mustPassBefore(pred)[cd.pred]
									for _, x := range view.Instrs(cd.pred) {
										if pred(x) {
											passed = true
										}
									}
								}
								if passed {
									r.add(fnName(fn), construct, Holds, p.instrPos(st), "")
								} else if selfSub != nil {
									r.add(fnName(fn), construct, Violated, p.instrPos(selfSub), fmt.Sprintf("binder %s is replaced by itself: the continuation keeps the static name instead of a run-time channel", bf))
								} else {
									r.add(fnName(fn), construct, Violated, p.instrPos(st),
										fmt.Sprintf("the continuation %s becomes the process body on a path on which binder %s has not been substituted in it: the continuation refers to a name that is no channel (it blocks or fails when it is used)", contField, bf))
								}
							}
						}
					}
				}
			}
		}
	}
	r.count("binder instantiations required", n)
}

func isInitSame(label string) bool { return strings.Contains(label, "old=init-same") }
