package main

import (
	"fmt"
	"go/types"
	"sort"
	"strings"

	"golang.org/x/tools/go/ssa"
)

// R-UNFOLDED-POLARITY (C09, C01): typestate – the receiver of every call to
// types.SessionType.Polarity is an unfolded type (never a type name).

func init() {
	register(&Rule{Name: "R-UNFOLDED-POLARITY", Min: 30,
		Doc: "typestate: every receiver of SessionType.Polarity is unfolded – directly at the call, or (for Name methods that read n.Type) at every name argument reaching them: the last store to that name's .Type on every path stores an unfolded value",
		Run: runUnfoldedPolarity})
}

// lastStoreAll: forward must-analysis. Reports whether on every path from the function
// entry to `at` the last store selected by match() satisfies good(). With no store on
// some path the answer is false (entry state unknown).
func (v *View) lastStoreAll(at ssa.Instruction, match func(*ssa.Store) bool, good func(*ssa.Store) bool) (bool, string) {
	blocks := v.Blocks()
	type st int
	const (
		unknown st = iota // not yet computed
		bad
		ok
	)
	in := map[*ssa.BasicBlock]st{}
	entry := v.Fn.Blocks[0]
	in[entry] = bad
	transfer := func(b *ssa.BasicBlock, s st, upto ssa.Instruction) st {
		for _, i := range v.Instrs(b) {
			if i == upto {
				return s
			}
			if sto, isSt := i.(*ssa.Store); isSt && match(sto) {
				if good(sto) {
					s = ok
				} else {
					s = bad
				}
			}
			// a straight-line first-party helper that stores into its arguments
			if c, isCall := i.(ssa.CallInstruction); isCall && v.virtMatch != nil {
				for _, vs := range v.P.helperStores(c) {
					if v.virtMatch(vs.key) {
						if v.virtGood(vs.val) {
							s = ok
						} else {
							s = bad
						}
					}
				}
			}
		}
		return s
	}
	for changed := true; changed; {
		changed = false
		for _, b := range blocks {
			s, have := in[b]
			if !have {
				continue
			}
			out := transfer(b, s, nil)
			for _, su := range v.Succs(b) {
				old, have := in[su]
				nw := out
				if have && (old == bad || out == bad) {
					nw = bad
				}
				if !have || old != nw {
					in[su] = nw
					changed = true
				}
			}
		}
	}
	b := at.Block()
	s, have := in[b]
	if !have {
		return true, "unreachable"
	}
	if transfer(b, s, at) == ok {
		return true, ""
	}
	return false, "on some path no unfolded value was stored before this point"
}

type unfoldAnalysis struct {
	p        *Program
	unfoldFn map[*ssa.Function]bool
	// implementers whose Polarity panics (type names)
	badImpl   map[string]bool
	stIface   *types.Interface
	visit     map[ssa.Value]bool
	fieldMemo map[string]bool
}

func newUnfoldAnalysis(p *Program) *unfoldAnalysis {
	a := &unfoldAnalysis{p: p, unfoldFn: map[*ssa.Function]bool{}, badImpl: map[string]bool{}, visit: map[ssa.Value]bool{}, fieldMemo: map[string]bool{}}
	a.unfoldFn[p.Func(typesPkg, "Unfold")] = true
	if f := p.FuncOpt(typesPkg, "UnfoldIfNeeded"); f != nil {
		a.unfoldFn[f] = true
	}
	st := p.Named(typesPkg, "SessionType")
	a.stIface = st.Underlying().(*types.Interface)
	p.computeNoReturn()
	for _, T := range p.Implementers(st) {
		if m := p.MethodOpt(T, "Polarity"); m != nil && p.noRet[m] {
			a.badImpl[T.Obj().Name()] = true
		}
	}
	return a
}

func (a *unfoldAnalysis) goodConcrete(t types.Type) bool {
	n := namedOf(t)
	if n == nil || n.Obj().Pkg() == nil || n.Obj().Pkg().Path() != typesPkg {
		return false
	}
	if a.badImpl[n.Obj().Name()] {
		return false
	}
	return types.Implements(t, a.stIface)
}

// unfolded decides whether value v (at its definition) is an unfolded session type.
// allowNil: a nil type is acceptable (the sink tests for nil before use).
func (a *unfoldAnalysis) unfolded(v ssa.Value, allowNil bool) bool {
	if a.visit[v] {
		return true // optimistic inside a phi cycle
	}
	a.visit[v] = true
	defer delete(a.visit, v)
	switch x := v.(type) {
	case *ssa.Const:
		return allowNil && x.Value == nil
	case *ssa.Call:
		if sc := x.Common().StaticCallee(); sc != nil && a.unfoldFn[sc] {
			return true
		}
		return false
	case *ssa.MakeInterface:
		return a.goodConcrete(x.X.Type())
	case *ssa.ChangeInterface:
		return a.unfolded(x.X, allowNil)
	case *ssa.ChangeType:
		return a.unfolded(x.X, allowNil)
	case *ssa.TypeAssert:
		if x.CommaOk {
			return false
		}
		if typeIsInterface(x.AssertedType) {
			return a.unfolded(x.X, allowNil)
		}
		return a.goodConcrete(x.AssertedType)
	case *ssa.Extract:
		if ta, ok := x.Tuple.(*ssa.TypeAssert); ok && x.Index == 0 && !typeIsInterface(ta.AssertedType) {
			return a.goodConcrete(ta.AssertedType)
		}
		return false
	case *ssa.Phi:
		for _, e := range x.Edges {
			if !a.unfolded(e, allowNil) {
				return false
			}
		}
		return true
	case *ssa.UnOp:
		if x.Op.String() == "*" {
			if o := origin(x); o != ssa.Value(x) {
				return a.unfolded(o, allowNil)
			}
			if ok, _ := a.loadUnfolded(x, allowNil); ok {
				return true
			}
			if fa, isFA := x.X.(*ssa.FieldAddr); isFA {
				return a.fieldAlwaysUnfolded(fa.X.Type(), fa.Field)
			}
			return false
		}
	case *ssa.Field:
		return a.fieldAlwaysUnfolded(x.X.Type(), x.Field)
	}
	return false
}

// fieldAlwaysUnfolded: every store to field #idx of the struct type (anywhere in
// first-party code, composite literals included) stores an unfolded value or nil.
func (a *unfoldAnalysis) fieldAlwaysUnfolded(t types.Type, idx int) bool {
	if pt, ok := t.Underlying().(*types.Pointer); ok {
		t = pt.Elem()
	}
	st, ok := t.Underlying().(*types.Struct)
	if !ok {
		return false
	}
	key := fmt.Sprintf("%s#%d", t.String(), idx)
	if v, done := a.fieldMemo[key]; done {
		return v
	}
	a.fieldMemo[key] = true // optimistic for cycles
	res := true
	n := 0
	for _, fn := range a.p.SrcFuncs {
		for _, b := range fn.Blocks {
			for _, in := range b.Instrs {
				sto, isSt := in.(*ssa.Store)
				if !isSt {
					continue
				}
				fa, isFA := sto.Addr.(*ssa.FieldAddr)
				if !isFA || fa.Field != idx {
					continue
				}
				pt, _ := fa.X.Type().Underlying().(*types.Pointer)
				if pt == nil || !types.Identical(pt.Elem().Underlying(), st) || !types.Identical(pt.Elem(), t) {
					continue
				}
				n++
				if !a.unfolded(sto.Val, true) {
					res = false
				}
			}
		}
	}
	// whole-struct stores (copies) are not tracked: require that the struct is only
	// built field-wise, i.e. at least one field store exists
	if n == 0 {
		res = false
	}
	a.fieldMemo[key] = res
	return res
}

// loadUnfolded: the value loaded by ld (a load through a field-path address) was last
// stored, on every path, as an unfolded value.
func (a *unfoldAnalysis) loadUnfolded(ld *ssa.UnOp, allowNil bool) (bool, string) {
	key := accessPath(ld.X)
	if key == "" {
		return false, "address is not a field path"
	}
	return a.pathUnfoldedAt(ld, key, allowNil)
}

// pathUnfoldedAt: at instruction `at`, the location with access path `key` holds an unfolded value.
func (a *unfoldAnalysis) pathUnfoldedAt(at ssa.Instruction, key string, allowNil bool) (bool, string) {
	v := a.p.View(at.Parent())
	v.virtMatch = func(k string) bool { return k == key }
	v.virtGood = func(val ssa.Value) bool { return val != nil && a.unfolded(val, allowNil) }
	defer func() { v.virtMatch, v.virtGood = nil, nil }()
	return v.lastStoreAll(at,
		func(s *ssa.Store) bool { return accessPath(s.Addr) == key },
		func(s *ssa.Store) bool { return a.unfolded(s.Val, allowNil) })
}

// guardedNotLabel: at block b it is known that v is not of a panicking implementer type
// (failed comma-ok assertion to it).
func (a *unfoldAnalysis) guardedNotLabel(view *View, b *ssa.BasicBlock, v ssa.Value) bool {
	for f := range view.FactsAt(b) {
		if f.k != factFalse {
			continue
		}
		ex, ok := f.v.(*ssa.Extract)
		if !ok || ex.Index != 1 {
			continue
		}
		ta, ok := ex.Tuple.(*ssa.TypeAssert)
		if !ok || !ta.CommaOk {
			continue
		}
		n := namedOf(ta.AssertedType)
		if n == nil || !a.badImpl[n.Obj().Name()] {
			continue
		}
		if sameValue(ta.X, v) {
			return true
		}
	}
	return false
}

// sameValue: structural equality for loads of the same field path (go/ssa has no CSE).
func sameValue(x, y ssa.Value) bool {
	if x == y {
		return true
	}
	px, py := accessPath(x), accessPath(y)
	return px != "" && px == py
}

func isPolarityInvoke(c ssa.CallInstruction) bool {
	com := c.Common()
	return com.IsInvoke() && com.Method.Name() == "Polarity" && isNamed(com.Value.Type(), typesPkg, "SessionType")
}

func isNameType(t types.Type) bool {
	if pt, ok := t.(*types.Pointer); ok {
		t = pt.Elem()
	}
	return isNamed(t, processPkg, "Name") && func() bool { _, ok := t.(*types.Named); return ok }()
}

func runUnfoldedPolarity(p *Program, r *RuleResult) {
	a := newUnfoldAnalysis(p)
	// pass 1: every Polarity invoke in first-party code
	type pending struct {
		fn   *ssa.Function
		call ssa.CallInstruction
		key  string // access path of the receiver value, rooted at a parameter
	}
	nameSinks := map[*ssa.Function]bool{} // Name methods requiring recv.Type unfolded
	sliceSinks := map[*ssa.Function]int{} // functions requiring params[i][].Type unfolded
	ordinal := map[string]int{}
	next := func(fn *ssa.Function, what string) string {
		k := fnName(fn) + "|" + what
		ordinal[k]++
		return fmt.Sprintf("%s#%d", what, ordinal[k])
	}
	nCalls := 0
	for _, fn := range p.SrcFuncs {
		view := p.View(fn)
		for _, c := range p.callsIn(fn) {
			if !isPolarityInvoke(c) {
				continue
			}
			nCalls++
			recv := c.Common().Value
			construct := next(fn, "Polarity-call")
			if a.unfolded(recv, false) || a.guardedNotLabel(view, c.Block(), recv) {
				r.add(fnName(fn), construct, Holds, p.instrPos(c), "receiver is unfolded at the call")
				continue
			}
			key := accessPath(recv)
			root := strings.TrimSuffix(strings.SplitN(key, ".", 2)[0], "[]")
			if view.Infeasible(c.Block()) {
				r.add(fnName(fn), construct, Holds, p.instrPos(c), "the call is on an infeasible path (contradictory branch facts)")
				continue
			}
			switch {
			case key != "" && strings.HasSuffix(key, ".Type") && fn.Signature.Recv() != nil && isNameType(fn.Signature.Recv().Type()) && len(fn.Params) > 0 && root == fn.Params[0].Name() && strings.Count(key, ".") == 1:
				nameSinks[fn] = true
				r.add(fnName(fn), construct, Holds, p.instrPos(c), "receiver is the .Type of the method's own Name: obligation moves to every caller (name-arg obligations)")
			case key != "" && strings.Contains(key, "[]"):
				// element of a slice parameter
				idx := -1
				for i, prm := range fn.Params {
					if prm.Name() == root {
						idx = i
					}
				}
				if idx >= 0 && strings.HasSuffix(key, "[].Type") {
					sliceSinks[fn] = idx
					r.add(fnName(fn), construct, Holds, p.instrPos(c), "receiver is the .Type of an element of parameter "+root+": obligation moves to every caller (name-arg obligations)")
				} else {
					r.add(fnName(fn), construct, Violated, p.instrPos(c), "receiver "+key+" is not known to be unfolded")
				}
			default:
				r.add(fnName(fn), construct, Violated, p.instrPos(c), fmt.Sprintf("receiver (%s) is not known to be unfolded: Polarity panics on a type name", describeVal(recv)))
			}
		}
	}
	r.count("Polarity call sites", nCalls)
	// pass 2: functions passing elements of a []Name parameter to a name sink
	for _, fn := range p.SrcFuncs {
		for _, c := range p.callsIn(fn) {
			sc := c.Common().StaticCallee()
			if sc == nil || !nameSinks[sc] || len(c.Common().Args) == 0 {
				continue
			}
			arg := c.Common().Args[0]
			// the receiver is the address of a local copy of a slice element?
			key := accessPath(arg)
			root := strings.SplitN(key, ".", 2)[0]
			root = strings.TrimSuffix(root, "[]")
			if strings.HasSuffix(key, "[]") {
				for i, prm := range fn.Params {
					if prm.Name() == root {
						sliceSinks[fn] = i
					}
				}
			}
		}
	}
	// pass 2b: a function that hands its own []Name parameter on to a slice sink unchanged
	// (`helper(p, names...)`) is a slice sink itself; the obligation moves to its callers
	forwards := map[ssa.CallInstruction]bool{}
	for changed := true; changed; {
		changed = false
		for _, fn := range p.SrcFuncs {
			for _, c := range p.callsIn(fn) {
				sc := c.Common().StaticCallee()
				pi, isSink := sliceSinks[sc]
				if sc == nil || !isSink || pi >= len(c.Common().Args) {
					continue
				}
				for i, prm := range fn.Params {
					if c.Common().Args[pi] == ssa.Value(prm) {
						forwards[c] = true
						if _, have := sliceSinks[fn]; !have {
							sliceSinks[fn] = i
							changed = true
						}
					}
				}
			}
		}
	}
	// pass 3: call sites of sinks
	nSites, nArgs := 0, 0
	var fns []*ssa.Function
	fns = append(fns, p.SrcFuncs...)
	sort.SliceStable(fns, func(i, j int) bool { return fns[i].String() < fns[j].String() })
	for _, fn := range fns {
		for _, c := range p.callsIn(fn) {
			sc := c.Common().StaticCallee()
			if sc == nil {
				continue
			}
			if nameSinks[sc] {
				if _, isSlice := sliceSinks[fn]; isSlice {
					continue // handled through the slice-sink summary of fn
				}
				nSites++
				arg := c.Common().Args[0]
				key := accessPath(arg)
				construct := next(fn, sc.Name()+"("+key+")")
				if key == "" {
					r.add(fnName(fn), construct, Undecided, p.instrPos(c), "receiver of "+sc.Name()+" is not a field path")
					continue
				}
				nArgs++
				ok, why := a.pathUnfoldedAt(c, key+".Type", true)
				if ok {
					r.add(fnName(fn), construct, Holds, p.instrPos(c), "")
				} else {
					r.add(fnName(fn), construct, Violated, p.instrPos(c), key+".Type: "+why)
				}
				continue
			}
			pi, isSink := sliceSinks[sc]
			if !isSink || forwards[c] {
				continue
			}
			nSites++
			if pi >= len(c.Common().Args) {
				r.add(fnName(fn), next(fn, sc.Name()), Undecided, p.instrPos(c), "cannot find the []Name argument")
				continue
			}
			elems, ok := varargElems(c.Common().Args[pi])
			if !ok {
				r.add(fnName(fn), next(fn, sc.Name()+"(slice)"), Undecided, p.instrPos(c), "the []Name argument is not a literal argument list; elements cannot be enumerated")
				continue
			}
			for _, el := range elems {
				nArgs++
				key := accessPath(el.val)
				construct := next(fn, sc.Name()+"("+key+")")
				if key == "" {
					r.add(fnName(fn), construct, Undecided, p.instrPos(c), "name argument is not a field path: "+describeVal(el.val))
					continue
				}
				// the Name value is loaded at el.load; its .Type must be unfolded there
				at := ssa.Instruction(c)
				if ld, isLd := el.val.(*ssa.UnOp); isLd {
					at = ld
				}
				ok, why := a.pathUnfoldedAt(at, key+".Type", true)
				if ok {
					r.add(fnName(fn), construct, Holds, p.instrPos(c), "")
				} else {
					r.add(fnName(fn), construct, Violated, p.instrPos(c),
						fmt.Sprintf("%s.Type: %s; an explicit polarity annotation on this name makes %s call Polarity() on a type name, which panics", key, why, sc.Name()))
				}
			}
		}
	}
	r.count("sink call sites", nSites)
	r.count("name arguments", nArgs)
	var sn []string
	for f := range nameSinks {
		sn = append(sn, fnName(f))
	}
	for f := range sliceSinks {
		sn = append(sn, fnName(f))
	}
	sort.Strings(sn)
	r.note("sinks found by role: %s", strings.Join(sn, ", "))
	var bi []string
	for n := range a.badImpl {
		bi = append(bi, n)
	}
	r.note("implementers whose Polarity unconditionally panics: %s", strings.Join(bi, ", "))
}

type varargElem struct {
	val ssa.Value
}

// varargElems enumerates the elements of a slice built from a literal argument list:
// `t = new [n]T (varargs); t[i] = v ...; slice t[:]`.
func varargElems(v ssa.Value) ([]varargElem, bool) {
	sl, ok := v.(*ssa.Slice)
	if !ok {
		if c, isC := v.(*ssa.Const); isC && c.Value == nil {
			return nil, true // no arguments
		}
		return nil, false
	}
	al, ok := sl.X.(*ssa.Alloc)
	if !ok {
		return nil, false
	}
	arr, ok := al.Type().Underlying().(*types.Pointer).Elem().Underlying().(*types.Array)
	if !ok {
		return nil, false
	}
	out := make([]varargElem, arr.Len())
	found := 0
	for _, ref := range *al.Referrers() {
		ia, ok := ref.(*ssa.IndexAddr)
		if !ok {
			continue
		}
		idx, ok := ia.Index.(*ssa.Const)
		if !ok {
			return nil, false
		}
		for _, u := range *ia.Referrers() {
			if st, ok := u.(*ssa.Store); ok && st.Addr == ssa.Value(ia) {
				out[idx.Int64()] = varargElem{val: st.Val}
				found++
			}
		}
	}
	if found != int(arr.Len()) {
		return nil, false
	}
	return out, true
}

func describeVal(v ssa.Value) string {
	if k := accessPath(v); k != "" {
		return k
	}
	s := v.String()
	if len(s) > 60 {
		s = s[:60] + "…"
	}
	return v.Name() + " = " + s
}

// R-UNFOLD-COMPLETE (C09, C01, C08): what Unfold returns is not a type name.
func init() {
	register(&Rule{Name: "R-UNFOLD-COMPLETE", Min: 2,
		Doc: "the unfolding function (SessionType, environment → SessionType, found by role) returns, on every path, nil, its argument on the branch where that argument was found not to be a type name, or the result of unfolding again (a call of an unfolding function); it never returns a looked-up definition body as it is, because a definition may be an alias of another name and callers take the polarity of the result",
		Run: runUnfoldComplete})
}

func runUnfoldComplete(p *Program, r *RuleResult) {
	ua := newUnfoldAnalysis(p)
	label := p.Named(typesPkg, "LabelType")
	n := 0
	for fn := range ua.unfoldFn {
		if fn == nil || fn.Blocks == nil || fn.Pkg == nil || fn.Pkg.Pkg.Path() != typesPkg {
			continue
		}
		// the session-type parameter
		var prm *ssa.Parameter
		for _, q := range fn.Params {
			if isSessionTypeType(q.Type()) {
				prm = q
				break
			}
		}
		if prm == nil {
			continue
		}
		view := p.View(fn)
		ord := 0
		for _, b := range view.Blocks() {
			ins := view.Instrs(b)
			ret, ok := ins[len(ins)-1].(*ssa.Return)
			if !ok || len(ret.Results) != 1 {
				continue
			}
			n++
			ord++
			construct := fmt.Sprintf("return#%d", ord)
			v := ret.Results[0]
			okRet := false
			why := ""
			switch x := v.(type) {
			case *ssa.Const:
				okRet = x.IsNil()
				why = "nil"
			case *ssa.Call:
				if sc := x.Common().StaticCallee(); sc != nil && ua.unfoldFn[sc] {
					okRet, why = true, "unfolded again"
				}
			case *ssa.Parameter:
				if x == prm {
					// only where the argument is known not to be a name
					for f := range view.FactsAt(b) {
						ex, isEx := f.v.(*ssa.Extract)
						if !isEx || f.k != factFalse || ex.Index != 1 {
							continue
						}
						if ta, isTA := ex.Tuple.(*ssa.TypeAssert); isTA && ta.X == ssa.Value(prm) {
							if nt := namedOf(ta.AssertedType); nt != nil && nt.Obj() == label.Obj() {
								okRet, why = true, "the argument, known not to be a type name"
							}
						}
					}
				}
			}
			if okRet {
				r.add(fnName(fn), construct, Holds, p.instrPos(ret), why)
			} else {
				r.add(fnName(fn), construct, Violated, p.instrPos(ret),
					"the unfolding function can return "+displayKey(v)+", which may still be a type name (a definition can be an alias `type A = B`): callers that take the polarity of the result, or assert its constructor, then hit the 'unfold type before checking for polarity' panic or reject well-typed programs")
			}
		}
	}
	r.count("returns of unfolding functions", n)
}

// virtStore: a store performed by a straight-line first-party helper, expressed in the
// caller's terms: key is the access path of the written location with the helper's
// parameter replaced by the caller's argument; val is the caller's argument when the helper
// stores one of its parameters, otherwise the helper's own value (nil if unknown).
type virtStore struct {
	key string
	val ssa.Value
	pos string
}

func (p *Program) helperStores(c ssa.CallInstruction) []virtStore {
	h := c.Common().StaticCallee()
	if h == nil || !p.isFirstParty(h) || h.Blocks == nil || len(h.Blocks) != 1 || c.Parent() == h {
		return nil
	}
	if c.Parent().Pkg == nil || h.Pkg == nil || c.Parent().Pkg != h.Pkg {
		return nil
	}
	args := c.Common().Args
	if len(args) != len(h.Params) {
		return nil
	}
	var out []virtStore
	for _, in := range h.Blocks[0].Instrs {
		st, ok := in.(*ssa.Store)
		if !ok {
			continue
		}
		ap := accessPath(st.Addr)
		if ap == "" {
			continue
		}
		for i, q := range h.Params {
			if !strings.HasPrefix(ap, q.Name()+".") {
				continue
			}
			root := accessPath(args[i])
			if root == "" {
				continue
			}
			vs := virtStore{key: root + strings.TrimPrefix(ap, q.Name()), pos: p.instrPos(c)}
			vs.val = st.Val
			for j, q2 := range h.Params {
				if st.Val == ssa.Value(q2) {
					vs.val = args[j]
				}
			}
			out = append(out, vs)
		}
	}
	return out
}
