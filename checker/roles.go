package main

import (
	"go/types"

	"golang.org/x/tools/go/ssa"
)

// Anchors resolved by role (signature and behaviour), so that renaming an unexported
// helper of /repo does not break a rule.

func (p *Program) processFuncs() []*ssa.Function {
	var out []*ssa.Function
	for _, fn := range p.SrcFuncs {
		if fn.Pkg != nil && fn.Pkg.Pkg.Path() == processPkg && fn.Parent() == nil {
			out = append(out, fn)
		}
	}
	return out
}

func sigParams(fn *ssa.Function) []types.Type {
	var out []types.Type
	ps := fn.Signature.Params()
	for i := 0; i < ps.Len(); i++ {
		out = append(out, ps.At(i).Type())
	}
	return out
}

func sigResults(fn *ssa.Function) []types.Type {
	var out []types.Type
	rs := fn.Signature.Results()
	for i := 0; i < rs.Len(); i++ {
		out = append(out, rs.At(i).Type())
	}
	return out
}

// isConsumeFunc: (…Name…, …NamesTypesCtx…) (types.SessionType, error), no receiver.
func (p *Program) isConsumeFunc(fn *ssa.Function) bool {
	if fn == nil || fn.Pkg == nil || fn.Pkg.Pkg.Path() != processPkg || fn.Signature.Recv() != nil {
		return false
	}
	rs := sigResults(fn)
	if len(rs) != 2 || !isSessionTypeType(rs[0]) || !isErrorType(rs[1]) {
		return false
	}
	hasName, hasCtx := false, false
	for _, t := range sigParams(fn) {
		if isNameType2(t) {
			hasName = true
		}
		if isCtxType(t) {
			hasCtx = true
		}
	}
	return hasName && hasCtx
}

// isFreshCtxFunc: func([]Name) NamesTypesCtx.
func (p *Program) isFreshCtxFunc(fn *ssa.Function) bool {
	if fn == nil || fn.Pkg == nil || fn.Pkg.Pkg.Path() != processPkg || fn.Signature.Recv() != nil {
		return false
	}
	ps, rs := sigParams(fn), sigResults(fn)
	return len(ps) == 1 && isNameSlice(ps[0]) && len(rs) == 1 && isCtxType(rs[0])
}

// isSplitCtxFunc: (…) (NamesTypesCtx, NamesTypesCtx, error).
func (p *Program) isSplitCtxFunc(fn *ssa.Function) bool {
	if fn == nil || fn.Pkg == nil || fn.Pkg.Pkg.Path() != processPkg {
		return false
	}
	rs := sigResults(fn)
	return len(rs) == 3 && isCtxType(rs[0]) && isCtxType(rs[1]) && isErrorType(rs[2])
}

// linearityFunc: the func(NamesTypesCtx) error of package process.
func (p *Program) linearityFunc() *ssa.Function {
	var found *ssa.Function
	for _, fn := range p.processFuncs() {
		ps, rs := sigParams(fn), sigResults(fn)
		if fn.Signature.Recv() == nil && len(ps) == 1 && isCtxType(ps[0]) && len(rs) == 1 && isErrorType(rs[0]) {
			found = fn
		}
	}
	if found == nil {
		anchorFail("the context-emptiness check func(NamesTypesCtx) error")
	}
	return found
}

// isProviderFunc: func(Name, *Name) bool.
func (p *Program) isProviderFunc(fn *ssa.Function) bool {
	if fn == nil || fn.Pkg == nil || fn.Pkg.Pkg.Path() != processPkg || fn.Signature.Recv() != nil {
		return false
	}
	ps, rs := sigParams(fn), sigResults(fn)
	if len(ps) != 2 || len(rs) != 1 {
		return false
	}
	b, ok := rs[0].Underlying().(*types.Basic)
	return ok && b.Kind() == types.Bool && isNameType2(ps[0]) && isPtr(ps[1]) && isNameType(ps[1])
}

// transitionLoops: methods of *Process that invoke Form.Transition / TransitionNP on the body.
func (p *Program) isTransitionLoop(fn *ssa.Function) bool {
	if fn == nil || fn.Blocks == nil || fn.Signature.Recv() == nil || !isNamed(fn.Signature.Recv().Type(), processPkg, "Process") {
		return false
	}
	for _, c := range p.callsIn(fn) {
		com := c.Common()
		if com.IsInvoke() && (com.Method.Name() == "Transition" || com.Method.Name() == "TransitionNP") {
			return true
		}
	}
	return false
}

// countsDeath: fn atomically increments a counter field of the runtime environment whose
// name mentions "dead" (the process-terminated bookkeeping).
func (p *Program) countsDeath(fn *ssa.Function) bool {
	if fn == nil || fn.Blocks == nil {
		return false
	}
	for _, c := range p.callsIn(fn) {
		if !isAtomicCall(c) {
			continue
		}
		for _, a := range c.Common().Args {
			if fa, ok := a.(*ssa.FieldAddr); ok {
				if _, n, _ := fieldNameOf(fa); len(n) >= 4 && (n[:4] == "dead" || n[:4] == "Dead") {
					return true
				}
			}
		}
	}
	return false
}

// expandFunc: the parser function returning ([]*Process, []Name, *GlobalEnvironment, error)
// that dispatches on statement kinds.
func (p *Program) expandFunc() *ssa.Function {
	kind := p.Named(parserPkg, "Kind")
	for _, fn := range p.SrcFuncs {
		if fn.Pkg == nil || fn.Pkg.Pkg.Path() != parserPkg || fn.Parent() != nil {
			continue
		}
		rs := sigResults(fn)
		if len(rs) != 4 || !isErrorType(rs[3]) {
			continue
		}
		for _, b := range fn.Blocks {
			for _, in := range b.Instrs {
				if bo, ok := in.(*ssa.BinOp); ok && types.Identical(bo.X.Type(), kind) {
					return fn
				}
			}
		}
	}
	anchorFail("the parser function that expands statements by kind")
	return nil
}

// looksLikeConsume: signature test without a Program (see isConsumeFunc).
func looksLikeConsume(fn *ssa.Function) bool {
	if fn == nil || fn.Signature.Recv() != nil {
		return false
	}
	rs := sigResults(fn)
	if len(rs) != 2 || !isSessionTypeType(rs[0]) || !isErrorType(rs[1]) {
		return false
	}
	hasName, hasCtx := false, false
	for _, t := range sigParams(fn) {
		if isNameType2(t) {
			hasName = true
		}
		if isCtxType(t) {
			hasCtx = true
		}
	}
	return hasName && hasCtx
}
