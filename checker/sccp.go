package main

import (
	"fmt"
	"go/constant"
	"go/token"
	"go/types"
	"sort"
	"strings"

	"golang.org/x/tools/go/ssa"
)

// E2 – sparse conditional constant propagation over go/ssa with assumptions.
//
// Abstract interpretation over a flat lattice; nothing is executed. A value is
//   bottom | const c | dyn T (interface whose dynamic type is the concrete T, or a
//   pointer/struct of concrete type T) | nil | tuple | top.
// Top means "undecided" to every client.

type avKind int

const (
	avBot avKind = iota
	avConst
	avDyn
	avNil
	avTuple
	avObj    // some non-nil reference value with identity Tag (a channel, a pointer)
	avStruct // struct value with abstract fields
	avRef    // address of a field of an abstract cell
	avTop
)

// acell is an abstract memory cell (a local allocation or a caller-provided object).
type acell struct {
	val AVal
}

type AVal struct {
	K      avKind
	C      constant.Value
	T      types.Type
	Elems  []AVal
	Tag    string          // avObj
	Fields map[string]AVal // avStruct
	Cell   *acell          // avDyn of pointer type: what it points to; avRef: the cell
	Field  string          // avRef: field name
}

var (
	aTop = AVal{K: avTop}
	aBot = AVal{K: avBot}
	aNil = AVal{K: avNil}
)

func aConst(c constant.Value) AVal { return AVal{K: avConst, C: c} }
func aBool(b bool) AVal            { return aConst(constant.MakeBool(b)) }
func aDyn(t types.Type) AVal       { return AVal{K: avDyn, T: t} }
func aObj(tag string) AVal         { return AVal{K: avObj, Tag: tag} }

// aStructPtr builds a pointer (of type ptrT) to an abstract struct with the given fields.
func aStructPtr(ptrT types.Type, fields map[string]AVal) AVal {
	return AVal{K: avDyn, T: ptrT, Cell: &acell{val: AVal{K: avStruct, Fields: fields}}}
}
func aStruct(fields map[string]AVal) AVal { return AVal{K: avStruct, Fields: fields} }

func (a AVal) String() string {
	switch a.K {
	case avBot:
		return "⊥"
	case avConst:
		return a.C.ExactString()
	case avDyn:
		return "dyn(" + types.TypeString(a.T, func(p *types.Package) string { return p.Name() }) + ")"
	case avNil:
		return "nil"
	case avTuple:
		var ss []string
		for _, e := range a.Elems {
			ss = append(ss, e.String())
		}
		return "(" + strings.Join(ss, ", ") + ")"
	case avObj:
		return "obj#" + a.Tag
	case avStruct:
		var ks []string
		for k := range a.Fields {
			ks = append(ks, k)
		}
		sort.Strings(ks)
		var ss []string
		for _, k := range ks {
			ss = append(ss, k+":"+a.Fields[k].String())
		}
		return "{" + strings.Join(ss, " ") + "}"
	case avRef:
		return "&cell." + a.Field
	}
	return "⊤"
}

func (a AVal) IsBool() (bool, bool) {
	if a.K == avConst && a.C.Kind() == constant.Bool {
		return constant.BoolVal(a.C), true
	}
	return false, false
}

func (a AVal) Equal(b AVal) bool {
	if a.K != b.K {
		return false
	}
	switch a.K {
	case avConst:
		return a.C.Kind() == b.C.Kind() && constant.Compare(a.C, token.EQL, b.C)
	case avDyn:
		return types.Identical(a.T, b.T) && a.Cell == b.Cell
	case avObj:
		return a.Tag == b.Tag
	case avRef:
		return a.Cell == b.Cell && a.Field == b.Field
	case avStruct:
		if len(a.Fields) != len(b.Fields) {
			return false
		}
		for k, v := range a.Fields {
			w, ok := b.Fields[k]
			if !ok || !v.Equal(w) {
				return false
			}
		}
		return true
	case avTuple:
		if len(a.Elems) != len(b.Elems) {
			return false
		}
		for i := range a.Elems {
			if !a.Elems[i].Equal(b.Elems[i]) {
				return false
			}
		}
	}
	return true
}

func join(a, b AVal) AVal {
	if a.K == avBot {
		return b
	}
	if b.K == avBot {
		return a
	}
	if a.K == avTuple && b.K == avTuple && len(a.Elems) == len(b.Elems) {
		out := AVal{K: avTuple, Elems: make([]AVal, len(a.Elems))}
		for i := range a.Elems {
			out.Elems[i] = join(a.Elems[i], b.Elems[i])
		}
		return out
	}
	if a.Equal(b) {
		return a
	}
	return aTop
}

// Evaluator holds assumptions and a cache.
type Evaluator struct {
	P *Program
	// Loads: assumption for the value loaded through the given pointer value.
	Loads map[ssa.Value]AVal
	// Values: assumption for specific SSA values (e.g. a call result).
	Values map[ssa.Value]AVal
	// MaxDepth of inlining of first-party calls.
	MaxDepth int
	cache    map[string]EvalResult
	stack    map[*ssa.Function]int
	curCells map[*ssa.Alloc]*acell
	// Inexact: the abstract inputs contain cells/structs, disable result caching
	NoCache bool
}

type EvalResult struct {
	Ret      AVal // join of all returned values (tuple for multi-result)
	Returns  bool // some return is on an executable path
	Panics   bool // some panic/no-return call is on an executable path
	ExecBlks map[*ssa.BasicBlock]bool
	// ExecEdges[{from,to}] is set for every edge proved executable.
	ExecEdges map[[2]*ssa.BasicBlock]bool
	Vals      map[ssa.Value]AVal
}

func NewEvaluator(p *Program) *Evaluator {
	return &Evaluator{P: p, Loads: map[ssa.Value]AVal{}, Values: map[ssa.Value]AVal{}, MaxDepth: 4,
		cache: map[string]EvalResult{}, stack: map[*ssa.Function]int{}}
}

func (e *Evaluator) Eval(fn *ssa.Function, args []AVal) EvalResult {
	return e.eval(fn, args, nil, 0)
}

func (e *Evaluator) eval(fn *ssa.Function, args []AVal, free []AVal, depth int) EvalResult {
	if fn == nil || fn.Blocks == nil || depth > e.MaxDepth || e.stack[fn] > 1 {
		return EvalResult{Ret: aTop, Returns: true, Panics: true}
	}
	key := fn.String() + "("
	for _, a := range args {
		key += a.String() + ","
	}
	key += ")"
	for _, a := range free {
		key += a.String() + ","
	}
	cacheable := len(e.Loads) == 0 && len(e.Values) == 0 && !e.NoCache
	if cacheable {
		if r, ok := e.cache[key]; ok {
			return r
		}
	}
	e.stack[fn]++
	defer func() { e.stack[fn]-- }()

	vals := map[ssa.Value]AVal{}
	for i, prm := range fn.Params {
		if i < len(args) {
			vals[prm] = args[i]
		} else {
			vals[prm] = aTop
		}
	}
	for i, fv := range fn.FreeVars {
		if i < len(free) {
			vals[fv] = free[i]
		} else {
			vals[fv] = aTop
		}
	}
	get := func(v ssa.Value) AVal {
		if a, ok := e.Values[v]; ok {
			return a
		}
		switch c := v.(type) {
		case *ssa.Const:
			if c.Value == nil {
				if isBasicNonNilable(c.Type()) {
					// zero value of a struct/array/basic
					if b, ok := c.Type().Underlying().(*types.Basic); ok {
						switch {
						case b.Info()&types.IsBoolean != 0:
							return aBool(false)
						case b.Info()&types.IsString != 0:
							return aConst(constant.MakeString(""))
						case b.Info()&types.IsInteger != 0:
							return aConst(constant.MakeInt64(0))
						}
					}
					return aTop
				}
				return aNil
			}
			return aConst(c.Value)
		case *ssa.Function:
			return aTop
		case *ssa.Global:
			return aTop
		}
		if a, ok := vals[v]; ok {
			return a
		}
		return aBot
	}
	cells := map[*ssa.Alloc]*acell{}
	e.curCells = cells
	execBlk := map[*ssa.BasicBlock]bool{fn.Blocks[0]: true}
	type edge struct{ from, to *ssa.BasicBlock }
	execEdge := map[edge]bool{}
	res := EvalResult{Ret: aBot}
	view := e.P.View(fn)

	set := func(v ssa.Value, a AVal) bool {
		old := vals[v]
		n := join(old, a)
		if !n.Equal(old) || (old.K == avBot && n.K != avBot) {
			vals[v] = n
			return true
		}
		return false
	}

	for changed := true; changed; {
		changed = false
		for _, b := range fn.Blocks {
			if !execBlk[b] {
				continue
			}
			ins := view.Instrs(b)
			for idx, in := range ins {
				if view.cut[b] == idx {
					// no-return call
					res.Panics = true
					break
				}
				switch x := in.(type) {
				case *ssa.Phi:
					a := aBot
					for i, pr := range b.Preds {
						if execEdge[edge{pr, b}] {
							a = join(a, get(x.Edges[i]))
						}
					}
					if set(x, a) {
						changed = true
					}
				case *ssa.If:
					c := get(x.Cond)
					markEdge := func(i int) {
						ed := edge{b, b.Succs[i]}
						if !execEdge[ed] {
							execEdge[ed] = true
							changed = true
						}
						if !execBlk[b.Succs[i]] {
							execBlk[b.Succs[i]] = true
							changed = true
						}
					}
					if bv, ok := c.IsBool(); ok {
						if bv {
							markEdge(0)
						} else {
							markEdge(1)
						}
					} else if c.K != avBot {
						markEdge(0)
						markEdge(1)
					}
				case *ssa.Jump:
					ed := edge{b, b.Succs[0]}
					if !execEdge[ed] {
						execEdge[ed] = true
						changed = true
					}
					if !execBlk[b.Succs[0]] {
						execBlk[b.Succs[0]] = true
						changed = true
					}
				case *ssa.Return:
					res.Returns = true
					var a AVal
					switch len(x.Results) {
					case 0:
						a = AVal{K: avTuple}
					case 1:
						a = get(x.Results[0])
					default:
						a = AVal{K: avTuple}
						for _, r := range x.Results {
							a.Elems = append(a.Elems, get(r))
						}
					}
					n := join(res.Ret, a)
					if !n.Equal(res.Ret) || res.Ret.K == avBot {
						res.Ret = n
					}
				case *ssa.Panic:
					res.Panics = true
				case *ssa.Store:
					if al, ok := x.Addr.(*ssa.Alloc); ok {
						c := cells[al]
						if c == nil {
							c = &acell{val: aBot}
							cells[al] = c
						}
						nv := join(c.val, get(x.Val))
						if !nv.Equal(c.val) || (c.val.K == avBot && nv.K != avBot) {
							c.val = nv
							changed = true
						}
					}
				case ssa.Value:
					e.curCells = cells
					a := e.transfer(x, get, depth)
					if set(x, a) {
						changed = true
					}
				}
			}
		}
	}
	res.ExecBlks = execBlk
	res.ExecEdges = map[[2]*ssa.BasicBlock]bool{}
	for ed := range execEdge {
		res.ExecEdges[[2]*ssa.BasicBlock{ed.from, ed.to}] = true
	}
	res.Vals = vals
	if cacheable {
		e.cache[key] = res
	}
	return res
}

func typeIsInterface(t types.Type) bool {
	_, ok := t.Underlying().(*types.Interface)
	return ok
}

func (e *Evaluator) transfer(v ssa.Value, get func(ssa.Value) AVal, depth int) AVal {
	switch x := v.(type) {
	case *ssa.Alloc:
		c := e.curCells[x]
		if c == nil {
			c = &acell{val: aBot}
			e.curCells[x] = c
		}
		return AVal{K: avDyn, T: x.Type(), Cell: c}
	case *ssa.MakeInterface:
		return aDyn(x.X.Type())
	case *ssa.ChangeInterface:
		return get(x.X)
	case *ssa.ChangeType:
		return get(x.X)
	case *ssa.Convert:
		a := get(x.X)
		if a.K == avConst {
			from, ok1 := x.X.Type().Underlying().(*types.Basic)
			to, ok2 := x.Type().Underlying().(*types.Basic)
			if ok1 && ok2 {
				if from.Info()&types.IsInteger != 0 && to.Info()&types.IsInteger != 0 {
					return a
				}
				if from.Info()&types.IsString != 0 && to.Info()&types.IsString != 0 {
					return a
				}
			}
			return aTop
		}
		if a.K == avBot {
			return aBot
		}
		return aTop
	case *ssa.TypeAssert:
		a := get(x.X)
		switch a.K {
		case avBot:
			return aBot
		case avDyn:
			var ok bool
			if typeIsInterface(x.AssertedType) {
				ok = types.Implements(a.T, x.AssertedType.Underlying().(*types.Interface))
			} else {
				ok = types.Identical(a.T, x.AssertedType)
			}
			var val AVal
			if ok {
				val = aDyn(a.T)
			} else {
				val = aTop // zero value; never used on the failing path by well-formed code
			}
			if x.CommaOk {
				return AVal{K: avTuple, Elems: []AVal{val, aBool(ok)}}
			}
			if !ok {
				return aBot // the plain assertion panics: nothing flows on
			}
			return val
		case avNil:
			if x.CommaOk {
				return AVal{K: avTuple, Elems: []AVal{aTop, aBool(false)}}
			}
			return aBot
		}
		if x.CommaOk {
			return AVal{K: avTuple, Elems: []AVal{aTop, aTop}}
		}
		return aTop
	case *ssa.Extract:
		a := get(x.Tuple)
		switch a.K {
		case avBot:
			return aBot
		case avTuple:
			if x.Index < len(a.Elems) {
				return a.Elems[x.Index]
			}
		}
		return aTop
	case *ssa.UnOp:
		if x.Op == token.MUL { // load
			if a, ok := e.Loads[x.X]; ok {
				return a
			}
			pa := get(x.X)
			switch {
			case pa.K == avBot:
				return aBot
			case pa.K == avDyn && pa.Cell != nil && pa.Cell.val.K != avBot:
				return pa.Cell.val
			case pa.K == avRef && pa.Cell != nil && pa.Cell.val.K == avStruct:
				if fv, ok := pa.Cell.val.Fields[pa.Field]; ok {
					return fv
				}
			}
			return aTop
		}
		a := get(x.X)
		if a.K == avBot {
			return aBot
		}
		if a.K == avConst {
			switch x.Op {
			case token.NOT:
				if b, ok := a.IsBool(); ok {
					return aBool(!b)
				}
			case token.SUB:
				return aConst(constant.UnaryOp(token.SUB, a.C, 0))
			}
		}
		return aTop
	case *ssa.BinOp:
		a, b := get(x.X), get(x.Y)
		if a.K == avBot || b.K == avBot {
			return aBot
		}
		switch x.Op {
		case token.EQL, token.NEQ:
			eq, known := abstractEq(a, b)
			if known {
				return aBool(eq == (x.Op == token.EQL))
			}
			return aTop
		}
		if a.K == avConst && b.K == avConst {
			return foldBinOp(x.Op, a.C, b.C)
		}
		return aTop
	case *ssa.Call:
		return e.evalCall(x, get, depth)
	case *ssa.FieldAddr:
		pa := get(x.X)
		if pa.K == avBot {
			return aBot
		}
		if pa.K == avDyn && pa.Cell != nil && pa.Cell.val.K == avStruct {
			_, n, _ := fieldNameOf(x)
			return AVal{K: avRef, Cell: pa.Cell, Field: n}
		}
		return aTop
	case *ssa.Field:
		sa := get(x.X)
		if sa.K == avBot {
			return aBot
		}
		if sa.K == avStruct {
			_, n, _ := fieldNameOf(x)
			if fv, ok := sa.Fields[n]; ok {
				return fv
			}
		}
		return aTop
	case *ssa.Lookup:
		// lookup in a package-level table that is filled once, by its initialiser, with
		// constant keys and never written again
		if ld, ok := x.X.(*ssa.UnOp); ok && ld.Op == token.MUL {
			if g, ok := ld.X.(*ssa.Global); ok {
				key := get(x.Index)
				if key.K == avBot {
					return aBot
				}
				if tbl := e.P.globalMapTable(g); tbl != nil && key.K == avConst {
					val, found := tbl[key.C.ExactString()]
					if !found {
						val = aTop
						if typeIsInterface(x.X.Type().Underlying().(*types.Map).Elem()) {
							val = AVal{K: avNil}
						}
					}
					if x.CommaOk {
						return AVal{K: avTuple, Elems: []AVal{val, aBool(found)}}
					}
					return val
				}
			}
		}
		return aTop
	case *ssa.IndexAddr, *ssa.Index, *ssa.MakeMap, *ssa.MakeSlice, *ssa.MakeChan,
		*ssa.MakeClosure, *ssa.Slice, *ssa.Range, *ssa.Next, *ssa.Select:
		return aTop
	}
	return aTop
}

func abstractEq(a, b AVal) (eq, known bool) {
	switch {
	case a.K == avConst && b.K == avConst && a.C.Kind() == b.C.Kind():
		return constant.Compare(a.C, token.EQL, b.C), true
	case a.K == avNil && b.K == avNil:
		return true, true
	case a.K == avNil && b.K == avDyn, a.K == avDyn && b.K == avNil:
		return false, true
	case a.K == avObj && b.K == avObj:
		return a.Tag == b.Tag, true
	case a.K == avNil && b.K == avObj, a.K == avObj && b.K == avNil:
		return false, true
	}
	return false, false
}

func foldBinOp(op token.Token, a, b constant.Value) (out AVal) {
	defer func() {
		if recover() != nil {
			out = aTop
		}
	}()
	switch op {
	case token.LSS, token.LEQ, token.GTR, token.GEQ:
		if a.Kind() == b.Kind() {
			return aBool(constant.Compare(a, op, b))
		}
		return aTop
	case token.ADD, token.SUB, token.MUL, token.AND, token.OR, token.XOR:
		if a.Kind() == b.Kind() && (a.Kind() == constant.Int || a.Kind() == constant.String && op == token.ADD) {
			return aConst(constant.BinaryOp(a, op, b))
		}
	case token.LAND, token.LOR:
		if a.Kind() == constant.Bool && b.Kind() == constant.Bool {
			return aConst(constant.BinaryOp(a, op, b))
		}
	}
	return aTop
}

func (e *Evaluator) evalCall(c *ssa.Call, get func(ssa.Value) AVal, depth int) AVal {
	com := c.Common()
	var callee *ssa.Function
	var args []AVal
	var free []AVal
	if com.IsInvoke() {
		recv := get(com.Value)
		if recv.K == avBot {
			return aBot
		}
		if recv.K != avDyn {
			return aTop
		}
		sel := e.P.Prog.MethodSets.MethodSet(recv.T).Lookup(com.Method.Pkg(), com.Method.Name())
		if sel == nil {
			return aTop
		}
		callee = e.P.Prog.MethodValue(sel)
		args = append(args, recv)
	} else {
		callee = com.StaticCallee()
		if mc, ok := com.Value.(*ssa.MakeClosure); ok {
			for _, b := range mc.Bindings {
				free = append(free, get(b))
			}
		}
		if callee == nil {
			if bi, ok := com.Value.(*ssa.Builtin); ok && bi.Name() == "len" && len(com.Args) == 1 {
				a := get(com.Args[0])
				if a.K == avConst && a.C.Kind() == constant.String {
					return aConst(constant.MakeInt64(int64(len(constant.StringVal(a.C)))))
				}
			}
			return aTop
		}
	}
	for _, a := range com.Args {
		av := get(a)
		if av.K == avBot {
			return aBot
		}
		args = append(args, av)
	}
	if callee == nil {
		return aTop
	}
	if callee.Blocks == nil {
		return pureStd(callee, args)
	}
	if !e.P.isFirstParty(callee) {
		return aTop
	}
	r := e.eval(callee, args, free, depth+1)
	if !r.Returns {
		return aBot
	}
	if r.Ret.K == avTuple && len(r.Ret.Elems) == 0 {
		return aTop
	}
	return r.Ret
}

// pureStd: the few pure standard-library functions the rules need, on constants only.
func pureStd(fn *ssa.Function, args []AVal) AVal {
	str := func(i int) (string, bool) {
		if i < len(args) && args[i].K == avConst && args[i].C.Kind() == constant.String {
			return constant.StringVal(args[i].C), true
		}
		return "", false
	}
	switch fn.String() {
	case "strings.ToLower":
		if s, ok := str(0); ok {
			return aConst(constant.MakeString(strings.ToLower(s)))
		}
	case "strings.ToUpper":
		if s, ok := str(0); ok {
			return aConst(constant.MakeString(strings.ToUpper(s)))
		}
	case "strings.TrimSpace":
		if s, ok := str(0); ok {
			return aConst(constant.MakeString(strings.TrimSpace(s)))
		}
	}
	return aTop
}

func (r EvalResult) describe() string {
	return fmt.Sprintf("ret=%s returns=%v panics=%v", r.Ret, r.Returns, r.Panics)
}

// globalMapTable: the contents of a package-level map variable, when it is assigned exactly
// once (in the package initialiser) a freshly made map that is filled there with constant
// keys, and every other use of the variable only reads it (lookup, range, len). nil otherwise.
func (p *Program) globalMapTable(g *ssa.Global) map[string]AVal {
	if p.mapTables == nil {
		p.mapTables = map[*ssa.Global]map[string]AVal{}
	}
	if t, ok := p.mapTables[g]; ok {
		return t
	}
	p.mapTables[g] = nil
	if g.Pkg == nil {
		return nil
	}
	initFn := g.Pkg.Func("init")
	if initFn == nil {
		return nil
	}
	var mk *ssa.MakeMap
	nStores := 0
	fns := []*ssa.Function{initFn}
	for _, fn := range p.SrcFuncs {
		if fn != initFn {
			fns = append(fns, fn)
		}
	}
	for _, fn := range fns {
		for _, b := range fn.Blocks {
			for _, in := range b.Instrs {
				switch x := in.(type) {
				case *ssa.Store:
					if x.Addr == ssa.Value(g) {
						nStores++
						m, ok := x.Val.(*ssa.MakeMap)
						if !ok || fn != initFn {
							return nil
						}
						mk = m
					}
				case *ssa.UnOp:
					if x.Op == token.MUL && x.X == ssa.Value(g) && x.Referrers() != nil {
						for _, u := range *x.Referrers() {
							switch y := u.(type) {
							case *ssa.Lookup:
								if y.X != ssa.Value(x) {
									return nil
								}
							case *ssa.Range, *ssa.DebugRef:
							case *ssa.Call:
								if bi, ok := y.Common().Value.(*ssa.Builtin); !ok || bi.Name() != "len" {
									return nil
								}
							default:
								return nil // written, passed on, stored
							}
						}
					}
				}
			}
		}
	}
	if mk == nil || nStores != 1 || mk.Referrers() == nil {
		return nil
	}
	tbl := map[string]AVal{}
	for _, u := range *mk.Referrers() {
		switch x := u.(type) {
		case *ssa.MapUpdate:
			k, ok := x.Key.(*ssa.Const)
			if !ok || k.Value == nil {
				return nil
			}
			var val AVal
			switch v := x.Value.(type) {
			case *ssa.Const:
				if v.Value == nil {
					val = AVal{K: avNil}
				} else {
					val = aConst(v.Value)
				}
			case *ssa.MakeInterface:
				val = aDyn(v.X.Type())
			default:
				val = aTop
			}
			if _, dup := tbl[k.Value.ExactString()]; dup {
				return nil
			}
			tbl[k.Value.ExactString()] = val
		case *ssa.Store, *ssa.DebugRef:
		default:
			return nil
		}
	}
	p.mapTables[g] = tbl
	return tbl
}
