package main

import (
	"fmt"
	"go/constant"
	"go/token"
	"sort"
	"strings"

	"golang.org/x/tools/go/ssa"
)

// R-COMMENT-DFA (C12, C11): the block-comment skipper, read as a finite automaton over
// character classes, never reads past the first comment terminator and stops at end of input.

func init() {
	register(&Rule{Name: "R-COMMENT-DFA", Min: 2,
		Doc: "the deterministic automaton extracted from the block-comment skipper (states = read sites, transitions by abstract execution of its branches per character class) accepts at or before the first '*/' on every input and accepts on end of input from every state",
		Run: runCommentDFA})
}

// specification side: block comments are opened by "/*" and closed by the first "*/"
const commentOpen2 = '*'
const commentClose1, commentClose2 = '*', '/'

type charClass struct {
	name string
	r    rune
	eof  bool
	oth  bool
}

type dfaState struct {
	site *ssa.Call // nil = accept
	acc  bool
}

// findBlockCommentSkipper: the scanner method called right after '/' '*' was read.
func findBlockCommentSkipper(p *Program, ri *readerInfo) *ssa.Function {
	for _, fn := range p.SrcFuncs {
		if fn.Pkg == nil || fn.Pkg.Pkg.Path() != parserPkg {
			continue
		}
		view := p.View(fn)
		for _, c := range p.callsIn(fn) {
			callee := c.Common().StaticCallee()
			if callee == nil || !p.isFirstParty(callee) || callee == ri.Read || callee.Signature.Results().Len() != 0 || len(callee.Params) != 1 {
				continue
			}
			// callee loops over reads
			loops := false
			for _, l := range p.View(callee).Loops() {
				for b := range l.Body {
					for _, in := range b.Instrs {
						if cc, ok := in.(*ssa.Call); ok && cc.Common().StaticCallee() == ri.Read {
							loops = true
						}
					}
				}
			}
			if !loops {
				continue
			}
			for f := range view.FactsAt(c.Block()) {
				bo, ok := f.v.(*ssa.BinOp)
				if !ok || f.k != factTrue || bo.Op != token.EQL {
					continue
				}
				k, ok := bo.Y.(*ssa.Const)
				if !ok || k.Value == nil {
					continue
				}
				if iv, ok := constant.Int64Val(k.Value); ok && rune(iv) == commentOpen2 {
					return callee
				}
			}
		}
	}
	return nil
}

func runCommentDFA(p *Program, r *RuleResult) {
	ri := findScannerReader(p)
	fn := findBlockCommentSkipper(p, ri)
	if fn == nil {
		r.add("parser scanner", "block-comment-skipper", Undecided, "", "no function called after '/' '*' that loops over input reads was found")
		return
	}
	name := fnName(fn)
	view := p.View(fn)
	// character classes: constants compared in fn, the sentinel, and "any other character"
	consts := map[rune]bool{commentClose1: true, commentClose2: true}
	for _, b := range view.Blocks() {
		for _, in := range view.Instrs(b) {
			if bo, ok := in.(*ssa.BinOp); ok {
				if k, ok := bo.Y.(*ssa.Const); ok && k.Value != nil {
					if iv, ok := constant.Int64Val(k.Value); ok && iv > 0 && iv < 0x110000 {
						consts[rune(iv)] = true
					}
				}
			}
		}
	}
	var classes []charClass
	var rs []rune
	for c := range consts {
		rs = append(rs, c)
	}
	sort.Slice(rs, func(i, j int) bool { return rs[i] < rs[j] })
	for _, c := range rs {
		classes = append(classes, charClass{name: fmt.Sprintf("%q", c), r: c})
	}
	classes = append(classes, charClass{name: "other", oth: true}, charClass{name: "eof", eof: true})

	// abstract execution: from just after read `site` with the value in class c (site == nil: function entry)
	type result struct {
		next *ssa.Call
		acc  bool
		err  string
	}
	step := func(site *ssa.Call, c charClass) result {
		cur := map[ssa.Value]charClass{}
		var b *ssa.BasicBlock
		idx := 0
		var prev *ssa.BasicBlock
		if site == nil {
			b = fn.Blocks[0]
		} else {
			cur[site] = c
			b = site.Block()
			idx = indexIn(b, site) + 1
		}
		classOf := func(v ssa.Value) (charClass, bool) {
			if cl, ok := cur[v]; ok {
				return cl, true
			}
			return charClass{}, false
		}
		evalCond := func(v ssa.Value) (bool, bool) {
			bo, ok := v.(*ssa.BinOp)
			if !ok || (bo.Op != token.EQL && bo.Op != token.NEQ) {
				return false, false
			}
			cl, ok := classOf(bo.X)
			if !ok {
				return false, false
			}
			var eq bool
			switch {
			case ri.isSentinel(bo.Y):
				eq = cl.eof
			default:
				k, ok := bo.Y.(*ssa.Const)
				if !ok || k.Value == nil {
					return false, false
				}
				iv, ok := constant.Int64Val(k.Value)
				if !ok {
					return false, false
				}
				eq = !cl.eof && !cl.oth && cl.r == rune(iv)
			}
			return eq == (bo.Op == token.EQL), true
		}
		for steps := 0; steps < 500; steps++ {
			ins := view.Instrs(b)
			for ; idx < len(ins); idx++ {
				switch x := ins[idx].(type) {
				case *ssa.Phi:
					if prev != nil {
						for i, pr := range b.Preds {
							if pr == prev {
								if cl, ok := classOf(x.Edges[i]); ok {
									cur[x] = cl
								}
							}
						}
					}
				case *ssa.Call:
					if x.Common().StaticCallee() == ri.Read {
						return result{next: x}
					}
				case *ssa.Return:
					return result{acc: true}
				case *ssa.If:
					v, ok := evalCond(x.Cond)
					if !ok {
						return result{err: "branch at " + p.instrPos(x) + " does not depend only on the character just read"}
					}
					prev = b
					if v {
						b = b.Succs[0]
					} else {
						b = b.Succs[1]
					}
					idx = -1
				case *ssa.Jump:
					prev = b
					b = b.Succs[0]
					idx = -1
				}
				if idx == -1 {
					break
				}
			}
			if idx == -1 {
				idx = 0
				continue
			}
			if view.Exit(b) == ExitPanic {
				return result{acc: true}
			}
			return result{err: "fell off a block"}
		}
		return result{err: "no read or return reached (internal loop without input)"}
	}
	// entry: run to the first read
	first := step(nil, charClass{})
	if first.err != "" || first.next == nil {
		r.add(name, "automaton-extraction", Undecided, p.pos(fn.Pos()), "cannot extract the automaton: "+first.err)
		return
	}
	// transitions
	type key struct {
		site *ssa.Call
		cls  string
	}
	delta := map[key]result{}
	sites := []*ssa.Call{first.next}
	seen := map[*ssa.Call]bool{first.next: true}
	for i := 0; i < len(sites); i++ {
		for _, c := range classes {
			res := step(sites[i], c)
			if res.err != "" {
				r.add(name, "automaton-extraction", Undecided, p.instrPos(sites[i]), "cannot extract the automaton: "+res.err)
				return
			}
			delta[key{sites[i], c.name}] = res
			if res.next != nil && !seen[res.next] {
				seen[res.next] = true
				sites = append(sites, res.next)
			}
		}
	}
	siteName := func(s *ssa.Call) string {
		for i, x := range sites {
			if x == s {
				return fmt.Sprintf("q%d(%s)", i, p.instrPos(s))
			}
		}
		return "?"
	}
	var desc []string
	for _, s := range sites {
		for _, c := range classes {
			res := delta[key{s, c.name}]
			to := "ACCEPT"
			if !res.acc {
				to = siteName(res.next)
			}
			desc = append(desc, fmt.Sprintf("%s --%s--> %s", siteName(s), c.name, to))
		}
	}
	r.note("extracted automaton of %s: %s", name, strings.Join(desc, "; "))
	r.count("automaton states", len(sites))
	r.count("character classes", len(classes))

	// (1) end of input is accepted from every state
	okEOF := true
	whyEOF := ""
	for _, s := range sites {
		if !delta[key{s, "eof"}].acc {
			okEOF = false
			whyEOF = "in state " + siteName(s) + " end of input does not end the comment"
		}
	}
	v := Holds
	if !okEOF {
		v = Violated
	}
	r.add(name, "accepts-on-end-of-input", v, p.pos(fn.Pos()), whyEOF)

	// (2) product with the specification automaton: never read past the first terminator
	type pstate struct {
		site *ssa.Call
		spec int // 0: no pending close1, 1: just saw close1
	}
	type pathT struct {
		st   pstate
		path []string
	}
	start := pstate{first.next, 0}
	queue := []pathT{{start, nil}}
	visited := map[pstate]bool{start: true}
	bad := ""
	for len(queue) > 0 && bad == "" {
		cur := queue[0]
		queue = queue[1:]
		for _, c := range classes {
			if c.eof {
				continue
			}
			res := delta[key{cur.st.site, c.name}]
			specAccept := false
			nspec := 0
			switch {
			case !c.oth && c.r == commentClose2 && cur.st.spec == 1:
				specAccept = true
			case !c.oth && c.r == commentClose1:
				nspec = 1
			}
			path := append(append([]string{}, cur.path...), c.name)
			if res.acc {
				continue // ended at or before the terminator
			}
			if specAccept {
				bad = fmt.Sprintf("after reading the classes [%s] the text contains the terminator %q%q but the skipper is still inside the comment (state %s): what follows the comment is swallowed", strings.Join(path, " "), commentClose1, commentClose2, siteName(res.next))
				break
			}
			ns := pstate{res.next, nspec}
			if !visited[ns] {
				visited[ns] = true
				queue = append(queue, pathT{ns, path})
			}
		}
	}
	if bad != "" {
		r.add(name, "never-reads-past-terminator", Violated, p.pos(fn.Pos()), bad)
	} else {
		r.add(name, "never-reads-past-terminator", Holds, p.pos(fn.Pos()), fmt.Sprintf("product with the specification automaton explored: %d states", len(visited)))
	}
}
