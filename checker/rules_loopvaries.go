package main

import (
	"fmt"
	"go/token"
	"go/types"
	"sort"

	"golang.org/x/tools/go/ssa"
)

// R-LOOP-VARIES (C11) / R-LOOP-VARIES-TC (C09): a loop whose every exit condition is
// computed from values that cannot change while the loop runs never ends once entered.

func init() {
	register(&Rule{Name: "R-LOOP-VARIES", Min: 18,
		Doc: "every loop of the parser package has an exit whose condition can change between iterations: it depends on a value the loop itself advances (a loop-carried value, a range step, a channel receive), on memory the loop or a function it calls may write, or on a call that is not read-only; a loop all of whose exit conditions are computed by read-only code from values fixed before the loop (for taken(names, candidate) { counter++ }) spins forever the first time it is entered",
		Run: func(p *Program, r *RuleResult) { runLoopVaries(p, r, []string{parserPkg}) }})
	register(&Rule{Name: "R-LOOP-VARIES-TC", Min: 100,
		Doc: "the same for every loop of the types and process packages (type well-formedness, equality, inference, the typechecker): some exit condition of every loop can change between iterations",
		Run: func(p *Program, r *RuleResult) { runLoopVaries(p, r, []string{typesPkg, processPkg}) }})
}

// readOnlyFn: a first-party function that writes no memory visible to its caller, does not
// communicate and calls only read-only functions: called twice with the same arguments and
// no intervening write, it returns the same result. Computed as the greatest fixpoint over
// the call graph below fn (recursion adds no effects), memoised once the whole component
// is decided.
func (p *Program) readOnlyFn(fn *ssa.Function) bool {
	if p.roMemo == nil {
		p.roMemo = map[*ssa.Function]int{}
		p.roWhy = map[*ssa.Function]string{}
	}
	switch p.roMemo[fn] {
	case 1:
		return true
	case 2:
		return false
	}
	if len(fn.Blocks) == 0 || !p.isFirstParty(fn) {
		return false
	}
	if p.roBusy == nil {
		p.roBusy = map[*ssa.Function]bool{}
	}
	if p.roBusy[fn] {
		return false // a callback that reaches the function handing it out: not decided here
	}
	p.roBusy[fn] = true
	defer delete(p.roBusy, fn)
	// collect everything reachable that is not decided yet
	type node struct {
		bad     bool
		cap     bool // writes only into variables captured from an enclosing activation
		why     string
		callees []*ssa.Function
	}
	nodes := map[*ssa.Function]*node{}
	var order []*ssa.Function
	var visit func(f *ssa.Function)
	visit = func(f *ssa.Function) {
		if nodes[f] != nil || p.roMemo[f] != 0 {
			return
		}
		n := &node{}
		nodes[f] = n
		order = append(order, f)
		n.bad, n.cap, n.why, n.callees = p.roLocal(f)
		for _, c := range n.callees {
			if len(c.Blocks) == 0 || !(p.isFirstParty(c) || c.Synthetic != "") {
				n.bad = true
				if n.why == "" {
					n.why = "calls " + c.String() + " (no body to inspect)"
				}
				continue
			}
			visit(c)
		}
	}
	visit(fn)
	for changed := true; changed; {
		changed = false
		for _, f := range order {
			n := nodes[f]
			if n.bad {
				continue
			}
			for _, c := range n.callees {
				cb, cw := false, ""
				if m := p.roMemo[c]; m == 2 {
					cb, cw = true, p.roWhy[c]
				} else if cn := nodes[c]; cn != nil && cn.bad {
					cb, cw = true, cn.why
				}
				if !n.cap && (p.roMemo[c] == 4 || nodes[c] != nil && nodes[c].cap) {
					n.cap = true
					changed = true
				}
				if cb {
					n.bad = true
					n.why = "through " + fnName(c) + ": " + cw
					changed = true
					break
				}
			}
		}
	}
	for _, f := range order {
		switch {
		case nodes[f].bad:
			p.roMemo[f] = 2
			p.roWhy[f] = nodes[f].why
		case nodes[f].cap:
			p.roMemo[f] = 4
		default:
			p.roMemo[f] = 1
		}
	}
	return p.roMemo[fn] == 1
}

// writesNothingOutside: like readOnlyFn, but writes into variables captured from an
// enclosing activation are allowed (a printer assembling its text through a local closure):
// nothing that outlives the outermost activation is written.
func (p *Program) writesNothingOutside(fn *ssa.Function) bool {
	p.readOnlyFn(fn)
	return p.roMemo[fn] == 1 || p.roMemo[fn] == 4
}

// capturedLocal: v is (the address held in) a free variable bound to a local variable of an
// enclosing activation.
func capturedLocal(v ssa.Value) bool {
	for d := 0; d < 4; d++ {
		fv, ok := v.(*ssa.FreeVar)
		if !ok {
			return false
		}
		b := freeVarBinding(fv)
		if _, isAlloc := b.(*ssa.Alloc); isAlloc {
			return true
		}
		v = b
	}
	return false
}

// roLocal: the effects fn has by itself, and the first-party functions it may call.
func (p *Program) roLocal(fn *ssa.Function) (bad, capw bool, why string, callees []*ssa.Function) {
	note := func(w string) {
		bad = true
		if why == "" {
			why = w
		}
	}
	for _, b := range fn.Blocks {
		for _, in := range b.Instrs {
			switch x := in.(type) {
			case *ssa.Store:
				// a store into a variable of this activation is invisible to the caller
				if capturedLocal(x.Addr) {
					capw = true
				} else if _, local := x.Addr.(*ssa.Alloc); !local {
					note(fmt.Sprintf("store %s at %s", displayKey(x.Addr), p.instrPos(x)))
				}
			case *ssa.MapUpdate:
				if _, local := origin(x.Map).(*ssa.MakeMap); !local {
					note(fmt.Sprintf("map update %s at %s", displayKey(x.Map), p.instrPos(x)))
				}
			case *ssa.Send, *ssa.Select, *ssa.Go, *ssa.Defer:
				note(fmt.Sprintf("%s at %s", in.String(), p.instrPos(in)))
			case *ssa.UnOp:
				if x.Op == token.ARROW {
					note("channel receive at " + p.instrPos(x))
				}
			case *ssa.Call:
				com := x.Common()
				if bi, isB := com.Value.(*ssa.Builtin); isB {
					switch bi.Name() {
					case "len", "cap", "min", "max", "real", "imag", "complex":
					case "append":
						// append to a slice of the caller may write its backing array
						if !localSlice(com.Args[0]) {
							note(fmt.Sprintf("append to %s at %s", displayKey(com.Args[0]), p.instrPos(x)))
						}
					default:
						note(fmt.Sprintf("builtin %s at %s", bi.Name(), p.instrPos(x)))
					}
					continue
				}
				if com.IsInvoke() {
					// a method of a first-party interface: every implementation must be read-only
					named, _ := com.Value.Type().(*types.Named)
					if named == nil || named.Obj().Pkg() == nil || p.ByPath[named.Obj().Pkg().Path()] == nil {
						note(fmt.Sprintf("dynamic call %s at %s", com.Method.Name(), p.instrPos(x)))
						continue
					}
					impls := p.Implementers(named)
					if len(impls) == 0 {
						note(fmt.Sprintf("dynamic call %s at %s", com.Method.Name(), p.instrPos(x)))
					}
					for _, T := range impls {
						m := p.MethodOpt(T, com.Method.Name())
						if m == nil {
							note(fmt.Sprintf("method %s of %s has no body", com.Method.Name(), T))
							continue
						}
						callees = append(callees, m)
					}
					continue
				}
				sc := com.StaticCallee()
				if sc == nil {
					// a function value: the functions the call graph resolves it to (a method
					// expression handed to a helper arrives as a thunk that invokes the method)
					targets := p.Callees(p.VTA(), x)
					if len(targets) == 0 {
						note("dynamic call at " + p.instrPos(x))
						continue
					}
					for _, t := range targets {
						if len(t.Blocks) == 0 {
							note("dynamic call at " + p.instrPos(x) + " may reach " + t.String() + " (no body)")
							continue
						}
						callees = append(callees, t)
					}
					continue
				}
				if pureStdFn(sc) {
					continue
				}
				if !p.isFirstParty(sc) {
					// library code: its effects are confined to what it is handed
					for _, a := range com.Args {
						if _, isPtr := a.Type().Underlying().(*types.Pointer); isPtr && capturedLocal(a) {
							capw = true
							continue
						}
						if !p.confinedArg(a) {
							note(fmt.Sprintf("%s is handed %s at %s and may write through it", sc.String(), displayKey(a), p.instrPos(x)))
						}
					}
					continue
				}
				callees = append(callees, sc)
			}
		}
	}
	return
}

// confinedArg: an argument through which library code cannot reach memory of the caller's
// caller: a value of an immutable type, or the address of / a slice built in a local variable.
func (p *Program) confinedArg(a ssa.Value) bool {
	switch t := a.Type().Underlying().(type) {
	case *types.Signature:
		// a callback: harmless when it is itself read-only
		switch f := a.(type) {
		case *ssa.MakeClosure:
			return p.readOnlyFn(f.Fn.(*ssa.Function))
		case *ssa.Function:
			return p.readOnlyFn(f)
		}
		return false
	case *types.Basic:
		return true
	case *types.Pointer:
		_, local := a.(*ssa.Alloc)
		return local
	case *types.Slice:
		return localSlice(a)
	case *types.Interface:
		// a boxed immutable value or a local buffer
		if mi, ok := a.(*ssa.MakeInterface); ok {
			return p.confinedArg(mi.X)
		}
		_ = t
		return false
	}
	return false
}

// localSlice: the slice value is nil or built inside the function (append chains from nil / make).
func localSlice(v ssa.Value) bool {
	seen := map[ssa.Value]bool{}
	var walk func(v ssa.Value) bool
	walk = func(v ssa.Value) bool {
		if seen[v] {
			return true
		}
		seen[v] = true
		v = origin(v)
		// a variable that is assigned more than once (`xs = append([]T(nil), xs...)`): the
		// store that reaches this load – the latest one dominating it – decides
		if ld, ok := v.(*ssa.UnOp); ok {
			if al, ok := ld.X.(*ssa.Alloc); ok {
				var best *ssa.Store
				for _, st := range storesTo(al) {
					dom := st.Block() == ld.Block() && indexIn(st.Block(), st) < indexIn(ld.Block(), ld) || (st.Block() != ld.Block() && st.Block().Dominates(ld.Block()))
					if !dom {
						continue
					}
					if best == nil || best.Block().Dominates(st.Block()) && (best.Block() != st.Block() || indexIn(best.Block(), best) < indexIn(st.Block(), st)) {
						best = st
					}
				}
				if best != nil {
					// no other store may come between it and the load
					other := false
					for _, st := range storesTo(al) {
						if st != best && !st.Block().Dominates(best.Block()) {
							other = true
						}
						if st != best && st.Block() == best.Block() && indexIn(st.Block(), st) > indexIn(best.Block(), best) {
							other = true
						}
					}
					if !other {
						return walk(best.Val)
					}
				}
			}
		}
		switch x := v.(type) {
		case *ssa.Const:
			return x.Value == nil
		case *ssa.MakeSlice:
			return true
		case *ssa.Slice:
			_, al := x.X.(*ssa.Alloc)
			return al
		case *ssa.Phi:
			for _, e := range x.Edges {
				if !walk(e) {
					return false
				}
			}
			return true
		case *ssa.Call:
			if bi, ok := x.Common().Value.(*ssa.Builtin); ok && bi.Name() == "append" {
				return walk(x.Common().Args[0])
			}
		}
		return false
	}
	return walk(v)
}

func pureStdFn(fn *ssa.Function) bool {
	if fn.Pkg == nil {
		return false
	}
	switch fn.Pkg.Pkg.Path() {
	case "strings", "strconv", "unicode", "unicode/utf8", "sort", "slices", "maps", "math", "bytes":
		switch fn.Name() {
		case "Sort", "Strings", "Ints", "Slice", "SliceStable", "Stable", "Write", "WriteString", "WriteByte", "WriteRune", "Reset", "Grow", "Truncate", "ReadFrom", "Read", "ReadRune", "ReadByte", "ReadString", "Next", "UnreadRune", "UnreadByte":
			return false
		}
		return true
	case "fmt":
		return fn.Name() == "Sprintf" || fn.Name() == "Sprint" || fn.Name() == "Sprintln" || fn.Name() == "Errorf"
	case "errors":
		return fn.Name() == "New"
	}
	return false
}

type loopVar struct {
	p      *Program
	view   *View
	loop   *Loop
	writes bool
	hdrs   map[*ssa.BasicBlock]bool
	memo   map[ssa.Value]int
}

// varies: may v take different values in different iterations of the loop?
func (lv *loopVar) varies(v ssa.Value) bool {
	switch lv.memo[v] {
	case 1:
		return true
	case 2, 3:
		return false
	}
	in, isIn := v.(ssa.Instruction)
	if !isIn || in.Block() == nil || !lv.loop.Body[in.Block()] {
		return false // parameter, constant, global address, or defined before the loop
	}
	lv.memo[v] = 3
	res := lv.varies1(v)
	if res {
		lv.memo[v] = 1
	} else {
		lv.memo[v] = 2
	}
	return res
}

func (lv *loopVar) anyOperand(in ssa.Instruction) bool {
	for _, op := range in.Operands(nil) {
		if *op != nil && lv.varies(*op) {
			return true
		}
	}
	return false
}

func (lv *loopVar) varies1(v ssa.Value) bool {
	switch x := v.(type) {
	case *ssa.Phi:
		if lv.hdrs[x.Block()] {
			return true // loop-carried
		}
		return lv.anyOperand(x)
	case *ssa.Next, *ssa.Range, *ssa.Select:
		return true
	case *ssa.UnOp:
		if x.Op == token.ARROW {
			return true
		}
		if x.Op == token.MUL {
			if g, ok := x.X.(*ssa.Global); ok && lv.p.settledGlobal(g) {
				return false // written only while the package initialises, never handed out
			}
			return lv.writes || lv.varies(x.X)
		}
		return lv.varies(x.X)
	case *ssa.Lookup:
		return lv.writes || lv.anyOperand(x)
	case *ssa.Call:
		com := x.Common()
		if bi, ok := com.Value.(*ssa.Builtin); ok {
			switch bi.Name() {
			case "len", "cap", "min", "max":
				return lv.writes || lv.anyOperand(x)
			}
			return true
		}
		sc := com.StaticCallee()
		if sc == nil {
			return true
		}
		if !pureStdFn(sc) && !lv.p.readOnlyFn(sc) {
			return true
		}
		return lv.writes || lv.anyOperand(x)
	case *ssa.BinOp, *ssa.Convert, *ssa.ChangeType, *ssa.ChangeInterface, *ssa.MakeInterface, *ssa.TypeAssert,
		*ssa.Extract, *ssa.Field, *ssa.FieldAddr, *ssa.Index, *ssa.IndexAddr, *ssa.Slice, *ssa.SliceToArrayPointer:
		return lv.anyOperand(x.(ssa.Instruction))
	}
	return true // anything else: assume it can change (no alarm)
}

func runLoopVaries(p *Program, r *RuleResult, pkgs []string) {
	inDom := map[string]bool{}
	for _, k := range pkgs {
		inDom[k] = true
	}
	var fns []*ssa.Function
	for _, fn := range p.SrcFuncs {
		if fn.Pkg == nil && fn.Parent() != nil {
			continue
		}
		pk := fn.Pkg
		if pk == nil {
			continue
		}
		if inDom[pk.Pkg.Path()] {
			fns = append(fns, fn)
		}
	}
	sort.Slice(fns, func(i, j int) bool { return fnName(fns[i]) < fnName(fns[j]) })
	loops := 0
	for _, fn := range fns {
		view := p.View(fn)
		ls := view.Loops()
		hdrs := map[*ssa.BasicBlock]bool{}
		for _, l := range ls {
			hdrs[l.Header] = true
		}
		for li, l := range ls {
			loops++
			lv := &loopVar{p: p, view: view, loop: l, hdrs: hdrs, memo: map[ssa.Value]int{}}
			for b := range l.Body {
				for _, in := range view.Instrs(b) {
					switch x := in.(type) {
					case *ssa.Store, *ssa.MapUpdate, *ssa.Send, *ssa.Go, *ssa.Defer, *ssa.Select:
						lv.writes = true
					case *ssa.UnOp:
						if x.Op == token.ARROW {
							lv.writes = true
						}
					case *ssa.Call:
						com := x.Common()
						if bi, ok := com.Value.(*ssa.Builtin); ok {
							switch bi.Name() {
							case "len", "cap", "min", "max":
							case "append":
								if !localSlice(com.Args[0]) {
									lv.writes = true
								}
							default:
								lv.writes = true
							}
							continue
						}
						sc := com.StaticCallee()
						if sc == nil || (!pureStdFn(sc) && !p.readOnlyFn(sc)) {
							lv.writes = true
						}
					}
				}
			}
			exits, varying := 0, 0
			firstFixed := ""
			for b := range l.Body {
				ins := view.Instrs(b)
				if len(ins) == 0 {
					continue
				}
				leaves := false
				for _, s := range view.Succs(b) {
					if !l.Body[s] {
						leaves = true
					}
				}
				if !leaves {
					// a block cut by a call that never returns, or a return, also leaves
					if view.Exit(b) == NotExit {
						continue
					}
					exits++
					varying++ // reaching it is governed by the Ifs before it, judged there
					continue
				}
				exits++
				iff, ok := ins[len(ins)-1].(*ssa.If)
				if !ok {
					varying++
					continue
				}
				if lv.varies(iff.Cond) {
					varying++
				} else {
					at := p.instrPos(iff)
					if ci, ok := iff.Cond.(ssa.Instruction); ok && ci.Pos().IsValid() {
						at = p.pos(ci.Pos())
					}
					if firstFixed == "" || at < firstFixed {
						firstFixed = at
					}
				}
			}
			construct := fmt.Sprintf("loop%d:exit-can-change", li+1)
			switch {
			case exits == 0:
				r.add(fnName(fn), construct, Violated, p.pos(l.Header.Instrs[0].Pos()), "the loop has no exit at all")
			case varying == 0:
				r.add(fnName(fn), construct, Violated, firstFixed,
					fmt.Sprintf("all %d exit condition(s) of this loop are computed by read-only code from values fixed before the loop, and the loop writes nothing they read: once entered, it never ends", exits))
			default:
				r.add(fnName(fn), construct, Holds, "", fmt.Sprintf("%d of %d exits depend on something the loop advances or writes", varying, exits))
			}
		}
	}
	r.count("loops judged", loops)
}

// settledGlobal: a package-level variable of a basic type that is stored only by its
// package's initialiser and whose address is used for nothing but loads and that store.
func (p *Program) settledGlobal(g *ssa.Global) bool {
	if p.settled == nil {
		p.settled = map[*ssa.Global]bool{}
		unsettled := map[*ssa.Global]bool{}
		var fns []*ssa.Function
		fns = append(fns, p.SrcFuncs...)
		for _, pk := range p.SSAPkg {
			if f := pk.Func("init"); f != nil {
				fns = append(fns, f)
			}
		}
		for _, fn := range fns {
			isInit := fn.Name() == "init" && fn.Parent() == nil && fn.Signature.Recv() == nil
			for _, b := range fn.Blocks {
				for _, in := range b.Instrs {
					for _, op := range in.Operands(nil) {
						gg, ok := (*op).(*ssa.Global)
						if !ok {
							continue
						}
						switch x := in.(type) {
						case *ssa.UnOp:
							if x.Op == token.MUL {
								continue
							}
						case *ssa.Store:
							if x.Addr == ssa.Value(gg) && isInit && x.Val != ssa.Value(gg) {
								continue
							}
						}
						unsettled[gg] = true
					}
				}
			}
		}
		for _, pk := range p.SSAPkg {
			for _, m := range pk.Members {
				if gg, ok := m.(*ssa.Global); ok && !unsettled[gg] {
					if _, basic := gg.Type().(*types.Pointer).Elem().Underlying().(*types.Basic); basic {
						p.settled[gg] = true
					}
				}
			}
		}
	}
	return p.settled[g]
}
