package main

import (
	"fmt"
	"go/token"
	"go/types"
	"sort"
	"strings"

	"golang.org/x/tools/go/ssa"
)

// R-ATOMIC (C13): a location accessed through sync/atomic anywhere is accessed through
// it everywhere once goroutines may exist.

func init() {
	register(&Rule{Name: "R-ATOMIC", Min: 3,
		Doc: "every struct field or global whose address is passed to a sync/atomic function is otherwise accessed only in the composite literal that creates the object or at program points that cannot be preceded by a go statement (directly or through calls) and are not reachable from a goroutine entry",
		Run: runAtomic})
	ruleUsesCallGraph["R-ATOMIC"] = true
}

type fieldKey struct {
	T   string
	Idx int
}

func fieldKeyOf(fa *ssa.FieldAddr) (fieldKey, string) {
	pt := fa.X.Type().Underlying().(*types.Pointer)
	st := pt.Elem().Underlying().(*types.Struct)
	return fieldKey{pt.Elem().String(), fa.Field}, st.Field(fa.Field).Name()
}

// goFacts computes which first-party functions may execute a go statement (transitively)
// and which are reachable from a goroutine entry.
type goFacts struct {
	mayGo   map[*ssa.Function]bool
	inGo    map[*ssa.Function]bool
	entries []*ssa.Function
}

// mentionsType: t is *T / T for a carrier struct T, or a (pointer to a) struct with a field of such a type.
func mentionsType(t types.Type, carriers map[string]bool, depth int) bool {
	if pt, ok := t.Underlying().(*types.Pointer); ok {
		t = pt.Elem()
	}
	if carriers[t.String()] {
		return true
	}
	if depth > 1 {
		return false
	}
	if st, ok := t.Underlying().(*types.Struct); ok {
		for i := 0; i < st.NumFields(); i++ {
			if mentionsType(st.Field(i).Type(), carriers, depth+1) {
				return true
			}
		}
	}
	return false
}

func fnMentions(fn *ssa.Function, carriers map[string]bool) bool {
	for _, prm := range fn.Params {
		if mentionsType(prm.Type(), carriers, 0) {
			return true
		}
	}
	for _, fv := range fn.FreeVars {
		t := fv.Type()
		if pt, ok := t.(*types.Pointer); ok { // cell
			t = pt.Elem()
		}
		if mentionsType(t, carriers, 0) {
			return true
		}
	}
	return false
}

// computeGoFacts: carriers == nil means every go statement counts; otherwise only go
// statements whose target receives (a structure holding) a carrier object.
func (p *Program) computeGoFacts(carriers map[string]bool) *goFacts {
	g := p.VTA()
	if useCHA {
		g = p.CHA()
	}
	gf := &goFacts{mayGo: map[*ssa.Function]bool{}, inGo: map[*ssa.Function]bool{}}
	callees := map[*ssa.Function][]*ssa.Function{}
	var entries []*ssa.Function
	for _, fn := range p.SrcFuncs {
		for _, c := range p.callsIn(fn) {
			cs := p.Callees(g, c)
			if _, isGo := c.(*ssa.Go); isGo {
				for _, tgt := range cs {
					if carriers == nil || fnMentions(tgt, carriers) {
						gf.mayGo[fn] = true
						entries = append(entries, tgt)
					}
				}
			}
			callees[fn] = append(callees[fn], cs...)
		}
	}
	for changed := true; changed; {
		changed = false
		for _, fn := range p.SrcFuncs {
			if gf.mayGo[fn] {
				continue
			}
			for _, c := range callees[fn] {
				if gf.mayGo[c] {
					gf.mayGo[fn] = true
					changed = true
					break
				}
			}
		}
	}
	var walk func(fn *ssa.Function)
	walk = func(fn *ssa.Function) {
		if fn == nil || gf.inGo[fn] {
			return
		}
		gf.inGo[fn] = true
		for _, c := range callees[fn] {
			walk(c)
		}
		for _, an := range fn.AnonFuncs {
			walk(an)
		}
	}
	for _, e := range entries {
		walk(e)
	}
	gf.entries = entries
	return gf
}

func isAtomicCall(c ssa.CallInstruction) bool {
	sc := c.Common().StaticCallee()
	return sc != nil && sc.Pkg != nil && sc.Pkg.Pkg.Path() == "sync/atomic"
}

func runAtomic(p *Program, r *RuleResult) {
	g := p.VTA()
	if useCHA {
		g = p.CHA()
	}
	// 1. atomic locations
	atomicFields := map[fieldKey]string{}
	atomicSites := 0
	for _, fn := range p.SrcFuncs {
		for _, c := range p.callsIn(fn) {
			if !isAtomicCall(c) {
				continue
			}
			for _, a := range c.Common().Args {
				if fa, ok := a.(*ssa.FieldAddr); ok {
					k, n := fieldKeyOf(fa)
					atomicFields[k] = n
					atomicSites++
				}
			}
		}
	}
	r.count("atomic call sites", atomicSites)
	r.count("atomic fields", len(atomicFields))
	if len(atomicFields) == 0 {
		r.add("<program>", "atomic-locations", Undecided, "", "no field is accessed through sync/atomic any more: the counters' synchronisation changed, rule needs re-anchoring")
		return
	}
	carriers := map[string]bool{}
	for k := range atomicFields {
		carriers[k.T] = true
	}
	gf := p.computeGoFacts(carriers)
	var en []string
	for _, e := range gf.entries {
		en = append(en, fnName(e))
	}
	sort.Strings(en)
	r.note("goroutine entries that receive a counter-carrying object: %v", en)
	// callers
	callers := map[*ssa.Function][]ssa.CallInstruction{}
	for _, fn := range p.SrcFuncs {
		for _, c := range p.callsIn(fn) {
			for _, callee := range p.Callees(g, c) {
				callers[callee] = append(callers[callee], c)
			}
		}
	}
	// unsafeAt: why an access at `in` of fn may run while a goroutine sharing the object exists
	var unsafeAt func(fn *ssa.Function, in ssa.Instruction, seen map[*ssa.Function]bool, depth int) string
	unsafeAt = func(fn *ssa.Function, in ssa.Instruction, seen map[*ssa.Function]bool, depth int) string {
		if gf.inGo[fn] {
			return fnName(fn) + " is reachable from a goroutine entry point that shares the object"
		}
		view := p.View(fn)
		for _, c := range p.callsIn(fn) {
			spawns := false
			if _, isGo := c.(*ssa.Go); isGo {
				for _, tgt := range p.Callees(g, c) {
					if fnMentions(tgt, carriers) {
						spawns = true
					}
				}
			} else {
				for _, callee := range p.Callees(g, c) {
					if gf.mayGo[callee] {
						spawns = true
					}
				}
			}
			if !spawns {
				continue
			}
			if ssa.Instruction(c) == in {
				continue
			}
			if hits := view.mayReachFrom(c, nil, func(i ssa.Instruction) bool { return i == in }, nil); len(hits) > 0 {
				return "in " + fnName(fn) + " it can execute after " + p.instrPos(c) + ", which may start goroutines sharing the object"
			}
		}
		if seen[fn] || depth > 6 {
			return ""
		}
		seen[fn] = true
		cs := callers[fn]
		if fn.Parent() != nil {
			return "" // closure: judged where it is created/called (same function)
		}
		for _, c := range cs {
			if w := unsafeAt(c.Parent(), c, seen, depth+1); w != "" {
				return "called at " + p.instrPos(c) + ": " + w
			}
		}
		return ""
	}
	// 2. all other accesses
	type site struct {
		fn   *ssa.Function
		in   ssa.Instruction
		k    fieldKey
		kind string
	}
	var plain []site
	for _, fn := range p.SrcFuncs {
		view := p.View(fn)
		for _, b := range view.Blocks() {
			for _, in := range view.Instrs(b) {
				fa, ok := in.(*ssa.FieldAddr)
				if !ok {
					continue
				}
				k, _ := fieldKeyOf(fa)
				if _, isAt := atomicFields[k]; !isAt {
					continue
				}
				if refs := fa.Referrers(); refs != nil {
					for _, u := range *refs {
						switch x := u.(type) {
						case ssa.CallInstruction:
							if isAtomicCall(x) {
								continue
							}
							plain = append(plain, site{fn, u, k, "address passed to a non-atomic call"})
						case *ssa.Store:
							if x.Addr == ssa.Value(fa) {
								// composite literal of a fresh object?
								if _, fresh := fa.X.(*ssa.Alloc); fresh {
									continue
								}
								plain = append(plain, site{fn, u, k, "plain write"})
							}
						case *ssa.UnOp:
							plain = append(plain, site{fn, u, k, "plain read"})
						case *ssa.DebugRef:
						default:
							plain = append(plain, site{fn, u, k, fmt.Sprintf("address escapes (%T)", u)})
						}
					}
				}
			}
		}
	}
	r.count("plain access sites", len(plain))
	// 3. judge each field: obligation per (field, function, kind#n)
	perField := map[fieldKey][]string{}
	ord := map[string]int{}
	for _, s := range plain {
		fname := atomicFields[s.k]
		kk := fnName(s.fn) + "|" + fname + "|" + s.kind
		ord[kk]++
		construct := fmt.Sprintf("field:%s %s#%d", fname, s.kind, ord[kk])
		why := unsafeAt(s.fn, s.in, map[*ssa.Function]bool{}, 0)
		if why == "" {
			r.add(fnName(s.fn), construct, Holds, p.instrPos(s.in), "before any goroutine of the run can exist")
		} else {
			r.add(fnName(s.fn), construct, Violated, p.instrPos(s.in),
				fmt.Sprintf("%s of %s, which is updated with sync/atomic elsewhere: %s – unsynchronised with the atomic updates (data race)", s.kind, fname, why))
		}
		perField[s.k] = append(perField[s.k], construct)
	}
	var keys []string
	for k, n := range atomicFields {
		keys = append(keys, fmt.Sprintf("%s.%s", k.T, n))
		if len(perField[k]) == 0 {
			r.add("<program>", "field:"+n, Holds, "", "only accessed through sync/atomic")
		}
	}
	sort.Strings(keys)
	r.note("atomic locations: %v", keys)
}

func isExportedAPI(fn *ssa.Function) bool {
	if fn.Object() == nil || !fn.Object().Exported() {
		return false
	}
	return true
}

// R-PUBLISH-BEFORE-CANCEL (C13): a plain field written by a goroutine of the run and read
// by drivers after completion is written before the cancellation its readers wait for.
func init() {
	register(&Rule{Name: "R-PUBLISH-BEFORE-CANCEL", Min: 1,
		Doc: "every non-atomic field of the runtime environment that a goroutine of the run writes and an exported accessor reads (the time taken) is stored, in the goroutine that owns the cancel function, before that cancel function can run: in the function body when cancel is deferred, and never inside a deferred function that runs after the deferred cancel (defers run last-in-first-out)",
		Run: runPublishBeforeCancel})
	ruleUsesCallGraph["R-PUBLISH-BEFORE-CANCEL"] = true
}

func runPublishBeforeCancel(p *Program, r *RuleResult) {
	re := p.Named(processPkg, "RuntimeEnvironment")
	carriers := map[string]bool{re.String(): true}
	gf := p.computeGoFacts(carriers)
	// fields read by exported accessors of the runtime environment
	readByAPI := map[string]bool{}
	for _, fn := range p.SrcFuncs {
		if fn.Signature.Recv() == nil || !isNamed(fn.Signature.Recv().Type(), processPkg, "RuntimeEnvironment") || fn.Object() == nil || !fn.Object().Exported() {
			continue
		}
		for _, b := range fn.Blocks {
			for _, in := range b.Instrs {
				if fa, ok := in.(*ssa.FieldAddr); ok && isNamed(fa.X.Type(), processPkg, "RuntimeEnvironment") {
					for _, u := range *fa.Referrers() {
						if ld, ok := u.(*ssa.UnOp); ok && ld.X == ssa.Value(fa) {
							_, n, _ := fieldNameOf(fa)
							readByAPI[n] = true
						}
					}
				}
			}
		}
	}
	n := 0
	for _, fn := range p.SrcFuncs {
		root := rootMethod(fn)
		if !gf.inGo[root] && !gf.inGo[fn] {
			continue
		}
		for _, b := range fn.Blocks {
			for _, in := range b.Instrs {
				st, ok := in.(*ssa.Store)
				if !ok {
					continue
				}
				fa, ok := st.Addr.(*ssa.FieldAddr)
				if !ok || !isNamed(fa.X.Type(), processPkg, "RuntimeEnvironment") {
					continue
				}
				_, fname, _ := fieldNameOf(fa)
				if !readByAPI[fname] {
					continue
				}
				// atomic fields are covered by R-ATOMIC
				n++
				construct := fmt.Sprintf("publish:%s#%d", fname, n)
				// the cancel function of the owning goroutine entry
				var cancel *ssa.Parameter
				for _, prm := range root.Params {
					if isNamed(prm.Type(), "context", "CancelFunc") {
						cancel = prm
					}
				}
				if cancel == nil {
					r.add(fnName(fn), construct, Violated, p.instrPos(st), fmt.Sprintf("field %s is written by a goroutine of the run and read by an exported accessor, but the writer does not own the cancellation its readers wait for: no ordering between the write and the read", fname))
					continue
				}
				// how is cancel invoked in root?
				var deferCancel *ssa.Defer
				var directCancel []ssa.Instruction
				for _, bb := range root.Blocks {
					for _, i2 := range bb.Instrs {
						switch x := i2.(type) {
						case *ssa.Defer:
							if origin(x.Call.Value) == ssa.Value(cancel) {
								deferCancel = x
							}
						case *ssa.Call:
							if origin(x.Call.Value) == ssa.Value(cancel) {
								directCancel = append(directCancel, x)
							}
						}
					}
				}
				view := p.View(root)
				switch {
				case fn == root:
					bad := ""
					for _, dc := range directCancel {
						if hits := view.mayReachFrom(dc, nil, func(i ssa.Instruction) bool { return i == ssa.Instruction(st) }, nil); len(hits) > 0 {
							bad = "the write can execute after the direct call of cancel at " + p.instrPos(dc)
						}
					}
					if bad != "" {
						r.add(fnName(fn), construct, Violated, p.instrPos(st), bad)
					} else if deferCancel != nil || len(directCancel) > 0 {
						r.add(fnName(fn), construct, Holds, p.instrPos(st), "written in the body; cancel runs afterwards (deferred or later call)")
					} else {
						r.add(fnName(fn), construct, Violated, p.instrPos(st), "the goroutine never invokes its cancel function")
					}
				default:
					// inside a closure: is it deferred, and registered after the deferred cancel?
					var deferred *ssa.Defer
					for _, mc := range closureSites(fn) {
						for _, u := range *mc.Referrers() {
							if df, ok := u.(*ssa.Defer); ok && df.Call.Value == ssa.Value(mc) {
								deferred = df
							}
						}
					}
					switch {
					case deferred == nil:
						r.add(fnName(fn), construct, Undecided, p.instrPos(st), "the write happens in a closure whose invocation is not analysed")
					case deferCancel == nil:
						r.add(fnName(fn), construct, Undecided, p.instrPos(st), "the write happens in a deferred function but cancel is not deferred")
					case view.passedBefore(deferred, func(i ssa.Instruction) bool { return i == ssa.Instruction(deferCancel) }):
						r.add(fnName(fn), construct, Holds, p.instrPos(st), "deferred after the deferred cancel, so it runs before it (LIFO)")
					default:
						r.add(fnName(fn), construct, Violated, p.instrPos(st),
							fmt.Sprintf("field %s is written in a deferred function registered before `defer cancel()`: defers run last-in-first-out, so cancel (which releases the drivers waiting on ctx.Done) runs before the write and the accessor races with it", fname))
					}
				}
			}
		}
	}
	if n == 0 {
		r.add("process", "published-fields", Undecided, "", "no field written by a goroutine and read by an exported accessor found (anchor lost)")
	}
}

// R-SHARED-WRITE (C13): the objects every process goroutine of a run shares are not written
// by plain stores from code those goroutines execute.
func init() {
	ruleUsesCallGraph["R-SHARED-WRITE"] = true
	register(&Rule{Name: "R-SHARED-WRITE", Min: 1,
		Doc: "in every function reachable (VTA call graph) from a goroutine entry of the interpreter, no plain store goes into a field of the run-wide shared objects (the runtime environment and the global environment) or into an element of a map or slice reached through them; the counters use sync/atomic (R-ATOMIC) and everything else is set up before the first goroutine starts (R-REINIT)",
		Run: runSharedWrite})
}

func runSharedWrite(p *Program, r *RuleResult) {
	// the process goroutines: targets of go statements whose receiver is a *Process
	var entries []*ssa.Function
	for _, fn := range p.SrcFuncs {
		if fn.Pkg == nil || fn.Pkg.Pkg.Path() != processPkg {
			continue
		}
		for _, c := range p.callsIn(fn) {
			if g, ok := c.(*ssa.Go); ok {
				if sc := g.Common().StaticCallee(); sc != nil && sc.Signature.Recv() != nil && isNamed(sc.Signature.Recv().Type(), processPkg, "Process") {
					entries = append(entries, sc)
				}
			}
		}
	}
	if len(entries) == 0 {
		r.add(processPkg, "process-goroutine-entries", Undecided, "", "no go statement starting a *Process method found")
		return
	}
	inGo := p.reachableFuncs(entries, useCHA)
	gf := &goFacts{inGo: inGo}
	shared := map[string]bool{"RuntimeEnvironment": true, "GlobalEnvironment": true}
	isShared := func(t types.Type) bool {
		n := namedOf(t)
		return n != nil && n.Obj().Pkg() != nil && n.Obj().Pkg().Path() == processPkg && shared[n.Obj().Name()]
	}
	// address rooted in a shared object?
	var rooted func(v ssa.Value, d int) string
	rooted = func(v ssa.Value, d int) string {
		if d > 8 {
			return ""
		}
		switch x := v.(type) {
		case *ssa.FieldAddr:
			if isShared(x.X.Type()) {
				_, f, _ := fieldNameOf(x)
				return namedOf(x.X.Type()).Obj().Name() + "." + f
			}
			return rooted(x.X, d+1)
		case *ssa.IndexAddr:
			return rooted(x.X, d+1)
		case *ssa.UnOp:
			return rooted(x.X, d+1)
		case *ssa.Field:
			if isShared(x.X.Type()) {
				_, f, _ := fieldNameOf(x)
				return namedOf(x.X.Type()).Obj().Name() + "." + f
			}
			return rooted(x.X, d+1)
		}
		return ""
	}
	nFn, nStores := 0, 0
	for _, fn := range p.SrcFuncs {
		if !gf.inGo[fn] || fn.Blocks == nil || !p.isFirstParty(fn) {
			continue
		}
		root := fn
		for root.Parent() != nil {
			root = root.Parent()
		}
		if root.Pkg == nil || root.Pkg.Pkg.Path() != processPkg {
			continue
		}
		nFn++
		ord := 0
		for _, b := range fn.Blocks {
			for _, in := range b.Instrs {
				var addr ssa.Value
				switch x := in.(type) {
				case *ssa.Store:
					addr = x.Addr
				case *ssa.MapUpdate:
					addr = x.Map
				}
				if ld, ok := in.(*ssa.UnOp); ok && ld.Op == token.MUL {
					// a library object kept in the shared environment and used from the process
					// goroutines: everything outside the concurrency-safe few (contexts, files,
					// loggers, sync types) mutates itself in its methods (bufio.Writer,
					// bytes.Buffer, strings.Builder, rand.Rand …)
					if fa, ok := ld.X.(*ssa.FieldAddr); ok && isShared(fa.X.Type()) && foreignUnsafeType(ld.Type()) && ld.Referrers() != nil {
						used := false
						var walk func(v ssa.Value, d int)
						walk = func(v ssa.Value, d int) {
							if v.Referrers() == nil || d > 2 {
								return
							}
							for _, u := range *v.Referrers() {
								switch x := u.(type) {
								case ssa.CallInstruction:
									used = true
								case *ssa.MakeInterface:
									walk(x, d+1)
								case *ssa.ChangeInterface:
									walk(x, d+1)
								}
							}
						}
						walk(ld, 0)
						if used {
							_, f, _ := fieldNameOf(fa)
							ord++
							r.add(fnName(fn), fmt.Sprintf("shared-library-object#%d-%s.%s", ord, namedOf(fa.X.Type()).Obj().Name(), f), Violated, p.instrPos(ld),
								fmt.Sprintf("%s.%s holds a %s, which is not safe for concurrent use, and code that the process goroutines run calls it or hands it to a call: every process of the run shares that one object, so two steps at the same time corrupt it", namedOf(fa.X.Type()).Obj().Name(), f, ld.Type()))
						}
					}
				}
				if addr == nil {
					// the address of a field of a shared object that is neither loaded from nor
					// navigated further nor handed to sync/atomic escapes: whoever receives it
					// writes through it (fmt.Fprintf(&re.buf, …), Sscan(&re.x), a method with a
					// pointer receiver)
					fa, ok := in.(*ssa.FieldAddr)
					if !ok || !isShared(fa.X.Type()) || fa.Referrers() == nil {
						continue
					}
					ft := fa.Type().Underlying().(*types.Pointer).Elem()
					if n := namedOf(ft); n != nil && n.Obj().Pkg() != nil && (n.Obj().Pkg().Path() == "sync" || n.Obj().Pkg().Path() == "sync/atomic") {
						continue
					}
					for _, u := range *fa.Referrers() {
						esc := false
						switch x := u.(type) {
						case *ssa.UnOp, *ssa.FieldAddr, *ssa.IndexAddr, *ssa.DebugRef:
						case *ssa.Store:
							esc = x.Val == ssa.Value(fa)
						case ssa.CallInstruction:
							esc = !isAtomicCall(x)
						default:
							esc = true
						}
						if esc {
							_, f, _ := fieldNameOf(fa)
							ord++
							r.add(fnName(fn), fmt.Sprintf("address-escapes#%d-of-%s.%s", ord, namedOf(fa.X.Type()).Obj().Name(), f), Violated, p.instrPos(u),
								fmt.Sprintf("the address of %s.%s leaves the expression (it is passed on or stored) in code that the process goroutines run: every process of the run shares that object, so concurrent steps write it without synchronisation (lost or torn updates)", namedOf(fa.X.Type()).Obj().Name(), f))
						}
					}
					continue
				}
				nStores++
				if w := rooted(addr, 0); w != "" {
					ord++
					r.add(fnName(fn), fmt.Sprintf("plain-store#%d-to-%s", ord, w), Violated, p.instrPos(in),
						fmt.Sprintf("%s is written by a plain store in code that the process goroutines run: every process of the run shares that object, so two of them (or one of them and the driver reading it) race", w))
				}
			}
		}
	}
	if nFn >= 50 {
		r.add("process (goroutine-reachable code)", "no-plain-store-into-shared-environment", Holds, "", fmt.Sprintf("%d functions reachable from goroutine entries, %d stores examined", nFn, nStores))
	} else {
		r.add("process (goroutine-reachable code)", "no-plain-store-into-shared-environment", Undecided, "", fmt.Sprintf("only %d goroutine-reachable functions found (at least 50 confirmed by hand)", nFn))
	}
}

// R-MONITOR-CONFINED (C13): the monitor's tables belong to one goroutine.
func init() {
	ruleUsesCallGraph["R-MONITOR-CONFINED"] = true
	register(&Rule{Name: "R-MONITOR-CONFINED", Min: 2,
		Doc: "the map- and slice-typed fields of the monitor are touched only by functions that run on the monitor's own goroutine: all go statements whose target reaches such a function start the same entry function, and no function reachable from a process goroutine touches them (processes report to the monitor over its channel)",
		Run: runMonitorConfined})
}

func runMonitorConfined(p *Program, r *RuleResult) {
	mon := p.Named(processPkg, "Monitor")
	touches := map[*ssa.Function]bool{}
	for _, fn := range p.SrcFuncs {
		if fn.Pkg == nil || fn.Pkg.Pkg.Path() != processPkg || fn.Blocks == nil {
			continue
		}
		for _, b := range fn.Blocks {
			for _, in := range b.Instrs {
				fa, ok := in.(*ssa.FieldAddr)
				if !ok {
					continue
				}
				n := namedOf(fa.X.Type())
				if n == nil || n.Obj() != mon.Obj() {
					continue
				}
				if _, fresh := origin(fa.X).(*ssa.Alloc); fresh {
					continue // the constructor fills the object it has just allocated
				}
				switch fa.Type().Underlying().(*types.Pointer).Elem().Underlying().(type) {
				case *types.Map, *types.Slice:
					touches[fn] = true
				}
			}
		}
	}
	if len(touches) == 0 {
		r.add("process.Monitor", "monitor-tables", Undecided, "", "no function touching a map or slice field of the monitor found")
		return
	}
	g := p.VTA()
	if useCHA {
		g = p.CHA()
	}
	// does fn (through ordinary calls, not go statements) reach a function touching the tables?
	memo := map[*ssa.Function]int{}
	var reaches func(fn *ssa.Function) bool
	reaches = func(fn *ssa.Function) bool {
		if fn == nil {
			return false
		}
		if v, ok := memo[fn]; ok {
			return v == 1
		}
		memo[fn] = 0
		res := touches[fn]
		if !res && fn.Blocks != nil {
			for _, c := range p.callsIn(fn) {
				if _, isGo := c.(*ssa.Go); isGo {
					continue
				}
				for _, callee := range p.Callees(g, c) {
					if reaches(callee) {
						res = true
					}
				}
			}
			for _, an := range fn.AnonFuncs {
				_ = an
			}
		}
		if res {
			memo[fn] = 1
		}
		return res
	}
	entries := map[*ssa.Function][]string{}
	for _, fn := range p.SrcFuncs {
		if !p.isFirstParty(fn) {
			continue
		}
		for _, c := range p.callsIn(fn) {
			if _, isGo := c.(*ssa.Go); !isGo {
				continue
			}
			for _, t := range p.Callees(g, c) {
				if reaches(t) {
					entries[t] = append(entries[t], p.instrPos(c))
				}
			}
		}
	}
	var names []string
	for e := range entries {
		names = append(names, fnName(e))
	}
	sort.Strings(names)
	switch {
	case len(entries) == 1:
		r.add("process.Monitor", "one-owning-goroutine", Holds, "", fmt.Sprintf("every goroutine that reaches the monitor's tables starts in %s (%d functions touch the tables)", names[0], len(touches)))
	case len(entries) == 0:
		r.add("process.Monitor", "one-owning-goroutine", Undecided, "", "no goroutine entry reaches the monitor's tables")
	default:
		for e, where := range entries {
			r.add(fnName(e), "one-owning-goroutine", Violated, where[0], fmt.Sprintf("goroutines with different entry functions (%v) reach the monitor's maps: they are read and written concurrently without synchronisation", names))
		}
	}
	// anyone else who reads the tables (the driver, after the run) first synchronises with
	// the monitor goroutine: a blocking send on one of the monitor's channels, directly or
	// in a callee on all of its paths, precedes the access
	var owner *ssa.Function
	for e := range entries {
		owner = e
	}
	ownerReach := map[*ssa.Function]bool{}
	if owner != nil && len(entries) == 1 {
		ownerReach = p.reachableFuncs([]*ssa.Function{owner}, useCHA)
	}
	blockingSend := func(in ssa.Instruction) bool {
		snd, ok := in.(*ssa.Send)
		if !ok {
			return false
		}
		ch := snd.Chan
		if ld, ok := ch.(*ssa.UnOp); ok {
			ch = ld.X
		}
		fa, ok := ch.(*ssa.FieldAddr)
		if !ok {
			return false
		}
		n := namedOf(fa.X.Type())
		return n != nil && n.Obj() == mon.Obj()
	}
	var alwaysSyncs func(fn *ssa.Function, d int) bool
	alwaysSyncs = func(fn *ssa.Function, d int) bool {
		if fn == nil || fn.Blocks == nil || d > 3 {
			return false
		}
		v := p.View(fn)
		pred := func(in ssa.Instruction) bool {
			if blockingSend(in) {
				return true
			}
			if c, ok := in.(*ssa.Call); ok {
				return alwaysSyncs(c.Common().StaticCallee(), d+1)
			}
			return false
		}
		must := v.mustPassBefore(pred)
		for _, b := range v.Blocks() {
			ins := v.Instrs(b)
			if _, ok := ins[len(ins)-1].(*ssa.Return); !ok {
				continue
			}
			passed := must[b]
			for _, in := range ins {
				if pred(in) {
					passed = true
				}
			}
			if !passed {
				return false
			}
		}
		return true
	}
	for fn := range touches {
		if ownerReach[fn] || len(entries) != 1 {
			continue
		}
		// an accessor outside the monitor goroutine; one that nothing calls is only noted
		called := false
		for _, g2 := range p.SrcFuncs {
			for _, c := range p.callsIn(g2) {
				if c.Common().StaticCallee() == fn {
					called = true
				}
			}
		}
		// the exported methods of the runtime environment are the driver's API: judged even
		// when only tests call them
		if recv := fn.Signature.Recv(); recv != nil && isNamed(derefT(recv.Type()), processPkg, "RuntimeEnvironment") && token.IsExported(fn.Name()) {
			called = true
		}
		if !called {
			r.note("accessor without callers (not judged): %s", fnName(fn))
			continue
		}
		view := p.View(fn)
		for _, b := range fn.Blocks {
			for _, in := range b.Instrs {
				fa, ok := in.(*ssa.FieldAddr)
				if !ok {
					continue
				}
				if n := namedOf(fa.X.Type()); n == nil || n.Obj() != mon.Obj() {
					continue
				}
				switch fa.Type().Underlying().(*types.Pointer).Elem().Underlying().(type) {
				case *types.Map, *types.Slice:
				default:
					continue
				}
				_, f, _ := fieldNameOf(fa)
				construct := "outside-access-after-handshake:" + f
				synced := view.passedBefore(fa, func(x ssa.Instruction) bool {
					if blockingSend(x) {
						return true
					}
					if c, ok := x.(*ssa.Call); ok {
						return alwaysSyncs(c.Common().StaticCallee(), 0)
					}
					return false
				})
				if synced {
					r.add(fnName(fn), construct, Holds, p.instrPos(fa), "read after a blocking send to the monitor goroutine")
				} else {
					r.add(fnName(fn), construct, Violated, p.instrPos(fa), fmt.Sprintf("%s reads the monitor's %s from outside the monitor goroutine without a blocking hand-shake before it on every path (a send that may be skipped, e.g. in a select with a default, does not order the two goroutines): the monitor can still be appending", fnName(fn), f))
				}
			}
		}
	}
	// process goroutines do not touch them
	var pentries []*ssa.Function
	for _, fn := range p.SrcFuncs {
		if fn.Pkg == nil || fn.Pkg.Pkg.Path() != processPkg {
			continue
		}
		for _, c := range p.callsIn(fn) {
			if gg, ok := c.(*ssa.Go); ok {
				if sc := gg.Common().StaticCallee(); sc != nil && sc.Signature.Recv() != nil && isNamed(sc.Signature.Recv().Type(), processPkg, "Process") {
					pentries = append(pentries, sc)
				}
			}
		}
	}
	bad := ""
	for fn := range p.reachableFuncs(pentries, useCHA) {
		if touches[fn] {
			bad = fnName(fn)
		}
	}
	if bad != "" {
		r.add(bad, "processes-do-not-touch-monitor-tables", Violated, "", "a function that the process goroutines run accesses the monitor's maps directly instead of reporting over the monitor's channel")
	} else {
		r.add("process.Monitor", "processes-do-not-touch-monitor-tables", Holds, "", "")
	}
}

// R-LOCK-PAIRED (C11, C13, C02): every lock taken is released on every way out.
func init() {
	register(&Rule{Name: "R-LOCK-PAIRED", Min: 1,
		Doc: "for every call of Lock/RLock on a sync.Mutex or sync.RWMutex in first-party code: no return of the function is reachable from the call without passing the matching Unlock/RUnlock on the same mutex, unless that unlock was deferred before; a lock that stays held after an error return blocks every later caller forever",
		Run: runLockPaired})
}

func runLockPaired(p *Program, r *RuleResult) {
	nFn, nLocks := 0, 0
	for _, fn := range p.SrcFuncs {
		if fn.Blocks == nil || !p.isFirstParty(fn) {
			continue
		}
		nFn++
		view := p.View(fn)
		ord := 0
		for _, c := range p.callsIn(fn) {
			sc := c.Common().StaticCallee()
			if sc == nil || sc.Pkg == nil || sc.Pkg.Pkg.Path() != "sync" || !(sc.Name() == "Lock" || sc.Name() == "RLock") {
				continue
			}
			if _, isDefer := c.(*ssa.Defer); isDefer {
				continue
			}
			nLocks++
			ord++
			mu := exprKey(c.Common().Args[0])
			want := "Unlock"
			if sc.Name() == "RLock" {
				want = "RUnlock"
			}
			isUnlock := func(in ssa.Instruction) bool {
				u, ok := in.(ssa.CallInstruction)
				if !ok {
					return false
				}
				us := u.Common().StaticCallee()
				return us != nil && us.Pkg != nil && us.Pkg.Pkg.Path() == "sync" && us.Name() == want && exprKey(u.Common().Args[0]) == mu
			}
			// a deferred unlock anywhere in the function that is passed before or right after the lock
			deferred := false
			for _, b := range fn.Blocks {
				for _, in := range b.Instrs {
					if d, ok := in.(*ssa.Defer); ok && isUnlock(d) {
						deferred = true
					}
				}
			}
			construct := fmt.Sprintf("%s#%d-of-%s", sc.Name(), ord, displayKey(c.Common().Args[0]))
			if deferred {
				r.add(fnName(fn), construct, Holds, p.instrPos(c), "released by a deferred "+want)
				continue
			}
			hits := view.mayReachFrom(c, nil, func(in ssa.Instruction) bool { _, ok := in.(*ssa.Return); return ok }, isUnlock)
			if len(hits) > 0 {
				r.add(fnName(fn), construct, Violated, p.instrPos(c),
					fmt.Sprintf("the function can return at %s with the lock still held: the next caller blocks forever in %s", p.instrPos(hits[0]), sc.Name()))
			} else {
				r.add(fnName(fn), construct, Holds, p.instrPos(c), "every return is preceded by "+want)
			}
		}
	}
	if nFn >= 300 {
		r.add("first-party code", "lock-calls-scanned", Holds, "", fmt.Sprintf("%d functions scanned, %d lock calls", nFn, nLocks))
	} else {
		r.add("first-party code", "lock-calls-scanned", Undecided, "", fmt.Sprintf("only %d functions scanned", nFn))
	}
}

// R-CLOSE-OWNER (C19, C13): a channel the process goroutines send on is closed by one of
// them, never by a service goroutine.
func init() {
	register(&Rule{Name: "R-CLOSE-OWNER", Min: 1,
		Doc: "every close of a channel held in a struct field in package process: if functions that run on the interpreter's process goroutines (reachable from the go statements that start a *Process method) send on that field, the closing function runs on those goroutines too (a process closing the channels it provides). A service goroutine – the monitor loop, the heartbeat receiver – closing a channel that processes still report on turns their next send into `panic: send on closed channel`, which takes the whole host down while a later, unrelated program is running",
		Run: runCloseOwner})
}

func runCloseOwner(p *Program, r *RuleResult) {
	var entries []*ssa.Function
	for _, fn := range p.SrcFuncs {
		if fn.Pkg == nil || fn.Pkg.Pkg.Path() != processPkg {
			continue
		}
		for _, c := range p.callsIn(fn) {
			if g, ok := c.(*ssa.Go); ok {
				if sc := g.Common().StaticCallee(); sc != nil && sc.Signature.Recv() != nil && isNamed(sc.Signature.Recv().Type(), processPkg, "Process") {
					entries = append(entries, sc)
				}
			}
		}
	}
	if len(entries) == 0 {
		r.add(processPkg, "process-goroutine-entries", Undecided, "", "no go statement starting a *Process method found")
		return
	}
	inGo := p.reachableFuncs(entries, useCHA)
	fieldKey := func(v ssa.Value) string {
		if ld, ok := v.(*ssa.UnOp); ok {
			v = ld.X
		}
		switch x := v.(type) {
		case *ssa.FieldAddr:
			if nt := namedOf(x.X.Type()); nt != nil {
				_, f, _ := fieldNameOf(x)
				return nt.Obj().Name() + "." + f
			}
		case *ssa.Field:
			if nt := namedOf(x.X.Type()); nt != nil {
				_, f, _ := fieldNameOf(x)
				return nt.Obj().Name() + "." + f
			}
		}
		return ""
	}
	// senders per field, on process goroutines
	senders := map[string]string{}
	for fn := range inGo {
		if fn.Blocks == nil {
			continue
		}
		for _, b := range fn.Blocks {
			for _, in := range b.Instrs {
				switch x := in.(type) {
				case *ssa.Send:
					if k := fieldKey(x.Chan); k != "" {
						senders[k] = fnName(fn)
					}
				case *ssa.Select:
					for _, st := range x.States {
						if st.Dir == types.SendOnly {
							if k := fieldKey(st.Chan); k != "" {
								senders[k] = fnName(fn)
							}
						}
					}
				}
			}
		}
	}
	n := 0
	var fns []*ssa.Function
	for _, fn := range p.SrcFuncs {
		pk := fn.Pkg
		if pk == nil && fn.Parent() != nil {
			pk = fn.Parent().Pkg
		}
		if pk != nil && pk.Pkg.Path() == processPkg {
			fns = append(fns, fn)
		}
	}
	sort.Slice(fns, func(i, j int) bool { return fnName(fns[i]) < fnName(fns[j]) })
	for _, fn := range fns {
		ord := 0
		for _, c := range p.callsIn(fn) {
			bi, ok := c.Common().Value.(*ssa.Builtin)
			if !ok || bi.Name() != "close" || len(c.Common().Args) != 1 {
				continue
			}
			k := fieldKey(c.Common().Args[0])
			if k == "" {
				continue
			}
			n++
			ord++
			construct := fmt.Sprintf("close#%d:%s", ord, k)
			who, sent := senders[k]
			switch {
			case !sent:
				r.add(fnName(fn), construct, Holds, p.instrPos(c), "no process goroutine sends on this field")
			case inGo[fn]:
				r.add(fnName(fn), construct, Holds, p.instrPos(c), "closed on a process goroutine (the provider closing its own channels)")
			default:
				r.add(fnName(fn), construct, Violated, p.instrPos(c),
					fmt.Sprintf("%s is closed by a function that does not run on a process goroutine, while processes send on it (%s): a process that reports after the close panics with `send on closed channel` and ends the host process", k, who))
			}
		}
	}
	r.count("closes of channel fields", n)
}

// foreignUnsafeType: a pointer to a named type of a package outside the module (or an
// interface other than the few whose implementations are safe by contract) that is not one of
// the library types documented as safe for concurrent use.
func foreignUnsafeType(t types.Type) bool {
	safe := map[string]bool{"context.Context": true, "os.File": true, "log.Logger": true, "time.Location": true, "time.Timer": true, "time.Ticker": true,
		"net/http.Client": true, "net/http.Server": true, "regexp.Regexp": true, "error": true}
	var n *types.Named
	switch u := t.Underlying().(type) {
	case *types.Pointer:
		n = namedOf(u.Elem())
	case *types.Interface:
		n = namedOf(t)
		if n == nil {
			return false
		}
	default:
		return false
	}
	if n == nil || n.Obj().Pkg() == nil {
		return false
	}
	path := n.Obj().Pkg().Path()
	if path == "grits" || strings.HasPrefix(path, "grits/") || path == "sync" || path == "sync/atomic" {
		return false
	}
	return !safe[path+"."+n.Obj().Name()]
}
