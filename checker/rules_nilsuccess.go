package main

import (
	"fmt"
	"go/types"

	"golang.org/x/tools/go/ssa"
)

// R-NIL-SUCCESS (C09): a first-party function with results (T, error) does not report success
// (nil error) with a T that is known to be nil, when callers use the value on the strength of
// the error test alone.

func init() {
	register(&Rule{Name: "R-NIL-SUCCESS", Min: 1,
		Doc: "for every first-party function whose results are (T, error) with T a pointer or interface: no return yields a nil error constant together with a T that is the nil constant or a parameter for which a resolved call site passes the nil constant, unless every caller tests the value itself before using it (the uses examined are the same nil-sensitive uses as in R-ERR-BEFORE-USE: method calls, field accesses, loads). Callers rely on `err == nil` to mean that the value is there; `(nil, nil)` makes the next method call a Go panic instead of a diagnostic",
		Run: runNilSuccess})
}

func runNilSuccess(p *Program, r *RuleResult) {
	errT := types.Universe.Lookup("error").Type()
	nilable := func(t types.Type) bool {
		switch t.Underlying().(type) {
		case *types.Pointer, *types.Interface:
			return !types.Identical(t, errT)
		}
		return false
	}
	n := 0
	for _, fn := range p.SrcFuncs {
		if fn.Blocks == nil || !p.isFirstParty(fn) || fn.Pkg == nil {
			continue
		}
		res := fn.Signature.Results()
		if res.Len() != 2 || !types.Identical(res.At(1).Type(), errT) || !nilable(res.At(0).Type()) {
			continue
		}
		n++
		view := p.View(fn)
		// parameters that receive a nil constant at some resolved call site
		nilParam := map[*ssa.Parameter]string{}
		for _, caller := range p.SrcFuncs {
			for _, c := range p.callsIn(caller) {
				if c.Common().StaticCallee() != fn {
					continue
				}
				for i, a := range c.Common().Args {
					if cst, ok := a.(*ssa.Const); ok && cst.Value == nil && i < len(fn.Params) && nilable(fn.Params[i].Type()) {
						nilParam[fn.Params[i]] = p.instrPos(c)
					}
				}
			}
		}
		bad, badPos := "", ""
		for _, b := range view.Blocks() {
			ins := view.Instrs(b)
			ret, ok := ins[len(ins)-1].(*ssa.Return)
			if !ok || len(ret.Results) != 2 {
				continue
			}
			ec, ok := ret.Results[1].(*ssa.Const)
			if !ok || ec.Value != nil {
				continue
			}
			var why string
			switch v := ret.Results[0].(type) {
			case *ssa.Const:
				if v.Value == nil {
					why = "the nil constant"
				}
			case *ssa.Parameter:
				if at, ok := nilParam[v]; ok && !view.holdsAt(b, v, factNonNil) {
					why = fmt.Sprintf("its parameter %s, for which the call at %s passes nil", v.Name(), at)
				}
			}
			if why == "" {
				continue
			}
			// do the callers look at the value before using it?
			if p.callersGuardResult(fn) {
				continue
			}
			bad = fmt.Sprintf("the return at %s reports success (nil error) with %s: callers use the value after testing the error only, so the next method call on it is a Go panic instead of a diagnostic", p.instrPos(ret), why)
			badPos = p.instrPos(ret)
		}
		if bad != "" {
			r.add(fnName(fn), "success-has-a-value", Violated, badPos, bad)
		} else {
			r.add(fnName(fn), "success-has-a-value", Holds, p.pos(fn.Pos()), "no return pairs a nil error with a value known to be nil")
		}
	}
	r.count("functions returning (nilable, error)", n)
}

// callersGuardResult: every resolved call of fn whose first result is used in a nil-sensitive
// way (method call on it, field access, load) does so where the value itself is known non-nil;
// a caller that merely passes the value on (returns it) counts as not guarding.
func (p *Program) callersGuardResult(fn *ssa.Function) bool {
	found := false
	for _, caller := range p.SrcFuncs {
		if caller.Blocks == nil {
			continue
		}
		view := p.View(caller)
		for _, c := range p.callsIn(caller) {
			call, ok := c.(*ssa.Call)
			if !ok || call.Common().StaticCallee() != fn || call.Referrers() == nil {
				continue
			}
			found = true
			for _, u := range *call.Referrers() {
				ex, ok := u.(*ssa.Extract)
				if !ok || ex.Index != 0 || ex.Referrers() == nil {
					if _, isRet := u.(*ssa.Return); isRet {
						return false // handed on wholesale: `return f(...)`
					}
					continue
				}
				for _, use := range *ex.Referrers() {
					sensitive := false
					switch x := use.(type) {
					case ssa.CallInstruction:
						sensitive = x.Common().IsInvoke() && x.Common().Value == ssa.Value(ex)
						if !sensitive {
							for _, a := range x.Common().Args {
								if a == ssa.Value(ex) {
									sensitive = true // handed to another function: not looked at here
								}
							}
						}
					case *ssa.FieldAddr:
						sensitive = x.X == ssa.Value(ex)
					case *ssa.UnOp:
						sensitive = x.X == ssa.Value(ex)
					case *ssa.Return, *ssa.Store, *ssa.Phi, *ssa.MakeInterface, *ssa.TypeAssert:
						sensitive = true
					}
					if sensitive && !view.holdsAt(use.Block(), ex, factNonNil) {
						return false
					}
				}
			}
		}
	}
	return found
}
