package main

import (
	"fmt"
	"go/token"
	"go/types"
	"sort"
	"strings"

	"golang.org/x/tools/go/ssa"
)

// Typing-rule rules (C05, C07, C14): R-FRESH-BINDER, R-CONSUME-DELETES, R-AXIOM-EMPTY,
// R-BRANCH-COPY, R-STRUCT-GATES.

// tcMethod describes one typecheckForm implementation with its roles resolved by type.
type tcMethod struct {
	T        *types.Named
	Fn       *ssa.Function
	Recv     *ssa.Parameter
	Gamma    *ssa.Parameter // NamesTypesCtx
	Shadow   *ssa.Parameter // *Name
	Provider *ssa.Parameter // types.SessionType
	Env      *ssa.Parameter // types.LabelledTypesEnv
	Sigma    *ssa.Parameter
	// continuation judgements: invokes of typecheckForm inside the method
	Conts []*ssa.Call
}

func (p *Program) formImplementers() []*types.Named {
	return p.Implementers(p.Named(processPkg, "Form"))
}

func (p *Program) typecheckMethods() []*tcMethod {
	var out []*tcMethod
	for _, T := range p.formImplementers() {
		fn := p.MethodOpt(T, "typecheckForm")
		if fn == nil {
			anchorFail("typecheckForm of %s", T)
		}
		m := &tcMethod{T: T, Fn: fn}
		for i, prm := range fn.Params {
			switch {
			case i == 0:
				m.Recv = prm
			case isNamed(prm.Type(), processPkg, "NamesTypesCtx"):
				m.Gamma = prm
			case isNamed(prm.Type(), processPkg, "Name"):
				m.Shadow = prm
			case isNamed(prm.Type(), typesPkg, "SessionType"):
				m.Provider = prm
			case isNamed(prm.Type(), typesPkg, "LabelledTypesEnv"):
				m.Env = prm
			case isNamed(prm.Type(), processPkg, "FunctionTypesEnv"):
				m.Sigma = prm
			}
		}
		if m.Gamma == nil || m.Provider == nil || m.Shadow == nil {
			anchorFail("parameters of %s", fn)
		}
		for _, c := range p.callsIn(fn) {
			if call, ok := c.(*ssa.Call); ok && call.Common().IsInvoke() && call.Common().Method.Name() == "typecheckForm" {
				m.Conts = append(m.Conts, call)
			}
		}
		out = append(out, m)
	}
	return out
}

func isCtxType(t types.Type) bool { return isNamed(t, processPkg, "NamesTypesCtx") }

// successExits returns the Return instructions of fn that may report success: a nil
// constant, or the result of a continuation judgement, or anything that is not a freshly
// built error.
func (p *Program) successExits(m *tcMethod) []*ssa.Return {
	view := p.View(m.Fn)
	var out []*ssa.Return
	for _, b := range view.Blocks() {
		ins := view.Instrs(b)
		if len(ins) == 0 {
			continue
		}
		ret, ok := ins[len(ins)-1].(*ssa.Return)
		if !ok || len(ret.Results) != 1 {
			continue
		}
		if isErrorValue(ret.Results[0], view, b, map[ssa.Value]bool{}) {
			continue
		}
		out = append(out, ret)
	}
	return out
}

// isErrorValue: v is definitely a non-nil error at block b (a call to an error
// constructor, or a value known non-nil by facts).
func isErrorValue(v ssa.Value, view *View, b *ssa.BasicBlock, seen map[ssa.Value]bool) bool {
	if seen[v] {
		return true
	}
	seen[v] = true
	if view.holdsAt(b, v, factNonNil) {
		return true
	}
	switch x := v.(type) {
	case *ssa.Call:
		if sc := x.Common().StaticCallee(); sc != nil {
			switch sc.Name() {
			case "TypeErrorf", "TypeErrorE":
				return true
			}
			if sc.Pkg != nil && (sc.Pkg.Pkg.Path() == "fmt" && sc.Name() == "Errorf" || sc.Pkg.Pkg.Path() == "errors" && sc.Name() == "New") {
				return true
			}
			if view.P.alwaysErrors(sc) {
				return true
			}
		}
	case *ssa.Phi:
		for _, e := range x.Edges {
			if !isErrorValue(e, view, b, seen) {
				return false
			}
		}
		return true
	case *ssa.MakeInterface:
		return isErrorValue(x.X, view, b, seen)
	case *ssa.ChangeInterface:
		return isErrorValue(x.X, view, b, seen)
	}
	return false
}

// alwaysErrors: fn is a first-party helper with a single error result whose every
// return hands back a definitely non-nil error (an error arm moved into a helper).
func (p *Program) alwaysErrors(fn *ssa.Function) bool {
	if p.alwaysErr == nil {
		p.alwaysErr = map[*ssa.Function]int{}
	}
	switch p.alwaysErr[fn] {
	case 1:
		return true
	case 2, 3:
		return false // 3: in progress (recursion) — not assumed
	}
	p.alwaysErr[fn] = 3
	ok := false
	defer func() {
		if ok {
			p.alwaysErr[fn] = 1
		} else {
			p.alwaysErr[fn] = 2
		}
	}()
	if !p.isFirstParty(fn) || len(fn.Blocks) == 0 || fn.Signature.Results().Len() != 1 {
		return false
	}
	if rt := fn.Signature.Results().At(0).Type(); !isErrorType(rt) && !types.Implements(rt, types.Universe.Lookup("error").Type().Underlying().(*types.Interface)) {
		return false
	}
	view := p.View(fn)
	n := 0
	for _, b := range view.Blocks() {
		for _, in := range view.Instrs(b) {
			r, isRet := in.(*ssa.Return)
			if !isRet {
				continue
			}
			n++
			if len(r.Results) != 1 || !isErrorValue(r.Results[0], view, b, map[ssa.Value]bool{}) {
				return false
			}
		}
	}
	ok = n > 0
	return ok
}

func init() {
	register(&Rule{Name: "R-FRESH-BINDER", Min: 8,
		Doc: "every insertion of a binder into a typing context is dominated by a failed existence test of the same identifier in the same context (or the context it was copied from); the cut's binder is covered by the reuse dichotomy instead",
		Run: runFreshBinder})
	register(&Rule{Name: "R-CONSUME-DELETES", Min: 1,
		Doc: "consuming a name from the context deletes it on the path that returns its type",
		Run: runConsumeDeletes})
	register(&Rule{Name: "R-AXIOM-EMPTY", Min: 7,
		Doc: "every axiom (form without continuation) succeeds only after linearGammaContext returned nil on its context, and linearGammaContext is non-nil for every non-empty context",
		Run: runAxiomEmpty})
	register(&Rule{Name: "R-BRANCH-COPY", Min: 2,
		Doc: "each case branch is typed in its own copy of the context, never in the incoming context itself",
		Run: runBranchCopy})
	register(&Rule{Name: "R-STRUCT-GATES", Min: 4,
		Doc: "drop is gated by IsWeakenable and split by IsContractable on the consumed type, and both predicates reduce to the mode's AllowsWeakening/AllowsContraction",
		Run: runStructGates})
}

// ctxRoot resolves a context value to the parameter (or call) it is or was copied from.
// Returns the root value and whether a copy happened on the way.
func ctxRoot(v ssa.Value) (ssa.Value, *ssa.Call) {
	v = origin(v)
	if c, ok := v.(*ssa.Call); ok {
		if sc := c.Common().StaticCallee(); sc != nil && len(c.Common().Args) == 1 && isCtxType(c.Common().Args[0].Type()) && isCtxType(c.Type()) {
			r, _ := ctxRoot(c.Common().Args[0])
			return r, c
		}
	}
	return v, nil
}

func runFreshBinder(p *Program, r *RuleResult) {
	nStores := 0
	for _, m := range p.typecheckMethods() {
		view := p.View(m.Fn)
		name := fnName(m.Fn)
		ord := map[string]int{}
		isNew := false
		var dichotomyKeys []string
		for _, b := range view.Blocks() {
			for _, in := range view.Instrs(b) {
				mu, ok := in.(*ssa.MapUpdate)
				if !ok || !isCtxType(mu.Map.Type()) {
					continue
				}
				key := accessPath(mu.Key)
				if !strings.HasSuffix(key, ".Ident") {
					nStores++
					r.add(name, "ctx-insert:"+describeVal(mu.Key), Undecided, p.instrPos(mu), "context key is not the identifier of a name field of the form")
					continue
				}
				nStores++
				ord[key]++
				construct := fmt.Sprintf("ctx-insert:%s#%d", key, ord[key])
				root, _ := ctxRoot(mu.Map)
				// look for a failed existence test of the same key on the same root context
				found := false
				var tests []ssa.Instruction
				for f := range view.FactsAt(b) {
					if c, isCall := f.v.(*ssa.Call); isCall && len(c.Common().Args) == 2 && isCtxType(c.Common().Args[0].Type()) {
						if none, suffix, isVF := p.variadicFreshness(c.Common().StaticCallee()); isVF {
							if f.k != none {
								continue
							}
							// keys passed as a variadic list: stores into the backing array
							t := c
							tr, _ := ctxRoot(t.Common().Args[0])
							if sl, ok := t.Common().Args[1].(*ssa.Slice); ok && tr == root {
								if al, ok := sl.X.(*ssa.Alloc); ok && al.Referrers() != nil {
									for _, u := range *al.Referrers() {
										if ia, ok := u.(*ssa.IndexAddr); ok {
											for _, st := range storesTo(ia) {
												if accessPath(st.Val)+suffix == key {
													found = true
													tests = append(tests, t)
												}
											}
										}
									}
								}
							}
							continue
						}
					}
					if f.k != factFalse {
						continue
					}
					switch t := f.v.(type) {
					case *ssa.Call:
						sc := t.Common().StaticCallee()
						if sc == nil || len(t.Common().Args) != 2 || !isCtxType(t.Common().Args[0].Type()) {
							continue
						}
						if !p.isExistenceTest(sc) {
							continue
						}
						tr, _ := ctxRoot(t.Common().Args[0])
						if tr == root && accessPath(t.Common().Args[1]) == key {
							found = true
							tests = append(tests, t)
						}
					case *ssa.Extract:
						if lk, ok := t.Tuple.(*ssa.Lookup); ok && t.Index == 1 && lk.CommaOk {
							tr, _ := ctxRoot(lk.X)
							if tr == root && accessPath(lk.Index) == key {
								found = true
								tests = append(tests, lk)
							}
						}
					}
				}
				if found {
					// the test must see the context the binder is inserted into: nothing is
					// consumed from that context between the test and the insertion
					stale := ""
					okTest := false
					for _, t := range tests {
						between := view.mayReachFrom(t, nil, func(in ssa.Instruction) bool {
							c, ok := in.(ssa.CallInstruction)
							if !ok || !(p.isConsumeFunc(c.Common().StaticCallee()) || looksLikeConsume(c.Common().StaticCallee())) {
								return false
							}
							for _, a := range c.Common().Args {
								if isCtxType(a.Type()) {
									if cr, _ := ctxRoot(a); cr == root {
										return len(view.mayReachFrom(in, nil, func(x ssa.Instruction) bool { return x == ssa.Instruction(mu) }, nil)) > 0
									}
								}
							}
							return false
						}, func(in ssa.Instruction) bool { return in == ssa.Instruction(mu) })
						if len(between) == 0 {
							okTest = true
						} else {
							stale = p.instrPos(between[0])
						}
					}
					if okTest && stale == "" {
						r.add(name, construct, Holds, p.instrPos(mu), "dominated by a failed existence test of the same identifier on the context as it is at the insertion")
					} else {
						r.add(name, construct, Violated, p.instrPos(mu),
							fmt.Sprintf("the freshness test of %s runs before a channel is consumed from the same context (%s): a program that rebinds the identifier of the channel the rule consumes is derivable (the old entry is gone when the binder is added) but is rejected as 'already defined'", strings.TrimSuffix(key, ".Ident"), stale))
					}
					continue
				}
				// the cut: binder freshness is established by the reuse dichotomy
				if p.reuseLookup(m, key) != nil {
					isNew = true
					dichotomyKeys = append(dichotomyKeys, key)
					r.add(name, construct, Holds, p.instrPos(mu), "covered by the reuse dichotomy of this binder (see obligation reuse-dichotomy)")
					continue
				}
				r.add(name, construct, Violated, p.instrPos(mu),
					fmt.Sprintf("%s is inserted into the context without a freshness test: an entry of the same name that is still owed a use is silently overwritten (shadowed)", strings.TrimSuffix(key, ".Ident")))
			}
		}
		// distinct binders: two insertions into the same context must be known to have different keys
		type insT struct {
			mu  *ssa.MapUpdate
			key string
			rt  ssa.Value
		}
		var inserts []insT
		for _, b := range view.Blocks() {
			for _, in := range view.Instrs(b) {
				if mu, ok := in.(*ssa.MapUpdate); ok && isCtxType(mu.Map.Type()) {
					if k := accessPath(mu.Key); strings.HasSuffix(k, ".Ident") {
						rt, _ := ctxRoot(mu.Map)
						inserts = append(inserts, insT{mu, k, rt})
					}
				}
			}
		}
		for i := 0; i < len(inserts); i++ {
			for j := 0; j < len(inserts); j++ {
				a, b2 := inserts[i], inserts[j]
				if i == j || a.key >= b2.key || a.rt != b2.rt {
					continue
				}
				// may both execute on one path?
				reach := len(view.mayReachFrom(a.mu, nil, func(in ssa.Instruction) bool { return in == ssa.Instruction(b2.mu) }, nil)) > 0 ||
					len(view.mayReachFrom(b2.mu, nil, func(in ssa.Instruction) bool { return in == ssa.Instruction(a.mu) }, nil)) > 0
				if !reach {
					continue
				}
				fa, fb := strings.TrimSuffix(a.key, ".Ident"), strings.TrimSuffix(b2.key, ".Ident")
				construct := fmt.Sprintf("distinct-binders:%s,%s#%d", fa, fb, ord[a.key+b2.key]+1)
				ord[a.key+b2.key]++
				distinct := false
				later := a.mu
				if len(view.mayReachFrom(a.mu, nil, func(in ssa.Instruction) bool { return in == ssa.Instruction(b2.mu) }, nil)) > 0 {
					later = b2.mu
				}
				for f := range view.FactsAt(later.Block()) {
					if f.k != factFalse {
						continue
					}
					switch t := f.v.(type) {
					case *ssa.Call:
						if sc := t.Common().StaticCallee(); sc != nil && sc.Name() == "Equal" && len(t.Common().Args) == 2 {
							x, y := accessPath(t.Common().Args[0]), accessPath(t.Common().Args[1])
							if (x == fa && y == fb) || (x == fb && y == fa) {
								distinct = true
							}
						}
					case *ssa.BinOp:
						x, y := accessPath(t.X), accessPath(t.Y)
						if t.Op.String() == "==" && ((x == a.key && y == b2.key) || (x == b2.key && y == a.key)) {
							distinct = true
						}
					}
				}
				if distinct {
					r.add(name, construct, Holds, p.instrPos(later), "the two binders are known to differ")
				} else {
					r.add(name, construct, Violated, p.instrPos(later),
						fmt.Sprintf("%s and %s are both inserted into the same context without a test that they differ: if the program uses one identifier for both, the second insertion silently overwrites (discards) the first channel", fa, fb))
				}
			}
		}
		if isNew {
			sort.Strings(dichotomyKeys)
			key := dichotomyKeys[0]
			ok, why := p.checkReuseDichotomy(m, key)
			v := Holds
			if !ok {
				v = Violated
			}
			r.add(name, "reuse-dichotomy:"+key, v, p.pos(m.Fn.Pos()), why)
		}
	}
	r.count("context insertions", nStores)
}

// isExistenceTest: fn(ctx, key) returns the ok of a comma-ok lookup of key in ctx.
func (p *Program) isExistenceTest(fn *ssa.Function) bool {
	if fn.Blocks == nil || len(fn.Params) != 2 || !isCtxType(fn.Params[0].Type()) {
		return false
	}
	for _, b := range fn.Blocks {
		for _, in := range b.Instrs {
			ret, ok := in.(*ssa.Return)
			if !ok || len(ret.Results) != 1 {
				continue
			}
			ex, ok := ret.Results[0].(*ssa.Extract)
			if !ok || ex.Index != 1 {
				return false
			}
			lk, ok := ex.Tuple.(*ssa.Lookup)
			if !ok || lk.X != ssa.Value(fn.Params[0]) || lk.Index != ssa.Value(fn.Params[1]) {
				return false
			}
		}
	}
	return true
}

// variadicFreshness recognises a helper func(ctx, xs ...T) bool that applies the existence
// test to every element of its variadic parameter (the element itself when T is string, its
// identifier when T is a name) and answers with one constant as soon as an element exists and
// with the opposite constant only after the whole list was tested. It returns the fact kind of
// the result that says "none of them exists" and the access-path suffix of the key.
func (p *Program) variadicFreshness(fn *ssa.Function) (none factKind, suffix string, ok bool) {
	if fn == nil || fn.Blocks == nil || len(fn.Params) != 2 || !isCtxType(fn.Params[0].Type()) || !fn.Signature.Variadic() {
		return 0, "", false
	}
	if bt, isB := fn.Signature.Results().At(0).Type().Underlying().(*types.Basic); fn.Signature.Results().Len() != 1 || !isB || bt.Kind() != types.Bool {
		return 0, "", false
	}
	view := p.View(fn)
	elemOf := func(v ssa.Value) bool {
		ld, isLd := v.(*ssa.UnOp)
		if !isLd {
			return false
		}
		ia, isIA := ld.X.(*ssa.IndexAddr)
		return isIA && ia.X == ssa.Value(fn.Params[1])
	}
	var test *ssa.Call
	for _, c := range p.callsIn(fn) {
		call, isCall := c.(*ssa.Call)
		if !isCall {
			continue
		}
		if _, isBuiltin := call.Common().Value.(*ssa.Builtin); isBuiltin {
			continue
		}
		sc := call.Common().StaticCallee()
		if sc == nil || !p.isExistenceTest(sc) || call.Common().Args[0] != ssa.Value(fn.Params[0]) {
			return 0, "", false // calls something else
		}
		// the key is an element of the variadic parameter, or the identifier of one
		key := call.Common().Args[1]
		switch k := key.(type) {
		case *ssa.Field:
			if _, fname, okF := fieldNameOf(k); !okF || fname != "Ident" || !elemOf(k.X) {
				return 0, "", false
			}
			suffix = ".Ident"
		case *ssa.UnOp:
			if fa, isFA := k.X.(*ssa.FieldAddr); isFA {
				_, fname, okF := fieldNameOf(fa)
				fromElem := false
				switch base := fa.X.(type) {
				case *ssa.IndexAddr:
					fromElem = base.X == ssa.Value(fn.Params[1])
				case *ssa.Alloc:
					// the range variable, spilled: every store into it copies an element
					sts := storesTo(base)
					fromElem = len(sts) > 0
					for _, st := range sts {
						if !elemOf(st.Val) {
							fromElem = false
						}
					}
				}
				if !okF || fname != "Ident" || !fromElem {
					return 0, "", false
				}
				suffix = ".Ident"
			} else if !elemOf(k) {
				return 0, "", false
			}
		default:
			return 0, "", false
		}
		if test != nil {
			return 0, "", false
		}
		test = call
	}
	if test == nil {
		return 0, "", false
	}
	var loop *Loop
	for _, l := range view.Loops() {
		if l.Body[test.Block()] && skipsIteration(p, view, test) == "" {
			loop = l
		}
	}
	if loop == nil {
		return 0, "", false
	}
	// the loop is left early only where an element was found
	for b := range loop.Body {
		if b == loop.Header {
			continue
		}
		for _, su := range view.Succs(b) {
			if !loop.Body[su] && !view.holdsAt(su, test, factTrue) {
				return 0, "", false
			}
		}
	}
	// returns: one constant where the test was true, the opposite one only after the loop
	var found, other *bool
	for _, b := range view.Blocks() {
		ins := view.Instrs(b)
		ret, isRet := ins[len(ins)-1].(*ssa.Return)
		if !isRet {
			continue
		}
		c, isC := ret.Results[0].(*ssa.Const)
		if !isC || c.Value == nil {
			return 0, "", false
		}
		val := c.Value.String() == "true"
		slot := &other
		if view.holdsAt(b, test, factTrue) {
			slot = &found
		} else if loop.Body[b] {
			return 0, "", false
		}
		if *slot == nil {
			*slot = &val
		} else if **slot != val {
			return 0, "", false
		}
	}
	if found == nil || other == nil || *found == *other {
		return 0, "", false
	}
	if *other {
		return factTrue, suffix, true
	}
	return factFalse, suffix, true
}

// reuseLookup: the comma-ok lookup of `key` in the incoming context at the head of the method.
// Either the ok of the lookup itself or the result of the existence-test helper on the same
// context and key.
func (p *Program) reuseLookup(m *tcMethod, key string) ssa.Value {
	for _, b := range m.Fn.Blocks {
		for _, in := range b.Instrs {
			switch x := in.(type) {
			case *ssa.Extract:
				if x.Index != 1 {
					continue
				}
				lk, ok := x.Tuple.(*ssa.Lookup)
				if ok && lk.CommaOk && lk.X == ssa.Value(m.Gamma) && accessPath(lk.Index) == key {
					return x
				}
			case *ssa.Call:
				sc := x.Common().StaticCallee()
				if sc != nil && p.isExistenceTest(sc) && len(x.Common().Args) == 2 && x.Common().Args[0] == ssa.Value(m.Gamma) && accessPath(x.Common().Args[1]) == key {
					return x
				}
			}
		}
	}
	return nil
}

// checkReuseDichotomy: with reused := (key in Γ): there is an error exit under
// (reused ∧ ¬bodyUses) and one under (¬reused ∧ bodyUses), where bodyUses is a call
// nameInNames(binder, <free names of a child form>).
func (p *Program) checkReuseDichotomy(m *tcMethod, key string) (bool, string) {
	reused := p.reuseLookup(m, key)
	view := p.View(m.Fn)
	binder := strings.TrimSuffix(key, ".Ident")
	var sawReusedUnused, sawFreshUsed bool
	for _, b := range view.Blocks() {
		ins := view.Instrs(b)
		if len(ins) == 0 {
			continue
		}
		ret, ok := ins[len(ins)-1].(*ssa.Return)
		if !ok || len(ret.Results) != 1 || !isErrorValue(ret.Results[0], view, b, map[ssa.Value]bool{}) {
			continue
		}
		fs := view.FactsAt(b)
		for f := range fs {
			c, ok := f.v.(*ssa.Call)
			if !ok {
				continue
			}
			sc := c.Common().StaticCallee()
			if sc == nil || len(c.Common().Args) < 1 || accessPath(c.Common().Args[0]) != binder {
				continue
			}
			// membership test of the binder in some list of names
			if sc.Signature.Results().Len() != 1 {
				continue
			}
			if bt, ok := sc.Signature.Results().At(0).Type().Underlying().(*types.Basic); !ok || bt.Kind() != types.Bool {
				continue
			}
			if f.k == factFalse && fs[fact{reused, factTrue}] {
				sawReusedUnused = true
			}
			if f.k == factTrue && fs[fact{reused, factFalse}] {
				sawFreshUsed = true
			}
		}
	}
	switch {
	case !sawReusedUnused:
		return false, "no error exit for: the binder already names a live context entry and the spawned body does not consume it (the old entry would be shadowed)"
	case !sawFreshUsed:
		return false, "no error exit for: the binder is fresh but occurs free in the spawned body"
	}
	return true, "both error edges of the reuse dichotomy are present"
}

func runConsumeDeletes(p *Program, r *RuleResult) {
	n := 0
	for _, fn := range p.SrcFuncs {
		if fn.Pkg == nil || fn.Pkg.Pkg.Path() != processPkg || fn.Parent() != nil {
			continue
		}
		// role: (name Name, ..., ctx NamesTypesCtx, ...) (types.SessionType, error)
		res := fn.Signature.Results()
		if res.Len() != 2 || !isNamed(res.At(0).Type(), typesPkg, "SessionType") || !isErrorType(res.At(1).Type()) {
			continue
		}
		var ctx *ssa.Parameter
		for _, prm := range fn.Params {
			if isCtxType(prm.Type()) {
				ctx = prm
			}
		}
		if ctx == nil {
			continue
		}
		view := p.View(fn)
		for _, b := range view.Blocks() {
			ins := view.Instrs(b)
			if len(ins) == 0 {
				continue
			}
			ret, ok := ins[len(ins)-1].(*ssa.Return)
			if !ok || len(ret.Results) != 2 || !isNilConst(ret.Results[1]) {
				continue
			}
			// does the returned type come from a lookup in ctx?
			lk := lookupSource(ret.Results[0], ctx, map[ssa.Value]bool{})
			if lk == nil {
				continue
			}
			n++
			construct := fmt.Sprintf("return-looked-up-type#%d", n)
			key := lk.Index
			isDelete := func(in ssa.Instruction) bool {
				c, ok := in.(*ssa.Call)
				if !ok {
					return false
				}
				bi, ok := c.Common().Value.(*ssa.Builtin)
				return ok && bi.Name() == "delete" && c.Common().Args[0] == ssa.Value(ctx) && sameValue(c.Common().Args[1], key)
			}
			if view.passedBefore(ret, isDelete) {
				r.add(fnName(fn), construct, Holds, p.instrPos(ret), "the entry is deleted on every path to this return")
			} else {
				r.add(fnName(fn), construct, Violated, p.instrPos(ret), "a type looked up in the context is returned with a nil error without deleting the entry: the channel could be used twice")
			}
		}
	}
}

func lookupSource(v ssa.Value, m *ssa.Parameter, seen map[ssa.Value]bool) *ssa.Lookup {
	if seen[v] {
		return nil
	}
	seen[v] = true
	switch x := v.(type) {
	case *ssa.Lookup:
		if x.X == ssa.Value(m) {
			return x
		}
	case *ssa.Extract:
		return lookupSource(x.Tuple, m, seen)
	case *ssa.Field:
		return lookupSource(x.X, m, seen)
	case *ssa.FieldAddr:
		return lookupSource(x.X, m, seen)
	case *ssa.UnOp:
		return lookupSource(x.X, m, seen)
	case *ssa.Alloc:
		for _, st := range storesTo(x) {
			if l := lookupSource(st.Val, m, seen); l != nil {
				return l
			}
		}
	}
	return nil
}

func (p *Program) axiomForms(r *RuleResult) []*types.Named {
	fhc := p.Func(processPkg, "FormHasContinuation")
	ev := NewEvaluator(p)
	var out []*types.Named
	for _, T := range p.formImplementers() {
		res := ev.Eval(fhc, []AVal{aDyn(types.NewPointer(T))})
		b, ok := res.Ret.IsBool()
		if !ok {
			r.add("process.FormHasContinuation", "classifies:"+T.Obj().Name(), Undecided, p.pos(fhc.Pos()), "does not fold to a boolean for this form")
			continue
		}
		if !b {
			out = append(out, T)
		}
	}
	return out
}

func runAxiomEmpty(p *Program, r *RuleResult) {
	lin := p.linearityFunc()
	axioms := p.axiomForms(r)
	byT := map[*types.Named]*tcMethod{}
	for _, m := range p.typecheckMethods() {
		byT[m.T] = m
	}
	for _, T := range axioms {
		m := byT[T]
		view := p.View(m.Fn)
		name := fnName(m.Fn)
		exits := p.successExits(m)
		if len(exits) == 0 {
			r.add(name, "success-exits", Undecided, p.pos(m.Fn.Pos()), "no success exit found")
			continue
		}
		bad := ""
		for _, ret := range exits {
			ok := false
			for f := range view.successFactsAt(ret) {
				if f.k != factNil {
					continue
				}
				c, isCall := f.v.(*ssa.Call)
				if isCall && c.Common().StaticCallee() == lin && len(c.Common().Args) > 0 && origin(c.Common().Args[0]) == ssa.Value(m.Gamma) {
					ok = true
				}
			}
			if !ok {
				bad = fmt.Sprintf("the success exit at %s is not dominated by a nil result of linearGammaContext on the rule's context: leftover channels would be silently discarded", p.instrPos(ret))
			}
		}
		if bad != "" {
			r.add(name, "axiom-empties-context", Violated, p.pos(m.Fn.Pos()), bad)
		} else {
			r.add(name, "axiom-empties-context", Holds, p.pos(m.Fn.Pos()), fmt.Sprintf("%d success exits", len(exits)))
		}
	}
	// linearGammaContext(ctx) != nil whenever len(ctx) != 0
	view := p.View(lin)
	okLin := true
	why := ""
	for _, b := range view.Blocks() {
		ins := view.Instrs(b)
		if len(ins) == 0 {
			continue
		}
		ret, isRet := ins[len(ins)-1].(*ssa.Return)
		if !isRet || !isNilConst(ret.Results[0]) {
			continue
		}
		// facts at this return must exclude len==1 and len>1: i.e. (len==1)=false and (len>1)=false,
		// or (len==0)=true / (len!=0)=false / (len>0)=false
		fs := view.FactsAt(b)
		ex1, exMany, zero := false, false, false
		for f := range fs {
			if f.v == ssa.Value(lin.Params[0]) && f.k == factNil {
				zero = true // a nil map is an empty context
			}
			bo, isB := f.v.(*ssa.BinOp)
			if !isB {
				continue
			}
			if !isLenOf(bo.X, lin.Params[0]) {
				continue
			}
			c, isC := bo.Y.(*ssa.Const)
			if !isC {
				continue
			}
			n := c.Int64()
			switch {
			case bo.Op.String() == "==" && n == 1 && f.k == factFalse:
				ex1 = true
			case bo.Op.String() == ">" && n == 1 && f.k == factFalse:
				exMany = true
			case bo.Op.String() == ">=" && n == 2 && f.k == factFalse:
				exMany = true
			case bo.Op.String() == "==" && n == 0 && f.k == factTrue,
				bo.Op.String() == "!=" && n == 0 && f.k == factFalse,
				bo.Op.String() == ">" && n == 0 && f.k == factFalse,
				bo.Op.String() == ">=" && n == 1 && f.k == factFalse:
				zero = true
			}
		}
		if !(zero || (ex1 && exMany)) {
			okLin = false
			why = "a nil return of linearGammaContext is reachable with a non-empty context at " + p.instrPos(ret)
		}
	}
	v := Holds
	if !okLin {
		v = Violated
	}
	r.add(fnName(lin), "nil-only-for-empty-context", v, p.pos(lin.Pos()), why)
}

func isLenOf(v ssa.Value, of ssa.Value) bool {
	c, ok := v.(*ssa.Call)
	if !ok {
		return false
	}
	bi, ok := c.Common().Value.(*ssa.Builtin)
	return ok && bi.Name() == "len" && len(c.Common().Args) == 1 && c.Common().Args[0] == of
}

func runBranchCopy(p *Program, r *RuleResult) {
	for _, m := range p.typecheckMethods() {
		view := p.View(m.Fn)
		loops := view.Loops()
		n := 0
		for _, c := range m.Conts {
			// a continuation judgement inside a loop = one judgement per branch
			var loop *Loop
			for _, l := range loops {
				if l.Body[c.Block()] {
					loop = l
				}
			}
			if loop == nil {
				continue
			}
			n++
			construct := fmt.Sprintf("branch-judgement#%d", n)
			var ctxArg ssa.Value
			for _, a := range c.Common().Args {
				if isCtxType(a.Type()) {
					ctxArg = a
				}
			}
			root, cp := ctxRoot(ctxArg)
			switch {
			case cp == nil:
				r.add(fnName(m.Fn), construct, Violated, p.instrPos(c), "the branch is typed in the incoming context itself: a name consumed by one branch is missing in the next")
			case !loop.Body[cp.Block()]:
				r.add(fnName(m.Fn), construct, Violated, p.instrPos(c), "the context copy is made outside the per-branch loop and shared by all branches")
			case root != ssa.Value(m.Gamma):
				r.add(fnName(m.Fn), construct, Undecided, p.instrPos(c), "the copied context is not the rule's incoming context")
			case !p.isFreshMapCopy(cp.Common().StaticCallee()):
				r.add(fnName(m.Fn), construct, Violated, p.instrPos(c), "the copy helper does not return a fresh map filled from its argument")
			default:
				r.add(fnName(m.Fn), construct, Holds, p.instrPos(c), "typed in a per-iteration copy of the incoming context")
			}
		}
	}
}

// isFreshMapCopy: fn(m) returns a MakeMap created in fn, filled in a range loop over m.
func (p *Program) isFreshMapCopy(fn *ssa.Function) bool {
	if fn == nil || fn.Blocks == nil || len(fn.Params) != 1 {
		return false
	}
	var mk *ssa.MakeMap
	for _, b := range fn.Blocks {
		for _, in := range b.Instrs {
			if ret, ok := in.(*ssa.Return); ok {
				if len(ret.Results) != 1 {
					return false
				}
				m, ok := origin(ret.Results[0]).(*ssa.MakeMap)
				if !ok {
					return false
				}
				mk = m
			}
		}
	}
	if mk == nil {
		return false
	}
	ranged, filled := false, false
	for _, b := range fn.Blocks {
		for _, in := range b.Instrs {
			switch x := in.(type) {
			case *ssa.Range:
				if x.X == ssa.Value(fn.Params[0]) {
					ranged = true
				}
			case *ssa.MapUpdate:
				if origin(x.Map) == ssa.Value(mk) {
					filled = true
				}
			}
		}
	}
	return ranged && filled
}

func runStructGates(p *Program, r *RuleResult) {
	ev := NewEvaluator(p)
	byName := map[string]*tcMethod{}
	for _, m := range p.typecheckMethods() {
		byName[m.T.Obj().Name()] = m
	}
	type gate struct {
		form, pred, modeMeth string
	}
	for _, g := range []gate{{"DropForm", "IsWeakenable", "AllowsWeakening"}, {"SplitForm", "IsContractable", "AllowsContraction"}} {
		m := byName[g.form]
		if m == nil {
			anchorFail("form %s", g.form)
		}
		pred := p.Func(typesPkg, g.pred)
		view := p.View(m.Fn)
		name := fnName(m.Fn)
		if len(m.Conts) == 0 {
			r.add(name, "gated-by:"+g.pred, Undecided, p.pos(m.Fn.Pos()), "no continuation judgement found")
		}
		for i, c := range m.Conts {
			construct := fmt.Sprintf("gated-by:%s#%d", g.pred, i+1)
			ok := false
			for f := range view.FactsAt(c.Block()) {
				if f.k != factTrue {
					continue
				}
				gc, isCall := f.v.(*ssa.Call)
				if !isCall || gc.Common().StaticCallee() != pred {
					continue
				}
				// the argument must be the type consumed from the context for the dropped/split name
				if consumedTypeOf(gc.Common().Args[0]) {
					ok = true
				}
			}
			if ok {
				r.add(name, construct, Holds, p.instrPos(c), "the continuation is typed only on the true edge of "+g.pred+" applied to the consumed type")
			} else {
				r.add(name, construct, Violated, p.instrPos(c), fmt.Sprintf("the continuation of %s can be typed without %s(consumed type) being true: the structural rule is not restricted to the modes that admit it", g.form, g.pred))
			}
		}
		// the predicate reduces to the mode's own table: for each proper mode M,
		// pred(type with Modality() = M) == M.<modeMeth>()  – decided by evaluating pred's body:
		// it must return the result of an invoke of modeMeth on Modality() of its argument.
		okRed := false
		for _, b := range pred.Blocks {
			for _, in := range b.Instrs {
				ret, isRet := in.(*ssa.Return)
				if !isRet {
					continue
				}
				c, isCall := ret.Results[0].(*ssa.Call)
				if isCall && c.Common().IsInvoke() && c.Common().Method.Name() == g.modeMeth {
					if mc, ok := c.Common().Value.(*ssa.Call); ok && mc.Common().IsInvoke() && mc.Common().Method.Name() == "Modality" && mc.Common().Value == ssa.Value(pred.Params[0]) {
						okRed = true
					}
				}
			}
		}
		v := Holds
		d := "returns arg.Modality()." + g.modeMeth + "()"
		if !okRed || len(pred.Blocks) != 1 {
			v = Violated
			d = "the predicate is not the mode's " + g.modeMeth + " table entry of its argument's mode"
		}
		r.add(fnName(pred), "reduces-to:"+g.modeMeth, v, p.pos(pred.Pos()), d)
	}
	_ = ev
}

// consumedTypeOf: v is (an Unfold of) the first result of a consumeName-like call.
func consumedTypeOf(v ssa.Value) bool {
	v = origin(v)
	switch x := v.(type) {
	case *ssa.Extract:
		if c, ok := x.Tuple.(*ssa.Call); ok && x.Index == 0 {
			if sc := c.Common().StaticCallee(); sc != nil && looksLikeConsume(sc) {
				return true
			}
		}
	case *ssa.Call:
		if sc := x.Common().StaticCallee(); sc != nil && (sc.Name() == "Unfold" || sc.Name() == "UnfoldIfNeeded") && len(x.Common().Args) > 0 {
			return consumedTypeOf(x.Common().Args[0])
		}
	case *ssa.Phi:
		for _, e := range x.Edges {
			if !consumedTypeOf(e) {
				return false
			}
		}
		return len(x.Edges) > 0
	}
	return false
}

// R-MULTI-CONTRACT (C05): declaring a process under several provider names counts as
// splitting it, so it requires a contractable type.
func init() {
	register(&Rule{Name: "R-MULTI-CONTRACT", Min: 1,
		Doc: "below the typechecking driver there is a contraction test (IsContractable/AllowsContraction) on a top-level process's own type whose false edge is an error and which is reached whenever the process has more than one provider name",
		Run: runMultiContract})
	ruleUsesCallGraph["R-MULTI-CONTRACT"] = true
}

func runMultiContract(p *Program, r *RuleResult) {
	d := findTypecheckDriver(p)
	reach := p.reachableFuncs([]*ssa.Function{d.Driver}, useCHA)
	r.count("functions below the driver", len(reach))
	found := ""
	partial := ""
	for _, fn := range sortedFuncs(reach) {
		if fn.Blocks == nil || !p.isFirstParty(fn) {
			continue
		}
		view := p.View(fn)
		for _, c := range p.callsIn(fn) {
			call, ok := c.(*ssa.Call)
			if !ok {
				continue
			}
			com := call.Common()
			var arg ssa.Value
			if sc := com.StaticCallee(); sc != nil && sc.Name() == "IsContractable" && len(com.Args) == 1 {
				arg = com.Args[0]
			} else if com.IsInvoke() && com.Method.Name() == "AllowsContraction" {
				if mc, ok := com.Value.(*ssa.Call); ok && mc.Common().IsInvoke() && mc.Common().Method.Name() == "Modality" {
					arg = mc.Common().Value
				}
			}
			if arg == nil {
				continue
			}
			// the argument must be the Type field of a Process
			ld, ok := origin(arg).(*ssa.UnOp)
			if !ok {
				continue
			}
			fa, ok := ld.X.(*ssa.FieldAddr)
			if !ok || !isNamed(fa.X.Type(), processPkg, "Process") {
				continue
			}
			if _, n, _ := fieldNameOf(fa); n != "Type" {
				continue
			}
			// false edge must be an error return
			errExit := false
			for _, b := range view.Blocks() {
				if !view.holdsAt(b, call, factFalse) {
					continue
				}
				ins := view.Instrs(b)
				if ret, ok := ins[len(ins)-1].(*ssa.Return); ok && len(ret.Results) > 0 && isErrorValue(ret.Results[len(ret.Results)-1], view, b, map[ssa.Value]bool{}) {
					errExit = true
				}
			}
			if !errExit {
				partial = "a contraction test on a process type exists at " + p.instrPos(call) + " but its false edge is not an error"
				continue
			}
			// reached whenever len(Providers) > 1: the only branch facts between the loop over
			// processes and the test may be on len(<same process>.Providers) compared with 1
			okGuard := true
			for f := range view.FactsAt(call.Block()) {
				bo, isB := f.v.(*ssa.BinOp)
				if !isB {
					continue
				}
				if lc, isL := bo.X.(*ssa.Call); isL {
					if bi, isBi := lc.Common().Value.(*ssa.Builtin); isBi && bi.Name() == "len" && strings.HasSuffix(accessPath(lc.Common().Args[0]), ".Providers") {
						// len(Providers) > 1 true, or len(Providers) <= 1 false etc.
						cst, isC := bo.Y.(*ssa.Const)
						if !isC {
							okGuard = false
							continue
						}
						n := cst.Int64()
						holdsForTwoOrMore := (bo.Op.String() == ">" && n <= 1 && f.k == factTrue) || (bo.Op.String() == ">=" && n <= 2 && f.k == factTrue) ||
							(bo.Op.String() == "<=" && n <= 1 && f.k == factFalse) || (bo.Op.String() == "<" && n <= 2 && f.k == factFalse) ||
							(bo.Op.String() == "==" && n == 1 && f.k == factFalse) || (bo.Op.String() == "!=" && n == 1 && f.k == factTrue)
						if !holdsForTwoOrMore {
							okGuard = false
						}
					}
				}
			}
			if okGuard {
				found = fnName(fn) + " at " + p.instrPos(call)
			} else {
				partial = "the contraction test at " + p.instrPos(call) + " is guarded by a provider-count condition that excludes some count > 1"
			}
		}
	}
	fn := fnName(d.Driver)
	if found != "" {
		r.add(fn, "multi-provider-contraction-gate", Holds, "", "gate found in "+found)
	} else {
		if partial == "" {
			partial = "no contraction test on a top-level process's type exists below the driver: 'prc[a, b] : lin 1 = …' duplicates a linear process"
		}
		r.add(fn, "multi-provider-contraction-gate", Violated, p.pos(d.Driver.Pos()), partial)
	}
}

// R-CUT-SPLIT (C05): the cut hands the spawned body exactly the names it mentions.
func init() {
	register(&Rule{Name: "R-CUT-SPLIT", Min: 2,
		Doc: "at every cut the context is split by the helper applied to the free names (or call parameters) of the very form that is then typed as the body, with no name exempted from the split; the body is typed in the first result and the continuation in the second; the type the body is typed against is the type under which the new name is inserted into the second half (same value, same field path or same field of the same object, up to unfolding and copying)",
		Run: runCutSplit})
}

func runCutSplit(p *Program, r *RuleResult) {
	n := 0
	for _, m := range p.typecheckMethods() {
		name := fnName(m.Fn)
		for _, c := range p.callsIn(m.Fn) {
			call, ok := c.(*ssa.Call)
			if !ok {
				continue
			}
			sc := call.Common().StaticCallee()
			if sc == nil || sc.Signature.Results().Len() != 3 || !isCtxType(sc.Signature.Results().At(0).Type()) || !isCtxType(sc.Signature.Results().At(1).Type()) {
				continue
			}
			n++
			construct := fmt.Sprintf("cut-split#%d", n)
			args := call.Common().Args
			// a method of the form that wraps the splitter (split + re-adding the reused name):
			// judge the arguments the wrapper hands to the splitter, in the caller's terms
			if inner := wrappedSplit(p, sc); inner != nil {
				var mapped []ssa.Value
				okMap := true
				for _, a := range inner.Common().Args {
					var m2 ssa.Value
					if isNilConst(a) {
						m2 = a
					}
					for i, prm := range sc.Params {
						if a == ssa.Value(prm) && i < len(args) {
							m2 = args[i]
						}
					}
					if m2 == nil {
						okMap = false
					}
					mapped = append(mapped, m2)
				}
				if okMap {
					args = mapped
				}
			}
			var left, right ssa.Value
			for _, u := range *call.Referrers() {
				if ex, ok := u.(*ssa.Extract); ok {
					switch ex.Index {
					case 0:
						left = ex
					case 1:
						right = ex
					}
				}
			}
			// judgements using the two halves
			var bodyCall, contCall *ssa.Call
			for _, k := range m.Conts {
				for _, a := range k.Common().Args {
					if isCtxType(a.Type()) {
						if left != nil && origin(a) == left {
							bodyCall = k
						}
						if right != nil && origin(a) == right {
							contCall = k
						}
					}
				}
			}
			var problems []string
			if bodyCall == nil {
				problems = append(problems, "no judgement is typed in the first (body) half of the split")
			}
			if contCall == nil {
				problems = append(problems, "no judgement is typed in the second (continuation) half of the split")
			}
			if origin(args[0]) != ssa.Value(m.Gamma) {
				problems = append(problems, "the context that is split is not the rule's incoming context")
			}
			// names argument: FreeNames() of the body form, or the parameters of the body asserted to a call form
			if bodyCall != nil {
				bodyPath := accessPath(bodyCall.Common().Value)
				okNames := false
				switch x := args[1].(type) {
				case *ssa.Call:
					if x.Common().IsInvoke() && x.Common().Method.Name() == "FreeNames" && accessPath(x.Common().Value) == bodyPath {
						okNames = true
					}
				case *ssa.UnOp:
					// load of a []Name field of a value asserted from the body
					if fa, ok := x.X.(*ssa.FieldAddr); ok {
						base := fa.X
						if ex, ok := base.(*ssa.Extract); ok {
							base = ex.Tuple
						}
						if ta, ok := base.(*ssa.TypeAssert); ok && accessPath(ta.X) == bodyPath {
							okNames = true
						}
					}
				}
				if !okNames {
					problems = append(problems, "the names taken out of the context are not the free names/parameters of the form typed as the body")
				}
			}
			// no exemption
			for _, a := range args[2:] {
				if isNamed(a.Type(), processPkg, "Name") {
					if !isNilConst(a) {
						problems = append(problems, "a name is exempted from the split ("+describeVal(a)+"): if the body mentions it, it is neither handed to the body nor removed from the context, so a live channel of that name is silently shadowed")
					}
				}
			}
			// the body is typed against the type under which the new name then enters the
			// continuation's context
			if bodyCall != nil && contCall != nil && right != nil {
				var bodyType ssa.Value
				for _, a := range bodyCall.Common().Args {
					if isNamed(a.Type(), typesPkg, "SessionType") {
						bodyType = a
					}
				}
				strip := func(v ssa.Value) ssa.Value {
					for d := 0; d < 4; d++ {
						c, ok := v.(*ssa.Call)
						if !ok {
							break
						}
						sc := c.Common().StaticCallee()
						if sc == nil || sc.Pkg == nil || sc.Pkg.Pkg.Path() != typesPkg || len(c.Common().Args) == 0 || !isNamed(c.Common().Args[0].Type(), typesPkg, "SessionType") || sc.Signature.Results().Len() != 1 || !isNamed(sc.Signature.Results().At(0).Type(), typesPkg, "SessionType") {
							break
						}
						// Unfold(type, env), CopyType(type): the same type, unfolded or copied
						if n := sc.Signature.Params().Len(); n != 1 && n != 2 {
							break
						}
						v = c.Common().Args[0]
					}
					return v
				}
				var same func(x, y ssa.Value, d int) bool
				same = func(x, y ssa.Value, d int) bool {
					x, y = strip(x), strip(y)
					if x == y {
						return true
					}
					if ax := accessPath(x); ax != "" && ax == accessPath(y) {
						return true
					}
					// two loads of the same field of the same object (the declared signature)
					if lx, ok := x.(*ssa.UnOp); ok {
						if ly, ok := y.(*ssa.UnOp); ok {
							fx, okx := lx.X.(*ssa.FieldAddr)
							fy, oky := ly.X.(*ssa.FieldAddr)
							if okx && oky && fx.Field == fy.Field && fx.X == fy.X {
								return true
							}
						}
					}
					if fx, ok := x.(*ssa.Field); ok {
						if fy, ok := y.(*ssa.Field); ok && fx.Field == fy.Field && fx.X == fy.X {
							return true
						}
					}
					if ph, ok := y.(*ssa.Phi); ok && d < 3 {
						for _, e := range ph.Edges {
							if !same(x, e, d+1) {
								return false
							}
						}
						return len(ph.Edges) > 0
					}
					return false
				}
				nIns := 0
				for _, b := range m.Fn.Blocks {
					for _, in := range b.Instrs {
						mu, ok := in.(*ssa.MapUpdate)
						if !ok || origin(mu.Map) != right {
							continue
						}
						// the insertion that stands when the continuation is typed: after the
						// body judgement, before the continuation judgement
						if !(bodyCall.Block().Dominates(b) && b.Dominates(contCall.Block())) {
							continue
						}
						if b == bodyCall.Block() && indexIn(b, mu) < indexIn(b, bodyCall) {
							continue
						}
						var insType ssa.Value
						if ld, ok := mu.Value.(*ssa.UnOp); ok {
							if al, ok := ld.X.(*ssa.Alloc); ok {
								for _, u := range *al.Referrers() {
									if fa, ok := u.(*ssa.FieldAddr); ok {
										if _, n, _ := fieldNameOf(fa); n == "Type" {
											for _, st := range storesTo(fa) {
												insType = st.Val
											}
										}
									}
								}
							}
						}
						if insType == nil || bodyType == nil {
							continue
						}
						nIns++
						if !same(bodyType, insType, 0) {
							problems = append(problems, fmt.Sprintf("the spawned body is typed against %s but the new name enters the continuation's context (at %s) with %s: nothing relates the two, so the continuation may use the channel at a type its provider does not offer", describeVal(bodyType), p.instrPos(mu), describeVal(insType)))
						}
					}
				}
				_ = nIns
			}
			if len(problems) == 0 {
				r.add(name, construct, Holds, p.instrPos(call), "")
			} else {
				r.add(name, construct, Violated, p.instrPos(call), strings.Join(problems, "; "))
			}
		}
	}
}

// wrappedSplit: fn returns, as its first two results, the two halves produced by its single
// call of a context splitter (a function with results (ctx, ctx, _)); returns that call.
func wrappedSplit(p *Program, fn *ssa.Function) *ssa.Call {
	if fn == nil || fn.Blocks == nil || !p.isFirstParty(fn) {
		return nil
	}
	var inner *ssa.Call
	for _, c := range p.callsIn(fn) {
		call, ok := c.(*ssa.Call)
		if !ok {
			continue
		}
		sc := call.Common().StaticCallee()
		if sc == nil || sc == fn || sc.Signature.Results().Len() != 3 || !isCtxType(sc.Signature.Results().At(0).Type()) || !isCtxType(sc.Signature.Results().At(1).Type()) {
			continue
		}
		if inner != nil {
			return nil
		}
		inner = call
	}
	if inner == nil {
		return nil
	}
	// every return hands back nil halves (error) or the halves of that call
	for _, b := range fn.Blocks {
		for _, in := range b.Instrs {
			ret, ok := in.(*ssa.Return)
			if !ok || len(ret.Results) != 3 {
				continue
			}
			for i := 0; i < 2; i++ {
				v := ret.Results[i]
				if isNilConst(v) {
					continue
				}
				ex, ok := origin(v).(*ssa.Extract)
				if !ok || ex.Tuple != ssa.Value(inner) || ex.Index != i {
					return nil
				}
			}
		}
	}
	return inner
}

// R-TYPE-RECORDED (C01, C02, C13): the interpreter reads the session type the typechecker
// left on a name (polarity of forwards, duplication, dropping); every name the typing rule
// takes out of the context gets that type written into the form itself.
func init() {
	register(&Rule{Name: "R-TYPE-RECORDED", Min: 15,
		Doc: "for every call of the consume function in a typing rule whose name argument is a name stored in the form (a field, or an element of a name-slice field): every path from that call to a success exit of the rule passes a store to the Type field of that same name inside the form (a store into a local copy of the name does not count)",
		Run: runTypeRecorded})
}

// formNamePath: v is (a load of) a name that lives inside the form: a chain of FieldAddr /
// IndexAddr / loads of slice fields rooted at the receiver. Returns a structural path with
// indexes abstracted, "" otherwise.
func formNamePath(v ssa.Value, recv *ssa.Parameter, d int) string {
	if d > 8 {
		return ""
	}
	switch x := v.(type) {
	case *ssa.UnOp:
		if x.Op == token.MUL {
			return formNamePath(x.X, recv, d+1)
		}
	case *ssa.FieldAddr:
		if b := formNamePath(x.X, recv, d+1); b != "" {
			_, n, _ := fieldNameOf(x)
			return b + "." + n
		}
	case *ssa.IndexAddr:
		if b := formNamePath(x.X, recv, d+1); b != "" {
			return b + "[]"
		}
	case *ssa.Parameter:
		if x == recv {
			return x.Name()
		}
	case *ssa.Extract:
		// range over a slice of the form by value: not inside the form
	}
	return ""
}

func runTypeRecorded(p *Program, r *RuleResult) {
	n := 0
	for _, m := range p.typecheckMethods() {
		view := p.View(m.Fn)
		exits := map[ssa.Instruction]bool{}
		for _, ret := range p.successExits(m) {
			exits[ret] = true
		}
		ord := map[string]int{}
		for _, c := range p.callsIn(m.Fn) {
			call, ok := c.(*ssa.Call)
			if !ok {
				continue
			}
			sc := call.Common().StaticCallee()
			if !(p.isConsumeFunc(sc) || looksLikeConsume(sc)) {
				continue
			}
			var nameArg ssa.Value
			for _, a := range call.Common().Args {
				if isNameType2(a.Type()) {
					nameArg = a
					break
				}
			}
			if nameArg == nil {
				continue
			}
			path := formNamePath(nameArg, m.Recv, 0)
			n++
			key := path
			if key == "" {
				key = "local-copy:" + describeVal(nameArg)
			}
			ord[key]++
			construct := fmt.Sprintf("type-of:%s#%d", key, ord[key])
			if path == "" {
				// the name consumed is a copy: the copy's origin inside the form, if any
				var src string
				if ld, ok := nameArg.(*ssa.UnOp); ok {
					if al, ok := ld.X.(*ssa.Alloc); ok {
						for _, st := range storesTo(al) {
							if s := formNamePath(st.Val, m.Recv, 0); s != "" {
								src = s
							}
						}
					}
				}
				if src == "" {
					r.add(fnName(m.Fn), construct, Holds, p.instrPos(call), "the consumed name is not stored in the form")
					continue
				}
				path = src
			}
			want := path + ".Type"
			// the value recorded must be this name's type: derived from this consume call
			// (through Unfold, a constructor assertion, a phi) or a type that was compared
			// equal to such a value
			var fromConsume func(v ssa.Value, d int) bool
			fromConsume = func(v ssa.Value, d int) bool {
				if d > 8 {
					return false
				}
				switch x := v.(type) {
				case *ssa.Extract:
					if x.Tuple == ssa.Value(call) {
						return x.Index == 0
					}
					if ta, ok := x.Tuple.(*ssa.TypeAssert); ok && x.Index == 0 {
						return fromConsume(ta.X, d+1)
					}
				case *ssa.TypeAssert:
					return fromConsume(x.X, d+1)
				case *ssa.Call:
					if sc := x.Common().StaticCallee(); sc != nil && len(x.Common().Args) > 0 && isSessionTypeType(x.Type()) {
						return fromConsume(x.Common().Args[0], d+1)
					}
				case *ssa.Phi:
					for _, e := range x.Edges {
						if fromConsume(e, d+1) {
							return true
						}
					}
				case *ssa.MakeInterface:
					return fromConsume(x.X, d+1)
				case *ssa.ChangeInterface:
					return fromConsume(x.X, d+1)
				case *ssa.UnOp:
					if al, ok := x.X.(*ssa.Alloc); ok {
						for _, st := range storesTo(al) {
							if fromConsume(st.Val, d+1) {
								return true
							}
						}
					}
				}
				return false
			}
			eqT := p.Func(typesPkg, "EqualType")
			stripUnfold := func(v ssa.Value) ssa.Value {
				for d := 0; d < 4; d++ {
					c, ok := v.(*ssa.Call)
					if !ok || c.Common().StaticCallee() == nil || len(c.Common().Args) == 0 || !isSessionTypeType(c.Type()) || c.Common().StaticCallee() == eqT {
						break
					}
					v = c.Common().Args[0]
				}
				return origin(v)
			}
			comparedEqual := func(v ssa.Value) bool {
				vo := stripUnfold(v)
				for _, c2 := range p.callsIn(m.Fn) {
					if c2.Common().StaticCallee() != eqT || eqT == nil {
						continue
					}
					a, b := c2.Common().Args[0], c2.Common().Args[1]
					if (fromConsume(a, 0) && stripUnfold(b) == vo) || (fromConsume(b, 0) && stripUnfold(a) == vo) {
						return true
					}
				}
				return false
			}
			wrongValue := ""
			isRecord := func(in ssa.Instruction) bool {
				if c, isCall := in.(ssa.CallInstruction); isCall {
					for _, vs := range p.helperStores(c) {
						if vs.key == want && vs.val != nil && (fromConsume(vs.val, 0) || comparedEqual(vs.val)) {
							return true
						}
					}
					return false
				}
				st, ok := in.(*ssa.Store)
				if !ok || formNamePath(st.Addr, m.Recv, 0) != want {
					return false
				}
				if fromConsume(st.Val, 0) || comparedEqual(st.Val) {
					return true
				}
				wrongValue = p.instrPos(st)
				return false
			}
			// a success exit reachable from the call without passing a recording store?
			hits := view.mayReachFrom(call, nil, func(in ssa.Instruction) bool { return exits[in] }, isRecord)
			if len(hits) == 0 {
				r.add(fnName(m.Fn), construct, Holds, p.instrPos(call), "every success path stores "+want)
			} else {
				if wrongValue != "" {
					r.add(fnName(m.Fn), construct, Violated, p.instrPos(call),
						fmt.Sprintf("the type stored on %s at %s is not the type this name had in the context (nor one compared equal to it): the interpreter will take the polarity and mode of another channel for it", path, wrongValue))
					continue
				}
				r.add(fnName(m.Fn), construct, Violated, p.instrPos(call),
					fmt.Sprintf("the rule can succeed (%s) without recording the type of %s in the form: the interpreter later asks that name for its polarity (forwards created when the process is duplicated or dropped) and finds no type", p.instrPos(hits[0]), path))
			}
		}
	}
	r.count("consumed names", n)
}

// R-JUDGEMENT-PROPAGATES (C07, C05, C01): the verdict of a premise is the verdict of the rule.
func init() {
	register(&Rule{Name: "R-JUDGEMENT-PROPAGATES", Min: 15,
		Doc: "every typing judgement invoked inside a typing rule or a typechecking phase (an invoke of typecheckForm) has its result returned as the rule's own result or tested, with the error branch leaving through an error exit: no success exit is reachable from the call unless the result was found nil",
		Run: runJudgementPropagates})
}

func runJudgementPropagates(p *Program, r *RuleResult) {
	n := 0
	for _, fn := range p.SrcFuncs {
		if fn.Pkg == nil || fn.Pkg.Pkg.Path() != processPkg || fn.Blocks == nil {
			continue
		}
		view := p.View(fn)
		ord := 0
		for _, c := range p.callsIn(fn) {
			call, ok := c.(*ssa.Call)
			if !ok || !call.Common().IsInvoke() || call.Common().Method.Name() != "typecheckForm" {
				continue
			}
			n++
			ord++
			construct := fmt.Sprintf("premise#%d", ord)
			bad := ""
			seen := map[*ssa.BasicBlock]bool{}
			var walk func(b *ssa.BasicBlock, from int)
			walk = func(b *ssa.BasicBlock, from int) {
				if bad != "" {
					return
				}
				ins := view.Instrs(b)
				for i := from; i < len(ins); i++ {
					ret, ok := ins[i].(*ssa.Return)
					if !ok || len(ret.Results) == 0 {
						continue
					}
					res := ret.Results[len(ret.Results)-1]
					if res == ssa.Value(call) {
						continue // returned as is
					}
					if ph, ok := res.(*ssa.Phi); ok {
						uses := false
						for _, e := range ph.Edges {
							if e == ssa.Value(call) {
								uses = true
							}
						}
						if uses {
							continue
						}
					}
					if isErrorValue(res, view, b, map[ssa.Value]bool{}) {
						continue // an error exit
					}
					bad = p.instrPos(ret)
				}
				// the edge on which the result is nil ends the search (the fact may be lost at
				// the entry of the successor when that is a join, e.g. a loop header)
				nilEdge := -1
				if len(ins) > 0 {
					if iff, ok := ins[len(ins)-1].(*ssa.If); ok {
						if bo, ok := iff.Cond.(*ssa.BinOp); ok && (bo.Op == token.NEQ || bo.Op == token.EQL) {
							if (bo.X == ssa.Value(call) && isNilConst(bo.Y)) || (bo.Y == ssa.Value(call) && isNilConst(bo.X)) {
								if bo.Op == token.NEQ {
									nilEdge = 1
								} else {
									nilEdge = 0
								}
							}
						}
					}
				}
				for i, su := range view.Succs(b) {
					if i == nilEdge || seen[su] || view.holdsAt(su, call, factNil) {
						continue
					}
					seen[su] = true
					walk(su, 0)
				}
			}
			walk(call.Block(), indexIn(call.Block(), call)+1)
			if bad != "" {
				r.add(fnName(fn), construct, Violated, p.instrPos(call), "the result of this judgement is not what the rule returns and success ("+bad+") is reachable without it having been found nil: an ill-typed continuation is accepted")
			} else {
				r.add(fnName(fn), construct, Holds, p.instrPos(call), "")
			}
		}
	}
	r.count("judgement premises", n)
}

// R-ROLE-GUARD (C01, C07): what the interpreter refuses to do at run time because a channel
// is (not) the process's own, the typing rule refuses at check time.
func init() {
	register(&Rule{Name: "R-ROLE-GUARD", Min: 8,
		Doc: "for every form whose transition method (either interpreter) ends in the run-time error helper when a name field is / is not `self`: every success exit of that form's typing rule lies on the branch where the provider test of the same field has the value the interpreter insists on",
		Run: runRoleGuard})
}

func runRoleGuard(p *Program, r *RuleResult) {
	n := 0
	type req struct {
		field string
		need  bool
		ctx   roleFacts // roles already established where the interpreter tests
		where string
	}
	for _, m := range p.typecheckMethods() {
		var reqs []req
		seenReq := map[string]bool{}
		for _, fam := range []string{"Transition", "TransitionNP"} {
			tr := p.MethodOpt(m.T, fam)
			if tr == nil || tr.Blocks == nil {
				continue
			}
			tview := p.View(tr)
			recv := tr.Params[0].Name()
			for _, b := range tr.Blocks {
				if len(b.Instrs) == 0 {
					continue
				}
				iff, ok := b.Instrs[len(b.Instrs)-1].(*ssa.If)
				if !ok {
					continue
				}
				cond, neg := iff.Cond, false
				if u, ok := cond.(*ssa.UnOp); ok && u.Op == token.NOT {
					cond, neg = u.X, true
				}
				ap := accessPath(cond)
				if !strings.HasPrefix(ap, recv+".") || !strings.HasSuffix(ap, ".IsSelf") {
					continue
				}
				field := strings.TrimSuffix(strings.TrimPrefix(ap, recv+"."), ".IsSelf")
				ctx := roleFacts{}
				for f := range tview.FactsAt(b) {
					if f.k != factTrue && f.k != factFalse {
						continue
					}
					fp := accessPath(f.v)
					if strings.HasPrefix(fp, recv+".") && strings.HasSuffix(fp, ".IsSelf") {
						ctx[strings.TrimSuffix(strings.TrimPrefix(fp, recv+"."), ".IsSelf")] = f.k == factTrue
					}
				}
				for i, su := range b.Succs {
					ins := tview.Instrs(su)
					if len(tview.Succs(su)) != 0 || len(ins) == 0 {
						continue
					}
					if _, isRet := ins[len(ins)-1].(*ssa.Return); isRet {
						continue
					}
					if _, isCall := ins[len(ins)-1].(ssa.CallInstruction); !isCall {
						continue
					}
					isSelfOnError := (i == 0) != neg
					var ck []string
					for f, v := range ctx {
						ck = append(ck, fmt.Sprintf("%s=%v", f, v))
					}
					sort.Strings(ck)
					key := fmt.Sprintf("%s|%v|%v", field, !isSelfOnError, ck)
					if seenReq[key] {
						continue
					}
					seenReq[key] = true
					w := p.instrPos(ins[len(ins)-1])
					reqs = append(reqs, req{field, !isSelfOnError, ctx, w})
				}
			}
		}
		if len(reqs) == 0 {
			continue
		}
		sort.Slice(reqs, func(i, j int) bool {
			return reqs[i].field+fmt.Sprint(reqs[i].ctx) < reqs[j].field+fmt.Sprint(reqs[j].ctx)
		})
		for _, rq := range reqs {
			n++
			var ck []string
			for f, v := range rq.ctx {
				ck = append(ck, fmt.Sprintf("%s=%v", f, v))
			}
			sort.Strings(ck)
			construct := fmt.Sprintf("role-of-%s:self=%v", rq.field, rq.need)
			if len(ck) > 0 {
				construct += fmt.Sprintf("-when[%s]", strings.Join(ck, ","))
			}
			bad := ""
			for _, pr := range p.successPathRoles(m) {
				applies := true
				for f, v := range rq.ctx {
					if w, known := pr.roles[f]; known && w != v {
						applies = false
					}
				}
				if !applies {
					continue
				}
				if w, known := pr.roles[rq.field]; !known || w != rq.need {
					bad = pr.exit
				}
			}
			want := "is not"
			if rq.need {
				want = "is"
			}
			if bad != "" {
				r.add(fnName(m.Fn), construct, Violated, p.pos(m.Fn.Pos()),
					fmt.Sprintf("the interpreter stops with a run-time error unless %s %s the process's own channel (%s), but the typing rule can succeed (%s) without having tested that: an accepted program fails when it runs", rq.field, want, rq.where, bad))
			} else {
				r.add(fnName(m.Fn), construct, Holds, p.pos(m.Fn.Pos()), fmt.Sprintf("every success exit in that situation knows that %s %s the provider", rq.field, want))
			}
		}
	}
	r.count("role requirements of the interpreter", n)
}

type pathRoles struct {
	roles roleFacts
	exit  string
}

// successPathRoles enumerates, for a typing rule, the distinct combinations of provider-test
// outcomes (per name field of the form) along the paths from the entry to a success exit.
func (p *Program) successPathRoles(m *tcMethod) []pathRoles {
	view := p.View(m.Fn)
	exits := map[ssa.Instruction]bool{}
	for _, ret := range p.successExits(m) {
		exits[ret] = true
	}
	var out []pathRoles
	seenSig := map[string]bool{}
	budget := 50000
	fieldOf := func(cond ssa.Value) (string, bool, bool) { // field, negated, ok
		neg := false
		if u, ok := cond.(*ssa.UnOp); ok && u.Op == token.NOT {
			cond, neg = u.X, true
		}
		c, ok := cond.(*ssa.Call)
		if !ok || !p.isProviderFunc(c.Common().StaticCallee()) {
			return "", false, false
		}
		ap := accessPath(c.Common().Args[0])
		if !strings.HasPrefix(ap, m.Recv.Name()+".") {
			return "", false, false
		}
		return strings.TrimPrefix(ap, m.Recv.Name()+"."), neg, true
	}
	var dfs func(b *ssa.BasicBlock, roles roleFacts, onPath map[*ssa.BasicBlock]bool)
	dfs = func(b *ssa.BasicBlock, roles roleFacts, onPath map[*ssa.BasicBlock]bool) {
		budget--
		if budget < 0 {
			return
		}
		ins := view.Instrs(b)
		for _, in := range ins {
			if exits[in] {
				var ks []string
				for f, v := range roles {
					ks = append(ks, fmt.Sprintf("%s=%v", f, v))
				}
				sort.Strings(ks)
				sig := p.instrPos(in) + "|" + strings.Join(ks, ",")
				if !seenSig[sig] {
					seenSig[sig] = true
					cp := roleFacts{}
					for f, v := range roles {
						cp[f] = v
					}
					out = append(out, pathRoles{cp, p.instrPos(in)})
				}
			}
		}
		succs := view.Succs(b)
		var cond ssa.Value
		if len(ins) > 0 {
			if iff, ok := ins[len(ins)-1].(*ssa.If); ok {
				cond = iff.Cond
			}
		}
		for i, su := range succs {
			if onPath[su] {
				continue
			}
			nr := roles
			if cond != nil && len(succs) == 2 {
				if f, neg, ok := fieldOf(cond); ok {
					val := (i == 0) != neg
					if old, known := roles[f]; known && old != val {
						continue // contradictory path
					}
					nr = roleFacts{}
					for k, v := range roles {
						nr[k] = v
					}
					nr[f] = val
				}
			}
			onPath[su] = true
			dfs(su, nr, onPath)
			delete(onPath, su)
		}
	}
	e := m.Fn.Blocks[0]
	dfs(e, roleFacts{}, map[*ssa.BasicBlock]bool{e: true})
	return out
}

// R-BINDER-TYPE (C07, C01, C05): a binder is given a component of the type it was cut out of.
func init() {
	register(&Rule{Name: "R-BINDER-TYPE", Min: 8,
		Doc: "the type under which a typing rule inserts a binder into the context is a component of the principal channel's type (a field of the constructor the rule asserted, an option's type), the consumed type itself (split), an annotation stored in the form or a declared signature - never the provider's whole type handed to the rule, which would let the continuation use the binder at the type of the process itself",
		Run: runBinderType})
}

func runBinderType(p *Program, r *RuleResult) {
	n := 0
	for _, m := range p.typecheckMethods() {
		ord := map[string]int{}
		for _, b := range m.Fn.Blocks {
			for _, in := range b.Instrs {
				mu, ok := in.(*ssa.MapUpdate)
				if !ok || !isCtxType(mu.Map.Type()) {
					continue
				}
				key := accessPath(mu.Key)
				if !strings.HasSuffix(key, ".Ident") {
					continue
				}
				// the stored NamesType{Type: v}
				var tv ssa.Value
				if ld, ok := mu.Value.(*ssa.UnOp); ok {
					if al, ok := ld.X.(*ssa.Alloc); ok && al.Referrers() != nil {
						for _, u := range *al.Referrers() {
							if fa, ok := u.(*ssa.FieldAddr); ok {
								if _, fname, _ := fieldNameOf(fa); fname == "Type" {
									for _, st := range storesTo(fa) {
										tv = st.Val
									}
								}
							}
						}
					}
				}
				if tv == nil {
					continue
				}
				n++
				ord[key]++
				construct := fmt.Sprintf("binder-type:%s#%d", strings.TrimSuffix(key, ".Ident"), ord[key])
				// does the value reach the provider-type parameter without selecting a component?
				whole := false
				seen := map[ssa.Value]bool{}
				var walk func(v ssa.Value, d int)
				walk = func(v ssa.Value, d int) {
					if d > 10 || seen[v] || whole {
						return
					}
					seen[v] = true
					switch x := v.(type) {
					case *ssa.Parameter:
						if x == m.Provider {
							whole = true
						}
					case *ssa.Call:
						// Unfold-like: session type in, session type out
						if sc := x.Common().StaticCallee(); sc != nil && len(x.Common().Args) > 0 && isSessionTypeType(x.Type()) && isSessionTypeType(x.Common().Args[0].Type()) {
							walk(x.Common().Args[0], d+1)
						}
					case *ssa.Phi:
						for _, e := range x.Edges {
							walk(e, d+1)
						}
					case *ssa.MakeInterface:
						walk(x.X, d+1)
					case *ssa.ChangeInterface:
						walk(x.X, d+1)
					case *ssa.Extract:
						if ta, ok := x.Tuple.(*ssa.TypeAssert); ok && x.Index == 0 {
							// the asserted constructor as a whole is still the whole type
							walk(ta.X, d+1)
						}
					case *ssa.UnOp:
						if al, ok := x.X.(*ssa.Alloc); ok {
							for _, st := range storesTo(al) {
								walk(st.Val, d+1)
							}
						}
						// a load of a field (component, annotation): stop - not the whole type
					}
				}
				walk(tv, 0)
				if whole {
					r.add(fnName(m.Fn), construct, Violated, p.instrPos(mu),
						fmt.Sprintf("%s is put into the context at the provider's own type (the type parameter of the rule, undecomposed): the continuation may use the new name as if it were the process's own channel", strings.TrimSuffix(key, ".Ident")))
				} else {
					r.add(fnName(m.Fn), construct, Holds, p.instrPos(mu), "")
				}
			}
		}
	}
	r.count("binder insertions", n)
}

// ctxInsertHelper: fn inserts, into a context parameter, an entry keyed by the identifier of
// one of its name parameters. Returns the indices of the context and the name parameter and
// the insertion.
func (p *Program) ctxInsertHelper(fn *ssa.Function) (ctxIdx, nameIdx int, mu *ssa.MapUpdate, ok bool) {
	if fn == nil || fn.Blocks == nil || !p.isFirstParty(fn) {
		return 0, 0, nil, false
	}
	for _, b := range fn.Blocks {
		for _, in := range b.Instrs {
			m, isMU := in.(*ssa.MapUpdate)
			if !isMU || !isCtxType(m.Map.Type()) {
				continue
			}
			ci, ni := -1, -1
			for i, prm := range fn.Params {
				if m.Map == ssa.Value(prm) {
					ci = i
				}
				if isNameType(prm.Type()) && accessPath(m.Key) == prm.Name()+".Ident" {
					ni = i
				}
			}
			if ci >= 0 && ni >= 0 {
				return ci, ni, m, true
			}
		}
	}
	return 0, 0, nil, false
}

// R-BIND-HELPER (C05, C07): a helper that binds a name in a typing context always binds it.
func init() {
	register(&Rule{Name: "R-BIND-HELPER", Min: 0,
		Doc: "every first-party helper of package process that inserts a name parameter into a context parameter does so before every return: a bind helper with a way round the insertion (`if name.IsSelf { return }`) silently discards the channel the rule was about to record, so a received linear channel need never be used. The expected count may be zero (today the rules insert directly); a fixture keeps the positive example",
		Run: runBindHelper})
}

func runBindHelper(p *Program, r *RuleResult) {
	n := 0
	for _, fn := range p.SrcFuncs {
		if fn.Pkg == nil || fn.Pkg.Pkg.Path() != processPkg || fn.Parent() != nil {
			continue
		}
		// typing rules themselves are judged by R-FRESH-BINDER; helpers are the functions
		// that are not typecheckForm methods
		if fn.Name() == "typecheckForm" {
			continue
		}
		_, ni, mu, ok := p.ctxInsertHelper(fn)
		if !ok {
			continue
		}
		// only helpers that bind one name handed to them (not the context constructors that
		// loop over a list)
		view := p.View(fn)
		inLoop := false
		for _, l := range view.Loops() {
			if l.Body[mu.Block()] {
				inLoop = true
			}
		}
		if inLoop {
			continue
		}
		n++
		bad := ""
		for _, b := range view.Blocks() {
			ins := view.Instrs(b)
			ret, isRet := ins[len(ins)-1].(*ssa.Return)
			if !isRet {
				continue
			}
			if !view.passedBefore(ret, func(in ssa.Instruction) bool { return in == ssa.Instruction(mu) }) {
				bad = p.instrPos(ret)
			}
		}
		if bad != "" {
			r.add(fnName(fn), "always-binds:"+fn.Params[ni].Name(), Violated, p.instrPos(mu), "the helper can return (at "+bad+") without inserting the name into the context: the rule that calls it goes on as if the channel were recorded, and a channel that is never recorded need never be used")
		} else {
			r.add(fnName(fn), "always-binds:"+fn.Params[ni].Name(), Holds, p.instrPos(mu), "")
		}
	}
	if n == 0 {
		r.add("process", "bind-helpers", Holds, "", "no helper inserts a single name into a context: the typing rules insert directly (R-FRESH-BINDER)")
	}
	r.count("bind helpers", n)
}
