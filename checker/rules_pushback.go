package main

import (
	"fmt"
	"go/constant"
	"go/token"
	"go/types"
	"sort"
	"strings"

	"golang.org/x/tools/go/ssa"
)

// R-UNREAD-ONCE (C12, C11): the scanner's one-rune pushback is used as a one-rune pushback.
// bufio.Reader can un-read only the rune returned by the immediately preceding ReadRune; a
// second un-read in a row fails (the scanner discards that error) while the position is
// still moved back: the rune is consumed and never tokenised.

func init() {
	register(&Rule{Name: "R-UNREAD-ONCE", Min: 6,
		Doc: "interprocedural typestate over the scanner's methods: on every path, a call of the un-read wrapper (the method that calls bufio.Reader.UnreadRune) is preceded by a call of the read wrapper with no other un-read in between; functions are summarised by what they need on entry and leave on exit",
		Run: runUnreadOnce})
}

const (
	pbRead   = 1 << iota // last pushback-relevant event: a read
	pbUnread             // an un-read
	pbEntry              // nothing yet in this activation (state of the caller)
)

type pbSummary struct {
	exit     int  // set of states possible at a return (pbEntry = unchanged)
	needRead bool // an un-read happens while still in the entry state: the caller must be in state read
}

func runUnreadOnce(p *Program, r *RuleResult) {
	ri := findScannerReader(p)
	if ri == nil || ri.Read == nil {
		r.add(parserPkg, "rune-reader", Undecided, "", "the wrapper of bufio.Reader.ReadRune was not found")
		return
	}
	var unread *ssa.Function
	for _, fn := range p.SrcFuncs {
		if fn.Pkg == nil || fn.Pkg.Pkg.Path() != parserPkg {
			continue
		}
		for _, c := range p.callsIn(fn) {
			if sc := c.Common().StaticCallee(); sc != nil && sc.String() == "(*bufio.Reader).UnreadRune" {
				unread = fn
			}
		}
	}
	if unread == nil {
		r.add(parserPkg, "rune-unreader", Undecided, "", "the wrapper of bufio.Reader.UnreadRune was not found")
		return
	}
	r.note("read wrapper %s, un-read wrapper %s", fnName(ri.Read), fnName(unread))
	// functions of the package that (transitively) use the wrappers
	var fns []*ssa.Function
	for _, fn := range p.SrcFuncs {
		if fn.Pkg != nil && fn.Pkg.Pkg.Path() == parserPkg && fn != ri.Read && fn != unread && fn.Blocks != nil && !p.inGeneratedFile(fn) {
			fns = append(fns, fn)
		}
	}
	sum := map[*ssa.Function]*pbSummary{}
	for _, fn := range fns {
		sum[fn] = &pbSummary{}
	}
	type viol struct {
		fn   *ssa.Function
		call ssa.CallInstruction
		why  string
	}
	var analyse func(fn *ssa.Function, report bool) (pbSummary, []viol, int)
	analyse = func(fn *ssa.Function, report bool) (pbSummary, []viol, int) {
		view := p.View(fn)
		in := map[*ssa.BasicBlock]int{}
		blocks := view.Blocks()
		if len(blocks) == 0 {
			return pbSummary{exit: pbEntry}, nil, 0
		}
		in[blocks[0]] = pbEntry
		var out pbSummary
		var viols []viol
		nUnreads := 0
		step := func(st int, c ssa.CallInstruction, rep bool) int {
			sc := c.Common().StaticCallee()
			if _, isDefer := c.(*ssa.Defer); isDefer {
				return st
			}
			switch {
			case sc == ri.Read:
				return pbRead
			case sc == unread:
				if rep {
					nUnreads++
					if st&pbUnread != 0 {
						viols = append(viols, viol{fn, c, "can follow another un-read with no read in between"})
					}
				}
				if st&pbEntry != 0 {
					out.needRead = true
				}
				return pbUnread
			}
			if s2, ok := sum[sc]; ok && sc != nil {
				if s2.needRead && st&pbUnread != 0 && rep {
					viols = append(viols, viol{fn, c, fmt.Sprintf("calls %s, which un-reads before it reads, right after an un-read", fnName(sc))})
				}
				if s2.needRead && st&pbEntry != 0 {
					out.needRead = true
				}
				res := s2.exit &^ pbEntry
				if s2.exit&pbEntry != 0 {
					res |= st
				}
				if s2.exit == 0 { // not yet computed / never returns
					res = st
				}
				return res
			}
			// closures called directly
			return st
		}
		for changed := true; changed; {
			changed = false
			for _, b := range blocks {
				st, ok := in[b]
				if !ok {
					continue
				}
				for _, ins := range view.Instrs(b) {
					if c, ok := ins.(ssa.CallInstruction); ok {
						st = step(st, c, false)
					}
				}
				for _, su := range view.Succs(b) {
					if in[su]|st != in[su] {
						in[su] |= st
						changed = true
					} else if _, seen := in[su]; !seen {
						in[su] = st
						changed = true
					}
				}
			}
		}
		out.exit = 0
		for _, b := range blocks {
			st, ok := in[b]
			if !ok {
				continue
			}
			ins := view.Instrs(b)
			for _, i := range ins {
				if c, ok := i.(ssa.CallInstruction); ok {
					st = step(st, c, report)
				}
			}
			if len(ins) > 0 {
				if _, ok := ins[len(ins)-1].(*ssa.Return); ok {
					out.exit |= st
				}
			}
		}
		return out, viols, nUnreads
	}
	for changed, iter := true, 0; changed && iter < 20; iter++ {
		changed = false
		for _, fn := range fns {
			s, _, _ := analyse(fn, false)
			if s != *sum[fn] {
				*sum[fn] = s
				changed = true
			}
		}
	}
	sort.Slice(fns, func(i, j int) bool { return fnName(fns[i]) < fnName(fns[j]) })
	total := 0
	for _, fn := range fns {
		_, viols, n := analyse(fn, true)
		uses := n > 0
		for _, c := range p.callsIn(fn) {
			if sc := c.Common().StaticCallee(); sc != nil && (sc == ri.Read || (sum[sc] != nil && (sum[sc].exit&^pbEntry != 0 || sum[sc].needRead))) {
				uses = true
			}
		}
		if !uses {
			continue
		}
		total++
		if len(viols) > 0 {
			for i, v := range viols {
				r.add(fnName(fn), fmt.Sprintf("pushback-once#%d", i+1), Violated, p.instrPos(v.call),
					"this un-read "+v.why+": bufio.Reader keeps one rune of pushback, the second un-read fails (its error is discarded) while the position is moved back, so a rune of the input is consumed and never tokenised")
			}
		} else {
			need := ""
			if sum[fn].needRead {
				need = "; needs a preceding read at its call sites (checked there)"
			}
			r.add(fnName(fn), "pushback-once", Holds, p.pos(fn.Pos()), fmt.Sprintf("%d un-read call(s), each preceded by a read on every path%s", n, need))
		}
	}
	// entry points called from outside the scanner (the lexer) must not need a read
	for _, fn := range fns {
		if !sum[fn].needRead {
			continue
		}
		callers := 0
		for _, g := range fns {
			for _, c := range p.callsIn(g) {
				if c.Common().StaticCallee() == fn {
					callers++
				}
			}
		}
		if callers == 0 {
			r.add(fnName(fn), "entry-needs-read", Violated, p.pos(fn.Pos()), "an un-read is reachable before any read in a function that is entered from outside the scanner")
		}
	}
	r.count("scanner functions using the pushback", total)
}

func (p *Program) inGeneratedFile(fn *ssa.Function) bool {
	for fn.Parent() != nil {
		fn = fn.Parent()
	}
	if !fn.Pos().IsValid() {
		return false
	}
	f := p.Fset.File(fn.Pos())
	return f != nil && strings.HasSuffix(f.Name(), ".y.go")
}

// R-INDEX-GUARD (C11, C09): constant and length-relative indexing of slices and strings on
// the parsing / typechecking path is guarded.

func init() {
	ruleUsesCallGraph["R-INDEX-GUARD"] = true
	register(&Rule{Name: "R-INDEX-GUARD", Min: 3,
		Doc: "in the hand-written files of the parser package, every index or slice expression on a slice or string whose index is a constant or len(x)-k is dominated by a comparison of len(x) that makes it in range (or lies in a range loop over x); variable indexes are not judged. One instance is accepted with its invariant (see indexGuardAllow)",
		Run: runIndexGuard})
}

// indexGuardAllow: function -> reason, for len-relative indexing that is safe by an
// invariant the rule cannot see.
var indexGuardAllow = map[string]string{
	"types.commonMode modes":               "variadic: every call passes two explicit modes or one mode per branch of a choice type, and the grammar's option list has no empty production (the same grammar file is read by R-PRINT-GRAMMAR and R-GENERATED)",
	"process.stringifyContext String()":    "the function returns early for an empty context; otherwise the loop runs at least once and every iteration writes the two-byte separator that is cut off here",
	"(*parser.scanner).unread s.pos.Lines": "the line stack is popped only when the column is 0 after a read that pushed it (read pushes on '\\n'); an un-read at column 0 with an empty stack would need two un-reads in a row or an un-read before any read, both excluded by R-UNREAD-ONCE",
}

func runIndexGuard(p *Program, r *RuleResult) {
	n := 0
	// the parse path: everything reachable from hand-written functions that call into the
	// generated parser
	var roots []*ssa.Function
	for _, fn := range p.SrcFuncs {
		if fn.Pkg == nil || fn.Pkg.Pkg.Path() != parserPkg || p.inGeneratedFile(fn) {
			continue
		}
		for _, c := range p.callsIn(fn) {
			if sc := c.Common().StaticCallee(); sc != nil && p.inGeneratedFile(sc) {
				roots = append(roots, fn)
				break
			}
		}
	}
	if len(roots) == 0 {
		r.add(parserPkg, "parse-entry-points", Undecided, "", "no hand-written function calls the generated parser")
		return
	}
	reach := p.reachableFuncs(roots, useCHA)
	r.count("functions on the parse path", len(reach))
	var fns []*ssa.Function
	for _, fn := range p.SrcFuncs {
		if fn.Pkg == nil || fn.Pkg.Pkg.Path() != parserPkg || fn.Blocks == nil || p.inGeneratedFile(fn) || !reach[fn] {
			continue
		}
		fns = append(fns, fn)
	}
	n = p.indexGuardScan(r, fns, "panics the parser instead of yielding an error")
	r.count("constant / length-relative index sites", n)
}

// R-INDEX-GUARD-TC (C09): the same rule below the typechecking driver.
func init() {
	ruleUsesCallGraph["R-INDEX-GUARD-TC"] = true
	register(&Rule{Name: "R-INDEX-GUARD-TC", Min: 3,
		Doc: "in the first-party functions reachable from the typechecking driver, every index or slice expression on a slice or string whose index is a constant or len(x)-k is dominated by a comparison of len(x) that makes it in range; variable indexes are not judged",
		Run: func(p *Program, r *RuleResult) {
			d := findTypecheckDriver(p)
			reach := p.reachableFuncs([]*ssa.Function{d.Driver}, useCHA)
			var fns []*ssa.Function
			for _, fn := range sortedFuncs(reach) {
				if fn.Blocks != nil && p.isFirstParty(fn) && fn.Pkg != nil && (fn.Pkg.Pkg.Path() == processPkg || fn.Pkg.Pkg.Path() == typesPkg) {
					fns = append(fns, fn)
				}
			}
			r.count("functions below the typechecking driver", len(fns))
			n := p.indexGuardScan(r, fns, "panics the typechecker instead of yielding a verdict")
			r.count("constant / length-relative index sites", n)
		}})
}

func (p *Program) indexGuardScan(r *RuleResult, fns []*ssa.Function, consequence string) int {
	n := 0
	for _, fn := range fns {
		view := p.View(fn)
		ord := 0
		for _, b := range view.Blocks() {
			for _, in := range view.Instrs(b) {
				var x, idx ssa.Value
				kind := ""
				switch t := in.(type) {
				case *ssa.IndexAddr:
					if _, ok := t.X.Type().Underlying().(*types.Slice); ok {
						x, idx, kind = t.X, t.Index, "index"
					}
				case *ssa.Lookup:
					if bt, ok := t.X.Type().Underlying().(*types.Basic); ok && bt.Info()&types.IsString != 0 {
						x, idx, kind = t.X, t.Index, "index"
					}
				case *ssa.Slice:
					switch t.X.Type().Underlying().(type) {
					case *types.Slice, *types.Basic:
						// x[lo:hi]: judge hi (or lo when hi is absent)
						if t.High != nil {
							x, idx, kind = t.X, t.High, "slice-high"
						} else if t.Low != nil {
							x, idx, kind = t.X, t.Low, "slice-low"
						}
					}
				}
				if x == nil {
					continue
				}
				xp := exprKey(x)
				// need: index value relative to len
				var needLen int64 // len(x) must be >= needLen
				switch iv := idx.(type) {
				case *ssa.Const:
					c, ok := constant.Int64Val(constant.ToInt(iv.Value))
					if !ok {
						continue
					}
					needLen = c + 1
					if kind != "index" {
						needLen = c
					}
				case *ssa.BinOp:
					k, okc := iv.Y.(*ssa.Const)
					lc, okl := iv.X.(*ssa.Call)
					if iv.Op != token.SUB || !okc || !okl || !isLenOfPath(lc, xp) {
						continue
					}
					c, _ := constant.Int64Val(constant.ToInt(k.Value))
					needLen = c // len-c >= 0 (index: len-c in [0,len) needs len >= c and c >= 1)
				default:
					continue
				}
				if needLen <= 0 {
					continue
				}
				n++
				ord++
				construct := fmt.Sprintf("%s#%d-of-%s", kind, ord, displayKey(x))
				if why, ok := indexGuardAllow[fnName(fn)+" "+displayKey(x)]; ok {
					r.add(fnName(fn), construct, Holds, p.instrPos(in), "accepted by invariant: "+why)
					continue
				}
				if lenAtLeast(view, b, xp) >= needLen {
					r.add(fnName(fn), construct, Holds, p.instrPos(in), fmt.Sprintf("dominated by a test that len(%s) >= %d", displayKey(x), needLen))
				} else {
					r.add(fnName(fn), construct, Violated, p.instrPos(in),
						fmt.Sprintf("%s needs len(%s) >= %d, and no test on the paths to it establishes that: an input that reaches it with a shorter %s %s", kind, displayKey(x), needLen, displayKey(x), consequence))
				}
			}
		}
	}
	return n
}

func isLenOfPath(c *ssa.Call, xp string) bool {
	b, ok := c.Common().Value.(*ssa.Builtin)
	return ok && b.Name() == "len" && len(c.Common().Args) == 1 && exprKey(c.Common().Args[0]) == xp && xp != ""
}

// lenAtLeast: the largest n such that the facts at b imply len(xp) >= n.
func lenAtLeast(view *View, b *ssa.BasicBlock, xp string) int64 {
	var best int64
	for f := range view.FactsAt(b) {
		bo, ok := f.v.(*ssa.BinOp)
		if !ok || (f.k != factTrue && f.k != factFalse) {
			continue
		}
		op := bo.Op
		var k int64
		// len(a)+k == len(x)  (or mirrored): len(x) >= k
		if bo.Op == token.EQL && f.k == factTrue {
			for _, pr := range [][2]ssa.Value{{bo.X, bo.Y}, {bo.Y, bo.X}} {
				lx, ok1 := pr[0].(*ssa.Call)
				sum, ok2 := pr[1].(*ssa.BinOp)
				if !ok1 || !ok2 || !isLenOfPath(lx, xp) || sum.Op != token.ADD {
					continue
				}
				for _, q := range [][2]ssa.Value{{sum.X, sum.Y}, {sum.Y, sum.X}} {
					la, okA := q[0].(*ssa.Call)
					kc, okC := q[1].(*ssa.Const)
					if okA && okC {
						if bi, ok := la.Common().Value.(*ssa.Builtin); ok && bi.Name() == "len" {
							if kv, ok := constant.Int64Val(constant.ToInt(kc.Value)); ok && kv > best {
								best = kv
							}
						}
					}
				}
			}
		}
		lc, okL := bo.X.(*ssa.Call)
		kc, okK := bo.Y.(*ssa.Const)
		if !(okL && okK && isLenOfPath(lc, xp)) {
			// const OP len(x)
			lc, okL = bo.Y.(*ssa.Call)
			kc, okK = bo.X.(*ssa.Const)
			if !(okL && okK && isLenOfPath(lc, xp)) {
				continue
			}
			switch op { // mirror
			case token.LSS:
				op = token.GTR
			case token.LEQ:
				op = token.GEQ
			case token.GTR:
				op = token.LSS
			case token.GEQ:
				op = token.LEQ
			}
		}
		k, _ = constant.Int64Val(constant.ToInt(kc.Value))
		if f.k == factFalse { // negate
			switch op {
			case token.LSS:
				op = token.GEQ
			case token.LEQ:
				op = token.GTR
			case token.EQL:
				op = token.NEQ
			case token.NEQ:
				op = token.EQL
			case token.GTR:
				op = token.LEQ
			case token.GEQ:
				op = token.LSS
			}
		}
		var n int64
		switch op {
		case token.GTR:
			n = k + 1
		case token.GEQ:
			n = k
		case token.NEQ:
			if k == 0 {
				n = 1
			}
		case token.EQL:
			n = k
		}
		if n > best {
			best = n
		}
	}
	return best
}

// exprKey: a structural key of a pure expression (loads of field paths rooted at a value);
// go/ssa does not share the two loads of `x.f` in `len(x.f)` and `x.f[0]`.
func exprKey(v ssa.Value) string {
	if ap := accessPath(v); ap != "" {
		return ap
	}
	var key func(v ssa.Value, d int) string
	key = func(v ssa.Value, d int) string {
		if d > 6 {
			return ""
		}
		switch x := v.(type) {
		case *ssa.UnOp:
			if x.Op == token.MUL {
				if k := key(x.X, d+1); k != "" {
					return "*" + k
				}
			}
			return ""
		case *ssa.FieldAddr:
			if k := key(x.X, d+1); k != "" {
				_, n, _ := fieldNameOf(x)
				return k + "." + n
			}
			return ""
		case *ssa.Field:
			if k := key(x.X, d+1); k != "" {
				_, n, _ := fieldNameOf(x)
				return k + "." + n
			}
			return ""
		case *ssa.Parameter, *ssa.FreeVar:
			return x.Name()
		case *ssa.Call, *ssa.Extract, *ssa.Alloc, *ssa.Phi, *ssa.MakeSlice:
			return fmt.Sprintf("%s@%p", x.Name(), x)
		}
		return ""
	}
	return key(v, 0)
}

// displayKey: exprKey without value identities (for obligation keys and messages).
func displayKey(v ssa.Value) string {
	if ap := accessPath(v); ap != "" {
		return ap
	}
	switch x := v.(type) {
	case *ssa.UnOp:
		return displayKey(x.X)
	case *ssa.FieldAddr:
		_, n, _ := fieldNameOf(x)
		return displayKey(x.X) + "." + n
	case *ssa.Field:
		_, n, _ := fieldNameOf(x)
		return displayKey(x.X) + "." + n
	case *ssa.Call:
		if sc := x.Common().StaticCallee(); sc != nil {
			return sc.Name() + "()"
		}
	case *ssa.Extract:
		return displayKey(x.Tuple)
	case *ssa.MakeSlice:
		return "make(" + x.Type().String() + ")"
	case *ssa.Alloc:
		if x.Comment != "" {
			return x.Comment
		}
	case *ssa.IndexAddr:
		return displayKey(x.X) + "[]"
	}
	if c, ok := v.(*ssa.Call); ok && c.Common().IsInvoke() {
		return c.Common().Method.Name() + "()"
	}
	return describeVal(v)
}

// R-WHOLE-INPUT (C18, C12): the reader the scanner consumes is the caller's input itself.
func init() {
	register(&Rule{Name: "R-WHOLE-INPUT", Min: 4,
		Doc: "from every first-party place where program text enters (an opened file, a string or byte reader, a reader parameter of an entry point without first-party callers) to the scanner's bufio.NewReader, the reader value is handed on unchanged or through a constructor known to deliver every byte (os.Open, strings.NewReader, bytes.NewReader, bufio.NewReader); a truncating or otherwise unknown adaptor in between means part of the file is never parsed or typechecked",
		Run: runWholeInput})
}

var wholeInputCtors = map[string]bool{
	"os.Open": true, "strings.NewReader": true, "bytes.NewReader": true, "bytes.NewBuffer": true, "bytes.NewBufferString": true, "bufio.NewReader": true,
}

func runWholeInput(p *Program, r *RuleResult) {
	// sink: the call of bufio.NewReader in package parser (the scanner's constructor)
	type work struct {
		fn  *ssa.Function
		prm int
	}
	var queue []work
	seenW := map[work]bool{}
	ord := map[string]int{}
	judged := 0
	var judge func(fn *ssa.Function, v ssa.Value, what string, pos string, depth int)
	judge = func(fn *ssa.Function, v ssa.Value, what string, pos string, depth int) {
		name := fnName(fn)
		if depth > 6 {
			ord[name]++
			r.add(name, fmt.Sprintf("whole-input#%d:%s", ord[name], what), Undecided, pos, "reader flow too deep to follow")
			return
		}
		switch x := v.(type) {
		case *ssa.MakeInterface:
			judge(fn, x.X, what, pos, depth+1)
			return
		case *ssa.ChangeInterface:
			judge(fn, x.X, what, pos, depth+1)
			return
		case *ssa.Parameter:
			for i, prm := range fn.Params {
				if prm == x {
					w := work{fn, i}
					if !seenW[w] {
						seenW[w] = true
						queue = append(queue, w)
					}
				}
			}
			return
		case *ssa.Extract:
			judge(fn, x.Tuple, what, pos, depth+1)
			return
		case *ssa.Phi:
			for _, e := range x.Edges {
				judge(fn, e, what, pos, depth+1)
			}
			return
		case *ssa.UnOp:
			if g, ok := x.X.(*ssa.Global); ok && g.Pkg != nil && g.Pkg.Pkg.Path() == "os" {
				judged++
				ord[name]++
				r.add(name, fmt.Sprintf("whole-input#%d:%s", ord[name], what), Holds, pos, "the process's own "+g.Name())
				return
			}
			if al, ok := x.X.(*ssa.Alloc); ok {
				for _, st := range storesTo(al) {
					judge(fn, st.Val, what, pos, depth+1)
				}
				return
			}
		case *ssa.Call:
			sc := x.Common().StaticCallee()
			if sc != nil && wholeInputCtors[sc.String()] {
				judged++
				ord[name]++
				// bufio.NewReader(r): follow r
				if sc.String() == "bufio.NewReader" {
					judge(fn, x.Common().Args[0], what, pos, depth+1)
					return
				}
				r.add(name, fmt.Sprintf("whole-input#%d:%s", ord[name], what), Holds, pos, "the input is "+sc.String()+"(…), which delivers every byte")
				return
			}
			ord[name]++
			cn := "a dynamic call"
			if sc != nil {
				cn = sc.String()
			}
			r.add(name, fmt.Sprintf("whole-input#%d:%s", ord[name], what), Violated, pos,
				fmt.Sprintf("the reader handed towards the scanner is the result of %s, not the input itself: nothing shows that every byte of the program text reaches the parser (a size-limited or filtering reader lets the rest of the file go unparsed and unchecked while the prefix is accepted and run)", cn))
			return
		}
		ord[name]++
		r.add(name, fmt.Sprintf("whole-input#%d:%s", ord[name], what), Undecided, pos, "cannot classify the origin of the reader: "+describeVal(v))
	}
	found := false
	for _, fn := range p.SrcFuncs {
		if fn.Pkg == nil || fn.Pkg.Pkg.Path() != parserPkg || p.inGeneratedFile(fn) {
			continue
		}
		for _, c := range p.callsIn(fn) {
			if sc := c.Common().StaticCallee(); sc != nil && sc.String() == "bufio.NewReader" {
				found = true
				judge(fn, c.Common().Args[0], "scanner-source", p.instrPos(c), 0)
			}
		}
	}
	if !found {
		r.add(parserPkg, "scanner-source", Undecided, "", "the scanner's bufio.NewReader call was not found")
		return
	}
	for len(queue) > 0 {
		w := queue[0]
		queue = queue[1:]
		callers := 0
		for _, fn := range p.SrcFuncs {
			if !p.isFirstParty(fn) {
				continue
			}
			for _, c := range p.callsIn(fn) {
				if c.Common().StaticCallee() != w.fn {
					continue
				}
				callers++
				args := c.Common().Args
				if w.prm < len(args) {
					judge(fn, args[w.prm], "argument-of-"+w.fn.Name(), p.instrPos(c), 0)
				}
			}
		}
		if callers == 0 {
			r.note("entry point without first-party callers: %s (its reader parameter is the caller's input)", fnName(w.fn))
		}
	}
	// reads that can hand back only part of what was asked for
	for _, fn := range p.SrcFuncs {
		if fn.Pkg == nil || fn.Pkg.Pkg.Path() != parserPkg {
			continue
		}
		ord := 0
		for _, c := range p.callsIn(fn) {
			call, ok := c.(*ssa.Call)
			if !ok {
				continue
			}
			sc := call.Common().StaticCallee()
			if sc == nil || sc.Pkg == nil || sc.Pkg.Pkg.Path() != "bufio" {
				continue
			}
			switch sc.Name() {
			case "ReadLine":
				ord++
				construct := fmt.Sprintf("partial-read#%d:ReadLine", ord)
				used := false
				for _, u := range *call.Referrers() {
					if ex, ok := u.(*ssa.Extract); ok && ex.Index == 1 && ex.Referrers() != nil && len(*ex.Referrers()) > 0 {
						used = true
					}
				}
				if used {
					r.add(fnName(fn), construct, Holds, p.instrPos(call), "the isPrefix result is looked at")
				} else {
					r.add(fnName(fn), construct, Violated, p.instrPos(call), "ReadLine hands back at most one buffer (4096 bytes) of a longer line and says so in isPrefix, which is discarded here: the rest of the line is then scanned as program text")
				}
			}
		}
	}
	r.count("input sources judged", judged)
}

// R-PER-RUNE-CONST (C11): the functions the scanner runs once per input rune do a bounded
// amount of work.
func init() {
	register(&Rule{Name: "R-PER-RUNE-CONST", Min: 2,
		Doc: "the read and un-read wrappers of the scanner (executed once per rune of the input) contain no loop, call nothing but the buffered reader's rune functions and builtins, and never copy a slice of the scanner's state (append(x, s.f...), copy, a conversion of the whole slice): such a copy costs time proportional to the input consumed so far, which makes scanning quadratic",
		Run: runPerRuneConst})
}

func runPerRuneConst(p *Program, r *RuleResult) {
	ri := findScannerReader(p)
	if ri == nil || ri.Read == nil {
		r.add(parserPkg, "rune-reader", Undecided, "", "the wrapper of bufio.Reader.ReadRune was not found")
		return
	}
	fns := []*ssa.Function{ri.Read}
	for _, fn := range p.SrcFuncs {
		if fn.Pkg == nil || fn.Pkg.Pkg.Path() != parserPkg {
			continue
		}
		for _, c := range p.callsIn(fn) {
			if sc := c.Common().StaticCallee(); sc != nil && sc.String() == "(*bufio.Reader).UnreadRune" {
				fns = append(fns, fn)
			}
		}
	}
	// constCost: "" when the function does a bounded amount of work per call, else why not;
	// first-party callees are judged the same way (no recursion).
	var constCost func(fn *ssa.Function, stack map[*ssa.Function]bool) string
	constCost = func(fn *ssa.Function, stack map[*ssa.Function]bool) string {
		view := p.View(fn)
		bad := ""
		if len(view.Loops()) > 0 {
			bad = "it contains a loop"
		}
		for _, c := range p.callsIn(fn) {
			com := c.Common()
			if bi, ok := com.Value.(*ssa.Builtin); ok {
				switch bi.Name() {
				case "append":
					// append(x, y...) where y is not the one-element literal of a plain append
					if len(com.Args) == 2 {
						fresh := false
						if sl, ok := com.Args[1].(*ssa.Slice); ok {
							if al, ok := sl.X.(*ssa.Alloc); ok {
								if arr, ok := al.Type().Underlying().(*types.Pointer).Elem().Underlying().(*types.Array); ok && arr.Len() <= 4 {
									fresh = true
								}
							}
						}
						if !fresh {
							bad = "it appends a whole slice (" + displayKey(com.Args[1]) + "...) at " + p.instrPos(c)
						}
					}
				case "copy":
					bad = "it copies a slice at " + p.instrPos(c)
				}
				continue
			}
			sc := com.StaticCallee()
			if sc == nil {
				bad = "it makes a dynamic call at " + p.instrPos(c)
				continue
			}
			if sc.Pkg != nil && sc.Pkg.Pkg.Path() == "bufio" {
				continue
			}
			if sc.Pkg != nil && sc.Pkg.Pkg.Path() == parserPkg && len(sc.Blocks) > 0 && !stack[sc] && len(stack) < 4 {
				stack[sc] = true
				why := constCost(sc, stack)
				delete(stack, sc)
				if why == "" {
					continue
				}
				bad = "it calls " + sc.String() + " at " + p.instrPos(c) + ", of which: " + why
				continue
			}
			bad = "it calls " + sc.String() + " at " + p.instrPos(c)
		}
		return bad
	}
	for _, fn := range fns {
		bad := constCost(fn, map[*ssa.Function]bool{fn: true})
		if bad != "" {
			r.add(fnName(fn), "constant-work-per-rune", Violated, p.pos(fn.Pos()), "this function runs once per rune of the input and "+bad+": the cost of scanning is no longer proportional to the length of the text")
		} else {
			r.add(fnName(fn), "constant-work-per-rune", Holds, p.pos(fn.Pos()), "no loop, no slice copy, only the buffered reader's rune functions and loop-free helpers of the package")
		}
	}
}
