package main

import (
	"bufio"
	"bytes"
	"fmt"
	"os"
	"os/exec"
	"path/filepath"
	"regexp"
	"strings"
)

// E6 – grammar facts. goyacc (built from the module cache into /verif/bin) is applied to
// /repo/parser/parser.y in a scratch directory; the generated Go file is compared with
// the committed parser.y.go and the conflict summary is read from y.output. The rule
// section of parser.y is parsed by a small reader. Nothing generated is ever executed.

type Production struct {
	LHS    string
	RHS    []string
	Prec   string // explicit %prec token, if any
	Line   int
	Action string // text of the (last) semantic action, without the outer braces
}

type Grammar struct {
	Tokens     map[string]bool
	PrecLevel  map[string]int    // token -> level (1 = lowest)
	Assoc      map[string]string // token -> left|right|nonassoc
	Prods      []*Production
	Start      string
	File       string
	HasErrorTk bool
}

func (g *Grammar) IsTerminal(s string) bool { return g.Tokens[s] }

func (g *Grammar) ProdsOf(lhs string) []*Production {
	var out []*Production
	for _, p := range g.Prods {
		if p.LHS == lhs {
			out = append(out, p)
		}
	}
	return out
}

// ProdPrec: precedence token of a production (explicit %prec or last terminal with a level).
func (g *Grammar) ProdPrec(p *Production) (string, int) {
	if p.Prec != "" {
		return p.Prec, g.PrecLevel[p.Prec]
	}
	for i := len(p.RHS) - 1; i >= 0; i-- {
		if g.IsTerminal(p.RHS[i]) {
			if l, ok := g.PrecLevel[p.RHS[i]]; ok {
				return p.RHS[i], l
			}
		}
	}
	return "", 0
}

// stripActions removes { ... } action blocks (with nesting, strings, chars and comments)
// and /* */ comments from the rule section.
func stripActions(src string) string {
	var out bytes.Buffer
	depth := 0
	for i := 0; i < len(src); i++ {
		c := src[i]
		// comments
		if c == '/' && i+1 < len(src) && src[i+1] == '*' {
			j := strings.Index(src[i+2:], "*/")
			if j < 0 {
				break
			}
			for k := i; k < i+2+j+2; k++ {
				if src[k] == '\n' {
					out.WriteByte('\n')
				}
			}
			i = i + 2 + j + 1
			continue
		}
		if c == '/' && i+1 < len(src) && src[i+1] == '/' && depth > 0 {
			for i < len(src) && src[i] != '\n' {
				i++
			}
			out.WriteByte('\n')
			continue
		}
		if depth > 0 {
			switch c {
			case '"':
				i++
				for i < len(src) && src[i] != '"' {
					if src[i] == '\\' {
						i++
					}
					i++
				}
			case '\'':
				i++
				for i < len(src) && src[i] != '\'' {
					if src[i] == '\\' {
						i++
					}
					i++
				}
			case '`':
				i++
				for i < len(src) && src[i] != '`' {
					i++
				}
			case '{':
				depth++
			case '}':
				depth--
			case '\n':
				out.WriteByte('\n')
			}
			continue
		}
		if c == '{' {
			depth++
			continue
		}
		out.WriteByte(c)
	}
	return out.String()
}

func parseYacc(path string) (*Grammar, error) {
	data, err := os.ReadFile(path)
	if err != nil {
		return nil, err
	}
	src := string(data)
	parts := strings.SplitN(src, "\n%%", 3)
	if len(parts) < 2 {
		return nil, fmt.Errorf("%s: no rule section", path)
	}
	g := &Grammar{Tokens: map[string]bool{}, PrecLevel: map[string]int{}, Assoc: map[string]string{}, File: path}
	// declarations
	level := 0
	decl := parts[0]
	if i := strings.Index(decl, "%}"); i >= 0 {
		decl = decl[i+2:]
	}
	sc := bufio.NewScanner(strings.NewReader(decl))
	inUnion := false
	for sc.Scan() {
		line := strings.TrimSpace(sc.Text())
		if strings.HasPrefix(line, "%union") {
			inUnion = true
		}
		if inUnion {
			if strings.HasPrefix(line, "}") {
				inUnion = false
			}
			continue
		}
		f := strings.Fields(line)
		if len(f) == 0 {
			continue
		}
		switch f[0] {
		case "%token":
			for _, t := range f[1:] {
				if !strings.HasPrefix(t, "<") {
					g.Tokens[t] = true
				}
			}
		case "%left", "%right", "%nonassoc":
			level++
			for _, t := range f[1:] {
				if strings.HasPrefix(t, "<") {
					continue
				}
				g.Tokens[t] = true
				g.PrecLevel[t] = level
				g.Assoc[t] = strings.TrimPrefix(f[0], "%")
			}
		case "%start":
			if len(f) > 1 {
				g.Start = f[1]
			}
		}
	}
	rules := stripActions(parts[1])
	// tokenise: identifiers, ':', '|', ';', %prec
	re := regexp.MustCompile(`%prec|[A-Za-z_][A-Za-z_0-9]*|'[^']*'|[:|;]`)
	lineOf := func(off int) int { return 1 + strings.Count(parts[0], "\n") + 1 + strings.Count(rules[:off], "\n") }
	locs := re.FindAllStringIndex(rules, -1)
	var lhs string
	var cur *Production
	flush := func() {
		if cur != nil {
			g.Prods = append(g.Prods, cur)
			cur = nil
		}
	}
	for i := 0; i < len(locs); i++ {
		tok := rules[locs[i][0]:locs[i][1]]
		switch tok {
		case ":":
			// previous identifier was the LHS: it has been appended to cur.RHS of the previous rule? handled below
		case "|":
			flush()
			cur = &Production{LHS: lhs, Line: lineOf(locs[i][0])}
		case ";":
			flush()
			lhs = ""
		case "%prec":
			if i+1 < len(locs) && cur != nil {
				cur.Prec = rules[locs[i+1][0]:locs[i+1][1]]
				i++
			}
		default:
			// identifier: is it an LHS (followed by ':')?
			if i+1 < len(locs) && rules[locs[i+1][0]:locs[i+1][1]] == ":" {
				flush()
				lhs = tok
				if g.Start == "" {
					g.Start = tok
				}
				cur = &Production{LHS: lhs, Line: lineOf(locs[i][0])}
				i++
				continue
			}
			if cur == nil {
				return nil, fmt.Errorf("%s: symbol %q outside a rule", path, tok)
			}
			if tok == "error" {
				g.HasErrorTk = true
			}
			cur.RHS = append(cur.RHS, tok)
		}
	}
	flush()
	acts := productionActions(parts[1])
	if len(acts) == len(g.Prods) {
		for i := range g.Prods {
			g.Prods[i].Action = acts[i]
		}
	}
	if len(g.Prods) == 0 {
		return nil, fmt.Errorf("%s: no productions parsed", path)
	}
	return g, nil
}

// ---- regeneration ----

type GenFacts struct {
	Identical     bool
	Diff          string
	ConflictLine  string
	AcceptOnEnd   bool
	States        int
	GoyaccMissing bool
}

var lineDirective = regexp.MustCompile(`(?m)^\s*//line .*$`)

func normaliseGenerated(b []byte) string {
	s := string(b)
	s = lineDirective.ReplaceAllString(s, "")
	// header line: "// Code generated by goyacc -p grits -o ... . DO NOT EDIT."
	lines := strings.Split(s, "\n")
	var out []string
	for i, l := range lines {
		if i < 3 && strings.HasPrefix(l, "// Code generated by goyacc") {
			continue
		}
		out = append(out, l)
	}
	return strings.Join(out, "\n")
}

func regenerateParser(repo, verif string) (*GenFacts, error) {
	gy := filepath.Join(verif, "bin", "goyacc")
	gf := &GenFacts{}
	if _, err := os.Stat(gy); err != nil {
		gf.GoyaccMissing = true
		return gf, fmt.Errorf("goyacc not built (%s): run MANIFEST.setup_cmd", gy)
	}
	tmp, err := os.MkdirTemp("", "gritscheck-yacc-")
	if err != nil {
		return nil, err
	}
	defer os.RemoveAll(tmp)
	// same relative invocation as the go:generate line, so //line comments are comparable
	cmd := exec.Command(gy, "-p", "grits", "-o", filepath.Join(tmp, "y.go"), "-v", filepath.Join(tmp, "y.output"), filepath.Join(repo, "parser", "parser.y"))
	cmd.Dir = tmp
	outb, err := cmd.CombinedOutput()
	if err != nil {
		return nil, fmt.Errorf("goyacc failed: %v: %s", err, outb)
	}
	gen, err := os.ReadFile(filepath.Join(tmp, "y.go"))
	if err != nil {
		return nil, err
	}
	committed, err := os.ReadFile(filepath.Join(repo, "parser", "parser.y.go"))
	if err != nil {
		return nil, err
	}
	a, b := normaliseGenerated(gen), normaliseGenerated(committed)
	gf.Identical = a == b
	if !gf.Identical {
		al, bl := strings.Split(a, "\n"), strings.Split(b, "\n")
		for i := 0; i < len(al) && i < len(bl); i++ {
			if al[i] != bl[i] {
				gf.Diff = fmt.Sprintf("first difference at generated line %d: regenerated %q vs committed %q", i+1, strings.TrimSpace(al[i]), strings.TrimSpace(bl[i]))
				break
			}
		}
		if gf.Diff == "" {
			gf.Diff = fmt.Sprintf("lengths differ: regenerated %d lines, committed %d lines", len(al), len(bl))
		}
	}
	yo, err := os.ReadFile(filepath.Join(tmp, "y.output"))
	if err != nil {
		return nil, err
	}
	gf.ConflictLine = strings.TrimSpace(string(outb))
	for _, l := range strings.Split(string(yo), "\n") {
		if strings.Contains(l, "conflicts reported") || strings.Contains(l, "conflict") && strings.Contains(l, "reported") {
			gf.ConflictLine = strings.TrimSpace(l)
		}
		if strings.HasPrefix(l, "state ") {
			gf.States++
		}
	}
	// accept only on $end: in state 1 "$accept:  root.$end" and "$end  accept"
	blocks := strings.Split(string(yo), "\nstate ")
	for _, blk := range blocks {
		if strings.Contains(blk, "$accept") && strings.Contains(blk, "$end  accept") {
			gf.AcceptOnEnd = true
			for _, l := range strings.Split(blk, "\n") {
				if strings.Contains(l, "accept") && !strings.Contains(l, "$end") && !strings.Contains(l, "$accept") {
					gf.AcceptOnEnd = false
				}
			}
		}
	}
	return gf, nil
}

// productionActions returns, in textual order of the productions (one per ':' or '|'
// outside actions), the text of the last top-level action block of each production.
func productionActions(rules string) []string {
	var out []string
	cur := -1
	depth := 0
	start := 0
	for i := 0; i < len(rules); i++ {
		c := rules[i]
		if c == '/' && i+1 < len(rules) && rules[i+1] == '*' {
			j := strings.Index(rules[i+2:], "*/")
			if j < 0 {
				break
			}
			i = i + 2 + j + 1
			continue
		}
		if depth > 0 {
			switch c {
			case '/':
				if i+1 < len(rules) && rules[i+1] == '/' {
					for i < len(rules) && rules[i] != '\n' {
						i++
					}
				}
			case '"':
				i++
				for i < len(rules) && rules[i] != '"' {
					if rules[i] == '\\' {
						i++
					}
					i++
				}
			case '\'':
				i++
				for i < len(rules) && rules[i] != '\'' {
					if rules[i] == '\\' {
						i++
					}
					i++
				}
			case '`':
				i++
				for i < len(rules) && rules[i] != '`' {
					i++
				}
			case '{':
				depth++
			case '}':
				depth--
				if depth == 0 && cur >= 0 {
					out[cur] = rules[start:i]
				}
			}
			continue
		}
		switch c {
		case '{':
			depth = 1
			start = i + 1
		case ':', '|':
			out = append(out, "")
			cur = len(out) - 1
		case '\'':
			// quoted character token
			i += 2
		}
	}
	return out
}
