package main

// The rule sets of every claimed property (quick tier, and the additional rules of the
// thorough tier). Kept in one table so that the claim texts in props.go stay readable.
var propRuleTable = map[string][2][]string{
	"C01": {{"R-MEMO-KEY", "R-EXHAUSTIVE", "R-UNFOLDED-POLARITY", "R-QUANTIFIER-LOOP", "R-MUST-CHECK", "R-FUNC-KEY", "R-PROTOCOL", "R-POLARITY-COHERENT"}, {}},
	"C02": {{"R-DUP-FIRST", "R-GC-PROPAGATES", "R-SUBST-CONTRA", "R-NAME-EQ"}, {}},
	"C03": {{"R-COPY-PER-USE", "R-COPY-DEEP", "R-DUP-FIRST", "R-SPAWN-OWNERSHIP", "R-BINDERS", "R-NAME-EQ"}, {}},
	"C04": {{"R-BINDERS", "R-SUBST-CONTRA", "R-NAME-EQ", "R-PROTOCOL", "R-EXHAUSTIVE"}, {}},
	"C05": {{"R-AXIOM-EMPTY", "R-CONSUME-DELETES", "R-BRANCH-COPY", "R-STRUCT-GATES", "R-FRESH-BINDER", "R-CUT-SPLIT", "R-MULTI-CONTRACT", "R-MUST-CHECK", "R-CASE-EXACT", "R-MODE-TABLES"}, {}},
	"C06": {{"R-INDEPENDENCE", "R-SHIFT-LEGAL", "R-MODE-TABLES", "R-UNSET-REJECTED"}, {}},
	"C07": {{"R-MUST-CHECK", "R-CASE-EXACT", "R-QUANTIFIER-LOOP", "R-MEMO-KEY", "R-BRANCH-COPY", "R-FRESH-BINDER", "R-CUT-SPLIT", "R-FUNC-KEY", "R-POLARITY-COHERENT"}, {}},
	"C08": {{"R-MEMO-KEY", "R-FIELD-COVERAGE", "R-QUANTIFIER-LOOP", "R-UNFOLD-GUARD", "R-CONTRACTIVE-GATE"}, {}},
	"C09": {{"R-PHASE-STOP", "R-NO-DEFERRED-SUCCESS", "R-UNFOLDED-POLARITY", "R-ERR-BEFORE-USE", "R-PANIC-INVENTORY", "R-EXHAUSTIVE", "R-UNFOLD-GUARD", "R-CONTRACTIVE-GATE", "R-UNSET-REJECTED"}, {}},
	"C10": {{"R-DEAD-SET", "R-REC-COMPLETE", "R-MODE-UNIFORM", "R-CONTRACTIVE-GATE", "R-UNSET-REJECTED", "R-SHIFT-LEGAL"}, {}},
	"C11": {{"R-LOOP-EOF", "R-COMMENT-DFA", "R-GENERATED", "R-PARSE-ERR"}, {}},
	"C12": {{"R-END-MARKER", "R-COMMENT-DFA", "R-GENERATED", "R-KIND-EXH", "R-PARSE-ERR"}, {}},
	"C13": {{"R-ATOMIC", "R-SPAWN-OWNERSHIP", "R-COPY-PER-USE", "R-COPY-DEEP", "R-MONITOR-COPY", "R-GLOBALS"}, {}},
	"C14": {{"R-BINDERS", "R-SUBST-CONTRA", "R-NAME-EQ", "R-FRESH-BINDER", "R-COPY-PER-USE", "R-COPY-DEEP"}, {}},
	"C15": {{"R-PRINT-GRAMMAR", "R-PRINT-SLOTS", "R-GENERATED"}, {}},
	"C16": {{"R-INFER-PURE", "R-REC-COMPLETE", "R-UNSET-REJECTED", "R-MODE-UNIFORM", "R-SPELLINGS"}, {}},
	"C17": {{"R-MODE-TABLES", "R-SPELLINGS"}, {}},
	"C18": {{"R-CLI-GATE"}, {}},
	"C19": {{"R-GLOBALS", "R-FRESH-PARSE", "R-REINIT", "R-COPY-PER-USE", "R-PHASE-STOP"}, {}},
}

func finaliseProps() {
	for id, rs := range propRuleTable {
		if ps := propSpecs[id]; ps != nil {
			ps.Quick = rs[0]
			ps.Thorough = rs[1]
		}
	}
}
