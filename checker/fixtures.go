package main

import (
	"errors"
	"fmt"
	"os"
	"path/filepath"
	"strings"
)

// A Fixture is a positive self-test of the checker: a one-edit variant of a file of the
// analysed tree, applied in memory (go/packages overlay, nothing is written to /repo),
// on which a named rule must report a non-holding obligation. Fixtures test the checker,
// not the repository: when the anchor text of a fixture no longer occurs in the tree the
// fixture is skipped (recorded in the evidence), it never fails the check.
type Fixture struct {
	Name   string
	Rule   string
	File   string // relative to the repository root
	Old    string // must occur exactly once
	New    string
	Expect string // substring of the key (rule | function | construct) of a non-holding obligation
}

var fixtures []Fixture

func addFixture(f Fixture) { fixtures = append(fixtures, f) }

var errFixtureAnchor = errors.New("anchor text not found exactly once")

func fixtureByName(name string) *Fixture {
	for i := range fixtures {
		if fixtures[i].Name == name {
			return &fixtures[i]
		}
	}
	return nil
}

func fixtureOverlay(repo, name string) (map[string][]byte, error) {
	fx := fixtureByName(name)
	if fx == nil {
		return nil, fmt.Errorf("unknown fixture %q", name)
	}
	path := filepath.Join(repo, fx.File)
	data, err := os.ReadFile(path)
	if err != nil {
		return nil, errFixtureAnchor
	}
	if strings.Count(string(data), fx.Old) != 1 {
		return nil, errFixtureAnchor
	}
	return map[string][]byte{path: []byte(strings.Replace(string(data), fx.Old, fx.New, 1))}, nil
}

func runFixture(prop, tier, repo string, fx Fixture) (fired, skipped bool, note string) {
	if _, err := fixtureOverlay(repo, fx.Name); err != nil {
		return false, true, err.Error()
	}
	er, err := subRun(prop, tier, repo, "-fixture", fx.Name)
	if err != nil {
		return false, false, err.Error()
	}
	if er.Error != "" {
		// the variant does not compile any more: the fixture is stale, not the rule
		return false, true, "variant does not load: " + er.Error
	}
	for _, r := range er.Results {
		if r.Rule != fx.Rule {
			continue
		}
		for _, o := range r.Obligations {
			if o.Verdict != Holds && strings.Contains(o.Key(), fx.Expect) {
				return true, false, o.Key()
			}
		}
	}
	return false, false, "no non-holding obligation matching " + fx.Expect
}
