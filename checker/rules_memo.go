package main

import (
	"fmt"
	"go/token"
	"go/types"
	"sort"
	"strings"

	"golang.org/x/tools/go/ssa"
)

// R-MEMO-KEY (C08, C01, C07): in the coinductive type comparison the key inserted into the
// visited set describes the same pair as the key looked up at the head of the activation,
// and it is inserted before the comparison recurses through the environment.

func init() {
	register(&Rule{Name: "R-MEMO-KEY", Min: 2,
		Doc: "coinductive type equality: the memo key inserted is (atom for atom, same operands) the key that was looked up, and every recursive call that follows an unfolding is preceded by the insertion",
		Run: runMemoKey})
}

func isMapStringBool(t types.Type) bool {
	m, ok := t.Underlying().(*types.Map)
	if !ok {
		return false
	}
	k, ok1 := m.Key().Underlying().(*types.Basic)
	e, ok2 := m.Elem().Underlying().(*types.Basic)
	return ok1 && ok2 && k.Kind() == types.String && e.Kind() == types.Bool
}

// mapHolder says where an activation keeps a map: in a parameter, or in a field of its
// pointer receiver (the state of one comparison grouped in a small struct).
type mapHolder struct {
	prm   *ssa.Parameter
	recv  *ssa.Parameter
	field int
}

func (h *mapHolder) is(v ssa.Value) bool {
	if h == nil {
		return false
	}
	if h.prm != nil {
		return v == ssa.Value(h.prm)
	}
	ld, ok := v.(*ssa.UnOp)
	if !ok {
		return false
	}
	fa, ok := ld.X.(*ssa.FieldAddr)
	return ok && fa.X == ssa.Value(h.recv) && fa.Field == h.field
}

// holderOf finds the map of fn (parameter or receiver field) whose type satisfies want.
func holderOf(fn *ssa.Function, want func(types.Type) bool) *mapHolder {
	for _, prm := range fn.Params {
		if want(prm.Type()) {
			return &mapHolder{prm: prm}
		}
	}
	if fn.Signature.Recv() != nil && len(fn.Params) > 0 {
		if pt, ok := fn.Params[0].Type().Underlying().(*types.Pointer); ok {
			if st, ok := pt.Elem().Underlying().(*types.Struct); ok {
				for i := 0; i < st.NumFields(); i++ {
					if want(st.Field(i).Type()) {
						return &mapHolder{recv: fn.Params[0], field: i}
					}
				}
			}
		}
	}
	return nil
}

// findEqualityWorker: the recursive function called from types.EqualType that carries a
// map[string]bool visited set, as a parameter or in a field of its receiver.
func findEqualityWorker(p *Program) (*ssa.Function, *mapHolder) {
	eq := p.Func(typesPkg, "EqualType")
	for _, c := range p.callsIn(eq) {
		sc := c.Common().StaticCallee()
		if sc == nil || !p.isFirstParty(sc) || sc.Blocks == nil {
			continue
		}
		if h := holderOf(sc, isMapStringBool); h != nil && len(p.callsTo(sc, sc)) > 0 {
			return sc, h
		}
	}
	// EqualType itself may be the recursive worker
	if h := holderOf(eq, isMapStringBool); h != nil && h.prm != nil {
		return eq, h
	}
	anchorFail("recursive equality worker with a visited set (parameter or receiver field) below types.EqualType")
	return nil, nil
}

func runMemoKey(p *Program, r *RuleResult) {
	fn, visited := findEqualityWorker(p)
	name := fnName(fn)
	view := p.View(fn)
	sh := &shaper{p: p}
	var lookups []*ssa.Lookup
	var updates []*ssa.MapUpdate
	for _, b := range view.Blocks() {
		for _, in := range view.Instrs(b) {
			switch x := in.(type) {
			case *ssa.Lookup:
				if visited.is(x.X) {
					lookups = append(lookups, x)
				}
			case *ssa.MapUpdate:
				if visited.is(x.Map) {
					updates = append(updates, x)
				}
			}
		}
	}
	r.count("visited-set lookups", len(lookups))
	r.count("visited-set insertions", len(updates))
	if len(lookups) == 0 || len(updates) == 0 {
		r.add(name, "visited-set", Violated, p.pos(fn.Pos()), "the visited set is never consulted or never extended: the comparison cannot terminate on recursive definitions")
		return
	}
	for i, up := range updates {
		construct := fmt.Sprintf("insert-key#%d", i+1)
		ins, err := sh.Shape(up.Key)
		if err != nil {
			r.add(name, construct, Undecided, p.instrPos(up), "cannot build the string shape of the inserted key: "+err.Error())
			continue
		}
		matched := false
		why := ""
		for _, lk := range lookups {
			// the lookup must be the one whose miss leads here
			var missFact ssa.Value
			if lk.CommaOk {
				if refs := lk.Referrers(); refs != nil {
					for _, u := range *refs {
						if ex, ok := u.(*ssa.Extract); ok && ex.Index == 1 {
							missFact = ex
						}
					}
				}
			} else {
				missFact = lk
			}
			if missFact == nil || !view.holdsAt(up.Block(), missFact, factFalse) {
				why = "no lookup of the visited set whose miss dominates the insertion"
				continue
			}
			ls, err := sh.Shape(lk.Index)
			if err != nil {
				why = "cannot build the shape of the looked-up key: " + err.Error()
				continue
			}
			eq, d := shapesEqual(ls, ins)
			if eq {
				matched = true
				why = "looked-up key [" + shapeString(ls) + "] == inserted key"
				break
			}
			why = fmt.Sprintf("looked-up key is [%s] but inserted key is [%s]: %s – the memo records a different pair than the one it tests, so aliases compare equal to anything and mutually recursive names never hit the memo", shapeString(ls), shapeString(ins), d)
		}
		if matched {
			r.add(name, construct, Holds, p.instrPos(up), why)
		} else {
			r.add(name, construct, Violated, p.instrPos(up), why)
		}
	}
	// every recursive call fed from the environment is preceded by an insertion
	env := holderOf(fn, func(t types.Type) bool {
		_, ok := t.Underlying().(*types.Map)
		return ok && !isMapStringBool(t)
	})
	isUpdate := func(in ssa.Instruction) bool {
		mu, ok := in.(*ssa.MapUpdate)
		return ok && visited.is(mu.Map)
	}
	n := 0
	for _, c := range p.callsTo(fn, fn) {
		fromEnv := false
		for _, a := range c.Common().Args {
			if derivesFromLookup(a, env, map[ssa.Value]bool{}) {
				fromEnv = true
			}
		}
		if !fromEnv {
			continue
		}
		n++
		construct := fmt.Sprintf("recursion-after-unfold#%d", n)
		if view.passedBefore(c, isUpdate) {
			r.add(name, construct, Holds, p.instrPos(c), "the pair is recorded before recursing on unfolded definitions")
		} else {
			r.add(name, construct, Violated, p.instrPos(c), "a recursive call on a type taken from the definition environment is not preceded by an insertion into the visited set: mutually recursive definitions recurse forever")
		}
	}
	if n == 0 {
		r.add(name, "recursion-after-unfold", Undecided, p.pos(fn.Pos()), "no recursive call fed from the type environment found")
	}
}

// derivesFromLookup: v is (a phi of / a field of / an extract of) a lookup in map m.
func derivesFromLookup(v ssa.Value, m *mapHolder, seen map[ssa.Value]bool) bool {
	if m == nil || seen[v] {
		return false
	}
	seen[v] = true
	switch x := v.(type) {
	case *ssa.Lookup:
		return m.is(x.X)
	case *ssa.Extract:
		return derivesFromLookup(x.Tuple, m, seen)
	case *ssa.Field:
		return derivesFromLookup(x.X, m, seen)
	case *ssa.Phi:
		for _, e := range x.Edges {
			if derivesFromLookup(e, m, seen) {
				return true
			}
		}
	case *ssa.UnOp:
		return derivesFromLookup(x.X, m, seen)
	case *ssa.FieldAddr:
		return derivesFromLookup(x.X, m, seen)
	case *ssa.ChangeInterface:
		return derivesFromLookup(x.X, m, seen)
	case *ssa.Alloc:
		for _, st := range storesTo(x) {
			if derivesFromLookup(st.Val, m, seen) {
				return true
			}
		}
	}
	return false
}

// R-QUANTIFIER-LOOP (C08, C07): a boolean function that decides "for all elements" (or
// "exists") by a loop must not short-circuit with the wrong polarity.
func init() {
	register(&Rule{Name: "R-QUANTIFIER-LOOP", Min: 5,
		Doc: "in every first-party function returning a single bool whose result after its loop is a constant c, each return inside the loop returns the constant not-c; returning c or a computed value from inside the loop decides the quantifier after the first element(s)",
		Run: runQuantifierLoop})
}

func runQuantifierLoop(p *Program, r *RuleResult) {
	n := 0
	for _, fn := range p.SrcFuncs {
		if fn.Parent() != nil || fn.Pkg == nil {
			continue
		}
		pk := fn.Pkg.Pkg.Path()
		if pk != typesPkg && pk != processPkg {
			continue
		}
		res := fn.Signature.Results()
		if res.Len() != 1 {
			continue
		}
		if bt, ok := res.At(0).Type().Underlying().(*types.Basic); !ok || bt.Kind() != types.Bool {
			continue
		}
		view := p.View(fn)
		loops := view.Loops()
		if len(loops) == 0 {
			continue
		}
		// outermost loops only
		for li, l := range loops {
			nested := false
			for lj, l2 := range loops {
				if li != lj && l2.Body[l.Header] && len(l2.Body) > len(l.Body) {
					nested = true
				}
			}
			if nested {
				continue
			}
			// returns reachable only after the loop: blocks not in the loop, reachable from a loop exit
			var endConst *bool
			consistent := true
			var inLoop []*ssa.Return
			for _, b := range view.Blocks() {
				ins := view.Instrs(b)
				ret, ok := ins[len(ins)-1].(*ssa.Return)
				if !ok {
					continue
				}
				// a return block is "in the loop" if it is reached from a loop block that is not the header's exit edge:
				// natural loops exclude exit blocks, so classify by dominance: dominated by a body block other than the header
				fromBody := false
				for bb := range l.Body {
					if bb != l.Header && bb.Dominates(b) {
						fromBody = true
					}
				}
				if fromBody {
					inLoop = append(inLoop, ret)
					continue
				}
				if !l.Header.Dominates(b) {
					continue // before the loop
				}
				c, isC := ret.Results[0].(*ssa.Const)
				if !isC {
					consistent = false
					continue
				}
				v := c.Value != nil && c.Value.String() == "true"
				if endConst != nil && *endConst != v {
					consistent = false
				}
				endConst = &v
			}
			if endConst == nil || !consistent || len(inLoop) == 0 {
				continue
			}
			n++
			quant := "for-all"
			if !*endConst {
				quant = "exists"
			}
			bad := ""
			for _, ret := range inLoop {
				c, isC := ret.Results[0].(*ssa.Const)
				if !isC {
					bad = fmt.Sprintf("the return at %s inside the loop returns a computed value: the %s is decided by the first element that reaches it", p.instrPos(ret), quant)
					continue
				}
				v := c.Value != nil && c.Value.String() == "true"
				if v == *endConst {
					bad = fmt.Sprintf("the return at %s inside the loop returns %v, the value meant for 'all elements visited'", p.instrPos(ret), v)
				}
			}
			construct := fmt.Sprintf("%s-loop#%d", quant, li+1)
			if bad != "" {
				r.add(fnName(fn), construct, Violated, p.pos(fn.Pos()), bad)
			} else {
				r.add(fnName(fn), construct, Holds, p.pos(fn.Pos()), fmt.Sprintf("%d in-loop returns, all %v", len(inLoop), !*endConst))
			}
		}
	}
	r.count("quantifier loops", n)
	// degenerate loops: a loop statement whose body never reaches the back edge decides its
	// quantifier on the first element (the natural loop disappears from the CFG)
	nBodies := 0
	for _, fn := range p.SrcFuncs {
		pk := fn.Pkg
		if pk == nil && fn.Parent() != nil {
			pk = fn.Parent().Pkg
		}
		if pk == nil || (pk.Pkg.Path() != typesPkg && pk.Pkg.Path() != processPkg) {
			continue
		}
		view := p.View(fn)
		loops := view.Loops()
		ord := 0
		for _, b := range view.Blocks() {
			switch b.Comment {
			case "rangeindex.body", "rangeiter.body", "rangechan.body", "for.body", "rangeint.body":
			default:
				continue
			}
			nBodies++
			inLoop := false
			for _, l := range loops {
				if l.Body[b] {
					inLoop = true
				}
			}
			if inLoop {
				continue
			}
			ord++
			pos := ""
			if len(b.Instrs) > 0 {
				pos = p.instrPos(b.Instrs[0])
			}
			r.add(fnName(fn), fmt.Sprintf("loop-iterates#%d", ord), Violated, pos, "the body of this loop leaves the loop on every path: only the first element is ever examined")
		}
	}
	r.count("loop bodies", nBodies)
}

// R-FIELD-COVERAGE (C08): the structural cases of type equality compare every component of
// the constructor, like with like.
func init() {
	register(&Rule{Name: "R-FIELD-COVERAGE", Min: 14,
		Doc: "in the equality worker, for every type constructor the two asserted operands are compared on every structural field (child types, option lists, modes; a mode field may be read through Modality()), and each comparison pairs the same field of both operands",
		Run: runFieldCoverage})
}

func runFieldCoverage(p *Program, r *RuleResult) {
	fn, _ := findEqualityWorker(p)
	name := fnName(fn)
	// the two operands: the first two parameters of the compared interface type (a receiver
	// holding the state of the comparison comes before them)
	var ops []*ssa.Parameter
	for _, prm := range fn.Params {
		if isSessionTypeType(prm.Type()) {
			ops = append(ops, prm)
		}
	}
	if len(ops) < 2 {
		anchorFail("operands of %s", fn)
	}
	var lineage func(v ssa.Value, depth int) int
	lineage = func(v ssa.Value, depth int) int {
		if depth > 6 {
			return 0
		}
		switch x := v.(type) {
		case *ssa.Parameter:
			if x == ops[0] {
				return 1
			}
			if x == ops[1] {
				return 2
			}
		case *ssa.Phi:
			for _, e := range x.Edges {
				if l := lineage(e, depth+1); l != 0 {
					return l
				}
			}
		case *ssa.ChangeInterface:
			return lineage(x.X, depth+1)
		}
		return 0
	}
	// asserted operand values per type
	type key struct {
		T    string
		side int
	}
	owners := map[ssa.Value]key{}
	typesSeen := map[string]*types.Named{}
	for _, b := range fn.Blocks {
		for _, in := range b.Instrs {
			ta, ok := in.(*ssa.TypeAssert)
			if !ok || !ta.CommaOk || typeIsInterface(ta.AssertedType) {
				continue
			}
			side := lineage(ta.X, 0)
			T := namedOf(ta.AssertedType)
			if side == 0 || T == nil {
				continue
			}
			for _, u := range *ta.Referrers() {
				if ex, ok := u.(*ssa.Extract); ok && ex.Index == 0 {
					owners[ex] = key{T.Obj().Name(), side}
					typesSeen[T.Obj().Name()] = T
				}
			}
		}
	}
	// subject of a compared value: (owner, field)
	subject := func(v ssa.Value) (ssa.Value, string) {
		switch x := v.(type) {
		case *ssa.UnOp:
			if fa, ok := x.X.(*ssa.FieldAddr); ok {
				_, n, _ := fieldNameOf(fa)
				return fa.X, n
			}
		case *ssa.Call:
			com := x.Common()
			if com.IsInvoke() && com.Method.Name() == "Modality" {
				return com.Value, "Modality()"
			}
			if sc := com.StaticCallee(); sc != nil && sc.Name() == "Modality" && len(com.Args) == 1 {
				return com.Args[0], "Modality()"
			}
		}
		return nil, ""
	}
	covered := map[string]map[string]bool{}
	nCmp := 0
	for _, c := range p.callsIn(fn) {
		call, ok := c.(*ssa.Call)
		if !ok {
			continue
		}
		com := call.Common()
		var x, y ssa.Value
		switch {
		case com.IsInvoke() && com.Method.Name() == "Equals":
			x, y = com.Value, com.Args[0]
		case com.StaticCallee() != nil && p.isFirstParty(com.StaticCallee()) && len(com.Args) >= 2:
			// the first two adjacent arguments of the compared kind (a receiver may precede them)
			for i := 0; i+1 < len(com.Args) && x == nil; i++ {
				if types.Identical(com.Args[i].Type(), com.Args[i+1].Type()) && (isSessionTypeType(com.Args[i].Type()) || isOptionSlice(com.Args[i].Type())) {
					x, y = com.Args[i], com.Args[i+1]
				}
			}
			if x == nil {
				continue
			}
		default:
			continue
		}
		ox, fx := subject(x)
		oy, fy := subject(y)
		kx, okx := owners[ox]
		ky, oky := owners[oy]
		if !okx || !oky || kx.T != ky.T || kx.side == ky.side {
			continue
		}
		nCmp++
		construct := fmt.Sprintf("pairing:%s.%s", kx.T, fx)
		if fx == fy {
			r.add(name, construct, Holds, p.instrPos(call), "")
			if covered[kx.T] == nil {
				covered[kx.T] = map[string]bool{}
			}
			covered[kx.T][fx] = true
		} else {
			r.add(name, construct, Violated, p.instrPos(call), fmt.Sprintf("field %s of one operand is compared with field %s of the other", fx, fy))
		}
	}
	r.count("field comparisons", nCmp)
	// coverage
	for _, T := range p.sessionTypeImplementers() {
		tn := T.Obj().Name()
		if _, seen := typesSeen[tn]; !seen {
			// the type-name constructor is handled by unfolding; every other constructor needs a case
			if m := p.MethodOpt(T, "Polarity"); m != nil && p.noRet[m] {
				continue
			}
			r.add(name, "case:"+tn, Violated, p.pos(fn.Pos()), "no structural case for constructor "+tn)
			continue
		}
		// which field does Modality() return?
		modField := ""
		if m := p.MethodOpt(T, "Modality"); m != nil {
			if ret := soleReturn(m); ret != nil {
				if ld, ok := ret.Results[0].(*ssa.UnOp); ok {
					_, modField, _ = fieldNameOf(ld.X)
				}
			}
		}
		for _, f := range structFields(T) {
			if !(isSessionTypeType(f.Type()) || isOptionSlice(f.Type()) || isModalityType(f.Type())) {
				continue
			}
			ok := covered[tn][f.Name()] || (f.Name() == modField && covered[tn]["Modality()"])
			construct := fmt.Sprintf("covered:%s.%s", tn, f.Name())
			if ok {
				r.add(name, construct, Holds, p.pos(fn.Pos()), "")
			} else {
				r.add(name, construct, Violated, p.pos(fn.Pos()), fmt.Sprintf("component %s of %s is never compared: two types that differ only there are judged equal", f.Name(), tn))
			}
		}
	}
}

// R-DIAG-STRINGS (C08, C15): only the printed form that is proven unambiguous (String, see
// R-PRINT-GRAMMAR) may take part in deciding anything; the other printers are diagnostics.
func init() {
	register(&Rule{Name: "R-DIAG-STRINGS", Min: 10,
		Doc: "the result of every string-valued method of SessionType other than String (the printers with modality decorations, which are not a parseable syntax and are not proven injective) flows only into other printers, error messages and logs; it is never compared, used as a map key or returned as a verdict",
		Run: runDiagStrings})
}

func runDiagStrings(p *Program, r *RuleResult) {
	st := p.Named(typesPkg, "SessionType")
	it := st.Underlying().(*types.Interface)
	diag := map[string]bool{}
	for i := 0; i < it.NumMethods(); i++ {
		m := it.Method(i)
		sig := m.Type().(*types.Signature)
		if sig.Params().Len() == 0 && sig.Results().Len() == 1 {
			if b, ok := sig.Results().At(0).Type().Underlying().(*types.Basic); ok && b.Kind() == types.String && m.Name() != "String" {
				diag[m.Name()] = true
			}
		}
	}
	if len(diag) == 0 {
		r.add("types.SessionType", "diagnostic-printers", Undecided, "", "no decorated printer methods found")
		return
	}
	var badUse func(v ssa.Value, depth int, inPrinter bool) string
	badUse = func(v ssa.Value, depth int, inPrinter bool) string {
		if depth > 10 {
			return "flow too deep to follow"
		}
		refs := v.Referrers()
		if refs == nil {
			return ""
		}
		for _, u := range *refs {
			switch x := u.(type) {
			case *ssa.DebugRef:
			case *ssa.BinOp:
				if x.Op.String() == "+" {
					if w := badUse(x, depth+1, inPrinter); w != "" {
						return w
					}
					continue
				}
				return fmt.Sprintf("it is compared (%s) at %s", x.Op, p.instrPos(x))
			case *ssa.Lookup:
				if x.Index == v {
					return "it is used as a map key at " + p.instrPos(x)
				}
			case *ssa.MapUpdate:
				if x.Key == v {
					return "it is used as a map key at " + p.instrPos(x)
				}
			case *ssa.MakeInterface, *ssa.Slice, *ssa.Phi:
				if w := badUse(x.(ssa.Value), depth+1, inPrinter); w != "" {
					return w
				}
			case *ssa.Store:
				if x.Val == v {
					if ia, ok := x.Addr.(*ssa.IndexAddr); ok {
						if al, ok := ia.X.(*ssa.Alloc); ok {
							if w := badUse(al, depth+1, inPrinter); w != "" {
								return w
							}
							continue
						}
					}
					return "it is stored at " + p.instrPos(x)
				}
			case *ssa.IndexAddr:
			case *ssa.Return:
				if !inPrinter {
					return "it is returned from a function that is not a printer at " + p.instrPos(x)
				}
			case ssa.CallInstruction:
				sc := x.Common().StaticCallee()
				switch {
				case sc == nil:
					return "it is passed to a dynamic call at " + p.instrPos(u)
				case isLogSink(sc), sc.String() == "fmt.Errorf", sc.String() == "fmt.Sprintf", sc.Name() == "TypeErrorf":
					// error text / log
				case sc.Name() == "WriteString" && isBufferType(x.Common().Args[0].Type()):
					if !inPrinter {
						// a buffer in a non-printer: follow the buffer's String()
						if w := badUse(x.Common().Args[0], depth+1, inPrinter); w != "" {
							return w
						}
					}
				case sc.Name() == "String" && len(x.Common().Args) == 1 && isBufferType(x.Common().Args[0].Type()):
					if val, ok := u.(ssa.Value); ok {
						if w := badUse(val, depth+1, inPrinter); w != "" {
							return w
						}
					}
				default:
					return fmt.Sprintf("it is passed to %s at %s", sc.Name(), p.instrPos(u))
				}
			}
		}
		return ""
	}
	n := 0
	for _, fn := range p.SrcFuncs {
		root := rootMethod(fn)
		inPrinter := root.Signature.Recv() != nil && (diag[root.Name()] || strings.HasPrefix(root.Name(), "String")) || strings.HasPrefix(strings.ToLower(root.Name()), "stringify")
		ord := 0
		for _, c := range p.callsIn(fn) {
			com := c.Common()
			if !com.IsInvoke() || !diag[com.Method.Name()] || !isSessionTypeType(com.Value.Type()) {
				continue
			}
			val, ok := c.(ssa.Value)
			if !ok {
				continue
			}
			n++
			ord++
			construct := fmt.Sprintf("%s-result#%d", com.Method.Name(), ord)
			if w := badUse(val, 0, inPrinter); w != "" {
				r.add(fnName(fn), construct, Violated, p.instrPos(c),
					fmt.Sprintf("the %s form of a type takes part in a decision: %s. That printer is a diagnostic (it does not bracket nested operands and is not a syntax the parser reads), so different types can print identically", com.Method.Name(), w))
			} else {
				r.add(fnName(fn), construct, Holds, p.instrPos(c), "")
			}
		}
	}
	r.count("decorated-printer call sites", n)

	// the plain printed form omits the mode of the type: where it takes part in a decision,
	// the mode must be part of the same key
	var decisionKeys func(v ssa.Value, depth int, out *[]ssa.Value, where *[]string)
	decisionKeys = func(v ssa.Value, depth int, out *[]ssa.Value, where *[]string) {
		if depth > 8 || v.Referrers() == nil {
			return
		}
		for _, u := range *v.Referrers() {
			switch x := u.(type) {
			case *ssa.BinOp:
				if x.Op.String() == "+" {
					decisionKeys(x, depth+1, out, where)
				} else {
					*out = append(*out, v)
					*where = append(*where, fmt.Sprintf("compared (%s) at %s", x.Op, p.instrPos(x)))
				}
			case *ssa.Lookup:
				if x.Index == v {
					*out = append(*out, v)
					*where = append(*where, "used as a map key at "+p.instrPos(x))
				}
			case *ssa.MapUpdate:
				if x.Key == v {
					*out = append(*out, v)
					*where = append(*where, "used as a map key at "+p.instrPos(x))
				}
			case *ssa.Phi:
				decisionKeys(x, depth+1, out, where)
			case ssa.CallInstruction:
				sc := x.Common().StaticCallee()
				if sc != nil && sc.Name() == "WriteString" && isBufferType(x.Common().Args[0].Type()) {
					// the buffer's String()
					if refs := x.Common().Args[0].Referrers(); refs != nil {
						for _, bu := range *refs {
							if bc, ok := bu.(*ssa.Call); ok && bc.Common().StaticCallee() != nil && bc.Common().StaticCallee().Name() == "String" && isBufferType(bc.Common().Args[0].Type()) {
								decisionKeys(bc, depth+1, out, where)
							}
						}
					}
				}
			}
		}
	}
	var leafCalls func(v ssa.Value, depth int, out *[]*ssa.Call)
	leafCalls = func(v ssa.Value, depth int, out *[]*ssa.Call) {
		if depth > 10 {
			return
		}
		switch x := v.(type) {
		case *ssa.BinOp:
			leafCalls(x.X, depth+1, out)
			leafCalls(x.Y, depth+1, out)
		case *ssa.Call:
			*out = append(*out, x)
			if sc := x.Common().StaticCallee(); sc != nil && sc.Name() == "String" && len(x.Common().Args) == 1 && isBufferType(x.Common().Args[0].Type()) {
				if refs := x.Common().Args[0].Referrers(); refs != nil {
					for _, bu := range *refs {
						if bc, ok := bu.(*ssa.Call); ok && bc.Common().StaticCallee() != nil && bc.Common().StaticCallee().Name() == "WriteString" && len(bc.Common().Args) == 2 {
							leafCalls(bc.Common().Args[1], depth+1, out)
						}
					}
				}
			}
		}
	}
	nPlain := 0
	for _, fn := range p.SrcFuncs {
		if fn.Pkg == nil || !(fn.Pkg.Pkg.Path() == typesPkg || fn.Pkg.Pkg.Path() == processPkg) {
			continue
		}
		ord := 0
		for _, c := range p.callsIn(fn) {
			com := c.Common()
			call, ok := c.(*ssa.Call)
			if !ok || !com.IsInvoke() || com.Method.Name() != "String" || !isSessionTypeType(com.Value.Type()) {
				continue
			}
			var keys []ssa.Value
			var where []string
			decisionKeys(call, 0, &keys, &where)
			if len(keys) == 0 {
				continue
			}
			nPlain++
			ord++
			construct := fmt.Sprintf("String-result-in-decision#%d", ord)
			recv := exprKey(com.Value)
			bad := ""
			for i, k := range keys {
				var leaves []*ssa.Call
				leafCalls(k, 0, &leaves)
				hasMode := false
				for _, lc := range leaves {
					lcom := lc.Common()
					if !lcom.IsInvoke() || lcom.Method.Name() != "String" {
						continue
					}
					if mc, ok := lcom.Value.(*ssa.Call); ok && mc.Common().IsInvoke() && mc.Common().Method.Name() == "Modality" && exprKey(mc.Common().Value) == recv && recv != "" {
						hasMode = true
					}
				}
				if !hasMode {
					bad = where[i]
				}
			}
			if bad != "" {
				r.add(fnName(fn), construct, Violated, p.instrPos(call),
					fmt.Sprintf("the printed form of a type is %s without the type's mode in the same key: String() does not print the mode of the type, so two types that differ only in their mode are treated as one", bad))
			} else {
				r.add(fnName(fn), construct, Holds, p.instrPos(call), "the key also contains Modality().String() of the same type")
			}
		}
	}
	r.count("plain printed forms used in a decision", nPlain)
}

// R-SIBLING-CHOICE (C16, C10, C08): the two choice constructors (internal +{…} and external
// &{…}) are treated alike by everything that is not about polarity or printing.
func init() {
	register(&Rule{Name: "R-SIBLING-CHOICE", Min: 5,
		Doc: "sibling cross-check: for the two choice type constructors (same fields: a list of labelled options and a mode), every method of the mode-inference / mode-checking / well-formedness family has the same go/ssa body up to the receiver's type name and the text of string constants; a difference means one of the two was changed without the other",
		Run: runSiblingChoice})
}

func normSSA(fn *ssa.Function, from, to string) []string {
	var out []string
	for _, b := range fn.Blocks {
		out = append(out, fmt.Sprintf("block %d:", b.Index))
		for _, in := range b.Instrs {
			if _, ok := in.(*ssa.DebugRef); ok {
				continue
			}
			s := in.String()
			if v, ok := in.(ssa.Value); ok {
				s = v.Name() + " = " + s
			}
			s = strings.ReplaceAll(s, from, to)
			// string constants: keep only that there is one
			for {
				i := strings.Index(s, "\"")
				if i < 0 {
					break
				}
				j := strings.Index(s[i+1:], "\"")
				if j < 0 {
					break
				}
				s = s[:i] + "<str>" + s[i+j+2:]
			}
			out = append(out, s)
		}
	}
	return out
}

func runSiblingChoice(p *Program, r *RuleResult) {
	// the two constructors: SessionType implementers with a slice-of-options field
	var sib []*types.Named
	for _, T := range p.Implementers(p.Named(typesPkg, "SessionType")) {
		st, ok := T.Underlying().(*types.Struct)
		if !ok {
			continue
		}
		for i := 0; i < st.NumFields(); i++ {
			if sl, ok := st.Field(i).Type().Underlying().(*types.Slice); ok {
				if n := namedOf(sl.Elem()); n != nil && n.Obj().Pkg() != nil && n.Obj().Pkg().Path() == typesPkg {
					sib = append(sib, T)
				}
			}
		}
	}
	if len(sib) != 2 {
		r.add("types", "choice-constructors", Undecided, "", fmt.Sprintf("expected two choice constructors, found %d", len(sib)))
		return
	}
	sort.Slice(sib, func(i, j int) bool { return sib[i].Obj().Name() < sib[j].Obj().Name() })
	// the two product constructors (A * B and A -* B): two session-type components and a mode
	var prod []*types.Named
	for _, T := range p.Implementers(p.Named(typesPkg, "SessionType")) {
		st, ok := T.Underlying().(*types.Struct)
		if !ok {
			continue
		}
		nST, nMode, nOther := 0, 0, 0
		for i := 0; i < st.NumFields(); i++ {
			switch {
			case isSessionTypeType(st.Field(i).Type()):
				nST++
			case isModalityType(st.Field(i).Type()):
				nMode++
			default:
				nOther++
			}
		}
		if nST == 2 && nMode == 1 && nOther == 0 {
			prod = append(prod, T)
		}
	}
	sort.Slice(prod, func(i, j int) bool { return prod[i].Obj().Name() < prod[j].Obj().Name() })
	pairs := [][2]*types.Named{{sib[0], sib[1]}}
	if len(prod) == 2 {
		pairs = append(pairs, [2]*types.Named{prod[0], prod[1]})
	}
	for _, pr := range pairs {
		runSiblingPair(p, r, pr[0], pr[1])
	}
}

func runSiblingPair(p *Program, r *RuleResult, A, B *types.Named) {
	exempt := map[string]string{
		"Polarity": "the two differ exactly in polarity", "String": "printing (R-PRINT-GRAMMAR)", "StringWithModality": "printing", "StringWithOuterModality": "printing",
	}
	ms := types.NewMethodSet(types.NewPointer(A))
	for i := 0; i < ms.Len(); i++ {
		name := ms.At(i).Obj().Name()
		if _, ok := exempt[name]; ok {
			continue
		}
		fa, fb := p.MethodOpt(A, name), p.MethodOpt(B, name)
		if fa == nil || fb == nil || fa.Blocks == nil || fb.Blocks == nil {
			continue
		}
		na := normSSA(fa, A.Obj().Name(), "Sibling")
		nb := normSSA(fb, B.Obj().Name(), "Sibling")
		diff := ""
		if len(na) != len(nb) {
			diff = fmt.Sprintf("%d vs %d instructions", len(na), len(nb))
		}
		for k := 0; k < len(na) && k < len(nb) && diff == ""; k++ {
			if na[k] != nb[k] {
				diff = fmt.Sprintf("first difference: `%s` vs `%s`", na[k], nb[k])
			}
		}
		if diff == "" {
			r.add("types."+A.Obj().Name()+"/"+B.Obj().Name(), "sibling:"+name, Holds, p.pos(fa.Pos()), fmt.Sprintf("%d instructions identical up to the receiver type", len(na)))
		} else {
			r.add("types."+A.Obj().Name()+"/"+B.Obj().Name(), "sibling:"+name, Violated, p.pos(fb.Pos()),
				fmt.Sprintf("%s.%s and %s.%s are no longer the same function (%s): the two sibling constructors would be inferred/checked differently", A.Obj().Name(), name, B.Obj().Name(), name, diff))
		}
	}
}

// R-STICKY-FLAG (C08, C07, C01, C09): a per-element "found" flag is reset for every element.
func init() {
	register(&Rule{Name: "R-STICKY-FLAG", Min: 1,
		Doc: "in the type library and the typechecker: a boolean that is carried around a loop (a phi at the loop header) and can come back from an earlier iteration as true is not what decides a branch inside that loop; a flag that is set by an inner search and tested per element must be re-initialised per element, otherwise the first hit satisfies every later element. Flags tested only after the loop (any/all accumulators) are fine",
		Run: runStickyFlag})
}

func runStickyFlag(p *Program, r *RuleResult) {
	nLoops, nFlags := 0, 0
	for _, fn := range p.SrcFuncs {
		if fn.Pkg == nil || !(fn.Pkg.Pkg.Path() == typesPkg || fn.Pkg.Pkg.Path() == processPkg) || fn.Blocks == nil {
			continue
		}
		view := p.View(fn)
		ord := 0
		for _, l := range view.Loops() {
			nLoops++
			for _, in := range l.Header.Instrs {
				ph, ok := in.(*ssa.Phi)
				if !ok {
					break
				}
				bt, ok := ph.Type().Underlying().(*types.Basic)
				if !ok || bt.Kind() != types.Bool {
					continue
				}
				// may a back edge deliver `true`?
				var mayTrue func(v ssa.Value, seen map[ssa.Value]bool) bool
				mayTrue = func(v ssa.Value, seen map[ssa.Value]bool) bool {
					if seen[v] {
						return false
					}
					seen[v] = true
					switch x := v.(type) {
					case *ssa.Const:
						return x.Value != nil && x.Value.String() == "true"
					case *ssa.Phi:
						for _, e := range x.Edges {
							if mayTrue(e, seen) {
								return true
							}
						}
						return false
					}
					return true // computed value: may be true
				}
				sticky := false
				for i, e := range ph.Edges {
					if l.Body[l.Header.Preds[i]] && e != ssa.Value(ph) && mayTrue(e, map[ssa.Value]bool{ph: true}) {
						sticky = true
					}
				}
				if !sticky {
					continue
				}
				nFlags++
				ord++
				construct := fmt.Sprintf("loop-carried-flag#%d:%s", ord, ph.Comment)
				// is it (or a phi of it inside the loop) a branch condition inside the loop?
				bad := ""
				seen := map[ssa.Value]bool{}
				var uses func(v ssa.Value)
				uses = func(v ssa.Value) {
					if seen[v] || v.Referrers() == nil {
						return
					}
					seen[v] = true
					for _, u := range *v.Referrers() {
						switch x := u.(type) {
						case *ssa.If:
							if l.Body[x.Block()] && x.Block() != l.Header {
								bad = p.instrPos(x)
								if bad == "" || bad == "-" {
									bad = "block " + x.Block().Comment
								}
							}
						case *ssa.Phi:
							if l.Body[x.Block()] {
								uses(x)
							}
						case *ssa.UnOp:
							if x.Op == token.NOT {
								uses(x)
							}
						}
					}
				}
				uses(ph)
				if bad != "" {
					r.add(fnName(fn), construct, Violated, p.pos(ph.Pos()),
						fmt.Sprintf("the flag %s keeps the value true from an earlier iteration and decides a branch inside the loop (%s): once one element has matched, every later element counts as matched", ph.Comment, bad))
				} else {
					r.add(fnName(fn), construct, Holds, p.pos(ph.Pos()), "carried around the loop but only tested after it")
				}
			}
		}
	}
	r.count("loops examined", nLoops)
	r.count("loop-carried boolean flags", nFlags)
	// the expected number of findings is zero: what was scanned is the obligation
	if nLoops >= 100 {
		r.add("types+process", "loops-scanned", Holds, "", fmt.Sprintf("%d loops examined, %d loop-carried boolean flags", nLoops, nFlags))
	} else {
		r.add("types+process", "loops-scanned", Undecided, "", fmt.Sprintf("only %d loops found in the type library and the typechecker (at least 100 confirmed by hand): packages not loaded?", nLoops))
	}
}

// R-COMPARE-DISTINCT (C08, C07, C01): a comparison compares two things.
func init() {
	register(&Rule{Name: "R-COMPARE-DISTINCT", Min: 80,
		Doc: "every call of a first-party predicate over two values of the same type (type equality, name equality, mode comparisons: bool result, two operands of identical type, receiver included) is given two different operand expressions; comparing a value with itself makes the test vacuous",
		Run: runCompareDistinct})
}

func runCompareDistinct(p *Program, r *RuleResult) {
	n := 0
	for _, fn := range p.SrcFuncs {
		if fn.Pkg == nil || !(fn.Pkg.Pkg.Path() == typesPkg || fn.Pkg.Pkg.Path() == processPkg) || fn.Blocks == nil {
			continue
		}
		ord := 0
		for _, c := range p.callsIn(fn) {
			com := c.Common()
			var sig *types.Signature
			var ops []ssa.Value
			name := ""
			if com.IsInvoke() {
				sig = com.Method.Type().(*types.Signature)
				ops = append([]ssa.Value{com.Value}, com.Args...)
				name = com.Method.Name()
			} else if sc := com.StaticCallee(); sc != nil && p.isFirstParty(sc) {
				sig = sc.Signature
				ops = com.Args
				name = sc.Name()
			} else {
				continue
			}
			if sig.Results().Len() != 1 {
				continue
			}
			if bt, ok := sig.Results().At(0).Type().Underlying().(*types.Basic); !ok || bt.Kind() != types.Bool {
				continue
			}
			// two operands of identical static type among the first two / receiver+first
			if len(ops) < 2 {
				continue
			}
			a, b := ops[0], ops[1]
			ta, tb := a.Type(), b.Type()
			if pt, ok := ta.(*types.Pointer); ok && !types.Identical(ta, tb) {
				ta = pt.Elem() // (*Name).Equal(Name)
			}
			if !types.Identical(ta, tb) {
				continue
			}
			switch ta.Underlying().(type) {
			case *types.Basic, *types.Map, *types.Slice:
				continue // flags, contexts: not a comparison of two entities
			}
			n++
			ord++
			construct := fmt.Sprintf("%s#%d", name, ord)
			ka, kb := exprKey(a), exprKey(b)
			if ld, ok := a.(*ssa.UnOp); ok && ka == "" {
				ka = exprKey(ld.X)
			}
			same := a == b || (ka != "" && ka == kb)
			// receiver given as address of the same variable
			if !same {
				if al, ok := a.(*ssa.Alloc); ok {
					if ld, ok := b.(*ssa.UnOp); ok && ld.X == ssa.Value(al) {
						same = true
					}
				}
			}
			if same {
				r.add(fnName(fn), construct, Violated, p.instrPos(c), fmt.Sprintf("%s is called with the same operand (%s) on both sides: the comparison cannot fail", name, displayKey(a)))
			} else {
				r.add(fnName(fn), construct, Holds, p.instrPos(c), "")
			}
		}
	}
	r.count("binary predicate calls", n)
}

// R-LOOP-FULL (C05, C10, C07): a loop over a collection does not stop short of its end.
func init() {
	register(&Rule{Name: "R-LOOP-FULL", Min: 1,
		Doc: "in the type library and the typechecker: a counting loop whose bound is len(x)-k (k >= 1) is only legitimate when its body also reaches the elements it leaves out - an access x[i+c], or a nested loop whose index starts at i+c (pairs i<j); otherwise the last k elements of x are never looked at (a duplicate, a missing label, an unchecked parameter in last position goes unnoticed)",
		Run: runLoopFull})
}

func runLoopFull(p *Program, r *RuleResult) {
	nLoops, nShort := 0, 0
	for _, fn := range p.SrcFuncs {
		if fn.Pkg == nil || !(fn.Pkg.Pkg.Path() == typesPkg || fn.Pkg.Pkg.Path() == processPkg) || fn.Blocks == nil {
			continue
		}
		if rm := rootMethod(fn); strings.HasPrefix(rm.Name(), "Transition") {
			continue
		}
		view := p.View(fn)
		ord := 0
		for _, l := range view.Loops() {
			nLoops++
			ins := view.Instrs(l.Header)
			if len(ins) == 0 {
				continue
			}
			iff, ok := ins[len(ins)-1].(*ssa.If)
			if !ok {
				continue
			}
			bo, ok := iff.Cond.(*ssa.BinOp)
			if !ok || bo.Op != token.LSS {
				continue
			}
			// bound: len(x) - k
			sub, ok := bo.Y.(*ssa.BinOp)
			if !ok || sub.Op != token.SUB {
				continue
			}
			kc, ok := sub.Y.(*ssa.Const)
			lc, ok2 := sub.X.(*ssa.Call)
			if !ok || !ok2 {
				continue
			}
			bi, isB := lc.Common().Value.(*ssa.Builtin)
			if !isB || bi.Name() != "len" {
				continue
			}
			xk := exprKey(lc.Common().Args[0])
			idx := bo.X
			nShort++
			ord++
			construct := fmt.Sprintf("short-loop#%d-over-%s", ord, displayKey(lc.Common().Args[0]))
			reaches := false
			for b := range l.Body {
				for _, in := range b.Instrs {
					switch x := in.(type) {
					case *ssa.IndexAddr:
						if exprKey(x.X) == xk {
							if add, ok := x.Index.(*ssa.BinOp); ok && add.Op == token.ADD && (add.X == idx || add.Y == idx) {
								reaches = true
							}
						}
					case *ssa.Phi:
						// the index of a nested loop initialised with idx + c
						if b != l.Header {
							for _, e := range x.Edges {
								if add, ok := e.(*ssa.BinOp); ok && add.Op == token.ADD && (add.X == idx || add.Y == idx) {
									if _, isC := add.Y.(*ssa.Const); isC {
										reaches = true
									}
								}
							}
						}
					}
				}
			}
			if reaches {
				r.add(fnName(fn), construct, Holds, p.instrPos(iff), "the body reaches the elements beyond the index (i+c access or a nested loop from i+c)")
			} else {
				r.add(fnName(fn), construct, Violated, p.instrPos(iff),
					fmt.Sprintf("the loop stops %s element(s) before the end of %s and nothing in its body looks at them: whatever is wrong with the last element(s) is never detected", kc.Value.String(), displayKey(lc.Common().Args[0])))
			}
		}
	}
	if nLoops >= 100 {
		r.add("types+process", "loops-scanned-for-short-bounds", Holds, "", fmt.Sprintf("%d loops examined, %d with a bound len(x)-k", nLoops, nShort))
	} else {
		r.add("types+process", "loops-scanned-for-short-bounds", Undecided, "", fmt.Sprintf("only %d loops found", nLoops))
	}
}

// R-IDENT-EXACT (C08, C07, C14): identifiers are compared as written.
func init() {
	register(&Rule{Name: "R-IDENT-EXACT", Min: 0,
		Doc: "labels, type names, function names and channel identifiers (string fields of the first-party syntax structs) are never passed through a case- or space-folding function of package strings (EqualFold, ToLower, ToUpper, Title, TrimSpace, Fields, …) in the parser, the type library or the process package: the language distinguishes `ok` from `OK` (the duplicate-label check does), so matching them anywhere else pairs the wrong branches – a type is no longer equal to itself – or identifies different types. The expected count is zero; mode spellings, which are folded on purpose, are plain function arguments, not fields",
		Run: runIdentExact})
}

func runIdentExact(p *Program, r *RuleResult) {
	folding := map[string]bool{"EqualFold": true, "ToLower": true, "ToUpper": true, "ToTitle": true, "Title": true, "TrimSpace": true, "Fields": true, "ToLowerSpecial": true, "ToUpperSpecial": true}
	n, sites := 0, 0
	for _, fn := range p.SrcFuncs {
		pk := fn.Pkg
		if pk == nil && fn.Parent() != nil {
			pk = fn.Parent().Pkg
		}
		if pk == nil {
			continue
		}
		switch pk.Pkg.Path() {
		case typesPkg, processPkg, parserPkg:
		default:
			continue
		}
		ord := 0
		for _, c := range p.callsIn(fn) {
			sc := c.Common().StaticCallee()
			if sc == nil || sc.Pkg == nil || (sc.Pkg.Pkg.Path() != "strings" && sc.Pkg.Pkg.Path() != "bytes" && sc.Pkg.Pkg.Path() != "unicode") || !folding[sc.Name()] {
				continue
			}
			sites++
			for _, a := range c.Common().Args {
				ap := accessPath(a)
				// a string field of a first-party struct, or an element of a parameter
				// whose type is one of them
				owner := ""
				switch x := a.(type) {
				case *ssa.UnOp:
					if fa, ok := x.X.(*ssa.FieldAddr); ok {
						if nt := namedOf(fa.X.Type()); nt != nil && nt.Obj().Pkg() != nil && p.ByPath[nt.Obj().Pkg().Path()] != nil {
							owner = nt.Obj().Name()
						}
					}
				case *ssa.Field:
					if nt := namedOf(x.X.Type()); nt != nil && nt.Obj().Pkg() != nil && p.ByPath[nt.Obj().Pkg().Path()] != nil {
						owner = nt.Obj().Name()
					}
				}
				if owner == "" {
					continue
				}
				n++
				ord++
				r.add(fnName(fn), fmt.Sprintf("folded-identifier#%d", ord), Violated, p.instrPos(c),
					fmt.Sprintf("%s (a field of %s) is passed to %s.%s: identifiers that differ only by case or spacing are treated as the same here, while the rest of the implementation keeps them apart", ap, owner, sc.Pkg.Pkg.Name(), sc.Name()))
			}
		}
	}
	if n == 0 {
		r.add("parser, types, process", "identifiers-compared-as-written", Holds, "", fmt.Sprintf("%d call(s) of folding functions, none on an identifier field", sites))
	}
	r.count("folding calls on identifier fields", n)
}

// R-COMPARE-ONCE (C09, C08): the structural comparison visits each pair of components once.
func init() {
	register(&Rule{Name: "R-COMPARE-ONCE", Min: 1,
		Doc: "in the functions of the coinductive type equality (those that carry its visited set), no two calls of the same recursive comparison function in one activation receive the same two operands, in either order: comparing a pair of branch lists in both directions compares every pair of branch types twice, and with choice types nested inline the work doubles with every level (2^d for depth d), so a 500-character program keeps the typechecker busy for hours",
		Run: runCompareOnce})
}

func runCompareOnce(p *Program, r *RuleResult) {
	n := 0
	var fns []*ssa.Function
	for _, fn := range p.SrcFuncs {
		if fn.Pkg != nil && fn.Pkg.Pkg.Path() == typesPkg && fn.Blocks != nil && holderOf(fn, isMapStringBool) != nil {
			fns = append(fns, fn)
		}
	}
	sort.Slice(fns, func(i, j int) bool { return fnName(fns[i]) < fnName(fns[j]) })
	for _, fn := range fns {
		type callT struct {
			c   ssa.CallInstruction
			ops []ssa.Value
		}
		byCallee := map[*ssa.Function][]callT{}
		for _, c := range p.callsIn(fn) {
			sc := c.Common().StaticCallee()
			if sc == nil || sc.Pkg != fn.Pkg || holderOf(sc, isMapStringBool) == nil {
				continue
			}
			var ops []ssa.Value
			for _, a := range c.Common().Args {
				if isSessionTypeType(a.Type()) || isOptionSlice(a.Type()) {
					ops = append(ops, origin(a))
				}
			}
			if len(ops) == 2 {
				byCallee[sc] = append(byCallee[sc], callT{c, ops})
			}
		}
		var callees []*ssa.Function
		for sc := range byCallee {
			callees = append(callees, sc)
		}
		sort.Slice(callees, func(i, j int) bool { return fnName(callees[i]) < fnName(callees[j]) })
		for _, sc := range callees {
			cs := byCallee[sc]
			n++
			bad := ""
			for i := 0; i < len(cs); i++ {
				for j := i + 1; j < len(cs); j++ {
					a, b := cs[i].ops, cs[j].ops
					ka0, ka1, kb0, kb1 := exprKey(a[0]), exprKey(a[1]), exprKey(b[0]), exprKey(b[1])
					same := (a[0] == b[0] && a[1] == b[1]) || (a[0] == b[1] && a[1] == b[0])
					if ka0 != "" && ka1 != "" && ((ka0 == kb0 && ka1 == kb1) || (ka0 == kb1 && ka1 == kb0)) {
						same = true
					}
					if same {
						bad = fmt.Sprintf("%s is called at %s and again at %s with the same two operands (%s, %s): every pair of components below them is compared twice per level", sc.Name(), p.instrPos(cs[i].c), p.instrPos(cs[j].c), displayKey(a[0]), displayKey(a[1]))
					}
				}
			}
			construct := "pairs-compared-once:" + sc.Name()
			if bad != "" {
				r.add(fnName(fn), construct, Violated, p.pos(fn.Pos()), bad)
			} else {
				r.add(fnName(fn), construct, Holds, p.pos(fn.Pos()), fmt.Sprintf("%d call(s), all on different operand pairs", len(cs)))
			}
		}
	}
	r.count("recursive comparison callees per function", n)
}
