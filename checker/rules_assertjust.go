package main

import (
	"fmt"
	"go/constant"
	"go/token"
	"go/types"
	"path/filepath"
	"sort"
	"strings"

	"golang.org/x/tools/go/ssa"
)

// R-ASSERT-JUSTIFIED (C11): a panicking type assertion on the parse path is backed by what
// the grammar actions actually store.
func init() {
	register(&Rule{Name: "R-ASSERT-JUSTIFIED", Min: 0,
		Doc: "every single-result (panicking) type assertion in first-party code reachable from the parser's entry points, outside the yacc skeleton, is justified: its operand was boxed from the asserted type, or a comma-ok assertion / type switch on the same operand has established the type, or the operand is a field of a tagged record (a struct with a discriminator field that the code has just compared with a constant) and every construction of that record with that tag anywhere in the package – the grammar's semantic actions included – stores a value of exactly the asserted type into that field. Generalising a production (exec_def : EXEC expression) makes the unchecked assertion in expandProcesses reachable with another form: a Go panic instead of a syntax error",
		Run: runAssertJustified})
}

func runAssertJustified(p *Program, r *RuleResult) {
	var roots []*ssa.Function
	for _, n := range []string{"ParseString", "ParseReader", "ParseFile"} {
		if f := p.FuncOpt(parserPkg, n); f != nil {
			roots = append(roots, f)
		}
	}
	if len(roots) == 0 {
		r.add(parserPkg, "entry-points", Undecided, "", "no parser entry point found")
		return
	}
	reach := p.reachableFuncs(roots, useCHA)
	var fns []*ssa.Function
	for fn := range reach {
		if fn.Blocks == nil || !p.isFirstParty(fn) {
			continue
		}
		file := p.Fset.Position(fn.Pos()).Filename
		if strings.HasPrefix(filepath.Base(file), "yacc") {
			continue // the generated skeleton (its embedded actions are read as constructions below)
		}
		fns = append(fns, fn)
	}
	sort.Slice(fns, func(i, j int) bool { return fnName(fns[i]) < fnName(fns[j]) })
	n := 0
	for _, fn := range fns {
		view := p.View(fn)
		ord := 0
		for _, b := range view.Blocks() {
			for _, in := range view.Instrs(b) {
				ta, ok := in.(*ssa.TypeAssert)
				if !ok || ta.CommaOk {
					continue
				}
				n++
				ord++
				construct := fmt.Sprintf("assert#%d:%s", ord, types.TypeString(ta.AssertedType, func(pk *types.Package) string { return pk.Name() }))
				// (a) boxed from the asserted type
				if mi, isMI := origin(ta.X).(*ssa.MakeInterface); isMI && types.Identical(mi.X.Type(), ta.AssertedType) {
					r.add(fnName(fn), construct, Holds, p.instrPos(ta), "the operand was boxed from the asserted type")
					continue
				}
				// (b) established by a checked assertion on the same operand
				key := exprKey(ta.X)
				established := false
				for f := range view.FactsAt(b) {
					ex, isEx := f.v.(*ssa.Extract)
					if !isEx || ex.Index != 1 || f.k != factTrue {
						continue
					}
					if prev, isTA := ex.Tuple.(*ssa.TypeAssert); isTA && types.Identical(prev.AssertedType, ta.AssertedType) && (prev.X == ta.X || (key != "" && exprKey(prev.X) == key)) {
						established = true
					}
				}
				if established {
					r.add(fnName(fn), construct, Holds, p.instrPos(ta), "a checked assertion of the same type on the same operand succeeded on every path to it")
					continue
				}
				// (c) field of a tagged record
				ok2, why := p.taggedRecordJustifies(view, b, ta)
				if ok2 {
					r.add(fnName(fn), construct, Holds, p.instrPos(ta), why)
				} else {
					r.add(fnName(fn), construct, Violated, p.instrPos(ta), why+": the assertion panics on such a value, so the text is answered with a Go panic instead of a program or a syntax error")
				}
			}
		}
	}
	r.count("panicking assertions on the parse path", n)
}

// taggedRecordJustifies: ta.X is <rec>.<path> where the block knows <rec>.<tag> == K.
func (p *Program) taggedRecordJustifies(view *View, b *ssa.BasicBlock, ta *ssa.TypeAssert) (bool, string) {
	ap := accessPath(ta.X)
	if ap == "" {
		return false, "the operand " + displayKey(ta.X) + " is not a field of a tagged record and no checked assertion precedes it"
	}
	// tag facts: (load <base>.<tag>) == Const
	type tagFact struct {
		base, tag string
		val       constant.Value
		recT      types.Type
	}
	var tags []tagFact
	for f := range view.FactsAt(b) {
		bo, ok := f.v.(*ssa.BinOp)
		if !ok || !((bo.Op == token.EQL && f.k == factTrue) || (bo.Op == token.NEQ && f.k == factFalse)) {
			continue
		}
		c, ok := bo.Y.(*ssa.Const)
		if !ok || c.Value == nil {
			continue
		}
		tp := accessPath(bo.X)
		i := strings.LastIndex(tp, ".")
		if i < 0 {
			continue
		}
		base, tag := tp[:i], tp[i+1:]
		if !strings.HasPrefix(ap, base+".") {
			continue
		}
		var recT types.Type
		switch x := bo.X.(type) {
		case *ssa.UnOp:
			if fa, ok := x.X.(*ssa.FieldAddr); ok {
				recT = fa.X.Type().Underlying().(*types.Pointer).Elem()
			}
		case *ssa.Field:
			recT = x.X.Type()
		}
		if recT == nil {
			continue
		}
		tags = append(tags, tagFact{base, tag, c.Value, recT})
	}
	if len(tags) == 0 {
		return false, "the operand " + ap + " is asserted without a preceding check and without a known tag of its record"
	}
	tg := tags[0]
	fieldPath := strings.TrimPrefix(ap, tg.base+".")
	// every construction of the record type with this tag
	nCons := 0
	for _, fn := range p.SrcFuncs {
		if fn.Pkg == nil || fn.Pkg.Pkg.Path() != parserPkg {
			continue
		}
		for _, blk := range fn.Blocks {
			for _, in := range blk.Instrs {
				al, ok := in.(*ssa.Alloc)
				if !ok || !types.Identical(al.Type().Underlying().(*types.Pointer).Elem(), tg.recT) {
					continue
				}
				// stores into fields of this cell
				tagOK := false
				var fieldVals []ssa.Value
				var collect func(addr ssa.Value, path string)
				collect = func(addr ssa.Value, path string) {
					refs := addr.Referrers()
					if refs == nil {
						return
					}
					for _, u := range *refs {
						switch x := u.(type) {
						case *ssa.FieldAddr:
							if x.X != addr {
								continue
							}
							_, fname, _ := fieldNameOf(x)
							np := fname
							if path != "" {
								np = path + "." + fname
							}
							collect(x, np)
						case *ssa.Store:
							if x.Addr != addr {
								continue
							}
							if path == tg.tag {
								if c, ok := x.Val.(*ssa.Const); ok && c.Value != nil && constant.Compare(c.Value, token.EQL, tg.val) {
									tagOK = true
								}
							}
							if path == fieldPath {
								fieldVals = append(fieldVals, x.Val)
							}
						}
					}
				}
				collect(al, "")
				if !tagOK {
					continue
				}
				nCons++
				if len(fieldVals) == 0 {
					return false, fmt.Sprintf("a %s with %s = %s is built at %s without setting %s (it stays nil)", types.TypeString(tg.recT, func(*types.Package) string { return "" }), tg.tag, tg.val, p.instrPos(al), fieldPath)
				}
				for _, v := range fieldVals {
					mi, isMI := v.(*ssa.MakeInterface)
					if !isMI || !types.Identical(mi.X.Type(), ta.AssertedType) {
						return false, fmt.Sprintf("the record built at %s with %s = %s stores %s into %s, which need not be a %s", p.instrPos(al), tg.tag, tg.val, describeVal(v), fieldPath, ta.AssertedType)
					}
				}
			}
		}
	}
	if nCons == 0 {
		return false, fmt.Sprintf("no construction of the record with %s = %s was found to justify the assertion", tg.tag, tg.val)
	}
	return true, fmt.Sprintf("%s = %s here, and all %d construction(s) of the record with that tag store a %s into %s", tg.tag, tg.val, nCons, ta.AssertedType, fieldPath)
}
