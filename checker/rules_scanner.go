package main

import (
	"fmt"
	"go/ast"
	"go/constant"
	"go/token"
	"go/types"
	"path/filepath"
	"sort"
	"strings"

	"golang.org/x/tools/go/ast/astutil"
	"golang.org/x/tools/go/ssa"
)

// Scanner rules: R-LOOP-EOF (C11), R-END-MARKER (C12).

func init() {
	register(&Rule{Name: "R-LOOP-EOF", Min: 5,
		Doc: "every loop of the parser package that consumes input (calls the rune reader) has an exit edge controlled by a comparison of the value just read with the end-of-input sentinel, or by a first-party character-class test of that value which, evaluated for the sentinel, takes the exit",
		Run: runLoopEOF})
}

// scannerReader finds, by role, the first-party function of package parser that wraps
// bufio.Reader.ReadRune, and the sentinel it returns on the error path.
type readerInfo struct {
	Read        *ssa.Function
	SentinelG   *ssa.Global    // sentinel is the value of this package-level variable, or
	SentinelC   *ssa.Const     // this constant
	SentinelVal constant.Value // folded value when known
}

func findScannerReader(p *Program) *readerInfo {
	var ri *readerInfo
	for _, fn := range p.SrcFuncs {
		if fn.Pkg == nil || fn.Pkg.Pkg.Path() != parserPkg {
			continue
		}
		for _, c := range p.callsIn(fn) {
			sc := c.Common().StaticCallee()
			if sc == nil || sc.String() != "(*bufio.Reader).ReadRune" {
				continue
			}
			call := c.(*ssa.Call)
			// error result
			var errV ssa.Value
			for _, u := range *call.Referrers() {
				if ex, ok := u.(*ssa.Extract); ok && ex.Index == 2 {
					errV = ex
				}
			}
			if errV == nil {
				continue
			}
			// the error may be merged with that of another read of the same reader
			errVs := []ssa.Value{errV}
			for _, u := range *errV.Referrers() {
				if ph, ok := u.(*ssa.Phi); ok {
					errVs = append(errVs, ph)
				}
			}
			view := p.View(fn)
			for _, b := range view.Blocks() {
				ins := view.Instrs(b)
				ret, ok := ins[len(ins)-1].(*ssa.Return)
				if !ok || len(ret.Results) != 1 {
					continue
				}
				onErr := false
				for _, ev := range errVs {
					if view.holdsAt(b, ev, factNonNil) {
						onErr = true
					}
				}
				if !onErr {
					continue
				}
				ri = &readerInfo{Read: fn}
				switch s := ret.Results[0].(type) {
				case *ssa.UnOp:
					if g, ok := s.X.(*ssa.Global); ok && s.Op == token.MUL {
						ri.SentinelG = g
					}
				case *ssa.Const:
					ri.SentinelC = s
					ri.SentinelVal = s.Value
				}
			}
		}
	}
	if ri == nil || (ri.SentinelG == nil && ri.SentinelC == nil) {
		anchorFail("the scanner's rune reader (wrapper of bufio.Reader.ReadRune) and its end-of-input sentinel")
	}
	if ri.SentinelG != nil {
		ri.SentinelVal = p.globalInitConst(ri.SentinelG)
	}
	return ri
}

// globalInitConst returns the constant a package-level variable is initialised with in the
// package initialiser, provided that is its only store anywhere; nil otherwise.
func (p *Program) globalInitConst(g *ssa.Global) constant.Value {
	var val constant.Value
	n := 0
	seen := map[*ssa.Function]bool{}
	for _, fn := range append([]*ssa.Function{g.Pkg.Func("init")}, p.SrcFuncs...) {
		if fn == nil || seen[fn] {
			continue
		}
		seen[fn] = true
		for _, b := range fn.Blocks {
			for _, in := range b.Instrs {
				st, ok := in.(*ssa.Store)
				if !ok || st.Addr != ssa.Value(g) {
					continue
				}
				n++
				if c, ok := st.Val.(*ssa.Const); ok && c.Value != nil {
					val = c.Value
				} else {
					return nil
				}
			}
		}
	}
	if n == 0 {
		// zero value
		return constant.MakeInt64(0)
	}
	if n > 1 {
		return nil
	}
	return val
}

func (ri *readerInfo) isSentinel(v ssa.Value) bool {
	switch x := v.(type) {
	case *ssa.UnOp:
		return ri.SentinelG != nil && x.Op == token.MUL && x.X == ssa.Value(ri.SentinelG)
	case *ssa.Const:
		return ri.SentinelC != nil && x.Value != nil && ri.SentinelC.Value != nil && constant.Compare(x.Value, token.EQL, ri.SentinelC.Value)
	}
	return false
}

// comparesWithSentinel: cond is (v == sentinel) or (v != sentinel) where v is `val` or a phi of it.
func (ri *readerInfo) comparesWithSentinel(cond ssa.Value, val ssa.Value) bool {
	bo, ok := cond.(*ssa.BinOp)
	if !ok || (bo.Op != token.EQL && bo.Op != token.NEQ) {
		return false
	}
	match := func(x ssa.Value) bool {
		if val == nil {
			// any read result
			if c, ok := x.(*ssa.Call); ok && c.Common().StaticCallee() == ri.Read {
				return true
			}
		}
		if x == val {
			return true
		}
		if ph, ok := x.(*ssa.Phi); ok {
			for _, e := range ph.Edges {
				if e == val || (val == nil && func() bool { c, ok := e.(*ssa.Call); return ok && c.Common().StaticCallee() == ri.Read }()) {
					return true
				}
			}
		}
		return false
	}
	return (match(bo.X) && ri.isSentinel(bo.Y)) || (match(bo.Y) && ri.isSentinel(bo.X))
}

// matchesRead: x is `val` (or, when val is nil, the result of any call of the reader) or a
// phi with such an edge.
func (ri *readerInfo) matchesRead(x ssa.Value, val ssa.Value) bool {
	isRead := func(e ssa.Value) bool {
		c, ok := e.(*ssa.Call)
		return ok && c.Common().StaticCallee() == ri.Read
	}
	if x == val || (val == nil && isRead(x)) {
		return true
	}
	if ph, ok := x.(*ssa.Phi); ok {
		for _, e := range ph.Edges {
			if e == val || (val == nil && isRead(e)) {
				return true
			}
		}
	}
	return false
}

// classifierExit: the block ends in a test `f(v)` (possibly negated) of a first-party
// predicate over the value read, and f, evaluated for the end-of-input sentinel, folds to
// a constant. Returns the index of the successor taken for the sentinel, or -1.
func (ri *readerInfo) classifierExit(p *Program, cond ssa.Value, val ssa.Value) int {
	neg := false
	for {
		if u, ok := cond.(*ssa.UnOp); ok && u.Op == token.NOT {
			cond, neg = u.X, !neg
			continue
		}
		break
	}
	c, ok := cond.(*ssa.Call)
	if !ok || ri.SentinelVal == nil {
		return -1
	}
	sc := c.Common().StaticCallee()
	if sc == nil || sc.Blocks == nil || !p.isFirstParty(sc) || len(c.Common().Args) != 1 || !ri.matchesRead(c.Common().Args[0], val) {
		return -1
	}
	res := NewEvaluator(p).Eval(sc, []AVal{aConst(ri.SentinelVal)})
	b, known := res.Ret.IsBool()
	if !known || res.Panics {
		return -1
	}
	if b != neg {
		return 0
	}
	return 1
}

func runLoopEOF(p *Program, r *RuleResult) {
	ri := findScannerReader(p)
	r.note("input reader: %s; sentinel: %v", fnName(ri.Read), func() string {
		if ri.SentinelG != nil {
			return "value of package variable " + ri.SentinelG.Name()
		}
		return "constant " + ri.SentinelC.String()
	}())
	nLoops, nReads := 0, 0
	for _, fn := range p.SrcFuncs {
		if fn.Pkg == nil || fn.Pkg.Pkg.Path() != parserPkg {
			continue
		}
		view := p.View(fn)
		loops := view.Loops()
		if len(loops) == 0 {
			continue
		}
		// reads per loop
		for li, l := range loops {
			var reads []*ssa.Call
			for b := range l.Body {
				for _, in := range view.Instrs(b) {
					if c, ok := in.(*ssa.Call); ok && c.Common().StaticCallee() == ri.Read {
						reads = append(reads, c)
					}
				}
			}
			if len(reads) == 0 {
				continue
			}
			nLoops++
			// exit edges of the loop controlled by a sentinel comparison of some read
			hasExit := func(val ssa.Value) bool {
				for b := range l.Body {
					ins := view.Instrs(b)
					if len(ins) == 0 {
						continue
					}
					iff, ok := ins[len(ins)-1].(*ssa.If)
					if !ok {
						continue
					}
					if !ri.comparesWithSentinel(iff.Cond, val) {
						// a character-class test that the sentinel takes towards the outside
						// of the loop ends it at end of input just as well
						if k := ri.classifierExit(p, iff.Cond, val); k >= 0 && k < len(b.Succs) && !l.Body[b.Succs[k]] {
							return true
						}
						continue
					}
					for _, s := range view.Succs(b) {
						if !l.Body[s] {
							return true
						}
					}
				}
				return false
			}
			construct := fmt.Sprintf("loop#%d", li+1)
			if hasExit(nil) {
				r.add(fnName(fn), construct, Holds, p.instrPos(l.Header.Instrs[0]), "has an exit edge on end of input")
			} else {
				r.add(fnName(fn), construct, Violated, p.instrPos(l.Header.Instrs[0]),
					"this loop consumes input but none of its exits tests for the end-of-input sentinel: on input that ends inside it the reader keeps returning the sentinel and the loop never terminates")
			}
			// each read whose innermost loop is this one must itself be tested
			for _, rd := range reads {
				inner := l
				for _, l2 := range loops {
					if l2.Body[rd.Block()] && len(l2.Body) < len(inner.Body) {
						inner = l2
					}
				}
				if inner != l {
					continue
				}
				nReads++
				rc := fmt.Sprintf("loop#%d-read@%s", li+1, relBlock(rd))
				if hasExit(rd) {
					r.add(fnName(fn), rc, Holds, p.instrPos(rd), "its value is compared with the sentinel on an exit edge of its loop")
				} else {
					r.add(fnName(fn), rc, Violated, p.instrPos(rd), "the value read here is never compared with the end-of-input sentinel on an exit edge of its innermost loop")
				}
			}
		}
	}
	r.count("input-consuming loops", nLoops)
	r.count("reads in loops", nReads)
}

// relBlock gives a stable-ish ordinal of a read inside its function: the count of reads before it.
func relBlock(c *ssa.Call) string {
	n := 0
	for _, b := range c.Parent().Blocks {
		for _, in := range b.Instrs {
			if in == ssa.Instruction(c) {
				return fmt.Sprint(n + 1)
			}
			if cc, ok := in.(*ssa.Call); ok && cc.Common().StaticCallee() == c.Common().StaticCallee() {
				n++
			}
		}
	}
	return "?"
}

// ---------------------------------------------------------------------------
// R-END-MARKER (C12): the token code the generated parser treats as end of input is
// produced by the lexer only at real end of input.

func init() {
	register(&Rule{Name: "R-END-MARKER", Min: 4,
		Doc: "every token constant <= the generated parser's end-of-input threshold is returned by the scan functions only under 'value read == end-of-input sentinel', and the sentinel is not a value the rune reader can deliver for input bytes",
		Run: runEndMarker})
}

// eofThreshold reads `char <= K` from the generated lexer wrapper (<prefix>lex1).
func eofThreshold(p *Program) (int64, *ssa.Function) {
	for _, fn := range p.SrcFuncs {
		if fn.Pkg == nil || fn.Pkg.Pkg.Path() != parserPkg || fn.Parent() != nil {
			continue
		}
		if len(fn.Params) != 2 || len(fn.Blocks) == 0 {
			continue
		}
		// first instruction: invoke lex.Lex(lval)
		c, ok := fn.Blocks[0].Instrs[0].(*ssa.Call)
		if !ok || !c.Common().IsInvoke() || c.Common().Method.Name() != "Lex" {
			continue
		}
		for _, in := range fn.Blocks[0].Instrs {
			if bo, ok := in.(*ssa.BinOp); ok && bo.X == ssa.Value(c) {
				if k, ok := bo.Y.(*ssa.Const); ok {
					switch bo.Op {
					case token.LEQ:
						return k.Int64(), fn
					case token.LSS:
						return k.Int64() - 1, fn
					}
				}
			}
		}
	}
	anchorFail("the generated lexer wrapper (call of Lex followed by the end-of-input comparison)")
	return 0, nil
}

func runEndMarker(p *Program, r *RuleResult) {
	ri := findScannerReader(p)
	thr, lex1 := eofThreshold(p)
	r.note("generated parser %s treats token codes <= %d as end of input", fnName(lex1), thr)
	tokT := p.Named(parserPkg, "tok")
	nSites := 0
	for _, fn := range p.SrcFuncs {
		if fn.Pkg == nil || fn.Pkg.Pkg.Path() != parserPkg || fn.Parent() != nil {
			continue
		}
		res := fn.Signature.Results()
		if res.Len() == 0 || !types.Identical(res.At(0).Type(), tokT) {
			continue
		}
		view := p.View(fn)
		// candidate sites: (instruction, value) pairs for the first result
		type site struct {
			in  ssa.Instruction
			val ssa.Value
		}
		var sites []site
		var resAlloc *ssa.Alloc
		for _, b := range view.Blocks() {
			for _, in := range view.Instrs(b) {
				ret, ok := in.(*ssa.Return)
				if !ok || len(ret.Results) == 0 {
					continue
				}
				if ld, ok := ret.Results[0].(*ssa.UnOp); ok {
					if al, ok := ld.X.(*ssa.Alloc); ok {
						resAlloc = al
						continue
					}
				}
				sites = append(sites, site{ret, ret.Results[0]})
			}
		}
		if resAlloc != nil {
			for _, st := range storesTo(resAlloc) {
				if view.Live(st) {
					sites = append(sites, site{st, st.Val})
				}
			}
		}
		ord := map[string]int{}
		for _, s := range sites {
			c, ok := s.val.(*ssa.Const)
			if !ok {
				continue // produced by another scan function, judged there
			}
			if c.Value == nil {
				continue
			}
			label := p.returnExprText(s.in.Pos())
			if label == "" {
				label = fmt.Sprint(c.Int64())
			}
			ord[label]++
			construct := fmt.Sprintf("end-marker-token:%s#%d", label, ord[label])
			if c.Int64() > thr {
				// an ordinary token code: one obligation per site all the same, so that the
				// set of obligations does not depend on the numeric value of a token constant
				r.add(fnName(fn), construct, Holds, p.instrPos(s.in), fmt.Sprintf("token code %d is not an end marker", c.Int64()))
				continue
			}
			nSites++
			ok2 := false
			for f := range view.FactsAt(s.in.Block()) {
				bo, isB := f.v.(*ssa.BinOp)
				if !isB || !ri.comparesWithSentinel(bo, nil) {
					continue
				}
				if (bo.Op == token.EQL && f.k == factTrue) || (bo.Op == token.NEQ && f.k == factFalse) {
					ok2 = true
				}
			}
			if ok2 {
				r.add(fnName(fn), construct, Holds, p.instrPos(s.in), "returned only when the value read equals the end-of-input sentinel")
			} else {
				r.add(fnName(fn), construct, Violated, p.instrPos(s.in),
					fmt.Sprintf("token code %d (<= %d, i.e. end of input for the generated parser) is returned for input that is not at its end: everything after this character is silently ignored", c.Int64(), thr))
			}
		}
	}
	r.count("end-marker return sites", nSites)
	// the sentinel itself
	name := fnName(ri.Read)
	if ri.SentinelVal == nil {
		r.add(name, "sentinel-not-an-input-rune", Undecided, p.pos(ri.Read.Pos()), "the sentinel does not fold to a constant")
	} else if iv, ok := constant.Int64Val(ri.SentinelVal); ok && (iv < 0 || iv > 0x10FFFF) {
		r.add(name, "sentinel-not-an-input-rune", Holds, p.pos(ri.Read.Pos()), fmt.Sprintf("sentinel = %d", iv))
	} else {
		r.add(name, "sentinel-not-an-input-rune", Violated, p.pos(ri.Read.Pos()),
			fmt.Sprintf("the end-of-input sentinel is the rune %s, which ReadRune also delivers for that character in the input: a text containing it is cut off there and the prefix is accepted", ri.SentinelVal.ExactString()))
	}
}

// returnExprText returns the source text of the first result expression of the return
// statement at pos (used as a stable construct name).
func (p *Program) returnExprText(pos token.Pos) string {
	f := p.FileOf(pos)
	if f == nil {
		return ""
	}
	path, _ := astutil.PathEnclosingInterval(f, pos, pos)
	for _, n := range path {
		if rs, ok := n.(*ast.ReturnStmt); ok && len(rs.Results) > 0 {
			return types.ExprString(rs.Results[0])
		}
	}
	return ""
}

// R-RUNE-WHOLE (C12): the scanner classifies characters by their whole code point.
func init() {
	register(&Rule{Name: "R-RUNE-WHOLE", Min: 10,
		Doc: "in the scan functions (those that call the rune reader) and the character-class predicates they call, a rune is never narrowed before it is compared or used as an index: no conversion of a rune to an integer type of fewer than 32 bits and no mask, remainder or shift of a rune, unless an upper bound that fits the narrower type holds on every path to it; a narrowed rune makes a character outside the alphabet indistinguishable from one inside it (U+0141 has the low byte of 'A')",
		Run: runRuneWhole})
}

func isRuneKind(t types.Type) bool {
	b, ok := t.Underlying().(*types.Basic)
	return ok && b.Kind() == types.Int32
}

func narrowIntBits(t types.Type) int {
	b, ok := t.Underlying().(*types.Basic)
	if !ok {
		return 0
	}
	switch b.Kind() {
	case types.Uint8, types.Int8:
		return 8
	case types.Uint16, types.Int16:
		return 16
	}
	return 0
}

// boundedBelow: on every path to b, x < limit is known (x < C or x <= C true, x >= C or x > C false).
func (v *View) boundedBelow(b *ssa.BasicBlock, x ssa.Value, limit int64) bool {
	for f := range v.FactsAt(b) {
		bo, ok := f.v.(*ssa.BinOp)
		if !ok || (f.k != factTrue && f.k != factFalse) {
			continue
		}
		op, l, rr := bo.Op, bo.X, bo.Y
		if _, isC := l.(*ssa.Const); isC { // C op x  ==  x op' C
			l, rr = rr, l
			switch op {
			case token.LSS:
				op = token.GTR
			case token.LEQ:
				op = token.GEQ
			case token.GTR:
				op = token.LSS
			case token.GEQ:
				op = token.LEQ
			}
		}
		c, isC := rr.(*ssa.Const)
		if !isC || c.Value == nil || c.Value.Kind() != constant.Int || origin(l) != origin(x) {
			continue
		}
		cv, exact := constant.Int64Val(c.Value)
		if !exact {
			continue
		}
		if f.k == factFalse {
			switch op {
			case token.GEQ:
				op = token.LSS
			case token.GTR:
				op = token.LEQ
			default:
				continue
			}
		}
		if op == token.LSS && cv <= limit || op == token.LEQ && cv < limit {
			return true
		}
	}
	return false
}

func runRuneWhole(p *Program, r *RuleResult) {
	ri := findScannerReader(p)
	if ri == nil || ri.Read == nil {
		r.add(parserPkg, "rune-reader", Undecided, "", "the wrapper of bufio.Reader.ReadRune was not found")
		return
	}
	// domain: callers of the reader and everything of the parser package they call
	dom := map[*ssa.Function]bool{}
	var work []*ssa.Function
	for _, fn := range p.SrcFuncs {
		if fn.Pkg != nil && fn.Pkg.Pkg.Path() == parserPkg && len(p.callsTo(fn, ri.Read)) > 0 {
			dom[fn] = true
			work = append(work, fn)
		}
	}
	for len(work) > 0 {
		fn := work[0]
		work = work[1:]
		for _, c := range p.callsIn(fn) {
			sc := c.Common().StaticCallee()
			if sc != nil && sc.Pkg != nil && sc.Pkg.Pkg.Path() == parserPkg && len(sc.Blocks) > 0 && !dom[sc] {
				dom[sc] = true
				work = append(work, sc)
			}
		}
		for _, an := range fn.AnonFuncs {
			if !dom[an] {
				dom[an] = true
				work = append(work, an)
			}
		}
	}
	judged := 0
	var fns []*ssa.Function
	for fn := range dom {
		fns = append(fns, fn)
	}
	sort.Slice(fns, func(i, j int) bool { return fnName(fns[i]) < fnName(fns[j]) })
	for _, fn := range fns {
		view := p.View(fn)
		handles := false
		for _, pa := range fn.Params {
			if isRuneKind(pa.Type()) {
				handles = true
			}
		}
		bad, pos := "", ""
		for _, b := range view.Blocks() {
			for _, in := range view.Instrs(b) {
				if v, ok := in.(ssa.Value); ok && isRuneKind(v.Type()) {
					handles = true
				}
				switch x := in.(type) {
				case *ssa.Convert:
					if bits := narrowIntBits(x.Type()); bits > 0 && isRuneKind(x.X.Type()) {
						if _, isC := x.X.(*ssa.Const); isC {
							continue
						}
						if view.boundedBelow(b, x.X, int64(1)<<uint(bits)) {
							continue
						}
						bad = fmt.Sprintf("the rune %s is converted to %s (%d bits) with no upper bound established: code points that differ only above bit %d become indistinguishable", displayKey(x.X), x.Type(), bits, bits)
						pos = p.instrPos(x)
					}
				case *ssa.IndexAddr:
					// a table indexed by the character: the index must be known to be below
					// the table's length on every path
					var length int64 = -1
					switch t := x.X.Type().Underlying().(type) {
					case *types.Pointer:
						if arr, ok := t.Elem().Underlying().(*types.Array); ok {
							length = arr.Len()
						}
					}
					if length < 0 {
						continue
					}
					if _, isC := x.Index.(*ssa.Const); isC {
						continue
					}
					idx := x.Index
					if bits := narrowIntBits(idx.Type()); bits > 0 && int64(1)<<uint(bits) <= length {
						continue // bounded by its type
					}
					src := idx
					if cv, ok := idx.(*ssa.Convert); ok {
						src = cv.X
					}
					if !isRuneKind(src.Type()) && !isRuneKind(idx.Type()) {
						continue
					}
					if view.boundedBelow(b, src, length) || view.boundedBelow(b, idx, length) {
						continue
					}
					bad = fmt.Sprintf("the table of %d entries is indexed with the character %s, which is not known to be below %d on every path to this access: a character beyond the table makes the scanner panic", length, displayKey(src), length)
					pos = p.instrPos(x)
				case *ssa.BinOp:
					switch x.Op {
					case token.AND, token.REM, token.SHR, token.AND_NOT:
						if isRuneKind(x.X.Type()) {
							if _, isC := x.X.(*ssa.Const); isC {
								continue
							}
							bad = fmt.Sprintf("the rune %s is reduced with %s before it is classified: distinct code points collapse", displayKey(x.X), x.Op)
							pos = p.instrPos(x)
						}
					}
				}
			}
		}
		if !handles {
			continue
		}
		judged++
		if bad != "" {
			r.add(fnName(fn), "whole-rune", Violated, pos, bad)
		} else {
			r.add(fnName(fn), "whole-rune", Holds, "", "every comparison and index sees the full code point")
		}
	}
	r.count("scanner functions handling runes", judged)
}

// R-KEYWORD-EXACT (C15, C12): keywords are recognised on the spelling that was read.
func init() {
	register(&Rule{Name: "R-KEYWORD-EXACT", Min: 20,
		Doc: "in the scan functions, every comparison of the scanned word with a keyword spelling compares the word as it was read – the text of the buffer the characters were collected in (or a parameter holding it) – never a transformed copy (lower-cased, trimmed, …): with a transformation, identifiers that differ from a keyword only by the transformation (Self, New, End) turn into keywords, so a printed term or type that uses such a name does not parse back to itself",
		Run: runKeywordExact})
}

func runKeywordExact(p *Program, r *RuleResult) {
	tokT := p.Named(parserPkg, "tok")
	n := 0
	for _, fn := range p.SrcFuncs {
		if fn.Pkg == nil || fn.Pkg.Pkg.Path() != parserPkg || fn.Parent() != nil {
			continue
		}
		res := fn.Signature.Results()
		if res.Len() == 0 || !types.Identical(res.At(0).Type(), tokT) {
			continue
		}
		view := p.View(fn)
		for _, b := range view.Blocks() {
			ins := view.Instrs(b)
			if len(ins) == 0 {
				continue
			}
			iff, ok := ins[len(ins)-1].(*ssa.If)
			if !ok {
				continue
			}
			bo, ok := iff.Cond.(*ssa.BinOp)
			if !ok || (bo.Op != token.EQL && bo.Op != token.NEQ) {
				continue
			}
			word, other := bo.Y, bo.X
			k, isC := word.(*ssa.Const)
			if !isC {
				word, other = bo.X, bo.Y
				k, isC = word.(*ssa.Const)
			}
			if !isC || k.Value == nil || k.Value.Kind() != constant.String {
				continue
			}
			n++
			spelling := constant.StringVal(k.Value)
			construct := "keyword:" + spelling
			okSrc, what := false, displayKey(other)
			switch x := origin(other).(type) {
			case *ssa.Parameter:
				okSrc = true
			case *ssa.Call:
				if sc := x.Common().StaticCallee(); sc != nil && sc.Name() == "String" && len(x.Common().Args) == 1 && isBufferType(x.Common().Args[0].Type()) {
					okSrc = true
				} else if sc != nil {
					what = "the result of " + sc.String()
				}
			case *ssa.UnOp:
				okSrc = true // a field or local holding the word
			}
			if okSrc {
				r.add(fnName(fn), construct, Holds, p.instrPos(iff), "compared with the word as read")
			} else {
				r.add(fnName(fn), construct, Violated, p.instrPos(bo),
					fmt.Sprintf("the keyword %q is matched against %s, not against the word as it was read: other spellings of the keyword are no longer available as names", spelling, what))
			}
		}
	}
	r.count("keyword comparisons", n)
}

// R-SCAN-NO-RECURSION (C11): the scanner's stack does not grow with the input.
func init() {
	register(&Rule{Name: "R-SCAN-NO-RECURSION", Min: 5,
		Doc: "among the hand-written functions of the parser package that take part in scanning (those that reach the rune reader), none calls itself, directly or through others: a scan function that re-enters itself after skipping a comment uses one stack frame per consecutive comment, and a few million comment lines end the process with a fatal stack overflow (which cannot be recovered)",
		Run: runScanNoRecursion})
}

func runScanNoRecursion(p *Program, r *RuleResult) {
	ri := findScannerReader(p)
	if ri == nil || ri.Read == nil {
		r.add(parserPkg, "rune-reader", Undecided, "", "the wrapper of bufio.Reader.ReadRune was not found")
		return
	}
	// hand-written parser functions and their static call edges within the package
	var fns []*ssa.Function
	edges := map[*ssa.Function][]*ssa.Function{}
	for _, fn := range p.SrcFuncs {
		pk := fn.Pkg
		if pk == nil && fn.Parent() != nil {
			pk = fn.Parent().Pkg
		}
		if pk == nil || pk.Pkg.Path() != parserPkg || fn.Blocks == nil {
			continue
		}
		if strings.HasPrefix(filepath.Base(p.Fset.Position(fn.Pos()).Filename), "yacc") {
			continue
		}
		fns = append(fns, fn)
		for _, c := range p.callsIn(fn) {
			if sc := c.Common().StaticCallee(); sc != nil && sc.Blocks != nil {
				edges[fn] = append(edges[fn], sc)
			}
		}
		for _, an := range fn.AnonFuncs {
			edges[fn] = append(edges[fn], an)
		}
	}
	reachMemo := map[*ssa.Function]map[*ssa.Function]bool{}
	reachOf := func(fn *ssa.Function) map[*ssa.Function]bool {
		if m, ok := reachMemo[fn]; ok {
			return m
		}
		m := map[*ssa.Function]bool{}
		var walk func(f *ssa.Function)
		walk = func(f *ssa.Function) {
			for _, g := range edges[f] {
				if !m[g] {
					m[g] = true
					walk(g)
				}
			}
		}
		walk(fn)
		reachMemo[fn] = m
		return m
	}
	sort.Slice(fns, func(i, j int) bool { return fnName(fns[i]) < fnName(fns[j]) })
	n := 0
	for _, fn := range fns {
		m := reachOf(fn)
		if !m[ri.Read] && fn != ri.Read {
			continue // does not take part in scanning
		}
		n++
		if m[fn] {
			// a direct or indirect call of itself: where?
			where := ""
			for _, c := range p.callsIn(fn) {
				if sc := c.Common().StaticCallee(); sc != nil && (sc == fn || reachOf(sc)[fn]) {
					where = p.instrPos(c)
				}
			}
			r.add(fnName(fn), "no-self-call", Violated, where, "this scan function can call itself (at "+where+"): the depth of the recursion follows the input (one frame per consecutive comment or token), so a long enough text overflows the stack and kills the process")
		} else {
			r.add(fnName(fn), "no-self-call", Holds, p.pos(fn.Pos()), "")
		}
	}
	r.count("scan functions", n)
}
