package main

import (
	"fmt"
	"go/constant"
	"go/token"
	"go/types"
	"strings"

	"golang.org/x/tools/go/ssa"
)

// E3 – string-shape domain. The abstract value of a string is a sequence of atoms.
// Built from bytes.Buffer / strings.Builder WriteString/WriteRune/WriteByte + String(),
// string concatenation, and calls of string-returning methods on described values.

type AtomKind int

const (
	AtomConst  AtomKind = iota // literal text
	AtomCall                   // result of a string-valued call, described structurally
	AtomList                   // zero or more repetitions of Elem separated by Sep (loop)
	AtomOpaque                 // unknown string; equal only to itself
)

type Atom struct {
	Kind AtomKind
	Text string    // Const: the text; Call: callee/method name; Opaque: description
	Arg  string    // Call: canonical descriptor of the receiver/first argument
	Val  ssa.Value // Call: receiver/argument value; Opaque: the value
	Call ssa.CallInstruction
	Elem []Atom // List
	Sep  []Atom // List
}

func (a Atom) String() string {
	switch a.Kind {
	case AtomConst:
		return fmt.Sprintf("%q", a.Text)
	case AtomCall:
		return a.Text + "(" + a.Arg + ")"
	case AtomList:
		return "List[" + shapeString(a.Elem) + " / " + shapeString(a.Sep) + "]"
	}
	return "?" + a.Text
}

func shapeString(as []Atom) string {
	var ss []string
	for _, a := range as {
		ss = append(ss, a.String())
	}
	return strings.Join(ss, " ")
}

// mergeConsts joins adjacent constant atoms.
func mergeConsts(as []Atom) []Atom {
	var out []Atom
	for _, a := range as {
		if a.Kind == AtomConst && len(out) > 0 && out[len(out)-1].Kind == AtomConst {
			out[len(out)-1].Text += a.Text
			continue
		}
		if a.Kind == AtomConst && a.Text == "" {
			continue
		}
		out = append(out, a)
	}
	return out
}

// descValue gives a canonical structural descriptor of a (non-string) value so that two
// syntactically separate computations of "the same thing" compare equal (go/ssa has no CSE).
func descValue(v ssa.Value) string {
	return descValueD(v, 0)
}

func descValueD(v ssa.Value, depth int) string {
	if depth > 8 {
		return "v:" + v.Name()
	}
	if o := origin(v); o != v {
		return descValueD(o, depth+1)
	}
	switch x := v.(type) {
	case *ssa.Parameter:
		return "param:" + x.Name()
	case *ssa.FreeVar:
		return "free:" + x.Name()
	case *ssa.Const:
		if x.Value == nil {
			return "nil"
		}
		return x.Value.ExactString()
	case *ssa.Call:
		com := x.Common()
		if com.IsInvoke() {
			s := com.Method.Name() + "(" + descValueD(com.Value, depth+1)
			for _, a := range com.Args {
				s += "," + descValueD(a, depth+1)
			}
			return s + ")"
		}
		if sc := com.StaticCallee(); sc != nil {
			s := sc.Name() + "("
			for i, a := range com.Args {
				if i > 0 {
					s += ","
				}
				s += descValueD(a, depth+1)
			}
			return s + ")"
		}
	case *ssa.ChangeInterface:
		return descValueD(x.X, depth+1)
	case *ssa.ChangeType:
		return descValueD(x.X, depth+1)
	case *ssa.MakeInterface:
		return descValueD(x.X, depth+1)
	case *ssa.UnOp:
		if x.Op == token.MUL {
			if p := accessPath(x.X); p != "" {
				return "load:" + p
			}
			return "load(" + descValueD(x.X, depth+1) + ")"
		}
	case *ssa.FieldAddr:
		_, n, _ := fieldNameOf(x)
		return descValueD(x.X, depth+1) + "." + n
	case *ssa.Field:
		_, n, _ := fieldNameOf(x)
		return descValueD(x.X, depth+1) + "." + n
	case *ssa.Extract:
		return fmt.Sprintf("extract%d(%s)", x.Index, descValueD(x.Tuple, depth+1))
	case *ssa.TypeAssert:
		return "assert[" + types.TypeString(x.AssertedType, nil) + "](" + descValueD(x.X, depth+1) + ")"
	case *ssa.Lookup:
		return "lookup(" + descValueD(x.X, depth+1) + "," + descValueD(x.Index, depth+1) + ")"
	case *ssa.Phi:
		// a phi is a different value from each of its operands: identified by itself
		return "phi:" + x.Name() + "@" + fmt.Sprint(x.Block().Index)
	}
	return "v:" + v.Name()
}

func isBufferType(t types.Type) bool {
	if pt, ok := t.Underlying().(*types.Pointer); ok {
		t = pt.Elem()
	}
	n, ok := t.(*types.Named)
	if !ok || n.Obj().Pkg() == nil {
		return false
	}
	full := n.Obj().Pkg().Path() + "." + n.Obj().Name()
	return full == "bytes.Buffer" || full == "strings.Builder"
}

type shaper struct {
	p     *Program
	depth int
	// function-typed parameters of a printing helper bound to a method name at the call
	// being classified (`printType func(SessionType) string` bound to SessionType.String)
	funcBind map[*ssa.Parameter]string
}

// Shape computes the string shape of v. ok=false means the shape could not be built
// (undecided), with a reason.
func (s *shaper) Shape(v ssa.Value) ([]Atom, error) {
	s.depth++
	defer func() { s.depth-- }()
	if s.depth > 12 {
		return []Atom{{Kind: AtomOpaque, Text: v.Name(), Val: v}}, nil
	}
	switch x := v.(type) {
	case *ssa.Const:
		if x.Value != nil && x.Value.Kind() == constant.String {
			return []Atom{{Kind: AtomConst, Text: constant.StringVal(x.Value)}}, nil
		}
	case *ssa.BinOp:
		if x.Op == token.ADD {
			a, err := s.Shape(x.X)
			if err != nil {
				return nil, err
			}
			b, err := s.Shape(x.Y)
			if err != nil {
				return nil, err
			}
			return mergeConsts(append(append([]Atom{}, a...), b...)), nil
		}
	case *ssa.Call:
		com := x.Common()
		if sc := com.StaticCallee(); sc != nil && sc.Name() == "String" && len(com.Args) == 1 && isBufferType(com.Args[0].Type()) {
			return s.bufferShape(x, com.Args[0])
		}
		if com.IsInvoke() {
			return []Atom{{Kind: AtomCall, Text: com.Method.Name(), Arg: descValue(com.Value), Val: com.Value, Call: x}}, nil
		}
		if prm, ok := com.Value.(*ssa.Parameter); ok && len(com.Args) == 1 && s.funcBind[prm] != "" {
			return []Atom{{Kind: AtomCall, Text: s.funcBind[prm], Arg: descValue(com.Args[0]), Val: com.Args[0], Call: x}}, nil
		}
		if sc := com.StaticCallee(); sc != nil && sc.String() == "fmt.Sprintf" && len(com.Args) == 2 {
			if as, ok := s.sprintfShape(com.Args[0], com.Args[1]); ok {
				return as, nil
			}
		}
		if sc := com.StaticCallee(); sc != nil && s.p.isFirstParty(sc) && len(sc.Blocks) == 1 && sc.Signature.Recv() == nil && len(com.Args) == len(sc.Params) {
			// straight-line first-party helper returning a string: inline its shape with the
			// parameters bound to the caller's arguments
			if ret := soleReturn(sc); ret != nil {
				if b, ok := ret.Results[0].Type().Underlying().(*types.Basic); ok && b.Kind() == types.String {
					inner, err := s.Shape(ret.Results[0])
					if err == nil {
						bind := map[ssa.Value]ssa.Value{}
						for i, prm := range sc.Params {
							bind[prm] = com.Args[i]
						}
						out, ok := s.substitute(inner, bind)
						if ok {
							return mergeConsts(out), nil
						}
					}
				}
			}
		}
		if sc := com.StaticCallee(); sc != nil {
			arg := ""
			var val ssa.Value
			if len(com.Args) > 0 {
				arg = descValue(com.Args[0])
				val = com.Args[0]
				for _, a := range com.Args[1:] {
					arg += "," + descValue(a)
				}
			}
			return []Atom{{Kind: AtomCall, Text: sc.Name(), Arg: arg, Val: val, Call: x}}, nil
		}
	case *ssa.UnOp:
		if x.Op == token.MUL {
			if o := origin(x); o != ssa.Value(x) {
				return s.Shape(o)
			}
			return []Atom{{Kind: AtomCall, Text: "load", Arg: descValue(x), Val: x}}, nil
		}
	}
	return []Atom{{Kind: AtomOpaque, Text: descValue(v), Val: v}}, nil
}

// bufferShape: the shape of buf.String() at call `at`, for a function-local buffer.
// Supported control flow: straight-line writes (every write instruction dominates the
// String() call) and loops/conditionals are rejected here (see listShape for loops).
func (s *shaper) bufferShape(at *ssa.Call, buf ssa.Value) ([]Atom, error) {
	al, ok := buf.(*ssa.Alloc)
	if !ok {
		return nil, fmt.Errorf("buffer is not a local variable")
	}
	fn := at.Parent()
	view := s.p.View(fn)
	type w struct {
		in   ssa.Instruction
		arg  ssa.Value
		kind string
	}
	var writes []w
	refs := al.Referrers()
	for _, u := range *refs {
		c, ok := u.(*ssa.Call)
		if !ok {
			if _, isDbg := u.(*ssa.DebugRef); isDbg {
				continue
			}
			return nil, fmt.Errorf("buffer escapes (%T)", u)
		}
		sc := c.Common().StaticCallee()
		if sc == nil {
			return nil, fmt.Errorf("buffer passed to a dynamic call")
		}
		switch sc.Name() {
		case "WriteString", "WriteRune", "WriteByte":
			if view.Live(c) {
				writes = append(writes, w{c, c.Common().Args[1], sc.Name()})
			}
		case "String", "Len":
		default:
			if len(c.Common().Args) > 0 && c.Common().Args[0] == buf && sc.Signature.Recv() != nil {
				return nil, fmt.Errorf("unsupported buffer method %s", sc.Name())
			}
			return nil, fmt.Errorf("buffer passed to %s", sc.Name())
		}
	}
	// order writes: each must dominate `at`, and they must be totally ordered by dominance
	atB := at.Block()
	var seq []w
	for _, wr := range writes {
		b := wr.in.Block()
		if b == atB {
			if indexIn(b, wr.in) > indexIn(b, at) {
				continue // after the String() call
			}
		} else if !b.Dominates(atB) {
			// a write after the call (not reaching it) is irrelevant; one that may reach it conditionally is unsupported
			reach := view.blocksReachableFrom(b)
			if reach[atB] {
				return nil, fmt.Errorf("conditional or loop write to the buffer at %s", s.p.instrPos(wr.in))
			}
			continue
		}
		// a write inside a loop that dominates `at`? (do-while shapes) – reject
		for _, l := range view.Loops() {
			if l.Body[b] && !l.Body[atB] {
				return nil, fmt.Errorf("write inside a loop at %s", s.p.instrPos(wr.in))
			}
		}
		seq = append(seq, wr)
	}
	// sort by dominance / index
	for i := 0; i < len(seq); i++ {
		for j := i + 1; j < len(seq); j++ {
			bi, bj := seq[i].in.Block(), seq[j].in.Block()
			less := false
			if bi == bj {
				less = indexIn(bi, seq[i].in) < indexIn(bi, seq[j].in)
			} else {
				less = bi.Dominates(bj)
			}
			if !less {
				seq[i], seq[j] = seq[j], seq[i]
			}
		}
	}
	var out []Atom
	for _, wr := range seq {
		switch wr.kind {
		case "WriteString":
			as, err := s.Shape(wr.arg)
			if err != nil {
				return nil, err
			}
			out = append(out, as...)
		default:
			if c, ok := wr.arg.(*ssa.Const); ok && c.Value != nil {
				if iv, ok := constant.Int64Val(c.Value); ok {
					out = append(out, Atom{Kind: AtomConst, Text: string(rune(iv))})
					continue
				}
			}
			out = append(out, Atom{Kind: AtomOpaque, Text: descValue(wr.arg), Val: wr.arg})
		}
	}
	return mergeConsts(out), nil
}

func shapesEqual(a, b []Atom) (bool, string) {
	if len(a) != len(b) {
		return false, fmt.Sprintf("different number of atoms: [%s] vs [%s]", shapeString(a), shapeString(b))
	}
	for i := range a {
		x, y := a[i], b[i]
		if x.Kind != y.Kind || x.Text != y.Text || x.Arg != y.Arg {
			return false, fmt.Sprintf("atom %d differs: %s vs %s", i+1, x, y)
		}
		if x.Kind == AtomOpaque && x.Val != y.Val {
			return false, fmt.Sprintf("atom %d is opaque and not the same value", i+1)
		}
	}
	return true, ""
}

// substitute replaces, in a callee's shape, atoms that refer to the callee's parameters by
// the caller's arguments. ok=false when an atom depends on a parameter in a way that cannot
// be re-expressed in the caller.
func (s *shaper) substitute(atoms []Atom, bind map[ssa.Value]ssa.Value) ([]Atom, bool) {
	var out []Atom
	for _, a := range atoms {
		switch a.Kind {
		case AtomConst:
			out = append(out, a)
		case AtomOpaque:
			if arg, ok := bind[a.Val]; ok {
				as, err := s.Shape(arg)
				if err != nil {
					return nil, false
				}
				out = append(out, as...)
				continue
			}
			return nil, false
		case AtomCall:
			if a.Val == nil {
				out = append(out, a)
				continue
			}
			if arg, ok := bind[a.Val]; ok {
				b := a
				b.Val = arg
				b.Arg = descValue(arg)
				out = append(out, b)
				continue
			}
			// a value computed inside the callee from its parameters: give up
			if _, isParam := a.Val.(*ssa.Parameter); isParam {
				return nil, false
			}
			return nil, false
		default:
			return nil, false
		}
	}
	return out, true
}

// sprintfShape: fmt.Sprintf with a constant format and a literal argument list.
func (s *shaper) sprintfShape(format ssa.Value, args ssa.Value) ([]Atom, bool) {
	fc, ok := format.(*ssa.Const)
	if !ok || fc.Value == nil || fc.Value.Kind() != constant.String {
		return nil, false
	}
	elems, ok := varargElems(args)
	if !ok {
		return nil, false
	}
	f := constant.StringVal(fc.Value)
	var out []Atom
	ai := 0
	lit := ""
	for i := 0; i < len(f); i++ {
		if f[i] != '%' {
			lit += string(f[i])
			continue
		}
		if i+1 < len(f) && f[i+1] == '%' {
			lit += "%"
			i++
			continue
		}
		// skip flags/width
		j := i + 1
		for j < len(f) && strings.ContainsRune("+-# 0123456789.", rune(f[j])) {
			j++
		}
		if j >= len(f) || ai >= len(elems) {
			return nil, false
		}
		if lit != "" {
			out = append(out, Atom{Kind: AtomConst, Text: lit})
			lit = ""
		}
		v := elems[ai].val
		ai++
		if mi, isMI := v.(*ssa.MakeInterface); isMI {
			v = mi.X
		}
		if b, isB := v.Type().Underlying().(*types.Basic); isB && b.Kind() == types.String {
			as, err := s.Shape(v)
			if err != nil {
				return nil, false
			}
			out = append(out, as...)
		} else {
			out = append(out, Atom{Kind: AtomCall, Text: "fmt%" + string(f[j]), Arg: descValue(v), Val: v})
		}
		i = j
	}
	if lit != "" {
		out = append(out, Atom{Kind: AtomConst, Text: lit})
	}
	return mergeConsts(out), true
}
