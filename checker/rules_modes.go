package main

import (
	"fmt"
	"go/constant"
	"go/types"
	"strings"

	"golang.org/x/tools/go/ssa"
)

// R-MODE-TABLES and R-SPELLINGS (C17, also used by C05/C06).

const typesPkg = "grits/types"
const processPkg = "grits/process"
const parserPkg = "grits/parser"

type modeInfo struct {
	T       *types.Named
	Ptr     types.Type
	Name    string // type name
	Short   string // String() constant
	Full    string // FullString() constant
	Weak    bool
	Contr   bool
	Special bool // table methods unconditionally panic
}

// modeTables extracts the mode tables from the source by abstract evaluation.
type modeTables struct {
	Modes    []*modeInfo // all implementers
	Proper   []*modeInfo
	Down, Up map[[2]string]AVal
	Eq       map[[2]string]AVal
}

func (p *Program) modalityImplementers() []*types.Named {
	return p.Implementers(p.Named(typesPkg, "Modality"))
}

func extractModeTables(p *Program, r *RuleResult) *modeTables {
	ev := NewEvaluator(p)
	mt := &modeTables{Down: map[[2]string]AVal{}, Up: map[[2]string]AVal{}, Eq: map[[2]string]AVal{}}
	p.computeNoReturn()
	for _, T := range p.modalityImplementers() {
		mi := &modeInfo{T: T, Ptr: types.NewPointer(T), Name: T.Obj().Name()}
		down := p.Method(T, "CanBeDownshiftedTo")
		up := p.Method(T, "CanBeUpshiftedTo")
		mi.Special = p.noRet[down] && p.noRet[up]
		mt.Modes = append(mt.Modes, mi)
		if !mi.Special {
			mt.Proper = append(mt.Proper, mi)
		}
	}
	constStr := func(mi *modeInfo, meth string) (string, bool) {
		res := ev.Eval(p.Method(mi.T, meth), []AVal{aDyn(mi.Ptr)})
		if res.Ret.K == avConst && res.Ret.C.Kind() == constant.String && !res.Panics {
			return constant.StringVal(res.Ret.C), true
		}
		return "", false
	}
	constBool := func(mi *modeInfo, meth string) (bool, bool) {
		res := ev.Eval(p.Method(mi.T, meth), []AVal{aDyn(mi.Ptr)})
		b, ok := res.Ret.IsBool()
		return b, ok && !res.Panics
	}
	for _, mi := range mt.Proper {
		var ok bool
		fn := "(*types." + mi.Name + ")"
		if mi.Short, ok = constStr(mi, "String"); !ok {
			r.add(fn+".String", "folds-to-constant", Undecided, p.pos(p.Method(mi.T, "String").Pos()), "String() of a proper mode does not fold to one string constant")
		} else {
			r.add(fn+".String", "folds-to-constant", Holds, p.pos(p.Method(mi.T, "String").Pos()), "= "+mi.Short)
		}
		if mi.Full, ok = constStr(mi, "FullString"); !ok {
			r.add(fn+".FullString", "folds-to-constant", Undecided, p.pos(p.Method(mi.T, "FullString").Pos()), "FullString() of a proper mode does not fold to one string constant")
		} else {
			r.add(fn+".FullString", "folds-to-constant", Holds, p.pos(p.Method(mi.T, "FullString").Pos()), "= "+mi.Full)
		}
		if mi.Weak, ok = constBool(mi, "AllowsWeakening"); !ok {
			r.add(fn+".AllowsWeakening", "folds-to-constant", Undecided, p.pos(p.Method(mi.T, "AllowsWeakening").Pos()), "does not fold to one boolean")
		} else {
			r.add(fn+".AllowsWeakening", "folds-to-constant", Holds, p.pos(p.Method(mi.T, "AllowsWeakening").Pos()), fmt.Sprint("= ", mi.Weak))
		}
		if mi.Contr, ok = constBool(mi, "AllowsContraction"); !ok {
			r.add(fn+".AllowsContraction", "folds-to-constant", Undecided, p.pos(p.Method(mi.T, "AllowsContraction").Pos()), "does not fold to one boolean")
		} else {
			r.add(fn+".AllowsContraction", "folds-to-constant", Holds, p.pos(p.Method(mi.T, "AllowsContraction").Pos()), fmt.Sprint("= ", mi.Contr))
		}
	}
	for _, m := range mt.Proper {
		for _, k := range mt.Proper {
			key := [2]string{m.Name, k.Name}
			for _, tb := range []struct {
				meth string
				dst  map[[2]string]AVal
			}{{"CanBeDownshiftedTo", mt.Down}, {"CanBeUpshiftedTo", mt.Up}, {"Equals", mt.Eq}} {
				fn := p.Method(m.T, tb.meth)
				res := ev.Eval(fn, []AVal{aDyn(m.Ptr), aDyn(k.Ptr)})
				v := res.Ret
				if res.Panics {
					v = aTop
				}
				tb.dst[key] = v
				name := "(*types." + m.Name + ")." + tb.meth
				if _, ok := v.IsBool(); ok {
					r.add(name, "arg=*"+k.Name, Holds, p.pos(fn.Pos()), "folds to "+v.String())
				} else {
					r.add(name, "arg=*"+k.Name, Undecided, p.pos(fn.Pos()), "table entry does not fold to a single boolean ("+res.describe()+")")
				}
			}
		}
	}
	r.count("mode implementers", len(mt.Modes))
	r.count("proper modes", len(mt.Proper))
	return mt
}

func tb(m map[[2]string]AVal, a, b *modeInfo) (bool, bool) {
	return m[[2]string{a.Name, b.Name}].IsBool()
}

func init() {
	register(&Rule{Name: "R-MODE-TABLES", Min: 140,
		Doc: "the mode order and structural-rule tables, extracted from the source by constant propagation, satisfy every preorder/converse/monotonicity law (exhaustive over the modes)",
		Run: runModeTables})
	register(&Rule{Name: "R-SPELLINGS", Min: 13,
		Doc: "StringToMode folds, for every documented spelling, to the mode whose String/FullString constants are in the same row; an undocumented spelling folds to the invalid mode; DefaultMode is the top mode",
		Run: runSpellings})
}

func runModeTables(p *Program, r *RuleResult) {
	mt := extractModeTables(p, r)
	fnT := "types.Modality tables"
	if len(mt.Proper) != 4 {
		r.add(fnT, "four-proper-modes", Violated, "", fmt.Sprintf("the specification has exactly four modes; the source has %d implementers with non-panicking tables", len(mt.Proper)))
	} else {
		r.add(fnT, "four-proper-modes", Holds, "", "")
	}
	law := func(name string, ok, known bool, detail string) {
		v := Holds
		if !known {
			v = Undecided
		} else if !ok {
			v = Violated
		}
		r.add(fnT, name, v, p.pos(mt.Proper[0].T.Obj().Pos()), detail)
	}
	P := mt.Proper
	for _, m := range P {
		d, k := tb(mt.Down, m, m)
		law("reflexive:"+m.Name, d, k, "CanBeDownshiftedTo(m, m) must be true")
	}
	for _, m := range P {
		for _, k := range P {
			d1, k1 := tb(mt.Down, m, k)
			d2, k2 := tb(mt.Down, k, m)
			law("antisymmetric:"+m.Name+","+k.Name, !(d1 && d2) || m == k, k1 && k2, "m ≥ k and k ≥ m imply m = k")
			u, k3 := tb(mt.Up, k, m)
			law("converse:"+m.Name+","+k.Name, u == d1, k1 && k3, fmt.Sprintf("CanBeUpshiftedTo(%s,%s)=%v must equal CanBeDownshiftedTo(%s,%s)=%v", k.Name, m.Name, u, m.Name, k.Name, d1))
			// monotone structural rules: m ≥ k ⇒ σ(k) ⊆ σ(m)
			mono := !d1 || ((!k.Weak || m.Weak) && (!k.Contr || m.Contr))
			law("monotone:"+m.Name+","+k.Name, mono, k1, "a stronger mode must permit every structural rule the weaker one permits")
			e, k4 := tb(mt.Eq, m, k)
			law("equals-is-identity:"+m.Name+","+k.Name, e == (m == k), k4, "Equals must hold exactly on the diagonal")
			for _, j := range P {
				d3, k5 := tb(mt.Down, k, j)
				d4, k6 := tb(mt.Down, m, j)
				law("transitive:"+m.Name+","+k.Name+","+j.Name, !(d1 && d3) || d4, k1 && k5 && k6, "m ≥ k and k ≥ j imply m ≥ j")
			}
		}
	}
	// shape of the order, named by structural rules
	var top, bot *modeInfo
	var mid []*modeInfo
	for _, m := range P {
		switch {
		case m.Weak && m.Contr:
			top = m
		case !m.Weak && !m.Contr:
			bot = m
		default:
			mid = append(mid, m)
		}
	}
	if top == nil || bot == nil || len(mid) != 2 {
		law("shape", false, true, "expected one mode with both structural rules, one with none and two with exactly one")
	} else {
		for _, k := range P {
			d, kn := tb(mt.Down, top, k)
			law("top:"+top.Name+"≥"+k.Name, d, kn, "the mode with weakening and contraction is above every mode")
			d, kn = tb(mt.Down, k, bot)
			law("bottom:"+k.Name+"≥"+bot.Name, d, kn, "the mode with no structural rule is below every mode")
		}
		d1, k1 := tb(mt.Down, mid[0], mid[1])
		d2, k2 := tb(mt.Down, mid[1], mid[0])
		law("incomparable:"+mid[0].Name+","+mid[1].Name, !d1 && !d2, k1 && k2, "the two modes with exactly one structural rule are incomparable")
		law("incomparable-rules-differ", mid[0].Weak != mid[1].Weak, true, "one of them has weakening only, the other contraction only")
		// the documented names (specification side): replicable ⊤ {W,C}, linear ⊥ ø, affine {W}, multicast {C}
		spec := map[string][2]bool{"replicable": {true, true}, "linear": {false, false}, "affine": {true, false}, "multicast": {false, true}}
		for _, m := range P {
			want, ok := spec[m.Full]
			law("documented-rules:"+m.Name, ok && want[0] == m.Weak && want[1] == m.Contr, true,
				fmt.Sprintf("mode printed as %q has weakening=%v contraction=%v", m.Full, m.Weak, m.Contr))
		}
	}
	// Copy() returns the receiver's own type
	ev := NewEvaluator(p)
	for _, m := range P {
		fn := p.Method(m.T, "Copy")
		res := ev.Eval(fn, []AVal{aDyn(m.Ptr)})
		ok := res.Ret.K == avDyn && types.Identical(res.Ret.T, m.Ptr) && !res.Panics
		v := Holds
		if res.Ret.K != avDyn {
			v = Undecided
		} else if !ok {
			v = Violated
		}
		r.add("(*types."+m.Name+").Copy", "returns-own-mode", v, p.pos(fn.Pos()), "Copy() evaluates to "+res.Ret.String())
	}
	// special modes: Equals still defined, tables panic (recorded)
	for _, m := range mt.Modes {
		if m.Special {
			r.note("special mode %s: shift tables unconditionally panic (kept out of shift queries by R-UNSET-REJECTED)", m.Name)
		}
	}
}

// documented spellings (specification side: README "Modes" and the comment table)
var documentedSpellings = [][]string{
	{"r", "rep", "replicable"},
	{"m", "mul", "multicast"},
	{"a", "aff", "affine"},
	{"l", "lin", "linear"},
}

func runSpellings(p *Program, r *RuleResult) {
	sub := &RuleResult{Rule: r.Rule}
	mt := extractModeTables(p, sub)
	for _, o := range sub.Obligations {
		if o.Verdict != Holds && (strings.HasSuffix(o.Function, ".String") || strings.HasSuffix(o.Function, ".FullString")) {
			r.Obligations = append(r.Obligations, o)
		}
	}
	fn := p.Func(typesPkg, "StringToMode")
	ev := NewEvaluator(p)
	name := "types.StringToMode"
	for _, row := range documentedSpellings {
		// the mode of this row: String() and FullString() constants are both in the row
		var want *modeInfo
		for _, m := range mt.Proper {
			if contains(row, m.Short) && contains(row, m.Full) {
				want = m
			}
		}
		for _, s := range row {
			if want == nil {
				r.add(name, "spelling:"+s, Violated, p.pos(fn.Pos()), "no mode prints as one of "+strings.Join(row, "/"))
				continue
			}
			res := ev.Eval(fn, []AVal{aConst(constant.MakeString(s))})
			switch {
			case res.Ret.K != avDyn || res.Panics:
				r.add(name, "spelling:"+s, Undecided, p.pos(fn.Pos()), "does not fold to one mode: "+res.describe())
			case !types.Identical(res.Ret.T, want.Ptr):
				r.add(name, "spelling:"+s, Violated, p.pos(fn.Pos()), fmt.Sprintf("StringToMode(%q) is %s, documented as %s", s, res.Ret, want.Full))
			default:
				r.add(name, "spelling:"+s, Holds, p.pos(fn.Pos()), "folds to "+res.Ret.String())
			}
			// upper-case variants: recorded, not required
			up := ev.Eval(fn, []AVal{aConst(constant.MakeString(strings.ToUpper(s)))})
			r.note("StringToMode(%q) = %s (undocumented, recorded only)", strings.ToUpper(s), up.Ret)
		}
	}
	// an undocumented spelling is rejected (folds to a special mode)
	res := ev.Eval(fn, []AVal{aConst(constant.MakeString("linearish"))})
	special := false
	for _, m := range mt.Modes {
		if m.Special && res.Ret.K == avDyn && types.Identical(res.Ret.T, m.Ptr) {
			special = true
		}
	}
	v := Holds
	if res.Ret.K != avDyn {
		v = Undecided
	} else if !special {
		v = Violated
	}
	r.add(name, "undocumented-spelling-is-invalid", v, p.pos(fn.Pos()), "StringToMode(\"linearish\") = "+res.Ret.String())

	// DefaultMode is the top mode (used by C16)
	dm := p.Func(typesPkg, "DefaultMode")
	dres := ev.Eval(dm, nil)
	var top *modeInfo
	for _, m := range mt.Proper {
		if m.Weak && m.Contr {
			top = m
		}
	}
	v = Holds
	if dres.Ret.K != avDyn || top == nil {
		v = Undecided
	} else if !types.Identical(dres.Ret.T, top.Ptr) {
		v = Violated
	}
	r.add("types.DefaultMode", "is-top-mode", v, p.pos(dm.Pos()), "DefaultMode() = "+dres.Ret.String())
}

func contains(ss []string, s string) bool {
	for _, x := range ss {
		if x == s {
			return true
		}
	}
	return false
}

var _ = ssa.Value(nil)

func init() {
	addFixture(Fixture{Name: "modes-aff-down-mul", Rule: "R-MODE-TABLES", File: "types/modality.go",
		Old:    "\tcase *MulticastMode:\n\t\treturn false\n\tcase *AffineMode:\n\t\treturn true\n\tcase *LinearMode:\n\t\treturn true\n",
		New:    "\tcase *MulticastMode:\n\t\treturn true\n\tcase *AffineMode:\n\t\treturn true\n\tcase *LinearMode:\n\t\treturn true\n",
		Expect: "converse:"})
	addFixture(Fixture{Name: "modes-lin-weaken", Rule: "R-MODE-TABLES", File: "types/modality.go",
		Old:    "func (q *LinearMode) AllowsWeakening() bool {\n\treturn false",
		New:    "func (q *LinearMode) AllowsWeakening() bool {\n\treturn true",
		Expect: "shape"})
	addFixture(Fixture{Name: "spelling-mul-affine", Rule: "R-SPELLINGS", File: "types/modality.go",
		Old:    "\tcase \"mul\":\n\t\treturn &MulticastMode{}",
		New:    "\tcase \"mul\":\n\t\treturn &AffineMode{}",
		Expect: "spelling:mul"})
}
