package main

import (
	"fmt"
	"go/token"
	"go/types"

	"golang.org/x/tools/go/ssa"
)

// R-DIM-INDEX (C03, C02, C04): parallel collections are indexed by the variable of the loop
// that ranges over their dimension (duplication: copy i gets channel [k][i] of free name k,
// provider i; the forward of free name k gets row k).

func init() {
	register(&Rule{Name: "R-DIM-INDEX", Min: 25,
		Doc: "in the interpreter (package process, transition files): inside a loop whose index ranges over the length of a collection S, every element access to S - or to a collection allocated with S's length, or to the rows of a table whose rows were allocated with S's length - uses that loop's index; a constant or the index of a loop over a different collection addresses the same element for every iteration (all copies of a duplicated process sharing one channel, every forward providing the first row, …)",
		Run: runDimIndex})
}

type dimUF struct{ parent map[string]string }

func (u *dimUF) find(x string) string {
	if u.parent[x] == "" || u.parent[x] == x {
		u.parent[x] = x
		return x
	}
	r := u.find(u.parent[x])
	u.parent[x] = r
	return r
}
func (u *dimUF) union(a, b string) {
	if a == "" || b == "" {
		return
	}
	ra, rb := u.find(a), u.find(b)
	if ra != rb {
		u.parent[ra] = rb
	}
}

func runDimIndex(p *Program, r *RuleResult) {
	n := 0
	for _, fn := range p.SrcFuncs {
		if fn.Pkg == nil || fn.Pkg.Pkg.Path() != processPkg || fn.Blocks == nil {
			continue
		}
		root := fn
		for root.Parent() != nil {
			root = root.Parent()
		}
		// the interpreter: transition methods, their closures and the *Process methods they use
		if !(rootMethod(fn).Name() == "Transition" || rootMethod(fn).Name() == "TransitionNP" || p.countsDeathOrSpawns(root)) {
			continue
		}
		view := p.View(fn)
		loops := view.Loops()
		if len(loops) == 0 {
			continue
		}
		uf := &dimUF{parent: map[string]string{}}
		// key of a slice-valued expression; local slice variables through their single store
		var skey func(v ssa.Value, d int) string
		skey = func(v ssa.Value, d int) string {
			if d > 5 {
				return ""
			}
			if ld, ok := v.(*ssa.UnOp); ok && ld.Op == token.MUL {
				if ia, ok := ld.X.(*ssa.IndexAddr); ok {
					if k := skey(ia.X, d+1); k != "" {
						return "elem(" + k + ")"
					}
				}
			}
			return exprKey(v)
		}
		lenOf := func(v ssa.Value) string { // v = len(S) -> key(S)
			c, ok := v.(*ssa.Call)
			if !ok {
				return ""
			}
			if b, ok := c.Common().Value.(*ssa.Builtin); ok && b.Name() == "len" && len(c.Common().Args) == 1 {
				return skey(c.Common().Args[0], 0)
			}
			return ""
		}
		for _, b := range fn.Blocks {
			for _, in := range b.Instrs {
				switch x := in.(type) {
				case *ssa.MakeSlice:
					if s := lenOf(x.Len); s != "" {
						uf.union(exprKey(x), s)
					}
				case *ssa.Store:
					// T[i] = make([]U, len(S2))   => elem(T) ~ S2 ; v := S => same
					if ia, ok := x.Addr.(*ssa.IndexAddr); ok {
						if _, isSl := x.Val.Type().Underlying().(*types.Slice); isSl {
							if tk := skey(ia.X, 0); tk != "" {
								uf.union("elem("+tk+")", skey(x.Val, 0))
							}
						}
					}
				}
			}
		}
		// loop index variables and their dimension
		type lvar struct {
			idx  ssa.Value
			dim  string
			loop *Loop
		}
		var lvars []lvar
		for _, l := range loops {
			ins := view.Instrs(l.Header)
			if len(ins) == 0 {
				continue
			}
			iff, ok := ins[len(ins)-1].(*ssa.If)
			if !ok {
				continue
			}
			bo, ok := iff.Cond.(*ssa.BinOp)
			if !ok || bo.Op != token.LSS {
				continue
			}
			if s := lenOf(bo.Y); s != "" {
				lvars = append(lvars, lvar{bo.X, s, l})
			}
			// a loop over a part of a collection (x[a:b]) in the interpreter: elements are left out
			if c, ok := bo.Y.(*ssa.Call); ok {
				if bi, ok := c.Common().Value.(*ssa.Builtin); ok && bi.Name() == "len" {
					if sl, ok := c.Common().Args[0].(*ssa.Slice); ok && (sl.Low != nil || sl.High != nil) {
						if _, isArr := sl.X.(*ssa.Alloc); !isArr {
							n++
							r.add(fnName(fn), fmt.Sprintf("loop-over-part-of-%s", displayKey(sl.X)), Violated, p.instrPos(sl),
								fmt.Sprintf("the loop ranges over a part of %s only: the elements left out get no copy / no forward / no substitution", displayKey(sl.X)))
						}
					}
				}
			}
		}
		if len(lvars) == 0 {
			continue
		}
		ord := 0
		for _, b := range fn.Blocks {
			for _, in := range b.Instrs {
				ia, ok := in.(*ssa.IndexAddr)
				if !ok {
					continue
				}
				if _, isSl := ia.X.Type().Underlying().(*types.Slice); !isSl {
					continue
				}
				xk := skey(ia.X, 0)
				if xk == "" {
					continue
				}
				xd := uf.find(xk)
				// enclosing loops with an index of the same dimension
				var match *lvar
				for i := range lvars {
					lv := &lvars[i]
					if lv.loop.Body[b] && b != lv.loop.Header && uf.find(lv.dim) == xd {
						if match == nil || len(lv.loop.Body) < len(match.loop.Body) {
							match = lv
						}
					}
				}
				if match == nil {
					continue
				}
				n++
				ord++
				construct := fmt.Sprintf("index#%d-of-%s", ord, displayKey(ia.X))
				if ia.Index == match.idx {
					r.add(fnName(fn), construct, Holds, p.instrPos(ia), "indexed by the loop variable of its own dimension")
					continue
				}
				what := "a constant"
				if _, isC := ia.Index.(*ssa.Const); !isC {
					what = "another expression (" + describeVal(ia.Index) + ")"
				}
				r.add(fnName(fn), construct, Violated, p.instrPos(ia),
					fmt.Sprintf("%s is indexed by %s inside the loop that ranges over its length: every iteration addresses the same element instead of its own (duplicates sharing one channel / one provider, forwards providing the wrong row)", displayKey(ia.X), what))
			}
		}
	}
	r.count("dimension-matched element accesses", n)
}

// countsDeathOrSpawns: a method of *Process used by the interpreter (spawns or ends processes).
func (p *Program) countsDeathOrSpawns(fn *ssa.Function) bool {
	if fn == nil || fn.Signature.Recv() == nil || !isNamed(fn.Signature.Recv().Type(), processPkg, "Process") {
		return false
	}
	if p.countsDeath(fn) || p.isLifecycleEnd(fn) {
		return true
	}
	for _, c := range p.callsIn(fn) {
		if sc := c.Common().StaticCallee(); sc != nil {
			for _, c2 := range p.callsIn(sc) {
				if _, isGo := c2.(*ssa.Go); isGo {
					return true
				}
			}
			if p.countsDeath(sc) {
				return true
			}
		}
	}
	return false
}

// R-SPAWN-LIVE (C01, C02, C04): a spawned process provides run-time channels.
func init() {
	register(&Rule{Name: "R-SPAWN-LIVE", Min: 16,
		Doc: "the provider list handed to the process constructor in the interpreter, and every replacement of the current process's providers, consists of run-time channels (results of the fresh-channel constructor, names received in a message, the providers of a running process, or collections built from those) - never of a name stored in a form, which is only an identifier until it has been substituted",
		Run: runSpawnLive})
}

func runSpawnLive(p *Program, r *RuleResult) {
	form := p.Named(processPkg, "Form").Underlying().(*types.Interface)
	isFormStruct := func(t types.Type) bool {
		n := namedOf(t)
		if n == nil {
			return false
		}
		return types.Implements(types.NewPointer(n), form) || types.Implements(n, form)
	}
	freshCtor := map[*ssa.Function]bool{}
	for _, fn := range p.SrcFuncs {
		if fn.Pkg == nil || fn.Pkg.Pkg.Path() != processPkg || fn.Blocks == nil || fn.Signature.Results().Len() != 1 || !isNameType2(fn.Signature.Results().At(0).Type()) {
			continue
		}
		for _, b := range fn.Blocks {
			for _, in := range b.Instrs {
				if _, ok := in.(*ssa.MakeChan); ok {
					freshCtor[fn] = true
				}
			}
		}
	}
	var classify func(v ssa.Value, d int, seen map[ssa.Value]bool) string
	classify = func(v ssa.Value, d int, seen map[ssa.Value]bool) string {
		if d > 10 || seen[v] {
			return "unknown"
		}
		seen[v] = true
		merge := func(a, b string) string {
			switch {
			case a == "static" || b == "static":
				return "static"
			case a == "" || a == b:
				return b
			case b == "":
				return a
			}
			return "unknown"
		}
		switch x := v.(type) {
		case *ssa.Call:
			if sc := x.Common().StaticCallee(); sc != nil && freshCtor[sc] {
				return "live"
			}
			return "unknown"
		case *ssa.UnOp:
			if x.Op == token.MUL {
				return classify(x.X, d+1, seen)
			}
		case *ssa.FieldAddr, *ssa.Field:
			var base ssa.Value
			if fa, ok := x.(*ssa.FieldAddr); ok {
				base = fa.X
			} else {
				base = x.(*ssa.Field).X
			}
			_, fname, _ := fieldNameOf(x)
			bt := base.Type()
			switch {
			case isFormStruct(bt):
				return "static"
			case isNamed(bt, processPkg, "Message") || isNamed(derefT(bt), processPkg, "Message"):
				return "live"
			case (isNamed(bt, processPkg, "Process") || isNamed(derefT(bt), processPkg, "Process")) && fname == "Providers":
				return "live"
			}
			return classify(base, d+1, seen)
		case *ssa.IndexAddr:
			return classify(x.X, d+1, seen)
		case *ssa.Slice:
			return classify(x.X, d+1, seen)
		case *ssa.Alloc:
			res := ""
			// array backing a literal / local variable: classify what is stored (into it or its elements)
			if x.Referrers() != nil {
				for _, u := range *x.Referrers() {
					switch y := u.(type) {
					case *ssa.Store:
						if y.Addr == ssa.Value(x) {
							res = merge(res, classify(y.Val, d+1, seen))
						}
					case *ssa.IndexAddr:
						for _, st := range storesTo(y) {
							res = merge(res, classify(st.Val, d+1, seen))
						}
					case *ssa.FieldAddr:
					}
				}
			}
			if res == "" {
				return "unknown"
			}
			return res
		case *ssa.MakeSlice:
			res := ""
			if x.Referrers() != nil {
				for _, u := range *x.Referrers() {
					if ia, ok := u.(*ssa.IndexAddr); ok {
						for _, st := range storesTo(ia) {
							res = merge(res, classify(st.Val, d+1, seen))
						}
					}
					if st, ok := u.(*ssa.Store); ok && st.Val == ssa.Value(x) {
						// stored into a table: elements assigned through the table are not followed
						_ = st
					}
				}
			}
			if res == "" {
				return "unknown"
			}
			return res
		case *ssa.Phi:
			res := ""
			for _, e := range x.Edges {
				res = merge(res, classify(e, d+1, seen))
			}
			return res
		case *ssa.Parameter, *ssa.FreeVar:
			return "unknown"
		}
		return "unknown"
	}
	ctor := p.Func(processPkg, "NewProcess")
	n := 0
	for _, fn := range p.SrcFuncs {
		if fn.Pkg == nil || fn.Pkg.Pkg.Path() != processPkg || fn.Blocks == nil {
			continue
		}
		root := fn
		for root.Parent() != nil {
			root = root.Parent()
		}
		if !(rootMethod(fn).Name() == "Transition" || rootMethod(fn).Name() == "TransitionNP" || p.countsDeathOrSpawns(root) || (root.Pkg != nil && fnMentionsProcess(root))) {
			continue
		}
		if recv := root.Signature.Recv(); recv != nil && isNamed(recv.Type(), processPkg, "Monitor") {
			continue
		}
		ord := 0
		judge := func(v ssa.Value, what string, pos string) {
			n++
			ord++
			construct := fmt.Sprintf("%s#%d", what, ord)
			if sl, ok := v.(*ssa.Slice); ok && (sl.Low != nil || sl.High != nil) {
				if _, isArr := sl.X.(*ssa.Alloc); !isArr {
					r.add(fnName(fn), construct, Violated, pos, fmt.Sprintf("only a part (%s[…:…]) of the channels created for this step is provided by the process: the channels left out have a client but no provider", displayKey(sl.X)))
					return
				}
			}
			switch classify(v, 0, map[ssa.Value]bool{}) {
			case "static":
				r.add(fnName(fn), construct, Violated, pos, "a provider of the process is a name taken from a form (an identifier without a channel): nothing can ever be sent to or received from the process under that name")
			case "live":
				r.add(fnName(fn), construct, Holds, pos, "run-time channels")
			default:
				r.add(fnName(fn), construct, Holds, pos, "origin not classified (parameter or table); not a name stored in a form")
			}
		}
		for _, c := range p.callsIn(fn) {
			if c.Common().StaticCallee() == ctor && ctor != nil && len(c.Common().Args) >= 2 {
				judge(c.Common().Args[1], "spawn-providers", p.instrPos(c))
			}
		}
		for _, b := range fn.Blocks {
			for _, in := range b.Instrs {
				if st, ok := in.(*ssa.Store); ok {
					if fa, ok := st.Addr.(*ssa.FieldAddr); ok {
						if _, fname, _ := fieldNameOf(fa); fname == "Providers" && isNamed(derefT(fa.X.Type()), processPkg, "Process") {
							judge(st.Val, "providers-replaced", p.instrPos(st))
						}
					}
				}
			}
		}
	}
	r.count("provider lists judged", n)
}

func derefT(t types.Type) types.Type {
	if pt, ok := t.Underlying().(*types.Pointer); ok {
		return pt.Elem()
	}
	return t
}

func fnMentionsProcess(fn *ssa.Function) bool {
	for _, prm := range fn.Params {
		if isNamed(derefT(prm.Type()), processPkg, "Process") {
			return true
		}
	}
	return false
}
