package main

import (
	"fmt"
	"go/constant"
	"go/token"
	"go/types"
	"sort"
	"strings"

	"golang.org/x/tools/go/ssa"
)

// R-READ-DELIVERS (C12): the scanner's rune reader hands on every rune it takes from the
// underlying reader.
// R-LOOKAHEAD-KEPT (C12, C15): a rune taken by a scan function is accounted for before the
// function gives up control of it.

func init() {
	register(&Rule{Name: "R-READ-DELIVERS", Min: 3,
		Doc: "the wrapper of bufio.Reader.ReadRune reads one rune per call (no consuming call of the reader is reachable from another within it), every return of the wrapper off the error path yields the rune read by that call (or one kept in the scanner's own fields), and no other hand-written function of the parser package calls a consuming method of bufio.Reader: a rune taken and not handed on never reaches the tokeniser",
		Run: runReadDelivers})
	register(&Rule{Name: "R-LOOKAHEAD-KEPT", Min: 6,
		Doc: "for every call of the rune reader in a hand-written function of the parser package, on every path from the call: the rune is put back (un-read wrapper), or matched exactly (an equality test with a constant or with the end-of-input sentinel holds), or handed on (stored, converted to text, passed to a function that is not a pure character classifier, returned), or - having been classified - left to a skipping function, before the path returns or, in a token-producing function, reads again without a classification of the rune being known true (skipping a character class in place); a return of a token that is no terminal of the grammar (the error token) is exempt. A skipping function that reads on without such a classification (it drops whatever comes, as inside a comment) must be called only where an exact match of an opening character holds",
		Run: runLookaheadKept})
}

func findUnreadWrapper(p *Program) *ssa.Function {
	var unread *ssa.Function
	for _, fn := range p.SrcFuncs {
		if fn.Pkg == nil || fn.Pkg.Pkg.Path() != parserPkg {
			continue
		}
		for _, c := range p.callsIn(fn) {
			if sc := c.Common().StaticCallee(); sc != nil && sc.String() == "(*bufio.Reader).UnreadRune" {
				unread = fn
			}
		}
	}
	return unread
}

// bufio.Reader methods that do not consume input.
var bufioNonConsuming = map[string]bool{"Peek": true, "Buffered": true, "Size": true, "UnreadRune": true, "UnreadByte": true, "Reset": true}

func isBufioReaderMethod(sc *ssa.Function) bool {
	if sc == nil || sc.Signature.Recv() == nil || sc.Pkg == nil || sc.Pkg.Pkg.Path() != "bufio" {
		return false
	}
	return strings.Contains(sc.Signature.Recv().Type().String(), "bufio.Reader")
}

func runReadDelivers(p *Program, r *RuleResult) {
	ri := findScannerReader(p)
	rd := ri.Read
	view := p.View(rd)
	r.note("rune reader: %s", fnName(rd))
	// consuming calls inside the wrapper
	var reads []*ssa.Call
	for _, b := range view.Blocks() {
		for _, in := range view.Instrs(b) {
			if c, ok := in.(*ssa.Call); ok {
				if sc := c.Common().StaticCallee(); isBufioReaderMethod(sc) && !bufioNonConsuming[sc.Name()] {
					reads = append(reads, c)
				}
			}
		}
	}
	isRead := func(in ssa.Instruction) bool {
		for _, c := range reads {
			if ssa.Instruction(c) == in {
				return true
			}
		}
		return false
	}
	for i, c := range reads {
		construct := fmt.Sprintf("one-rune-per-call#%d", i+1)
		if again := view.mayReachFrom(c, nil, isRead, nil); len(again) > 0 {
			r.add(fnName(rd), construct, Violated, p.instrPos(c),
				fmt.Sprintf("after this read the wrapper can read again (%s) before it returns: the rune read first is dropped and never reaches the tokeniser", p.instrPos(again[0])))
		} else {
			r.add(fnName(rd), construct, Holds, p.instrPos(c), "no further consuming call of the reader is reachable from it within the wrapper")
		}
	}
	// returns off the error path yield the rune of a read
	fromRead := func(v ssa.Value) bool {
		seen := map[ssa.Value]bool{}
		var ok func(v ssa.Value) bool
		ok = func(v ssa.Value) bool {
			if seen[v] {
				return true
			}
			seen[v] = true
			switch x := v.(type) {
			case *ssa.Extract:
				c, isC := x.Tuple.(*ssa.Call)
				return isC && x.Index == 0 && isRead(c)
			case *ssa.Phi:
				for _, e := range x.Edges {
					if !ok(e) && !ri.isSentinel(e) {
						return false
					}
				}
				return true
			case *ssa.UnOp:
				// a rune kept in the scanner's own state (a one-rune buffer filled by an
				// earlier read) is handed on, not lost
				if fa, isF := x.X.(*ssa.FieldAddr); isF && x.Op == token.MUL {
					_ = fa
					return true
				}
			}
			return false
		}
		return ok(v)
	}
	nRet := 0
	for _, b := range view.Blocks() {
		ins := view.Instrs(b)
		ret, ok := ins[len(ins)-1].(*ssa.Return)
		if !ok || len(ret.Results) != 1 {
			continue
		}
		if ri.isSentinel(ret.Results[0]) {
			continue
		}
		nRet++
		construct := fmt.Sprintf("returns-the-rune-read#%d", nRet)
		if fromRead(ret.Results[0]) {
			r.add(fnName(rd), construct, Holds, p.instrPos(ret), "the value returned is the rune of the read")
		} else {
			r.add(fnName(rd), construct, Violated, p.instrPos(ret),
				fmt.Sprintf("the wrapper returns %s, which is not the rune it took from the reader: the character read is replaced or lost", displayKey(ret.Results[0])))
		}
	}
	// nobody else consumes from a bufio.Reader in the parser package
	nOther := 0
	for _, fn := range p.SrcFuncs {
		if fn.Pkg == nil || fn.Pkg.Pkg.Path() != parserPkg || fn == rd || p.inGeneratedFile(fn) {
			continue
		}
		for _, c := range p.callsIn(fn) {
			sc := c.Common().StaticCallee()
			if !isBufioReaderMethod(sc) || bufioNonConsuming[sc.Name()] {
				continue
			}
			nOther++
			r.add(fnName(fn), "consumes-outside-the-reader:"+sc.Name(), Violated, p.instrPos(c),
				fmt.Sprintf("%s takes input from the buffered reader outside %s: what it takes is not counted in the position and never reaches the tokeniser", sc.Name(), fnName(rd)))
		}
	}
	if nOther == 0 {
		r.add(parserPkg, "sole-consumer", Holds, "", fmt.Sprintf("%s is the only hand-written function of the package that calls a consuming method of bufio.Reader", fnName(rd)))
	}
	r.count("consuming calls in the reader", len(reads))
	r.count("non-sentinel returns of the reader", nRet)
}

// grammarTokenValues: values of the integer constants declared in the generated parser file.
func grammarTokenValues(p *Program) map[int64]bool {
	out := map[int64]bool{}
	var sc *types.Scope
	for _, pk := range p.Pkgs {
		if pk.PkgPath == parserPkg {
			sc = pk.Types.Scope()
		}
	}
	if sc == nil {
		return out
	}
	for _, n := range sc.Names() {
		c, ok := sc.Lookup(n).(*types.Const)
		if !ok || !c.Pos().IsValid() {
			continue
		}
		f := p.Fset.File(c.Pos())
		if f == nil || !strings.HasSuffix(f.Name(), ".y.go") {
			continue
		}
		if b, ok := c.Type().Underlying().(*types.Basic); ok && b.Info()&types.IsInteger != 0 {
			if v, ok := constantInt64(c.Val()); ok {
				out[v] = true
			}
		}
	}
	return out
}

func runLookaheadKept(p *Program, r *RuleResult) {
	ri := findScannerReader(p)
	unread := findUnreadWrapper(p)
	if unread == nil {
		anchorFail("the scanner's un-read wrapper (caller of bufio.Reader.UnreadRune)")
	}
	tokT := p.Named(parserPkg, "tok")
	gramToks := grammarTokenValues(p)
	if len(gramToks) < 10 {
		anchorFail("the token constants of the generated parser")
	}
	r.note("read wrapper %s, un-read wrapper %s, %d token constants in the generated file", fnName(ri.Read), fnName(unread), len(gramToks))
	// functions of the package that (transitively) read
	readsInput := map[*ssa.Function]bool{ri.Read: true}
	for changed := true; changed; {
		changed = false
		for _, fn := range p.SrcFuncs {
			if fn.Pkg == nil || fn.Pkg.Pkg.Path() != parserPkg || readsInput[fn] || p.inGeneratedFile(fn) {
				continue
			}
			for _, c := range p.callsIn(fn) {
				if sc := c.Common().StaticCallee(); sc != nil && readsInput[sc] {
					readsInput[fn] = true
					changed = true
					break
				}
			}
		}
	}
	producesToken := func(fn *ssa.Function) bool {
		res := fn.Signature.Results()
		return res.Len() > 0 && tokT != nil && types.Identical(res.At(0).Type(), tokT)
	}
	isClassifier := func(sc *ssa.Function) bool {
		if sc == nil {
			return false
		}
		res := sc.Signature.Results()
		if res.Len() != 1 {
			return false
		}
		if b, ok := res.At(0).Type().Underlying().(*types.Basic); !ok || b.Kind() != types.Bool {
			return false
		}
		if sc.Pkg != nil && sc.Pkg.Pkg.Path() == parserPkg {
			return !readsInput[sc]
		}
		return sc.Pkg != nil && (sc.Pkg.Pkg.Path() == "unicode" || sc.Pkg.Pkg.Path() == "strings")
	}
	var fns []*ssa.Function
	for fn := range readsInput {
		if fn != ri.Read {
			fns = append(fns, fn)
		}
	}
	sort.Slice(fns, func(i, j int) bool { return fnName(fns[i]) < fnName(fns[j]) })
	nReads := 0
	unconditionalDrop := map[*ssa.Function]string{}
	for _, fn := range fns {
		view := p.View(fn)
		tokenFn := producesToken(fn)
		var rds []*ssa.Call
		for _, b := range view.Blocks() {
			for _, in := range view.Instrs(b) {
				if c, ok := in.(*ssa.Call); ok && c.Common().StaticCallee() == ri.Read {
					rds = append(rds, c)
				}
			}
		}
		for i, rd := range rds {
			nReads++
			construct := fmt.Sprintf("read#%d", i+1)
			// values that carry the rune
			derived := map[ssa.Value]bool{rd: true}
			for changed := true; changed; {
				changed = false
				for d := range derived {
					refs := d.Referrers()
					if refs == nil {
						continue
					}
					for _, u := range *refs {
						var nv ssa.Value
						switch x := u.(type) {
						case *ssa.Phi:
							nv = x
						case *ssa.ChangeType:
							nv = x
						case *ssa.Convert:
							if b, ok := x.Type().Underlying().(*types.Basic); ok && b.Info()&types.IsInteger != 0 {
								nv = x
							}
						case *ssa.BinOp:
							switch x.Op {
							case token.ADD, token.SUB, token.AND, token.OR, token.XOR, token.SHL, token.SHR, token.AND_NOT, token.MUL, token.QUO, token.REM:
								nv = x
							}
						}
						if nv != nil && !derived[nv] {
							derived[nv] = true
							changed = true
						}
					}
				}
			}
			// positive classifications of the rune
			var classified []ssa.Value
			for d := range derived {
				if refs := d.Referrers(); refs != nil {
					for _, u := range *refs {
						if c, ok := u.(*ssa.Call); ok && isClassifier(c.Common().StaticCallee()) {
							classified = append(classified, c)
						}
					}
				}
			}
			usesDerived := func(in ssa.Instruction) bool {
				for _, op := range in.Operands(nil) {
					if *op != nil && derived[*op] {
						return true
					}
				}
				return false
			}
			// disposes: does this instruction account for the rune?
			disposes := func(in ssa.Instruction) bool {
				switch x := in.(type) {
				case *ssa.DebugRef, *ssa.Phi, *ssa.If, *ssa.ChangeType:
					return false
				case *ssa.BinOp:
					return false // comparisons classify; arithmetic is carried in `derived`
				case *ssa.IndexAddr, *ssa.Index, *ssa.Lookup:
					return false // a table looked up by the character classifies it
				case *ssa.Convert:
					if !usesDerived(in) {
						return false
					}
					b, ok := x.Type().Underlying().(*types.Basic)
					return ok && b.Info()&types.IsString != 0
				case ssa.CallInstruction:
					sc := x.Common().StaticCallee()
					if sc == unread {
						return true
					}
					if usesDerived(in) {
						return !isClassifier(sc)
					}
					// a skipping function takes over once the rune has been classified
					if sc != nil && readsInput[sc] && sc != ri.Read && !producesToken(sc) {
						for _, c := range classified {
							if view.holdsAt(in.Block(), c, factTrue) {
								return true
							}
						}
					}
					return false
				}
				return usesDerived(in)
			}
			exactOnEdge := func(b *ssa.BasicBlock, succIdx int) bool {
				ins := view.Instrs(b)
				iff, ok := ins[len(ins)-1].(*ssa.If)
				if !ok || len(b.Succs) != 2 || b.Succs[0] == b.Succs[1] {
					return false
				}
				cond, want := iff.Cond, succIdx == 0
				for {
					if u, ok := cond.(*ssa.UnOp); ok && u.Op == token.NOT {
						cond, want = u.X, !want
						continue
					}
					break
				}
				bo, ok := cond.(*ssa.BinOp)
				if !ok || (bo.Op != token.EQL && bo.Op != token.NEQ) {
					return false
				}
				if (bo.Op == token.EQL) != want {
					return false
				}
				isK := func(v ssa.Value) bool {
					if c, ok := v.(*ssa.Const); ok && c.Value != nil {
						return true
					}
					return ri.isSentinel(v)
				}
				return (derived[bo.X] && isK(bo.Y)) || (derived[bo.Y] && isK(bo.X))
			}
			type bad struct {
				pos, why string
			}
			var bads []bad
			isClassifiedAt := func(b *ssa.BasicBlock) bool {
				for _, cl := range classified {
					if view.holdsAt(b, cl, factTrue) {
						return true
					}
				}
				return false
			}
			// seen: 1 = entered with the rune known classified on the entering edge, 2 = entered
			// without (the weaker state; a block is walked again when it is reached that way)
			seen := map[*ssa.BasicBlock]int{}
			var scan func(b *ssa.BasicBlock, start int, entryClassified bool)
			scan = func(b *ssa.BasicBlock, start int, entryClassified bool) {
				ins := view.Instrs(b)
				for k := start; k < len(ins); k++ {
					if disposes(ins[k]) {
						return
					}
					if c, ok := ins[k].(*ssa.Call); ok && c.Common().StaticCallee() == ri.Read && !tokenFn {
						// a skipping function reads on: the rune is dropped. Either it was
						// classified (a run of one character class is skipped), or the function
						// drops whatever comes: then it must be a delimited skipper (below)
						if !isClassifiedAt(b) && !entryClassified {
							if _, seen := unconditionalDrop[fn]; !seen {
								unconditionalDrop[fn] = p.instrPos(c)
							}
						}
						return
					}
					if c, ok := ins[k].(*ssa.Call); ok && c.Common().StaticCallee() == ri.Read && tokenFn {
						// skipping a class of characters in place: the rune was classified and
						// the function reads on (`for isWhitespace(ch) { ch = s.read() }`)
						if isClassifiedAt(b) || entryClassified {
							return
						}
						bads = append(bads, bad{p.instrPos(c), "the function reads again at " + p.instrPos(c) + " with the rune neither put back, matched, nor handed on"})
						return
					}
					if ret, ok := ins[k].(*ssa.Return); ok {
						if tokenFn && len(ret.Results) > 0 {
							if c := returnedConst(view, ret, 0); c != nil && c.Value != nil {
								if v, ok := constantInt64(c.Value); ok && !gramToks[v] {
									return // the error token: the text is rejected
								}
							}
						}
						bads = append(bads, bad{p.instrPos(ret), "the function returns at " + p.instrPos(ret) + " with the rune neither put back, matched, nor handed on"})
						return
					}
				}
				for si, s := range b.Succs {
					live := false
					for _, vs := range view.Succs(b) {
						if vs == s {
							live = true
						}
					}
					if !live || exactOnEdge(b, si) {
						continue
					}
					// facts of the edge itself: a loop header loses them in the meet with
					// its entry edge, but the rune dropped on the back edge was classified
					ef := view.edgeFacts(view.FactsAt(b), b, si)
					cls := entryClassified || isClassifiedAt(b)
					for _, cl := range classified {
						if ef[fact{cl, factTrue}] {
							cls = true
						}
					}
					state := 2
					if cls {
						state = 1
					}
					if seen[s] >= state {
						continue
					}
					seen[s] = state
					scan(s, 0, cls)
				}
			}
			scan(rd.Block(), indexIn(rd.Block(), rd)+1, false)
			if len(bads) == 0 {
				r.add(fnName(fn), construct, Holds, p.instrPos(rd), "on every path the rune is put back, matched exactly, handed on, or left to a skipping function after being classified")
			} else {
				sort.Slice(bads, func(i, j int) bool { return bads[i].pos < bads[j].pos })
				r.add(fnName(fn), construct, Violated, p.instrPos(rd),
					fmt.Sprintf("the rune read here is dropped on a path: %s; the character is consumed from the input and belongs to no token", bads[0].why))
			}
		}
	}
	// skipping functions that drop runes without classifying them (comment bodies) may only
	// be entered once an opener has been matched exactly
	for _, fn := range fns {
		at, ok := unconditionalDrop[fn]
		if !ok {
			continue
		}
		bad := ""
		nCalls := 0
		for _, caller := range p.SrcFuncs {
			if caller.Blocks == nil {
				continue
			}
			cv := p.View(caller)
			for _, c := range p.callsTo(caller, fn) {
				if !cv.Live(c) {
					continue
				}
				nCalls++
				matched := false
				for f := range cv.FactsAt(c.Block()) {
					bo, ok := f.v.(*ssa.BinOp)
					if !ok || !((bo.Op == token.EQL && f.k == factTrue) || (bo.Op == token.NEQ && f.k == factFalse)) {
						continue
					}
					x, k := bo.X, bo.Y
					if _, isC := x.(*ssa.Const); isC {
						x, k = k, x
					}
					kc, isC := k.(*ssa.Const)
					if !isC || kc.Value == nil || !isRuneKind(x.Type()) || ri.isSentinel(k) {
						continue
					}
					matched = true
				}
				if !matched && bad == "" {
					bad = fmt.Sprintf("%s drops runes it has not classified (it reads on at %s without a character-class test of the rune being known true), and its call at %s is not under an exact match of an opening character: whatever follows is consumed from the input and belongs to no token", fnName(fn), at, p.instrPos(c))
				}
			}
		}
		if bad != "" {
			r.add(fnName(fn), "skips-only-what-it-classified-or-what-an-opener-delimits", Violated, at, bad)
		} else {
			r.add(fnName(fn), "skips-only-what-it-classified-or-what-an-opener-delimits", Holds, at, fmt.Sprintf("drops unclassified runes, and each of its %d call sites lies under an exact match of an opening character", nCalls))
		}
	}
	r.count("reads judged", nReads)
}

func constantInt64(v constant.Value) (int64, bool) {
	if v == nil || v.Kind() != constant.Int {
		return 0, false
	}
	return constant.Int64Val(v)
}

// returnedConst: the constant a return yields as result i, also when the function has named
// results spilled to cells (a deferred closure reads them): the last store to the cell on the
// straight-line code that leads to the return.
func returnedConst(view *View, ret *ssa.Return, i int) *ssa.Const {
	switch x := ret.Results[i].(type) {
	case *ssa.Const:
		return x
	case *ssa.UnOp:
		al, ok := x.X.(*ssa.Alloc)
		if !ok || x.Op != token.MUL {
			return nil
		}
		b := ret.Block()
		for steps := 0; steps < 4; steps++ {
			ins := view.Instrs(b)
			for k := len(ins) - 1; k >= 0; k-- {
				if st, ok := ins[k].(*ssa.Store); ok && st.Addr == ssa.Value(al) {
					c, _ := st.Val.(*ssa.Const)
					return c
				}
			}
			if len(b.Preds) != 1 {
				return nil
			}
			b = b.Preds[0]
		}
	}
	return nil
}
