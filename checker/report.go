package main

import (
	"encoding/json"
	"fmt"
	"os"
	"path/filepath"
	"sort"
	"strings"
)

// ---- known findings (committed file, never written at run time) ----

type KnownFinding struct {
	Property  string `json:"property"`
	Rule      string `json:"rule"`
	Function  string `json:"function"`
	Construct string `json:"construct"`
	What      string `json:"what"`
	Input     string `json:"input,omitempty"`
}

type KnownFindingsFile struct {
	Comment  string         `json:"comment"`
	Findings []KnownFinding `json:"findings"`
	Fixed    []string       `json:"fixed"`
}

func loadKnownFindings(path string) (*KnownFindingsFile, error) {
	data, err := os.ReadFile(path)
	if err != nil {
		if os.IsNotExist(err) {
			return &KnownFindingsFile{}, nil
		}
		return nil, err
	}
	var k KnownFindingsFile
	if err := json.Unmarshal(data, &k); err != nil {
		return nil, fmt.Errorf("%s: %v", path, err)
	}
	return &k, nil
}

func (k *KnownFindingsFile) match(prop string, o *Obligation) *KnownFinding {
	for i := range k.Findings {
		f := &k.Findings[i]
		if f.Property == prop && f.Rule == o.Rule && f.Function == o.Function && f.Construct == o.Construct {
			return f
		}
	}
	return nil
}

// ---- evidence ----

type Evidence struct {
	PropertyID  string                 `json:"property_id"`
	Tier        string                 `json:"tier"`
	Seed        int                    `json:"seed"`
	Level       string                 `json:"level"`
	Coverage    map[string]interface{} `json:"coverage"`
	Assumptions []string               `json:"assumptions"`
	WallS       float64                `json:"wall_s"`
	Violations  int                    `json:"violations"`
}

type ruleSummary struct {
	Rule        string         `json:"rule"`
	Doc         string         `json:"doc"`
	Obligations int            `json:"obligations"`
	Holds       int            `json:"holds"`
	Violated    int            `json:"violated"`
	Undecided   int            `json:"undecided"`
	Known       int            `json:"known_findings"`
	MinRequired int            `json:"min_required"`
	Analysed    map[string]int `json:"analysed,omitempty"`
	Notes       []string       `json:"notes,omitempty"`
}

func writeJSON(path string, v interface{}) error {
	if err := os.MkdirAll(filepath.Dir(path), 0o755); err != nil {
		return err
	}
	data, err := json.MarshalIndent(v, "", " ")
	if err != nil {
		return err
	}
	tmp := path + ".tmp"
	if err := os.WriteFile(tmp, append(data, '\n'), 0o644); err != nil {
		return err
	}
	return os.Rename(tmp, path)
}

// violation replay file
type ViolationFile struct {
	Property   string     `json:"property"`
	Tier       string     `json:"tier"`
	Config     string     `json:"config"`
	Obligation Obligation `json:"obligation"`
	Replay     string     `json:"replay"`
}

func cleanViolations(dir, prop string) {
	ms, _ := filepath.Glob(filepath.Join(dir, prop+"-*.json"))
	for _, m := range ms {
		os.Remove(m)
	}
}

func sortObligations(os []Obligation) {
	sort.SliceStable(os, func(i, j int) bool { return os[i].Key() < os[j].Key() })
}

func oneLine(s string) string {
	return strings.Join(strings.Fields(s), " ")
}
