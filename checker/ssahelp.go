package main

import (
	"go/types"
	"sort"
	"strings"

	"golang.org/x/tools/go/ssa"
)

// ---- cell promotion / value origins -------------------------------------------------
//
// go/ssa spills every variable captured by a closure (and every address-taken local)
// into a heap cell: `t0 = new T (x); *t0 = x; make closure f [t0]` and inside the
// closure `t1 = *x`. origin() looks through such cells when the cell has exactly one
// store, so rules can identify "the same value" across a closure boundary.

// closureSites returns the MakeClosure instructions creating fn (in its parent).
func closureSites(fn *ssa.Function) []*ssa.MakeClosure {
	par := fn.Parent()
	if par == nil {
		return nil
	}
	var out []*ssa.MakeClosure
	for _, b := range par.Blocks {
		for _, in := range b.Instrs {
			if mc, ok := in.(*ssa.MakeClosure); ok && mc.Fn == fn {
				out = append(out, mc)
			}
		}
	}
	return out
}

// storesTo returns all Store instructions (in the function owning the alloc and in its
// closures) whose address is exactly addr.
func storesTo(addr ssa.Value) []*ssa.Store {
	var out []*ssa.Store
	refs := addr.Referrers()
	if refs == nil {
		return nil
	}
	for _, r := range *refs {
		if st, ok := r.(*ssa.Store); ok && st.Addr == addr {
			out = append(out, st)
		}
	}
	return out
}

// cellEscapesToWriters reports whether the cell is captured by a closure that stores to it.
func cellWrittenInClosures(cell *ssa.Alloc) bool {
	refs := cell.Referrers()
	if refs == nil {
		return false
	}
	for _, r := range *refs {
		mc, ok := r.(*ssa.MakeClosure)
		if !ok {
			continue
		}
		fn := mc.Fn.(*ssa.Function)
		for i, b := range mc.Bindings {
			if b != cell {
				continue
			}
			fv := fn.FreeVars[i]
			if fr := fv.Referrers(); fr != nil {
				for _, u := range *fr {
					if st, ok := u.(*ssa.Store); ok && st.Addr == fv {
						return true
					}
					if _, ok := u.(*ssa.MakeClosure); ok {
						return true // passed on to a nested closure: give up
					}
				}
			}
		}
	}
	return false
}

// origin strips loads of single-store cells, free-variable indirections and trivial
// conversions. It returns v itself when nothing can be stripped.
func origin(v ssa.Value) ssa.Value {
	for i := 0; i < 20; i++ {
		switch x := v.(type) {
		case *ssa.ChangeType:
			v = x.X
			continue
		case *ssa.UnOp:
			if x.Op.String() != "*" {
				return v
			}
			switch a := x.X.(type) {
			case *ssa.Alloc:
				sts := storesTo(a)
				if len(sts) == 1 && !cellWrittenInClosures(a) {
					v = sts[0].Val
					continue
				}
				return v
			case *ssa.FreeVar:
				cell := freeVarBinding(a)
				if al, ok := cell.(*ssa.Alloc); ok {
					sts := storesTo(al)
					if len(sts) == 1 && !cellWrittenInClosures(al) {
						v = sts[0].Val
						continue
					}
				}
				return v
			}
			return v
		}
		return v
	}
	return v
}

// freeVarBinding returns the value bound to the free variable at the (unique) closure
// creation site, or nil.
func freeVarBinding(fv *ssa.FreeVar) ssa.Value {
	fn := fv.Parent()
	idx := -1
	for i, f := range fn.FreeVars {
		if f == fv {
			idx = i
		}
	}
	if idx < 0 {
		return nil
	}
	sites := closureSites(fn)
	if len(sites) != 1 {
		return nil
	}
	return sites[0].Bindings[idx]
}

// ---- calls --------------------------------------------------------------------------

func staticCallee(in ssa.Instruction) *ssa.Function {
	if c, ok := in.(ssa.CallInstruction); ok {
		return c.Common().StaticCallee()
	}
	return nil
}

// callsIn returns every call instruction (call, go, defer) in fn's reachable view, in order.
func (p *Program) callsIn(fn *ssa.Function) []ssa.CallInstruction {
	v := p.View(fn)
	var out []ssa.CallInstruction
	for _, b := range v.Blocks() {
		for _, in := range v.Instrs(b) {
			if c, ok := in.(ssa.CallInstruction); ok {
				out = append(out, c)
			}
		}
	}
	return out
}

// callsTo returns the call instructions in fn whose static callee is target.
func (p *Program) callsTo(fn, target *ssa.Function) []ssa.CallInstruction {
	var out []ssa.CallInstruction
	for _, c := range p.callsIn(fn) {
		if c.Common().StaticCallee() == target {
			out = append(out, c)
		}
	}
	return out
}

// invokesOf returns calls in fn that invoke interface method `name` (any interface) or
// statically call a method of that name.
func (p *Program) methodCallsNamed(fn *ssa.Function, name string) []ssa.CallInstruction {
	var out []ssa.CallInstruction
	for _, c := range p.callsIn(fn) {
		com := c.Common()
		if com.IsInvoke() {
			if com.Method.Name() == name {
				out = append(out, c)
			}
		} else if sc := com.StaticCallee(); sc != nil && sc.Name() == name && sc.Signature.Recv() != nil {
			out = append(out, c)
		}
	}
	return out
}

// isErrorType reports whether t is the predeclared error interface.
func isErrorType(t types.Type) bool {
	return types.Identical(t, types.Universe.Lookup("error").Type())
}

func namedOf(t types.Type) *types.Named {
	if pt, ok := t.(*types.Pointer); ok {
		t = pt.Elem()
	}
	n, _ := t.(*types.Named)
	return n
}

func isNamed(t types.Type, pkg, name string) bool {
	n := namedOf(t)
	return n != nil && n.Obj().Pkg() != nil && n.Obj().Pkg().Path() == pkg && n.Obj().Name() == name
}

// fieldName returns the struct field name selected by a FieldAddr/Field instruction.
func fieldNameOf(v ssa.Value) (recv ssa.Value, name string, ok bool) {
	switch x := v.(type) {
	case *ssa.FieldAddr:
		st := x.X.Type().Underlying().(*types.Pointer).Elem().Underlying().(*types.Struct)
		return x.X, st.Field(x.Field).Name(), true
	case *ssa.Field:
		st := x.X.Type().Underlying().(*types.Struct)
		return x.X, st.Field(x.Field).Name(), true
	}
	return nil, "", false
}

// accessPath renders a value as a field path from a parameter/receiver, e.g. "p.payload_c.Type".
// Returns "" when the value is not a pure field path.
func accessPath(v ssa.Value) string {
	switch x := v.(type) {
	case *ssa.Parameter:
		return x.Name()
	case *ssa.FreeVar:
		return x.Name()
	case *ssa.FieldAddr:
		base := accessPath(x.X)
		if base == "" {
			return ""
		}
		_, n, _ := fieldNameOf(x)
		return base + "." + n
	case *ssa.Field:
		base := accessPath(x.X)
		if base == "" {
			return ""
		}
		_, n, _ := fieldNameOf(x)
		return base + "." + n
	case *ssa.UnOp:
		if x.Op.String() == "*" {
			o := origin(x)
			if o != ssa.Value(x) {
				return accessPath(o)
			}
			return accessPath(x.X)
		}
	case *ssa.IndexAddr:
		base := accessPath(x.X)
		if base == "" {
			return ""
		}
		return base + "[]"
	case *ssa.Alloc:
		// a local holding a copy of something: single store
		sts := storesTo(x)
		if len(sts) == 1 {
			return accessPath(sts[0].Val)
		}
	case *ssa.Extract:
		if c, ok := x.Tuple.(*ssa.Call); ok && x.Index == 0 {
			return selectedPath(c)
		}
	case *ssa.Call:
		return selectedPath(x)
	}
	return ""
}

// selectedPath: the call is to a small selector (`findBranch(label) (*Branch, bool)`) whose
// first result is, on every return, nil or an element reached from one of its parameters
// (`f.branches[i]`): the result then has the access path of that element, rooted at the
// argument passed for the parameter.
func selectedPath(c *ssa.Call) string {
	h := c.Common().StaticCallee()
	if h == nil || len(h.Blocks) == 0 || len(h.Blocks) > 8 || c.Common().IsInvoke() {
		return ""
	}
	path := ""
	for _, b := range h.Blocks {
		for _, in := range b.Instrs {
			ret, ok := in.(*ssa.Return)
			if !ok || len(ret.Results) == 0 {
				continue
			}
			rv := ret.Results[0]
			if k, isC := rv.(*ssa.Const); isC && k.IsNil() {
				continue
			}
			if cc, isCall := rv.(*ssa.Call); isCall && cc.Common().StaticCallee() == h {
				return "" // recursive selector: not followed
			}
			ap := accessPath(rv)
			if ap == "" || !strings.Contains(ap, "[]") || (path != "" && ap != path) {
				return ""
			}
			path = ap
		}
	}
	if path == "" {
		return ""
	}
	root := path
	if i := strings.IndexAny(path, ".["); i >= 0 {
		root = path[:i]
	}
	for i, prm := range h.Params {
		if prm.Name() == root && i < len(c.Common().Args) {
			base := accessPath(c.Common().Args[i])
			if base == "" {
				return ""
			}
			return base + path[len(root):]
		}
	}
	return ""
}

func sortedFuncs(m map[*ssa.Function]bool) []*ssa.Function {
	var out []*ssa.Function
	for f := range m {
		out = append(out, f)
	}
	sort.Slice(out, func(i, j int) bool { return out[i].String() < out[j].String() })
	return out
}

// reachableFuncs returns the first-party functions reachable from roots in graph g
// (static callees, go/defer targets and closures created are followed).
func (p *Program) reachableFuncs(roots []*ssa.Function, cha bool) map[*ssa.Function]bool {
	g := p.VTA()
	if cha {
		g = p.CHA()
	}
	seen := map[*ssa.Function]bool{}
	var walk func(fn *ssa.Function)
	walk = func(fn *ssa.Function) {
		if fn == nil || seen[fn] {
			return
		}
		seen[fn] = true
		if fn.Blocks == nil {
			return
		}
		for _, c := range p.callsIn(fn) {
			for _, callee := range p.Callees(g, c) {
				walk(callee)
			}
		}
		// closures created here may be called later by someone else
		for _, an := range fn.AnonFuncs {
			walk(an)
		}
	}
	for _, r := range roots {
		walk(r)
	}
	return seen
}

// assertionWrapper: fn is `func(x I) (*T, bool) { v, ok := x.(*T); return v, ok }` (a comma-ok
// assertion and nothing else). Returns the asserted type.
func (p *Program) assertionWrapper(fn *ssa.Function) (types.Type, bool) {
	if fn == nil || fn.Blocks == nil || len(fn.Blocks) != 1 || len(fn.Params) != 1 || fn.Signature.Results().Len() != 2 || !p.isFirstParty(fn) {
		return nil, false
	}
	var ta *ssa.TypeAssert
	for _, in := range fn.Blocks[0].Instrs {
		switch x := in.(type) {
		case *ssa.TypeAssert:
			if ta != nil || !x.CommaOk || x.X != ssa.Value(fn.Params[0]) {
				return nil, false
			}
			ta = x
		case *ssa.Extract, *ssa.DebugRef:
		case *ssa.Return:
			if ta == nil || len(x.Results) != 2 {
				return nil, false
			}
			e0, ok0 := x.Results[0].(*ssa.Extract)
			e1, ok1 := x.Results[1].(*ssa.Extract)
			if !ok0 || !ok1 || e0.Tuple != ssa.Value(ta) || e1.Tuple != ssa.Value(ta) || e0.Index != 0 || e1.Index != 1 {
				return nil, false
			}
		default:
			return nil, false
		}
	}
	if ta == nil {
		return nil, false
	}
	return ta.AssertedType, true
}

// assertOf: ex is result #idx of a comma-ok assertion of x to T, written directly or through
// an assertion wrapper.
func (p *Program) assertOf(ex *ssa.Extract) (x ssa.Value, T types.Type, ok bool) {
	switch t := ex.Tuple.(type) {
	case *ssa.TypeAssert:
		if t.CommaOk {
			return t.X, t.AssertedType, true
		}
	case *ssa.Call:
		if at, isW := p.assertionWrapper(t.Common().StaticCallee()); isW && len(t.Common().Args) == 1 {
			return t.Common().Args[0], at, true
		}
	}
	return nil, nil, false
}
