package main

import (
	"fmt"
	"go/token"
	"go/types"
	"sort"

	"golang.org/x/tools/go/ssa"
)

// R-ERR-BEFORE-USE (C09): the sibling results of a call that also returns an error are
// not dereferenced before the error has been tested.

func init() {
	register(&Rule{Name: "R-ERR-BEFORE-USE", Min: 25,
		Doc: "for every call to a first-party function returning (..., error): each nil-sensitive use of a sibling result (map update, delete, pointer dereference, interface method call; also through Unfold) is dominated by the nil edge of the error result or by a non-nil test of the value itself",
		Run: runErrBeforeUse})
}

func runErrBeforeUse(p *Program, r *RuleResult) {
	ua := newUnfoldAnalysis(p)
	ord := map[string]int{}
	nCalls, nUses := 0, 0
	for _, fn := range p.SrcFuncs {
		view := p.View(fn)
		for _, ci := range p.callsIn(fn) {
			call, ok := ci.(*ssa.Call)
			if !ok {
				continue
			}
			sc := call.Common().StaticCallee()
			if sc == nil || !p.isFirstParty(sc) {
				continue
			}
			res := sc.Signature.Results()
			if res.Len() < 2 || !isErrorType(res.At(res.Len()-1).Type()) {
				continue
			}
			nCalls++
			k := fnName(fn) + "|" + sc.Name()
			ord[k]++
			construct := fmt.Sprintf("%s#%d", sc.Name(), ord[k])
			var errV ssa.Value
			var sibs []ssa.Value
			if refs := call.Referrers(); refs != nil {
				for _, u := range *refs {
					if ex, ok := u.(*ssa.Extract); ok {
						if ex.Index == res.Len()-1 {
							errV = ex
						} else {
							sibs = append(sibs, ex)
						}
					}
				}
			}
			if errV == nil {
				// error result discarded: every nil-sensitive use of a sibling is unguarded
				errV = nil
			}
			// derived values: through Unfold-like helpers, phis and interface conversions
			derived := map[ssa.Value]bool{}
			var work []ssa.Value
			for _, s := range sibs {
				derived[s] = true
				work = append(work, s)
			}
			for len(work) > 0 {
				v := work[len(work)-1]
				work = work[:len(work)-1]
				refs := v.Referrers()
				if refs == nil {
					continue
				}
				for _, u := range *refs {
					var nv ssa.Value
					switch x := u.(type) {
					case *ssa.Call:
						if c := x.Common().StaticCallee(); c != nil && ua.unfoldFn[c] && len(x.Common().Args) > 0 && x.Common().Args[0] == v {
							nv = x
						}
					case *ssa.ChangeInterface:
						nv = x
					case *ssa.ChangeType:
						nv = x
					}
					if nv != nil && !derived[nv] {
						derived[nv] = true
						work = append(work, nv)
					}
				}
			}
			bad := ""
			badPos := ""
			for v := range derived {
				refs := v.Referrers()
				if refs == nil {
					continue
				}
				for _, u := range *refs {
					if !view.Live(u) {
						continue
					}
					what := ""
					switch x := u.(type) {
					case *ssa.MapUpdate:
						if x.Map == v {
							what = "map update"
						}
					case *ssa.FieldAddr:
						if x.X == v {
							what = "field access through pointer"
						}
					case *ssa.UnOp:
						if x.Op.String() == "*" && x.X == v {
							what = "pointer dereference"
						}
					case ssa.CallInstruction:
						com := x.Common()
						if com.IsInvoke() && com.Value == v {
							what = "interface method call ." + com.Method.Name()
						} else if bi, ok := com.Value.(*ssa.Builtin); ok && bi.Name() == "delete" && len(com.Args) > 0 && com.Args[0] == v {
							what = "delete"
						}
					}
					if what == "" {
						continue
					}
					nUses++
					b := u.Block()
					guarded := (errV != nil && view.holdsAt(b, errV, factNil)) || view.holdsAt(b, v, factNonNil)
					if !guarded && bad == "" {
						bad = fmt.Sprintf("%s of a result of %s at %s is not dominated by the test of its error result", what, sc.Name(), p.instrPos(u))
						badPos = p.instrPos(u)
					}
				}
			}
			if bad != "" {
				r.add(fnName(fn), construct, Violated, badPos, bad)
			} else {
				r.add(fnName(fn), construct, Holds, p.instrPos(call), "")
			}
		}
	}
	r.count("calls returning (…, error)", nCalls)
	r.count("nil-sensitive uses", nUses)
}

// R-NIL-DEREF (C09, C11, C18): nothing is dereferenced where a dominating test has just
// established that it is nil (the classic slip: using the looked-up object in the message
// of the "not found" error).
func init() {
	register(&Rule{Name: "R-NIL-DEREF", Min: 5,
		Doc: "in every first-party function: no field access, load or slice/array access through a pointer, and no method call on an interface value, at a point where the branch facts say that the value is nil; one obligation per package (the number of dereferences examined) plus one per offending dereference",
		Run: runNilDeref})
}

func runNilDeref(p *Program, r *RuleResult) {
	per := map[string]int{}
	bad := map[string]int{}
	for _, fn := range p.SrcFuncs {
		if fn.Blocks == nil || !p.isFirstParty(fn) {
			continue
		}
		pkg := "?"
		root := fn
		for root.Parent() != nil {
			root = root.Parent()
		}
		if root.Pkg != nil {
			pkg = root.Pkg.Pkg.Path()
		}
		view := p.View(fn)
		ord := 0
		for _, b := range view.Blocks() {
			facts := view.FactsAt(b)
			if len(facts) == 0 {
				for _, in := range view.Instrs(b) {
					switch in.(type) {
					case *ssa.FieldAddr, *ssa.UnOp:
						per[pkg]++
					}
				}
				continue
			}
			isNil := func(v ssa.Value) bool { return facts[fact{v, factNil}] }
			for _, in := range view.Instrs(b) {
				var x ssa.Value
				what := ""
				switch t := in.(type) {
				case *ssa.FieldAddr:
					x, what = t.X, "field access"
				case *ssa.UnOp:
					if t.Op == token.MUL {
						x, what = t.X, "load"
					}
				case *ssa.IndexAddr:
					if _, isPtr := t.X.Type().Underlying().(*types.Pointer); isPtr {
						x, what = t.X, "array access"
					}
				case ssa.CallInstruction:
					if t.Common().IsInvoke() {
						x, what = t.Common().Value, "method call on a nil interface"
					} else if sc := t.Common().StaticCallee(); sc != nil && p.isFirstParty(sc) {
						// a value just found nil handed to a function that uses it right away
						for i, a := range t.Common().Args {
							if isNil(a) && p.derefsParam(sc, i, 0) {
								x, what = a, "call of "+sc.Name()+" (which dereferences that argument unconditionally)"
							}
						}
					}
				}
				if x == nil {
					continue
				}
				per[pkg]++
				if isNil(x) {
					ord++
					bad[pkg]++
					r.add(fnName(fn), fmt.Sprintf("nil-dereference#%d", ord), Violated, p.instrPos(in),
						fmt.Sprintf("%s through %s on the branch where it was just found to be nil: the process dies with a Go panic instead of reporting an error", what, displayKey(x)))
				}
			}
		}
	}
	var pkgs []string
	for k := range per {
		pkgs = append(pkgs, k)
	}
	sort.Strings(pkgs)
	for _, k := range pkgs {
		if bad[k] == 0 {
			r.add(k, "no-dereference-of-known-nil", Holds, "", fmt.Sprintf("%d dereferences examined", per[k]))
		}
	}
}

// derefsParam: fn uses its i-th parameter as a pointer or interface receiver in its entry
// block (so on every call), directly or by handing it to a function that does.
func (p *Program) derefsParam(fn *ssa.Function, i int, depth int) bool {
	if fn == nil || len(fn.Blocks) == 0 || i >= len(fn.Params) || depth > 2 {
		return false
	}
	prm := ssa.Value(fn.Params[i])
	for _, in := range fn.Blocks[0].Instrs {
		switch t := in.(type) {
		case *ssa.FieldAddr:
			if t.X == prm {
				return true
			}
		case *ssa.UnOp:
			if t.Op == token.MUL && t.X == prm {
				return true
			}
		case ssa.CallInstruction:
			com := t.Common()
			if com.IsInvoke() && com.Value == prm {
				return true
			}
			if sc := com.StaticCallee(); sc != nil && p.isFirstParty(sc) {
				for j, a := range com.Args {
					if a == prm && p.derefsParam(sc, j, depth+1) {
						return true
					}
				}
			}
		}
	}
	return false
}
