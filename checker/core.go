package main

import (
	"fmt"
	"go/token"
	"sort"
	"strings"

	"golang.org/x/tools/go/ssa"
)

// Verdict of one obligation. Undecided fails the check exactly like Violated.
type Verdict int

const (
	Holds Verdict = iota
	Violated
	Undecided
)

func (v Verdict) String() string {
	switch v {
	case Holds:
		return "holds"
	case Violated:
		return "violated"
	default:
		return "undecided"
	}
}

// Obligation is one instance of a rule on one construct of the analysed tree.
// It is keyed by Rule+Function+Construct (never by line number).
type Obligation struct {
	Rule      string  `json:"rule"`
	Function  string  `json:"function"`
	Construct string  `json:"construct"`
	Verdict   Verdict `json:"-"`
	VerdictS  string  `json:"verdict"`
	Pos       string  `json:"pos,omitempty"`
	Detail    string  `json:"detail,omitempty"`
}

func (o *Obligation) Key() string { return o.Rule + " | " + o.Function + " | " + o.Construct }

// RuleResult is what a rule returns.
type RuleResult struct {
	Rule        string
	Obligations []Obligation
	// Analysed describes what the rule looked at (functions, call sites, loops ...).
	Analysed map[string]int
	Notes    []string
}

func (r *RuleResult) add(fn, construct string, v Verdict, pos, detail string) {
	r.Obligations = append(r.Obligations, Obligation{Rule: r.Rule, Function: fn, Construct: construct, Verdict: v, VerdictS: v.String(), Pos: pos, Detail: detail})
}

func (r *RuleResult) count(what string, n int) {
	if r.Analysed == nil {
		r.Analysed = map[string]int{}
	}
	r.Analysed[what] += n
}

func (r *RuleResult) note(format string, args ...interface{}) {
	r.Notes = append(r.Notes, fmt.Sprintf(format, args...))
}

// Rule is a named analysis with a minimum number of instances (vacuity guard).
type Rule struct {
	Name string
	Doc  string
	// Min is the minimum number of obligations the rule must produce on any tree;
	// fewer means an anchor has been lost and the rule would pass vacuously.
	Min int
	Run func(p *Program, r *RuleResult)
}

var ruleRegistry = map[string]*Rule{}

func register(r *Rule) {
	if _, dup := ruleRegistry[r.Name]; dup {
		panic("duplicate rule " + r.Name)
	}
	ruleRegistry[r.Name] = r
}

func sortedRuleNames() []string {
	var ns []string
	for n := range ruleRegistry {
		ns = append(ns, n)
	}
	sort.Strings(ns)
	return ns
}

// runRule executes a rule, converting panics of the analysis into an undecided
// obligation (an analysis crash must fail the check, never pass it).
func runRule(p *Program, rule *Rule) (res *RuleResult) {
	res = &RuleResult{Rule: rule.Name}
	defer func() {
		if e := recover(); e != nil {
			res.add("<checker>", "analysis-panic", Undecided, "", fmt.Sprintf("rule %s panicked: %v", rule.Name, e))
		}
		if len(res.Obligations) < rule.Min {
			res.add("<checker>", "minimum-instance-count", Undecided, "",
				fmt.Sprintf("rule %s produced %d obligations, fewer than the %d confirmed by hand: an anchor was lost", rule.Name, len(res.Obligations), rule.Min))
		}
		sort.SliceStable(res.Obligations, func(i, j int) bool { return res.Obligations[i].Key() < res.Obligations[j].Key() })
	}()
	rule.Run(p, res)
	return res
}

// ---- small helpers shared by the rules ----

func (p *Program) pos(pos token.Pos) string {
	if !pos.IsValid() {
		return ""
	}
	ps := p.Fset.Position(pos)
	f := ps.Filename
	if strings.HasPrefix(f, p.RepoDir+"/") {
		f = f[len(p.RepoDir)+1:]
	}
	return fmt.Sprintf("%s:%d", f, ps.Line)
}

// instrPos returns the best position available for an instruction.
func (p *Program) instrPos(in ssa.Instruction) string {
	if in == nil {
		return ""
	}
	if pos := in.Pos(); pos.IsValid() {
		return p.pos(pos)
	}
	// fall back to another instruction of the block, then to the function
	if b := in.Block(); b != nil {
		for _, o := range b.Instrs {
			if o.Pos().IsValid() {
				return p.pos(o.Pos())
			}
		}
		if fn := b.Parent(); fn != nil {
			return p.pos(fn.Pos())
		}
	}
	return ""
}

func fnName(fn *ssa.Function) string {
	if fn == nil {
		return "<nil>"
	}
	s := fn.String()
	s = strings.ReplaceAll(s, "grits/", "")
	return s
}
