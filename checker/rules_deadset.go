package main

import (
	"fmt"
	"go/ast"
	"go/token"
	"go/types"

	"golang.org/x/tools/go/ast/astutil"
	"golang.org/x/tools/go/ssa"
)

// R-DEAD-SET (C10, C07): a local set that guards an error exit must be written.

func init() {
	register(&Rule{Name: "R-DEAD-SET", Min: 8,
		Doc: "every function-local, non-escaping map used as a set (looked up) is also written on a path that reaches the lookup; a set that is only ever looked up makes its guard (duplicate detection) dead",
		Run: runDeadSet})
}

// varNameAt returns the identifier a value created at pos is assigned to (x := make(...)).
func (p *Program) varNameAt(pos token.Pos) string {
	f := p.FileOf(pos)
	if f == nil {
		return ""
	}
	path, _ := astutil.PathEnclosingInterval(f, pos, pos)
	for _, n := range path {
		switch x := n.(type) {
		case *ast.AssignStmt:
			if len(x.Lhs) >= 1 {
				if id, ok := x.Lhs[0].(*ast.Ident); ok {
					return id.Name
				}
			}
		case *ast.ValueSpec:
			if len(x.Names) >= 1 {
				return x.Names[0].Name
			}
		case *ast.FuncDecl, *ast.FuncLit:
			return ""
		}
	}
	return ""
}

func runDeadSet(p *Program, r *RuleResult) {
	nMaps := 0
	for _, fn := range p.SrcFuncs {
		view := p.View(fn)
		ord := map[string]int{}
		for _, b := range view.Blocks() {
			for _, in := range view.Instrs(b) {
				mm, ok := in.(*ssa.MakeMap)
				if !ok {
					continue
				}
				mt, ok := mm.Type().Underlying().(*types.Map)
				if !ok {
					continue
				}
				switch e := mt.Elem().Underlying().(type) {
				case *types.Basic:
					if e.Kind() != types.Bool {
						continue
					}
				case *types.Struct:
					if e.NumFields() != 0 {
						continue
					}
				default:
					continue
				}
				// collect uses; through a single-store cell if the variable is captured
				var lookups []ssa.Instruction
				var updates []ssa.Instruction
				escapes := false
				var visit func(v ssa.Value, depth int)
				visit = func(v ssa.Value, depth int) {
					refs := v.Referrers()
					if refs == nil || depth > 3 {
						return
					}
					for _, u := range *refs {
						switch x := u.(type) {
						case *ssa.Lookup:
							if x.X == v {
								lookups = append(lookups, x)
							}
						case *ssa.MapUpdate:
							if x.Map == v {
								updates = append(updates, x)
							} else {
								escapes = true
							}
						case *ssa.Range, *ssa.DebugRef:
						case *ssa.Phi:
							visit(x, depth+1)
						case *ssa.Store:
							if x.Val == v {
								// stored into a local cell: follow loads of that cell in this function
								if al, ok := x.Addr.(*ssa.Alloc); ok && !cellWrittenInClosures(al) && len(closuresCapturing(al)) == 0 {
									for _, lu := range *al.Referrers() {
										if ld, ok := lu.(*ssa.UnOp); ok && ld.X == ssa.Value(al) {
											visit(ld, depth+1)
										}
									}
								} else {
									escapes = true
								}
							}
						case ssa.CallInstruction:
							com := x.Common()
							if bi, ok := com.Value.(*ssa.Builtin); ok && (bi.Name() == "len" || bi.Name() == "delete") {
								continue
							}
							escapes = true
						default:
							escapes = true
						}
					}
				}
				visit(mm, 0)
				if escapes || len(lookups) == 0 {
					continue
				}
				nMaps++
				name := p.varNameAt(mm.Pos())
				if name == "" {
					name = "map"
				}
				ord[name]++
				construct := fmt.Sprintf("set:%s#%d", name, ord[name])
				if len(updates) == 0 {
					r.add(fnName(fn), construct, Violated, p.instrPos(lookups[0]),
						fmt.Sprintf("the set %s is looked up at %s but never written: the branch it guards can never be taken (e.g. duplicates are never detected)", name, p.instrPos(lookups[0])))
					continue
				}
				// every lookup must be reachable from some update or be in the same loop as one
				bad := ""
				for _, lk := range lookups {
					ok := false
					for _, up := range updates {
						hits := view.mayReachFrom(up, nil, func(i ssa.Instruction) bool { return i == lk }, nil)
						if len(hits) > 0 {
							ok = true
							break
						}
					}
					if !ok {
						bad = fmt.Sprintf("no write to %s can reach the lookup at %s", name, p.instrPos(lk))
					}
				}
				if bad != "" {
					r.add(fnName(fn), construct, Violated, p.instrPos(mm), bad)
				} else {
					r.add(fnName(fn), construct, Holds, p.instrPos(mm), fmt.Sprintf("%d lookups, %d writes", len(lookups), len(updates)))
				}
			}
		}
	}
	r.count("local sets", nMaps)
}

func closuresCapturing(al *ssa.Alloc) []*ssa.MakeClosure {
	var out []*ssa.MakeClosure
	if refs := al.Referrers(); refs != nil {
		for _, u := range *refs {
			if mc, ok := u.(*ssa.MakeClosure); ok {
				out = append(out, mc)
			}
		}
	}
	return out
}
