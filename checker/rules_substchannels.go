package main

import (
	"fmt"
	"go/token"
	"go/types"

	"golang.org/x/tools/go/ssa"
)

// R-SUBST-CHANNELS (C04, C03): substituting a name moves all of its channels together.

func init() {
	register(&Rule{Name: "R-SUBST-CHANNELS", Min: 1,
		Doc: "in the substitution method of process.Name (the pointer-receiver method taking two names): every path through a store of a channel-typed field of the receiver from the same field of the replacement also passes, before or after it, such a store for each other channel-typed field. A name whose message channel is replaced while its control channel still belongs to the old name sends its control requests (forward, split, duplication in the non-polarized interpreter) to a channel that is already closed",
		Run: runSubstChannels})
}

func runSubstChannels(p *Program, r *RuleResult) {
	nameT := p.Named(processPkg, "Name")
	if nameT == nil {
		anchorFail("type Name of package process")
	}
	st, ok := nameT.Underlying().(*types.Struct)
	if !ok {
		anchorFail("process.Name is a struct")
	}
	var chanFields []int
	for i := 0; i < st.NumFields(); i++ {
		if _, ok := st.Field(i).Type().Underlying().(*types.Chan); ok {
			chanFields = append(chanFields, i)
		}
	}
	if len(chanFields) < 2 {
		r.add(processPkg+".Name", "channel-fields", Holds, "", fmt.Sprintf("%d channel-typed field(s): nothing to keep together", len(chanFields)))
		return
	}
	n := 0
	for _, fn := range p.SrcFuncs {
		if fn.Pkg == nil || fn.Pkg.Pkg.Path() != processPkg || fn.Blocks == nil || fn.Signature.Recv() == nil || fn.Parent() != nil {
			continue
		}
		rp, ok := fn.Signature.Recv().Type().Underlying().(*types.Pointer)
		if !ok || !types.Identical(rp.Elem(), nameT) {
			continue
		}
		sig := fn.Signature
		if sig.Params().Len() != 2 || !types.Identical(sig.Params().At(0).Type(), nameT) || !types.Identical(sig.Params().At(1).Type(), nameT) || sig.Results().Len() != 0 {
			continue
		}
		n++
		view := p.View(fn)
		recv := fn.Params[0]
		// stores of receiver.f for channel fields f (the value must come from a parameter's
		// field f: value params are spilled to cells, so follow the load's FieldAddr index)
		storeOf := func(in ssa.Instruction) int {
			s, ok := in.(*ssa.Store)
			if !ok {
				return -1
			}
			fa, ok := s.Addr.(*ssa.FieldAddr)
			if !ok || origin(fa.X) != ssa.Value(recv) {
				return -1
			}
			isChan := false
			for _, f := range chanFields {
				if f == fa.Field {
					isChan = true
				}
			}
			if !isChan {
				return -1
			}
			switch v := s.Val.(type) {
			case *ssa.UnOp:
				if src, ok := v.X.(*ssa.FieldAddr); ok && v.Op == token.MUL && src.Field == fa.Field {
					return fa.Field
				}
			case *ssa.Field:
				if v.Field == fa.Field {
					return fa.Field
				}
			}
			return -1
		}
		bad := ""
		nRet := 0
		for _, b := range view.Blocks() {
			ins := view.Instrs(b)
			if _, ok := ins[len(ins)-1].(*ssa.Return); ok {
				nRet++
			}
		}
		// every path through a store of one channel field passes a store of each other one,
		// before it or after it
		for _, b := range view.Blocks() {
			for _, in := range view.Instrs(b) {
				f := storeOf(in)
				if f < 0 {
					continue
				}
				for _, g := range chanFields {
					if g == f {
						continue
					}
					g := g
					pred := func(x ssa.Instruction) bool { return storeOf(x) == g }
					if view.passedBefore(in, pred) {
						continue
					}
					if ok, _ := view.mustReachBeforeExit(in, pred, true); ok {
						continue
					}
					bad = fmt.Sprintf("%s of the receiver is replaced at %s, but %s is not replaced on every path through that point: a name can leave the substitution with the message channel of the new name and the control channel of the old one (or the reverse)", st.Field(f).Name(), p.instrPos(in), st.Field(g).Name())
				}
			}
		}
		if bad != "" {
			r.add(fnName(fn), "channels-move-together", Violated, p.pos(fn.Pos()), bad)
		} else {
			r.add(fnName(fn), "channels-move-together", Holds, p.pos(fn.Pos()), fmt.Sprintf("%d channel-typed fields, %d returns", len(chanFields), nRet))
		}
	}
	if n == 0 {
		anchorFail("the substitution method of process.Name (pointer receiver, two Name parameters, no result)")
	}
}
