package main

import (
	"fmt"
	"go/token"
	"go/types"
	"sort"

	"golang.org/x/tools/go/ssa"
)

// R-SHARED-ELEMS (C13): a slice of the live process that the updates to the monitor carry
// un-copied (the monitor's record shares its backing array) is never written element by
// element in code the process goroutines run.

func init() {
	ruleUsesCallGraph["R-SHARED-ELEMS"] = true
	register(&Rule{Name: "R-SHARED-ELEMS", Min: 2,
		Doc: "for every process record built for an update to the monitor (in the sending function or a snapshot helper it calls), each slice-typed argument is classified: copied (made in the sending function) or shared (loaded from a field of the live process: the record and the process then share one backing array). For every shared field: in every function reachable from a process goroutine, no store goes into an element of a value that may be that field's slice (the field load, re-slicings, phis, and parameters bound to them at resolved call sites), no such element's address is handed to a function that writes through it, and the slice is not the destination of copy: the monitor's goroutine reads those elements at any time",
		Run: runSharedElems})
}

func processGoroutineEntries(p *Program) []*ssa.Function {
	var entries []*ssa.Function
	for _, fn := range p.SrcFuncs {
		if fn.Pkg == nil || fn.Pkg.Pkg.Path() != processPkg {
			continue
		}
		for _, c := range p.callsIn(fn) {
			if g, ok := c.(*ssa.Go); ok {
				if sc := g.Common().StaticCallee(); sc != nil && sc.Signature.Recv() != nil && isNamed(sc.Signature.Recv().Type(), processPkg, "Process") {
					entries = append(entries, sc)
				}
			}
		}
	}
	return entries
}

func runSharedElems(p *Program, r *RuleResult) {
	upd := p.Named(processPkg, "MonitorUpdate")
	if upd == nil {
		anchorFail("type MonitorUpdate of the process package")
	}
	entries := processGoroutineEntries(p)
	if len(entries) == 0 {
		anchorFail("go statements starting a *Process method")
	}
	inGo := p.reachableFuncs(entries, useCHA)
	// (1) the records built for the monitor: calls of the process constructor in functions
	// that send a MonitorUpdate
	sendsUpdate := func(fn *ssa.Function) bool {
		for _, b := range fn.Blocks {
			for _, in := range b.Instrs {
				if s, ok := in.(*ssa.Send); ok {
					if ch, ok := s.Chan.Type().Underlying().(*types.Chan); ok && types.Identical(ch.Elem(), upd) {
						return true
					}
				}
			}
		}
		return false
	}
	type fieldKey struct {
		owner *types.Named
		idx   int
	}
	sharedFields := map[fieldKey]string{}
	fieldLoad := func(v ssa.Value) (fieldKey, string, bool) {
		ld, ok := v.(*ssa.UnOp)
		if !ok || ld.Op != token.MUL {
			return fieldKey{}, "", false
		}
		fa, ok := ld.X.(*ssa.FieldAddr)
		if !ok {
			return fieldKey{}, "", false
		}
		n := namedOf(fa.X.Type())
		if n == nil || n.Obj().Pkg() == nil || n.Obj().Pkg().Path() != processPkg {
			return fieldKey{}, "", false
		}
		_, name, _ := fieldNameOf(fa)
		return fieldKey{n, fa.Field}, n.Obj().Name() + "." + name, true
	}
	nRecords := 0
	// the senders, and the snapshot helpers they build the record with (first-party callees,
	// up to two calls deep, that return a process record or a whole update)
	builders := map[*ssa.Function]bool{}
	returnsProcess := func(fn *ssa.Function) bool {
		res := fn.Signature.Results()
		for i := 0; i < res.Len(); i++ {
			if isNamed(res.At(i).Type(), processPkg, "Process") || isNamed(res.At(i).Type(), processPkg, "MonitorUpdate") {
				return true
			}
			if pt, ok := res.At(i).Type().Underlying().(*types.Pointer); ok && isNamed(pt.Elem(), processPkg, "Process") {
				return true
			}
		}
		return false
	}
	var addHelpers func(fn *ssa.Function, d int)
	addHelpers = func(fn *ssa.Function, d int) {
		for _, c := range p.callsIn(fn) {
			sc := c.Common().StaticCallee()
			if sc == nil || sc.Blocks == nil || sc.Pkg == nil || sc.Pkg.Pkg.Path() != processPkg || builders[sc] || sc.Name() == "NewProcess" || !returnsProcess(sc) {
				continue
			}
			builders[sc] = true
			if d < 2 {
				addHelpers(sc, d+1)
			}
		}
	}
	for _, fn := range p.SrcFuncs {
		if fn.Pkg != nil && fn.Pkg.Pkg.Path() == processPkg && fn.Blocks != nil && sendsUpdate(fn) {
			builders[fn] = true
			addHelpers(fn, 1)
		}
	}
	for _, fn := range p.SrcFuncs {
		if !builders[fn] {
			continue
		}
		k := 0
		for _, c := range p.callsIn(fn) {
			sc := c.Common().StaticCallee()
			if sc == nil || sc.Name() != "NewProcess" || sc.Pkg == nil || sc.Pkg.Pkg.Path() != processPkg {
				continue
			}
			k++
			for ai, a := range c.Common().Args {
				if _, ok := a.Type().Underlying().(*types.Slice); !ok {
					continue
				}
				nRecords++
				construct := fmt.Sprintf("record#%d-slice-argument#%d", k, ai+1)
				if cst, ok := a.(*ssa.Const); ok && cst.Value == nil {
					r.add(fnName(fn), construct, Holds, p.instrPos(c), "nil")
					continue
				}
				if key, name, ok := fieldLoad(a); ok {
					sharedFields[key] = name
					r.add(fnName(fn), construct, Holds, p.instrPos(c), "shared: the record carries the slice of "+name+" itself; its elements must not be written by the process goroutines (judged below)")
					continue
				}
				r.add(fnName(fn), construct, Holds, p.instrPos(c), "built in the sending function: "+displayKey(a))
			}
		}
	}
	if nRecords == 0 {
		anchorFail("process records built for monitor updates (calls of NewProcess in functions that send a MonitorUpdate or in the snapshot helpers they call)")
	}
	var names []string
	for _, n := range sharedFields {
		names = append(names, n)
	}
	sort.Strings(names)
	r.note("fields whose slice the monitor's records share: %v", names)
	if len(sharedFields) == 0 {
		r.add(processPkg, "no-shared-slices", Holds, "", "every slice a monitor record carries is built in the sending function")
		return
	}
	// (2) values that may be such a slice, in goroutine-reachable first-party code
	var fns []*ssa.Function
	for _, fn := range p.SrcFuncs {
		if inGo[fn] && fn.Blocks != nil && p.isFirstParty(fn) {
			fns = append(fns, fn)
		}
	}
	alias := map[ssa.Value]string{}
	for _, fn := range fns {
		for _, b := range fn.Blocks {
			for _, in := range b.Instrs {
				if v, ok := in.(ssa.Value); ok {
					if key, name, ok := fieldLoad(v); ok {
						if _, sh := sharedFields[key]; sh {
							alias[v] = name
						}
					}
				}
			}
		}
	}
	for changed := true; changed; {
		changed = false
		mark := func(v ssa.Value, name string) {
			if _, ok := alias[v]; !ok {
				alias[v] = name
				changed = true
			}
		}
		for _, fn := range fns {
			for _, b := range fn.Blocks {
				for _, in := range b.Instrs {
					switch x := in.(type) {
					case *ssa.Slice:
						if n, ok := alias[x.X]; ok {
							mark(x, n)
						}
					case *ssa.Phi:
						for _, e := range x.Edges {
							if n, ok := alias[e]; ok {
								mark(x, n)
							}
						}
					case *ssa.ChangeType:
						if n, ok := alias[x.X]; ok {
							mark(x, n)
						}
					case *ssa.MakeClosure:
						if cf, ok := x.Fn.(*ssa.Function); ok {
							for i, bv := range x.Bindings {
								if n, ok := alias[bv]; ok && i < len(cf.FreeVars) {
									mark(cf.FreeVars[i], n)
								}
							}
						}
					case ssa.CallInstruction:
						sc := x.Common().StaticCallee()
						if sc == nil || sc.Blocks == nil || !p.isFirstParty(sc) {
							continue
						}
						args := x.Common().Args
						for i, a := range args {
							if n, ok := alias[a]; ok && i < len(sc.Params) {
								mark(sc.Params[i], n)
							}
						}
					}
				}
			}
		}
	}
	// (3) element writes
	elemOf := func(addr ssa.Value) (ssa.Value, string) {
		for d := 0; d < 6; d++ {
			switch x := addr.(type) {
			case *ssa.IndexAddr:
				if n, ok := alias[x.X]; ok {
					return x, n
				}
				addr = x.X
			case *ssa.FieldAddr:
				addr = x.X
			default:
				return nil, ""
			}
		}
		return nil, ""
	}
	nSites := 0
	for _, fn := range fns {
		ord := 0
		for _, b := range fn.Blocks {
			for _, in := range b.Instrs {
				switch x := in.(type) {
				case *ssa.Store:
					if el, n := elemOf(x.Addr); el != nil {
						ord++
						nSites++
						r.add(fnName(fn), fmt.Sprintf("element-store#%d-into-%s", ord, n), Violated, p.instrPos(x),
							fmt.Sprintf("an element of %s is written here, in code the process goroutines run; the records the monitor received carry that very slice (same backing array), and the monitor's goroutine reads their elements without synchronisation", n))
					}
				case ssa.CallInstruction:
					com := x.Common()
					if bi, ok := com.Value.(*ssa.Builtin); ok && bi.Name() == "copy" && len(com.Args) == 2 {
						if n, ok := alias[com.Args[0]]; ok {
							ord++
							nSites++
							r.add(fnName(fn), fmt.Sprintf("copy-into-%s#%d", n, ord), Violated, p.instrPos(x),
								fmt.Sprintf("copy overwrites the elements of %s in code the process goroutines run; the records the monitor received carry that very slice", n))
						}
						continue
					}
					sc := com.StaticCallee()
					for _, a := range com.Args {
						el, n := elemOf(a)
						if el == nil || a.Type().Underlying() == nil {
							continue
						}
						if _, isPtr := a.Type().Underlying().(*types.Pointer); !isPtr {
							continue
						}
						if sc != nil && sc.Blocks != nil && p.isFirstParty(sc) && p.readOnlyFn(sc) {
							continue
						}
						ord++
						nSites++
						callee := "a dynamic callee"
						if sc != nil {
							callee = sc.String()
						}
						r.add(fnName(fn), fmt.Sprintf("element-address#%d-of-%s-passed-on", ord, n), Violated, p.instrPos(x),
							fmt.Sprintf("the address of an element of %s is handed to %s, which is not known to only read it, in code the process goroutines run; the records the monitor received carry that very slice", n, callee))
					}
				}
			}
		}
	}
	if nSites == 0 {
		r.add("process (goroutine-reachable code)", "no-element-write-into-shared-slices", Holds, "",
			fmt.Sprintf("%d goroutine-reachable functions, %d values that may be a shared slice: no element store, copy, or writable element address", len(fns), len(alias)))
	}
	r.count("records built for the monitor (slice arguments)", nRecords)
	r.count("values that may be a shared slice", len(alias))
}
