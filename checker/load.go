package main

import (
	"fmt"
	"go/ast"
	"go/token"
	"go/types"
	"os"
	"sort"
	"strings"

	"golang.org/x/tools/go/callgraph"
	"golang.org/x/tools/go/callgraph/cha"
	"golang.org/x/tools/go/callgraph/vta"
	"golang.org/x/tools/go/packages"
	"golang.org/x/tools/go/ssa"
	"golang.org/x/tools/go/ssa/ssautil"
)

// LoadConfig selects one build configuration of /repo.
type LoadConfig struct {
	RepoDir string
	Tags    string            // e.g. "verif"
	GOARCH  string            // e.g. "386"
	Overlay map[string][]byte // in-memory replacement of source files (self-test fixtures only)
}

func (c LoadConfig) String() string {
	s := "GOOS=linux"
	if c.GOARCH != "" {
		s += " GOARCH=" + c.GOARCH
	} else {
		s += " GOARCH=amd64"
	}
	if c.Tags != "" {
		s += " tags=" + c.Tags
	}
	return s
}

// Program is the resolved program all rules work on.
type Program struct {
	guardMemo map[*ssa.Function]map[factKind][]guardFact
	guardBusy map[*ssa.Function]bool
	mapTables map[*ssa.Global]map[string]AVal
	RepoDir   string
	Config    LoadConfig
	Fset      *token.FileSet
	Pkgs      []*packages.Package          // first-party packages
	ByPath    map[string]*packages.Package // import path -> package
	Prog      *ssa.Program
	SSAPkg    map[string]*ssa.Package
	// SrcFuncs: every first-party function with a body (incl. closures and methods).
	SrcFuncs []*ssa.Function

	cgVTA *callgraph.Graph
	cgCHA *callgraph.Graph

	noRet     map[*ssa.Function]bool
	noRetDone bool
	views     map[*ssa.Function]*View
	alwaysErr map[*ssa.Function]int
	roMemo    map[*ssa.Function]int
	roWhy     map[*ssa.Function]string
	roBusy    map[*ssa.Function]bool
	settled   map[*ssa.Global]bool
}

// required first-party packages; losing one of them is an unresolved anchor.
var requiredPkgs = []string{"grits", "grits/cmd", "grits/parser", "grits/process", "grits/types", "grits/position", "grits/benchmarks", "grits/webserver"}

func loadProgram(cfg LoadConfig) (*Program, error) {
	env := append(os.Environ(),
		"GOFLAGS=-mod=mod", "GOPROXY=off", "GOSUMDB=off", "GOWORK=off", "GOTOOLCHAIN=local", "CGO_ENABLED=0")
	if cfg.GOARCH != "" {
		env = append(env, "GOARCH="+cfg.GOARCH)
	}
	pc := &packages.Config{
		Mode: packages.NeedName | packages.NeedFiles | packages.NeedCompiledGoFiles | packages.NeedImports |
			packages.NeedTypes | packages.NeedSyntax | packages.NeedTypesInfo | packages.NeedTypesSizes,
		Dir:     cfg.RepoDir,
		Env:     env,
		Tests:   false,
		Overlay: cfg.Overlay,
	}
	if cfg.Tags != "" {
		pc.BuildFlags = []string{"-tags=" + cfg.Tags}
	}
	pkgs, err := packages.Load(pc, "./...")
	if err != nil {
		return nil, fmt.Errorf("packages.Load: %v", err)
	}
	if len(pkgs) == 0 {
		return nil, fmt.Errorf("no packages loaded from %s", cfg.RepoDir)
	}
	var errs []string
	packages.Visit(pkgs, nil, func(p *packages.Package) {
		for _, e := range p.Errors {
			errs = append(errs, e.Error())
		}
	})
	if len(errs) > 0 {
		return nil, fmt.Errorf("load/type-check errors: %s", strings.Join(errs, "; "))
	}
	p := &Program{RepoDir: cfg.RepoDir, Config: cfg, ByPath: map[string]*packages.Package{}, SSAPkg: map[string]*ssa.Package{}, views: map[*ssa.Function]*View{}}
	for _, pk := range pkgs {
		p.ByPath[pk.PkgPath] = pk
		p.Pkgs = append(p.Pkgs, pk)
		p.Fset = pk.Fset
	}
	sort.Slice(p.Pkgs, func(i, j int) bool { return p.Pkgs[i].PkgPath < p.Pkgs[j].PkgPath })
	for _, need := range requiredPkgs {
		if p.ByPath[need] == nil {
			return nil, fmt.Errorf("first-party package %q not found (unresolved anchor)", need)
		}
	}
	prog, ssapkgs := ssautil.Packages(pkgs, ssa.InstantiateGenerics)
	prog.Build()
	p.Prog = prog
	for _, sp := range ssapkgs {
		if sp != nil {
			if _, ok := p.ByPath[sp.Pkg.Path()]; ok {
				p.SSAPkg[sp.Pkg.Path()] = sp
			}
		}
	}
	// collect first-party functions with bodies
	seen := map[*ssa.Function]bool{}
	var addFn func(fn *ssa.Function)
	addFn = func(fn *ssa.Function) {
		if fn == nil || seen[fn] || fn.Blocks == nil {
			return
		}
		seen[fn] = true
		p.SrcFuncs = append(p.SrcFuncs, fn)
		for _, an := range fn.AnonFuncs {
			addFn(an)
		}
	}
	for _, path := range sortedKeys(p.SSAPkg) {
		sp := p.SSAPkg[path]
		var names []string
		for n := range sp.Members {
			names = append(names, n)
		}
		sort.Strings(names)
		for _, n := range names {
			switch m := sp.Members[n].(type) {
			case *ssa.Function:
				addFn(m)
			case *ssa.Type:
				for _, T := range []types.Type{m.Type(), types.NewPointer(m.Type())} {
					ms := prog.MethodSets.MethodSet(T)
					for i := 0; i < ms.Len(); i++ {
						fn := prog.MethodValue(ms.At(i))
						if fn != nil && fn.Pkg == sp && fn.Synthetic == "" {
							addFn(fn)
						}
					}
				}
			}
		}
	}
	return p, nil
}

func sortedKeys[V any](m map[string]V) []string {
	var ks []string
	for k := range m {
		ks = append(ks, k)
	}
	sort.Strings(ks)
	return ks
}

// ---- lookup helpers (an unresolved anchor panics; runRule turns that into Undecided) ----

type anchorError struct{ msg string }

func (e anchorError) Error() string { return e.msg }

func anchorFail(format string, args ...interface{}) {
	panic(anchorError{"unresolved anchor: " + fmt.Sprintf(format, args...)})
}

// Func returns the package-level function pkg.name.
func (p *Program) Func(pkg, name string) *ssa.Function {
	fn := p.FuncOpt(pkg, name)
	if fn == nil {
		anchorFail("function %s.%s", pkg, name)
	}
	return fn
}

func (p *Program) FuncOpt(pkg, name string) *ssa.Function {
	sp := p.SSAPkg[pkg]
	if sp == nil {
		return nil
	}
	fn := sp.Func(name)
	if fn == nil || fn.Blocks == nil {
		return nil
	}
	return fn
}

// Named returns the named type pkg.name.
func (p *Program) Named(pkg, name string) *types.Named {
	pk := p.ByPath[pkg]
	if pk == nil {
		anchorFail("package %s", pkg)
	}
	obj := pk.Types.Scope().Lookup(name)
	if obj == nil {
		anchorFail("type %s.%s", pkg, name)
	}
	n, ok := obj.Type().(*types.Named)
	if !ok {
		anchorFail("%s.%s is not a named type", pkg, name)
	}
	return n
}

// Method returns method `name` of *T or T (whichever declares it).
func (p *Program) Method(T *types.Named, name string) *ssa.Function {
	fn := p.MethodOpt(T, name)
	if fn == nil {
		anchorFail("method %s.%s", T, name)
	}
	return fn
}

func (p *Program) MethodOpt(T *types.Named, name string) *ssa.Function {
	for _, recv := range []types.Type{types.NewPointer(T), T} {
		sel := p.Prog.MethodSets.MethodSet(recv).Lookup(T.Obj().Pkg(), name)
		if sel != nil {
			fn := p.Prog.MethodValue(sel)
			if fn != nil && fn.Blocks != nil {
				// skip promoted-method wrappers
				return fn
			}
		}
	}
	return nil
}

// Implementers returns the named first-party types T such that T or *T implements iface,
// sorted by name. Second result says whether the pointer type is the implementer.
func (p *Program) Implementers(iface *types.Named) []*types.Named {
	it, ok := iface.Underlying().(*types.Interface)
	if !ok {
		anchorFail("%s is not an interface", iface)
	}
	var out []*types.Named
	for _, pk := range p.Pkgs {
		sc := pk.Types.Scope()
		for _, n := range sc.Names() {
			tn, ok := sc.Lookup(n).(*types.TypeName)
			if !ok || tn.IsAlias() {
				continue
			}
			named, ok := tn.Type().(*types.Named)
			if !ok {
				continue
			}
			if _, isIface := named.Underlying().(*types.Interface); isIface {
				continue
			}
			if types.Implements(named, it) || types.Implements(types.NewPointer(named), it) {
				out = append(out, named)
			}
		}
	}
	sort.Slice(out, func(i, j int) bool { return out[i].String() < out[j].String() })
	return out
}

// EnumConsts returns the package-level constants whose type is the named type T.
func (p *Program) EnumConsts(T *types.Named) []*types.Const {
	var out []*types.Const
	sc := T.Obj().Pkg().Scope()
	for _, n := range sc.Names() {
		if c, ok := sc.Lookup(n).(*types.Const); ok && types.Identical(c.Type(), T) {
			out = append(out, c)
		}
	}
	sort.Slice(out, func(i, j int) bool { return out[i].Pos() < out[j].Pos() })
	return out
}

// isFirstParty reports whether fn belongs to one of the loaded first-party packages.
func (p *Program) isFirstParty(fn *ssa.Function) bool {
	if fn == nil {
		return false
	}
	pk := fn.Pkg
	if pk == nil && fn.Parent() != nil {
		return p.isFirstParty(fn.Parent())
	}
	if pk == nil {
		return false
	}
	_, ok := p.SSAPkg[pk.Pkg.Path()]
	return ok
}

// ---- call graphs ----

func (p *Program) VTA() *callgraph.Graph {
	if p.cgVTA == nil {
		p.cgVTA = vta.CallGraph(ssautil.AllFunctions(p.Prog), p.CHA())
	}
	return p.cgVTA
}

func (p *Program) CHA() *callgraph.Graph {
	if p.cgCHA == nil {
		p.cgCHA = cha.CallGraph(p.Prog)
	}
	return p.cgCHA
}

// Callees returns the possible callees of a call instruction: the static callee if any,
// otherwise the callees of the given graph.
func (p *Program) Callees(g *callgraph.Graph, site ssa.CallInstruction) []*ssa.Function {
	if c := site.Common().StaticCallee(); c != nil {
		return []*ssa.Function{c}
	}
	n := g.Nodes[site.Parent()]
	if n == nil {
		return nil
	}
	var out []*ssa.Function
	seen := map[*ssa.Function]bool{}
	for _, e := range n.Out {
		if e.Site == site && !seen[e.Callee.Func] {
			seen[e.Callee.Func] = true
			out = append(out, e.Callee.Func)
		}
	}
	sort.Slice(out, func(i, j int) bool { return out[i].String() < out[j].String() })
	return out
}

// FileOf returns the syntax file containing pos.
func (p *Program) FileOf(pos token.Pos) *ast.File {
	for _, pk := range p.Pkgs {
		for _, f := range pk.Syntax {
			if f.Pos() <= pos && pos <= f.End() {
				return f
			}
		}
	}
	return nil
}

// vtaLostSites lists dynamic call sites, in first-party functions reachable from main on the
// VTA graph, that VTA resolves to no callee while CHA resolves them to a first-party one.
func (p *Program) vtaLostSites() ([]string, int) {
	vta, cha := p.VTA(), p.CHA()
	var roots []*ssa.Function
	for _, fn := range p.SrcFuncs {
		if fn.Name() == "main" && fn.Pkg != nil && fn.Pkg.Pkg.Name() == "main" {
			roots = append(roots, fn)
		}
	}
	reach := p.reachableFuncs(roots, false)
	var lost []string
	n := 0
	for _, fn := range p.SrcFuncs {
		if !reach[fn] {
			continue
		}
		for _, c := range p.callsIn(fn) {
			if c.Common().StaticCallee() != nil {
				continue
			}
			if _, isBuiltin := c.Common().Value.(*ssa.Builtin); isBuiltin {
				continue
			}
			// only sites whose callee must be first-party code: an invoke on an interface
			// declared here, or a call of a func value whose type is not a named type of
			// another module (context.CancelFunc, error.Error: bodies outside the program)
			vt := c.Common().Value.Type()
			if nt, ok := vt.(*types.Named); ok {
				if nt.Obj().Pkg() == nil || p.SSAPkg[nt.Obj().Pkg().Path()] == nil {
					continue
				}
			} else if _, isSig := vt.Underlying().(*types.Signature); !isSig {
				continue
			}
			n++
			if len(p.Callees(vta, c)) > 0 {
				continue
			}
			fp := false
			for _, t := range p.Callees(cha, c) {
				if p.isFirstParty(t) {
					fp = true
				}
			}
			if fp {
				lost = append(lost, fnName(fn)+" at "+p.instrPos(c))
			}
		}
	}
	sort.Strings(lost)
	return lost, n
}
