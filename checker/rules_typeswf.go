package main

import (
	"fmt"
	"go/types"
	"sort"
	"strings"

	"golang.org/x/tools/go/ssa"
)

// Type-library well-formedness rules: R-UNSET-REJECTED, R-REC-COMPLETE, R-SHIFT-LEGAL,
// R-CONTRACTIVE-GATE, R-UNFOLD-GUARD (C10, C16, C06, C08, C09).

func init() {
	register(&Rule{Name: "R-UNSET-REJECTED", Min: 10,
		Doc: "every checkTypeModalities implementation rejects an unset, invalid or nil mode for each Modality field of its receiver before the field is used in a mode comparison or shift query",
		Run: runUnsetRejected})
	register(&Rule{Name: "R-REC-COMPLETE", Min: 18,
		Doc: "the structurally recursive methods checkTypeLabels, checkTypeModalities and assignUnsetModalities visit every child (SessionType fields and the type of every option) on every path to a success return",
		Run: runRecComplete})
	register(&Rule{Name: "R-SHIFT-LEGAL", Min: 6,
		Doc: "shift types and the four cast/shift typing rules are gated by From.CanBe{Up,Down}shiftedTo(To) in the direction of the constructor; the continuation is checked against / typed at the shift's source mode and continuation type",
		Run: runShiftLegal})
	register(&Rule{Name: "R-CONTRACTIVE-GATE", Min: 4,
		Doc: "every type definition passes the contractivity predicate (false ⇒ error) after definedness was checked; only the type-name implementer follows the environment, all constructors are guards",
		Run: runContractiveGate})
	register(&Rule{Name: "R-UNFOLD-GUARD", Min: 4,
		Doc: "every recursive function of package types that follows a type name through the definition environment consults and extends a visited set on the cycle, or is Unfold (justified by the contractivity gate)",
		Run: runUnfoldGuard})
	ruleUsesCallGraph["R-UNFOLD-GUARD"] = true
}

func (p *Program) sessionTypeImplementers() []*types.Named {
	return p.Implementers(p.Named(typesPkg, "SessionType"))
}

// structFields returns the fields of the struct type T with their indices.
func structFields(T *types.Named) []*types.Var {
	st, ok := T.Underlying().(*types.Struct)
	if !ok {
		return nil
	}
	var out []*types.Var
	for i := 0; i < st.NumFields(); i++ {
		out = append(out, st.Field(i))
	}
	return out
}

func isModalityType(t types.Type) bool    { return isNamed(t, typesPkg, "Modality") && !isPtr(t) }
func isSessionTypeType(t types.Type) bool { return isNamed(t, typesPkg, "SessionType") && !isPtr(t) }
func isPtr(t types.Type) bool             { _, ok := t.(*types.Pointer); return ok }

func isOptionSlice(t types.Type) bool {
	sl, ok := t.Underlying().(*types.Slice)
	return ok && isNamed(sl.Elem(), typesPkg, "Option")
}

func runUnsetRejected(p *Program, r *RuleResult) {
	special := map[string]bool{}
	sub := &RuleResult{}
	mt := extractModeTables(p, sub)
	for _, m := range mt.Modes {
		if m.Special {
			special[m.Name] = true
		}
	}
	if len(special) == 0 {
		r.add("types.Modality", "special-modes", Undecided, "", "no mode implementer with panicking shift tables found")
		return
	}
	for _, T := range p.sessionTypeImplementers() {
		fn := p.Method(T, "checkTypeModalities")
		view := p.View(fn)
		recv := fn.Params[0].Name()
		for _, f := range structFields(T) {
			if !isModalityType(f.Type()) {
				continue
			}
			key := recv + "." + f.Name()
			construct := "mode-field:" + f.Name()
			// uses of the field that need a proper mode
			var uses []ssa.Instruction
			for _, c := range p.callsIn(fn) {
				com := c.Common()
				sensitive := false
				if com.IsInvoke() && isModalityType(com.Value.Type()) && com.Method.Name() != "String" && com.Method.Name() != "FullString" {
					if accessPath(com.Value) == key {
						sensitive = true
					}
					for _, a := range com.Args {
						if accessPath(a) == key {
							sensitive = true
						}
					}
				}
				if com.IsInvoke() && com.Method.Name() == fn.Name() {
					for _, a := range com.Args {
						if accessPath(a) == key {
							sensitive = true
						}
					}
				}
				if sensitive {
					uses = append(uses, c)
				}
			}
			if len(uses) == 0 {
				r.add(fnName(fn), construct, Undecided, p.pos(fn.Pos()), "the mode field is never compared or queried in this check")
				continue
			}
			bad := ""
			for _, u := range uses {
				fs := view.FactsAt(u.Block())
				rejected := map[string]bool{}
				nonNil := false
				for ft := range fs {
					switch ft.k {
					case factFalse:
						if ex, ok := ft.v.(*ssa.Extract); ok && ex.Index == 1 {
							if ta, ok := ex.Tuple.(*ssa.TypeAssert); ok && accessPath(ta.X) == key {
								if n := namedOf(ta.AssertedType); n != nil {
									rejected[n.Obj().Name()] = true
								}
							}
						}
					case factNonNil:
						if accessPath(ft.v) == key {
							nonNil = true
						}
					case factNil:
						// a helper (or local closure) that returned nil for this mode: what
						// it establishes about its parameter on every nil return
						call, ok := ft.v.(*ssa.Call)
						if !ok {
							continue
						}
						h := call.Common().StaticCallee()
						if h == nil || !p.isFirstParty(h) || len(h.Blocks) == 0 || h == fn {
							continue
						}
						for i, a := range call.Common().Args {
							if accessPath(a) != key || i >= len(h.Params) {
								continue
							}
							rej, nn := p.modeGuardSummary(h, h.Params[i])
							for n := range rej {
								rejected[n] = true
							}
							if nn {
								nonNil = true
							}
						}
					}
				}
				for s := range special {
					if !rejected[s] {
						bad = fmt.Sprintf("%s is used at %s on a path where it may still be a %s (shift queries on it panic)", key, p.instrPos(u), s)
					}
				}
				if !nonNil && bad == "" {
					bad = fmt.Sprintf("%s is used at %s without a nil test", key, p.instrPos(u))
				}
			}
			if bad != "" {
				r.add(fnName(fn), construct, Violated, p.pos(fn.Pos()), bad)
			} else {
				r.add(fnName(fn), construct, Holds, p.pos(fn.Pos()), fmt.Sprintf("%d uses, all behind the unset/invalid/nil rejections", len(uses)))
			}
		}
	}
}

// modeGuardSummary: on every return of h that may hand back nil, which dynamic types of the
// mode parameter have been excluded (failed comma-ok assertions) and is it known non-nil?
func (p *Program) modeGuardSummary(h *ssa.Function, prm *ssa.Parameter) (rejected map[string]bool, nonNil bool) {
	view := p.View(h)
	first := true
	for _, b := range view.Blocks() {
		ins := view.Instrs(b)
		ret, ok := ins[len(ins)-1].(*ssa.Return)
		if !ok || len(ret.Results) != 1 || isErrorValue(ret.Results[0], view, b, map[ssa.Value]bool{}) {
			continue
		}
		rej := map[string]bool{}
		nn := false
		for ft := range view.FactsAt(b) {
			switch ft.k {
			case factFalse:
				if ex, ok := ft.v.(*ssa.Extract); ok && ex.Index == 1 {
					if ta, ok := ex.Tuple.(*ssa.TypeAssert); ok && ta.X == ssa.Value(prm) {
						if n := namedOf(ta.AssertedType); n != nil {
							rej[n.Obj().Name()] = true
						}
					}
				}
			case factNonNil:
				if ft.v == ssa.Value(prm) {
					nn = true
				}
			}
		}
		if first {
			rejected, nonNil, first = rej, nn, false
			continue
		}
		for n := range rejected {
			if !rej[n] {
				delete(rejected, n)
			}
		}
		nonNil = nonNil && nn
	}
	if first {
		return nil, false
	}
	return rejected, nonNil
}

func runRecComplete(p *Program, r *RuleResult) {
	methods := []string{"checkTypeLabels", "checkTypeModalities", "assignUnsetModalities"}
	for _, T := range p.sessionTypeImplementers() {
		for _, mn := range methods {
			fn := p.Method(T, mn)
			recv := fn.Params[0].Name()
			nChildren := 0
			for _, f := range structFields(T) {
				isSlice := false
				switch {
				case isSessionTypeType(f.Type()):
				case isOptionSlice(f.Type()):
					isSlice = true
				default:
					continue
				}
				nChildren++
				construct := mn + ":child:" + f.Name()
				never, bad := p.childVisited(fn, recv+"."+f.Name(), isSlice, mn, 0)
				switch {
				case never:
					// leaf behaviour allowed only for early returns on "already has a mode" in assign; otherwise violated
					r.add(fnName(fn), construct, Violated, p.pos(fn.Pos()), fmt.Sprintf("%s never recurses into child %s: that part of the type is not checked/assigned", mn, f.Name()))
				case bad != "":
					r.add(fnName(fn), construct, Violated, p.pos(fn.Pos()), strings.ReplaceAll(bad, "CHILD", f.Name()))
				default:
					r.add(fnName(fn), construct, Holds, p.pos(fn.Pos()), "")
				}
			}
			if nChildren == 0 {
				r.note("%s: leaf constructor (no children)", fnName(fn))
			}
		}
	}
}

// childVisited: does fn apply method mn to the child held in `base` (a session type, or for
// isSlice the types of a slice of options) before every success return? The visit may be the
// invoke itself or a call of a first-party helper that is handed the child and visits it in
// the same sense. never: no visit at all; bad: a success return that can avoid it.
func (p *Program) childVisited(fn *ssa.Function, base string, isSlice bool, mn string, depth int) (never bool, bad string) {
	view := p.View(fn)
	hasErr := fn.Signature.Results().Len() == 1
	var succ []*ssa.Return
	for _, b := range view.Blocks() {
		ins := view.Instrs(b)
		ret, ok := ins[len(ins)-1].(*ssa.Return)
		if !ok {
			continue
		}
		if hasErr && isErrorValue(ret.Results[0], view, b, map[ssa.Value]bool{}) {
			continue
		}
		succ = append(succ, ret)
	}
	key := base
	if isSlice {
		key = base + "[].SessionType"
	}
	var calls []ssa.Instruction
	var direct []ssa.Instruction
	for _, c := range p.callsIn(fn) {
		com := c.Common()
		if com.IsInvoke() && com.Method.Name() == mn && accessPath(com.Value) == key {
			calls = append(calls, c)
			direct = append(direct, c)
			continue
		}
		h := com.StaticCallee()
		if h == nil || !p.isFirstParty(h) || len(h.Blocks) == 0 || depth >= 2 || h == fn {
			continue
		}
		for i, a := range com.Args {
			if accessPath(a) != base || i >= len(h.Params) {
				continue
			}
			// the helper must hand back an error where the method does, so that a failed
			// visit is not lost (its result is judged by R-ERR rules at the call site)
			if nv, bd := p.childVisited(h, h.Params[i].Name(), isSlice, mn, depth+1); !nv && bd == "" {
				calls = append(calls, c)
			}
		}
	}
	if len(calls) == 0 {
		return true, ""
	}
	isCall := func(in ssa.Instruction) bool {
		for _, c := range calls {
			if c == in {
				return true
			}
		}
		return false
	}
	for _, ret := range succ {
		// a return whose value IS the recursive call counts
		if view.passedBefore(ret, isCall) {
			continue
		}
		if rc, ok := ret.Results, true; ok && len(rc) == 1 {
			if ci, isI := rc[0].(ssa.Instruction); isI && isCall(ci) {
				continue
			}
		}
		if isSlice && len(direct) > 0 {
			// the loop over the options may run zero times: require the loop header before the return
			inLoop := false
			for _, l := range view.Loops() {
				if l.Body[direct[0].Block()] {
					hdr := l.Header
					if view.passedBefore(ret, func(in ssa.Instruction) bool { return in.Block() == hdr }) {
						inLoop = true
					}
				}
			}
			if inLoop {
				continue
			}
		}
		bad = fmt.Sprintf("the success return at %s can be reached without visiting child CHILD", p.instrPos(ret))
	}
	return false, bad
}

// shiftDirection: the table method a shift constructor must be gated by.
func shiftDirection(typeName string) string {
	switch {
	case strings.HasPrefix(typeName, "Up"):
		return "CanBeUpshiftedTo"
	case strings.HasPrefix(typeName, "Down"):
		return "CanBeDownshiftedTo"
	}
	return ""
}

// shiftTypes: the SessionType implementers with two Modality fields named From and To.
func (p *Program) shiftTypes() []*types.Named {
	var out []*types.Named
	for _, T := range p.sessionTypeImplementers() {
		n := 0
		for _, f := range structFields(T) {
			if isModalityType(f.Type()) && (f.Name() == "From" || f.Name() == "To") {
				n++
			}
		}
		if n == 2 {
			out = append(out, T)
		}
	}
	return out
}

func runShiftLegal(p *Program, r *RuleResult) {
	shifts := p.shiftTypes()
	if len(shifts) != 2 {
		r.add("types", "shift-constructors", Undecided, "", fmt.Sprintf("expected two shift constructors (fields From, To), found %d", len(shifts)))
	}
	// (a) well-formedness of shift types
	for _, T := range shifts {
		dir := shiftDirection(T.Obj().Name())
		fn := p.Method(T, "checkTypeModalities")
		view := p.View(fn)
		recv := fn.Params[0].Name()
		ok, okCont := false, false
		why := "no success path is gated by " + recv + ".From." + dir + "(" + recv + ".To)"
		for _, b := range view.Blocks() {
			ins := view.Instrs(b)
			ret, isRet := ins[len(ins)-1].(*ssa.Return)
			if !isRet || isErrorValue(ret.Results[0], view, b, map[ssa.Value]bool{}) {
				continue
			}
			gated := false
			for f := range view.FactsAt(b) {
				c, isCall := f.v.(*ssa.Call)
				if isCall && f.k == factTrue && c.Common().IsInvoke() && c.Common().Method.Name() == dir &&
					accessPath(c.Common().Value) == recv+".From" && accessPath(c.Common().Args[0]) == recv+".To" {
					gated = true
				}
			}
			if !gated {
				ok = false
				why = fmt.Sprintf("the success return at %s is not dominated by the true edge of %s.From.%s(%s.To)", p.instrPos(ret), recv, dir, recv)
				break
			}
			ok = true
			// continuation checked at the source mode
			if c, isCall := ret.Results[0].(*ssa.Call); isCall && c.Common().IsInvoke() && c.Common().Method.Name() == fn.Name() &&
				accessPath(c.Common().Value) == recv+".Continuation" && len(c.Common().Args) == 2 && accessPath(c.Common().Args[1]) == recv+".From" {
				okCont = true
			}
		}
		v := Holds
		if !ok {
			v = Violated
		}
		r.add(fnName(fn), "type-gated-by:"+dir, v, p.pos(fn.Pos()), why)
		v = Holds
		d := ""
		if !okCont {
			v = Violated
			d = "the continuation of the shift is not checked against the shift's source mode (From)"
		}
		r.add(fnName(fn), "continuation-at-source-mode", v, p.pos(fn.Pos()), d)
	}
	// (b) typing rules that assert a shift type
	for _, m := range p.typecheckMethods() {
		view := p.View(m.Fn)
		n := 0
		for _, b := range view.Blocks() {
			for _, in := range view.Instrs(b) {
				ta, ok := in.(*ssa.TypeAssert)
				if !ok || !ta.CommaOk {
					continue
				}
				T := namedOf(ta.AssertedType)
				if T == nil || shiftDirection(T.Obj().Name()) == "" || T.Obj().Pkg().Path() != typesPkg {
					continue
				}
				isShift := false
				for _, s := range shifts {
					if s == T {
						isShift = true
					}
				}
				if !isShift {
					continue
				}
				var val ssa.Value
				for _, u := range *ta.Referrers() {
					if ex, ok := u.(*ssa.Extract); ok && ex.Index == 0 {
						val = ex
					}
				}
				if val == nil {
					continue // only the ok is used (error-message classification)
				}
				n++
				dir := shiftDirection(T.Obj().Name())
				construct := fmt.Sprintf("rule-asserting:%s#%d", T.Obj().Name(), n)
				// every success exit / continuation judgement reachable after the assertion that uses val
				// must be dominated by the true edge of val.From.dir(val.To)
				isGate := func(f fact) bool {
					c, isCall := f.v.(*ssa.Call)
					if !isCall || f.k != factTrue || !c.Common().IsInvoke() || c.Common().Method.Name() != dir {
						return false
					}
					return fieldOf(c.Common().Value, val, "From") && fieldOf(c.Common().Args[0], val, "To")
				}
				var targets []ssa.Instruction
				for _, c := range m.Conts {
					targets = append(targets, c)
				}
				for _, ret := range p.successExits(m) {
					targets = append(targets, ret)
				}
				bad := ""
				checked := 0
				// region search: from the assertion, avoiding the failed-assertion region and the
				// region dominated by the gate's true edge; any target reached is ungated
				var okV ssa.Value
				for _, u := range *ta.Referrers() {
					if ex, ok := u.(*ssa.Extract); ok && ex.Index == 1 {
						okV = ex
					}
				}
				gatedBlock := func(b *ssa.BasicBlock) bool {
					for f := range view.FactsAt(b) {
						if isGate(f) {
							return true
						}
					}
					return false
				}
				isTarget := map[ssa.Instruction]bool{}
				for _, t := range targets {
					isTarget[t] = true
				}
				seenB := map[*ssa.BasicBlock]bool{}
				var visit func(b *ssa.BasicBlock, from int)
				visit = func(b *ssa.BasicBlock, from int) {
					ins := view.Instrs(b)
					for i := from; i < len(ins); i++ {
						if isTarget[ins[i]] {
							checked++
							bad = fmt.Sprintf("the rule can succeed/continue at %s without %s.From.%s(To) having been established", p.instrPos(ins[i]), T.Obj().Name(), dir)
						}
					}
					for _, su := range view.Succs(b) {
						if seenB[su] || gatedBlock(su) || (okV != nil && view.holdsAt(su, okV, factFalse)) {
							continue
						}
						seenB[su] = true
						visit(su, 0)
					}
				}
				visit(ta.Block(), indexIn(ta.Block(), ta)+1)
				// count the gated targets (those inside the gate region reachable from the assertion)
				for _, t := range targets {
					if gatedBlock(t.Block()) && okV != nil && view.holdsAt(t.Block(), okV, factTrue) {
						checked++
					}
				}
				if checked == 0 {
					// targets after the arms merged: reachable only through the gate region
					for _, bb := range view.Blocks() {
						if gatedBlock(bb) && okV != nil && view.holdsAt(bb, okV, factTrue) {
							checked++
							break
						}
					}
				}
				switch {
				case checked == 0:
					r.add(fnName(m.Fn), construct, Undecided, p.instrPos(ta), "no success exit or continuation judgement in the region of this assertion")
				case bad != "":
					r.add(fnName(m.Fn), construct, Violated, p.instrPos(ta), bad)
				default:
					r.add(fnName(m.Fn), construct, Holds, p.instrPos(ta), fmt.Sprintf("%d exits/continuations gated", checked))
				}
			}
		}
	}
}

// fieldOf: v is a load of field `name` of the struct pointed to by base.
func fieldOf(v ssa.Value, base ssa.Value, name string) bool {
	ld, ok := v.(*ssa.UnOp)
	if !ok {
		return false
	}
	fa, ok := ld.X.(*ssa.FieldAddr)
	if !ok || fa.X != base {
		return false
	}
	_, n, _ := fieldNameOf(fa)
	return n == name
}

func runContractiveGate(p *Program, r *RuleResult) {
	entry := p.Func(typesPkg, "SanityChecksTypeDefinitions")
	fn := entry
	view := p.View(fn)
	name := fnName(fn)
	// the contractivity call
	var call *ssa.Call
	for _, c := range p.callsIn(fn) {
		if c.Common().IsInvoke() && c.Common().Method.Name() == "isContractive" {
			call, _ = c.(*ssa.Call)
		}
	}
	// the loop may have been moved into a function of its own that is handed the definitions
	// and whose verdict the entry point returns
	var viaCall *ssa.Call
	if call == nil {
		for _, c := range p.callsIn(entry) {
			hc, ok := c.(*ssa.Call)
			if !ok {
				continue
			}
			h := hc.Common().StaticCallee()
			if h == nil || h.Blocks == nil || h.Pkg != entry.Pkg || h.Signature.Results().Len() != 1 || !isErrorType(h.Signature.Results().At(0).Type()) {
				continue
			}
			// the definitions are passed on unchanged, in the same position
			passes := false
			for i, a := range hc.Common().Args {
				if len(entry.Params) > 0 && a == ssa.Value(entry.Params[0]) && i == 0 {
					passes = true
				}
			}
			if !passes {
				continue
			}
			var inner *ssa.Call
			for _, c2 := range p.callsIn(h) {
				if c2.Common().IsInvoke() && c2.Common().Method.Name() == "isContractive" {
					inner, _ = c2.(*ssa.Call)
				}
			}
			if inner == nil {
				continue
			}
			// verdict handed back: returned directly, or returned on the non-nil edge
			handed := false
			for _, u := range *hc.Referrers() {
				if _, ok := u.(*ssa.Return); ok {
					handed = true
				}
			}
			for _, b := range view.Blocks() {
				if view.holdsAt(b, hc, factNonNil) {
					ins := view.Instrs(b)
					if ret, ok := ins[len(ins)-1].(*ssa.Return); ok && (ret.Results[0] == ssa.Value(hc) || isErrorValue(ret.Results[0], view, b, map[ssa.Value]bool{})) {
						handed = true
					}
				}
			}
			if handed {
				viaCall, call, fn = hc, inner, h
				view = p.View(h)
			}
		}
	}
	if call == nil {
		r.add(name, "contractivity-checked", Violated, p.pos(fn.Pos()), "type definitions are never tested for contractivity: Unfold and EqualType may not terminate")
	} else {
		inLoop := false
		for _, l := range view.Loops() {
			if l.Body[call.Block()] {
				inLoop = true
			}
		}
		// receiver is the SessionType of an element of the parameter slice
		elem := strings.HasPrefix(accessPath(call.Common().Value), fn.Params[0].Name()+"[]")
		errExit := false
		for _, b := range view.Blocks() {
			if !view.holdsAt(b, call, factFalse) {
				continue
			}
			ins := view.Instrs(b)
			if ret, ok := ins[len(ins)-1].(*ssa.Return); ok && isErrorValue(ret.Results[0], view, b, map[ssa.Value]bool{}) {
				errExit = true
			}
		}
		// no success return while some definition is unchecked: every nil return is after the loop header
		skipped := ""
		if inLoop {
			skipped = skipsIteration(p, view, call)
			if skipped == "" {
				skipped = leavesLoopEarly(p, view, call)
			}
		}
		switch {
		case skipped != "":
			r.add(name, "contractivity-checked", Violated, p.instrPos(call), "some definitions are never tested for contractivity: the loop over the definitions can pass an element by, or stop, without the test ("+skipped+"); Unfold and EqualType do not terminate on a cyclic definition that slipped through")
		case !inLoop || !elem:
			r.add(name, "contractivity-checked", Violated, p.instrPos(call), "the contractivity test is not applied to every element of the definitions slice")
		case !errExit:
			r.add(name, "contractivity-checked", Violated, p.instrPos(call), "a false contractivity result does not lead to an error")
		default:
			r.add(name, "contractivity-checked", Holds, p.instrPos(call), "loop over all definitions; false edge is an error")
		}
		// definedness before contractivity (the contractivity walk dereferences environment entries)
		wf := p.Func(typesPkg, "CheckTypeWellFormedness")
		pre := false
		for _, c := range p.callsTo(fn, wf) {
			// a call in an earlier loop: its loop header is passed before the contractivity call and the call is not in the same loop
			for _, l := range view.Loops() {
				if l.Body[c.Block()] && !l.Body[call.Block()] {
					hdr := l.Header
					if view.passedBefore(call, func(in ssa.Instruction) bool { return in.Block() == hdr }) {
						pre = true
					}
				}
			}
		}
		if !pre && viaCall != nil {
			// the pass may have stayed in the entry point, in front of the call of the helper
			eview := p.View(entry)
			for _, c := range p.callsTo(entry, wf) {
				for _, l := range eview.Loops() {
					if l.Body[c.Block()] && !l.Body[viaCall.Block()] {
						hdr := l.Header
						if eview.passedBefore(viaCall, func(in ssa.Instruction) bool { return in.Block() == hdr }) {
							pre = true
						}
					}
				}
			}
		}
		v := Holds
		d := ""
		if !pre {
			v = Violated
			d = "no definedness/well-formedness pass over all definitions precedes the contractivity walk (which dereferences environment entries of referenced names)"
		}
		r.add(name, "definedness-before-contractivity", v, p.instrPos(call), d)
	}
	// the preliminary phase returns this function's verdict unchanged
	// the phase of the driver that calls it returns its verdict unchanged (found by role)
	drv := findTypecheckDriver(p)
	okPre := false
	var pre *ssa.Function
	for _, ph := range drv.Phases {
		g := ph.Common().StaticCallee()
		for _, c := range p.callsTo(g, entry) {
			pre = g
			call := c.(*ssa.Call)
			for _, u := range *call.Referrers() {
				if _, ok := u.(*ssa.Return); ok {
					okPre = true
				}
			}
			// or: tested and returned on the non-nil edge
			gv := p.View(g)
			for _, b := range gv.Blocks() {
				if gv.holdsAt(b, call, factNonNil) {
					ins := gv.Instrs(b)
					if ret, ok := ins[len(ins)-1].(*ssa.Return); ok && isErrorValue(ret.Results[0], gv, b, map[ssa.Value]bool{}) {
						okPre = true
					}
				}
			}
		}
	}
	v := Holds
	if !okPre {
		v = Violated
	}
	prName, prPos := "process typechecking phases", ""
	if pre != nil {
		prName, prPos = fnName(pre), p.pos(pre.Pos())
	}
	r.add(prName, "returns-sanity-verdict", v, prPos, "")
	// constructors are guards: only the implementer that follows the environment may be non-constant
	ev := NewEvaluator(p)
	var followers []string
	for _, T := range p.sessionTypeImplementers() {
		m := p.Method(T, "isContractive")
		res := ev.Eval(m, []AVal{aDyn(types.NewPointer(T)), aTop, aTop})
		if b, ok := res.Ret.IsBool(); ok && b && !res.Panics {
			continue
		}
		followers = append(followers, T.Obj().Name())
		// must consult the environment (a name)
		follows := false
		for _, b := range m.Blocks {
			for _, in := range b.Instrs {
				if lk, ok := in.(*ssa.Lookup); ok && isNamed(lk.X.Type(), typesPkg, "LabelledTypesEnv") {
					follows = true
				}
			}
		}
		if !follows {
			r.add(fnName(m), "constructor-is-guard", Violated, p.pos(m.Pos()), "a structural constructor does not count as a guard (isContractive is not constantly true) although it does not follow a name")
		}
	}
	sort.Strings(followers)
	if len(followers) == 1 {
		r.add("types isContractive", "only-names-are-followed", Holds, "", "non-constant implementer: "+followers[0])
	} else {
		r.add("types isContractive", "only-names-are-followed", Violated, "", fmt.Sprintf("implementers whose isContractive is not constantly true: %v", followers))
	}
	// the walk through names rejects a cycle: on the branch where the name was already
	// visited (the comma-ok lookup in the visited set succeeded) the answer is false
	for _, T := range p.Implementers(p.Named(typesPkg, "SessionType")) {
		m := p.MethodOpt(T, "isContractive")
		if m == nil || m.Blocks == nil {
			continue
		}
		view := p.View(m)
		for _, b := range view.Blocks() {
			for f := range view.FactsAt(b) {
				ex, ok := f.v.(*ssa.Extract)
				if !ok || f.k != factTrue || ex.Index != 1 {
					continue
				}
				lk, ok := ex.Tuple.(*ssa.Lookup)
				if !ok || !lk.CommaOk {
					continue
				}
				if mt, ok := lk.X.Type().Underlying().(*types.Map); !ok || !types.Identical(mt.Elem(), types.Typ[types.Bool]) {
					continue
				}
				ins := view.Instrs(b)
				ret, ok := ins[len(ins)-1].(*ssa.Return)
				if !ok || len(ret.Results) != 1 {
					continue
				}
				c, isConst := ret.Results[0].(*ssa.Const)
				if isConst && c.Value != nil && c.Value.String() == "false" {
					r.add(fnName(m), "revisited-name-is-not-contractive", Holds, p.instrPos(ret), "")
				} else {
					r.add(fnName(m), "revisited-name-is-not-contractive", Violated, p.instrPos(ret), "a name that is reached again while only names were followed (a cycle of definitions without a constructor) is not reported as non-contractive: unfolding such a definition never ends")
				}
			}
		}
	}
}

func runUnfoldGuard(p *Program, r *RuleResult) {
	g := p.VTA()
	if useCHA {
		g = p.CHA()
	}
	allow := map[string]string{"types.Unfold": "relies on contractivity: every definition passed R-CONTRACTIVE-GATE and no phase runs after a failed one (R-PHASE-STOP)"}
	n := 0
	for _, fn := range p.SrcFuncs {
		if fn.Pkg == nil || fn.Pkg.Pkg.Path() != typesPkg || fn.Parent() != nil {
			continue
		}
		// reads an environment entry?
		var envLookups []*ssa.Lookup
		for _, b := range fn.Blocks {
			for _, in := range b.Instrs {
				if lk, ok := in.(*ssa.Lookup); ok && isNamed(lk.X.Type(), typesPkg, "LabelledTypesEnv") {
					envLookups = append(envLookups, lk)
				}
			}
		}
		if len(envLookups) == 0 {
			continue
		}
		// on a cycle? (can reach itself)
		reach := map[*ssa.Function]bool{}
		var walk func(f *ssa.Function)
		self := false
		walk = func(f *ssa.Function) {
			if f.Blocks == nil {
				return
			}
			for _, c := range p.callsIn(f) {
				for _, callee := range p.Callees(g, c) {
					if callee == fn {
						self = true
					}
					if !reach[callee] && p.isFirstParty(callee) {
						reach[callee] = true
						walk(callee)
					}
				}
			}
		}
		walk(fn)
		if !self {
			continue
		}
		n++
		name := fnName(fn)
		// does the recursion continue on something taken from the environment? (a value derived from the lookup is a receiver/argument of a call)
		follows := false
		for _, lk := range envLookups {
			if flowsIntoCall(lk, map[ssa.Value]bool{}, 0) {
				follows = true
			}
		}
		if !follows {
			r.add(name, "env-recursion", Holds, p.pos(fn.Pos()), "reads the environment but does not recurse on the entry it read")
			continue
		}
		visited := holderOf(fn, isMapStringBool)
		if visited == nil {
			if why, ok := allow[name]; ok {
				r.add(name, "env-recursion", Holds, p.pos(fn.Pos()), "allow-listed: "+why)
			} else {
				r.add(name, "env-recursion", Violated, p.pos(fn.Pos()), "follows type names through the environment recursively without a visited set: does not terminate on recursive definitions")
			}
			continue
		}
		// lookup of visited controls an exit, and an update exists before the recursion
		hasLookup, hasUpdate := false, false
		for _, b := range fn.Blocks {
			for _, in := range b.Instrs {
				switch x := in.(type) {
				case *ssa.Lookup:
					if visited.is(x.X) {
						hasLookup = true
					}
				case *ssa.MapUpdate:
					if visited.is(x.Map) {
						hasUpdate = true
					}
				}
			}
		}
		if hasLookup && hasUpdate {
			r.add(name, "env-recursion", Holds, p.pos(fn.Pos()), "guarded by a visited set")
		} else {
			r.add(name, "env-recursion", Violated, p.pos(fn.Pos()), "the visited set is not both consulted and extended")
		}
	}
	r.count("recursive environment followers", n)
}

// flowsIntoCall: a value derived from v (fields, extracts, loads through local copies)
// is the receiver or an argument of a call.
func flowsIntoCall(v ssa.Value, seen map[ssa.Value]bool, depth int) bool {
	if seen[v] || depth > 8 {
		return false
	}
	seen[v] = true
	refs := v.Referrers()
	if refs == nil {
		return false
	}
	for _, u := range *refs {
		switch x := u.(type) {
		case *ssa.Extract:
			if x.Index == 0 && flowsIntoCall(x, seen, depth+1) {
				return true
			}
		case *ssa.Field:
			if isSessionTypeType(x.Type()) && flowsIntoCall(x, seen, depth+1) {
				return true
			}
		case *ssa.FieldAddr:
			if flowsIntoCall(x, seen, depth+1) {
				return true
			}
		case *ssa.UnOp:
			if isSessionTypeType(x.Type()) && flowsIntoCall(x, seen, depth+1) {
				return true
			}
		case *ssa.Phi:
			if flowsIntoCall(x, seen, depth+1) {
				return true
			}
		case *ssa.Store:
			if x.Val == v {
				if al, ok := x.Addr.(*ssa.Alloc); ok && flowsIntoCall(al, seen, depth+1) {
					return true
				}
			}
		case ssa.CallInstruction:
			if isSessionTypeType(v.Type()) {
				com := x.Common()
				if com.IsInvoke() && com.Value == v && com.Method.Name() != "String" && com.Method.Name() != "Modality" && com.Method.Name() != "StringWithModality" {
					return true
				}
				for _, a := range com.Args {
					if a == v && com.StaticCallee() != nil && com.StaticCallee().Pkg != nil && com.StaticCallee().Pkg.Pkg.Path() == typesPkg {
						return true
					}
				}
			}
		}
	}
	return false
}

// R-MODE-UNIFORM (C10, C16): modes are uniform within a type except across shifts.
func init() {
	register(&Rule{Name: "R-MODE-UNIFORM", Min: 10,
		Doc: "in checkTypeModalities every non-shift constructor succeeds only if its own mode equals the expected mode, and hands exactly that expected mode down to every child (only shifts change the expected mode, to their source mode)",
		Run: runModeUniform})
}

func runModeUniform(p *Program, r *RuleResult) {
	shifts := map[*types.Named]bool{}
	for _, T := range p.shiftTypes() {
		shifts[T] = true
	}
	for _, T := range p.sessionTypeImplementers() {
		if shifts[T] {
			continue
		}
		fn := p.Method(T, "checkTypeModalities")
		view := p.View(fn)
		recv := fn.Params[0].Name()
		var modeParam *ssa.Parameter
		for _, prm := range fn.Params[1:] {
			if isModalityType(prm.Type()) {
				modeParam = prm
			}
		}
		if modeParam == nil {
			anchorFail("mode parameter of %s", fn)
		}
		var modeField string
		for _, f := range structFields(T) {
			if isModalityType(f.Type()) {
				modeField = f.Name()
			}
		}
		// (1) own mode == expected mode on every success path
		bad := ""
		for _, b := range view.Blocks() {
			ins := view.Instrs(b)
			ret, ok := ins[len(ins)-1].(*ssa.Return)
			if !ok || isErrorValue(ret.Results[0], view, b, map[ssa.Value]bool{}) {
				continue
			}
			okEq := false
			for f := range view.FactsAt(b) {
				c, isCall := f.v.(*ssa.Call)
				if isCall && f.k == factTrue && c.Common().IsInvoke() && c.Common().Method.Name() == "Equals" &&
					accessPath(c.Common().Value) == recv+"."+modeField && origin(c.Common().Args[0]) == ssa.Value(modeParam) {
					okEq = true
				}
			}
			if !okEq {
				bad = fmt.Sprintf("the success return at %s is not dominated by %s.%s.Equals(%s)", p.instrPos(ret), recv, modeField, modeParam.Name())
			}
		}
		if bad != "" {
			r.add(fnName(fn), "own-mode-equals-expected", Violated, p.pos(fn.Pos()), bad)
		} else {
			r.add(fnName(fn), "own-mode-equals-expected", Holds, p.pos(fn.Pos()), "")
		}
		// (2) children are checked against the same expected mode
		n := 0
		for _, c := range p.callsIn(fn) {
			com := c.Common()
			if !com.IsInvoke() || com.Method.Name() != fn.Name() {
				continue
			}
			n++
			child := lastSeg(strings.TrimSuffix(accessPath(com.Value), ".SessionType"))
			child = strings.TrimSuffix(child, "[]")
			construct := fmt.Sprintf("child-mode:%s#%d", child, n)
			var arg ssa.Value
			for _, a := range com.Args {
				if isModalityType(a.Type()) {
					arg = a
				}
			}
			if arg != nil && origin(arg) == ssa.Value(modeParam) {
				r.add(fnName(fn), construct, Holds, p.instrPos(c), "")
			} else {
				r.add(fnName(fn), construct, Violated, p.instrPos(c), fmt.Sprintf("child %s is checked against %s instead of the expected mode of the enclosing type: a component of a foreign mode is admitted without a shift", child, describeVal(arg)))
			}
		}
	}
}

// R-MODE-ASSIGN-GUARDED (C16, C10): an annotation written by the user is never overwritten.
func init() {
	register(&Rule{Name: "R-MODE-ASSIGN-GUARDED", Min: 3,
		Doc: "every store to the mode field of an existing type node (outside the constructors and copy functions, which write the field of the node they have just allocated) lies on the branch where that node's current mode was tested to be the unset mode: mode completion only fills in what the user left out",
		Run: runModeAssignGuarded})
}

func runModeAssignGuarded(p *Program, r *RuleResult) {
	stI := p.Named(typesPkg, "SessionType").Underlying().(*types.Interface)
	unset := p.Named(typesPkg, "UnsetMode")
	n := 0
	for _, fn := range p.SrcFuncs {
		if fn.Pkg == nil || fn.Pkg.Pkg.Path() != typesPkg || fn.Blocks == nil {
			continue
		}
		view := p.View(fn)
		ord := 0
		for _, b := range view.Blocks() {
			for _, in := range view.Instrs(b) {
				st, ok := in.(*ssa.Store)
				if !ok {
					continue
				}
				if prm, isPrm := st.Addr.(*ssa.Parameter); isPrm {
					// `*mode = m` in a helper that is handed the address of a node's mode field
					pt, isPtr := prm.Type().Underlying().(*types.Pointer)
					if !isPtr || !isNamed(pt.Elem(), typesPkg, "Modality") {
						continue
					}
					n++
					ord++
					construct := fmt.Sprintf("store-through-%s#%d", prm.Name(), ord)
					guarded := false
					for f := range view.FactsAt(b) {
						ex, ok := f.v.(*ssa.Extract)
						if f.k != factTrue || !ok || ex.Index != 1 {
							continue
						}
						ta, ok := ex.Tuple.(*ssa.TypeAssert)
						if !ok || !ta.CommaOk {
							continue
						}
						if nt := namedOf(ta.AssertedType); nt == nil || nt.Obj() != unset.Obj() {
							continue
						}
						if ld, ok := ta.X.(*ssa.UnOp); ok && ld.X == ssa.Value(prm) {
							guarded = true
						}
					}
					if guarded {
						r.add(fnName(fn), construct, Holds, p.instrPos(st), "on the branch where the pointed-to mode was unset")
					} else {
						r.add(fnName(fn), construct, Violated, p.instrPos(st), "the mode behind the pointer (a field of an existing type node at the call sites) is overwritten without a test that it was unset: a mode the user wrote is silently replaced")
					}
					continue
				}
				fa, ok := st.Addr.(*ssa.FieldAddr)
				if !ok {
					continue
				}
				owner := namedOf(fa.X.Type())
				if owner == nil || !(types.Implements(types.NewPointer(owner), stI) || types.Implements(owner, stI)) {
					continue
				}
				_, fname, _ := fieldNameOf(fa)
				ft := fa.Type().Underlying().(*types.Pointer).Elem()
				if !isNamed(ft, typesPkg, "Modality") {
					continue
				}
				// the node was allocated in this function: constructor / copy
				if _, fresh := origin(fa.X).(*ssa.Alloc); fresh {
					continue
				}
				n++
				ord++
				construct := fmt.Sprintf("store-%s.%s#%d", owner.Obj().Name(), fname, ord)
				key := exprKey(fa)
				guarded := false
				for f := range view.FactsAt(b) {
					if f.k != factTrue {
						continue
					}
					ex, ok := f.v.(*ssa.Extract)
					if !ok || ex.Index != 1 {
						continue
					}
					ta, ok := ex.Tuple.(*ssa.TypeAssert)
					if !ok || !ta.CommaOk {
						continue
					}
					if nt := namedOf(ta.AssertedType); nt == nil || nt.Obj() != unset.Obj() {
						continue
					}
					if ld, ok := ta.X.(*ssa.UnOp); ok && exprKey(ld.X) == key && key != "" {
						guarded = true
					}
				}
				if guarded {
					r.add(fnName(fn), construct, Holds, p.instrPos(st), "on the branch where the field held the unset mode")
				} else {
					r.add(fnName(fn), construct, Violated, p.instrPos(st),
						fmt.Sprintf("the mode of an existing %s node is overwritten without a test that it was unset: a mode the user wrote is silently replaced (annotation not respected, inference not stable under adding the inferred annotation)", owner.Obj().Name()))
				}
			}
		}
	}
	r.count("mode stores into existing nodes", n)
}
