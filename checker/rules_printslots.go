package main

import (
	"fmt"
	"go/ast"
	"go/parser"
	"go/token"
	"go/types"
	"path/filepath"
	"regexp"
	"strconv"
	"strings"

	"golang.org/x/tools/go/ssa"
)

// R-PRINT-SLOTS (C15): the printer puts each field in the slot from which the grammar
// action reads it back (writer's and reader's tables agree field by field).

func init() {
	register(&Rule{Name: "R-PRINT-SLOTS", Min: 30,
		Doc: "for every printed form/type, each field printed at position k of its production is the field that the grammar's semantic action builds from $k (constructor parameter -> stored field, through the SessionTypeInitial conversion for types)",
		Run: runPrintSlots})
}

var dollarRe = regexp.MustCompile(`\$(\$|[0-9]+)`)

// actionConstructor parses a yacc action and returns the constructor called for $$ and,
// per constructor argument, the production slot ($k) it is built from (0 = not a slot).
func actionConstructor(action string) (pkg, ctor string, slots []int, ok bool) {
	src := dollarRe.ReplaceAllStringFunc(action, func(m string) string {
		if m == "$$" {
			return "RES__"
		}
		return "S__" + m[1:]
	})
	fset := token.NewFileSet()
	f, err := parser.ParseFile(fset, "action.go", "package p\nfunc _() {\n"+src+"\n}", 0)
	if err != nil {
		return "", "", nil, false
	}
	fd := f.Decls[0].(*ast.FuncDecl)
	defs := map[string]ast.Expr{}
	var res ast.Expr
	ast.Inspect(fd.Body, func(n ast.Node) bool {
		as, isAs := n.(*ast.AssignStmt)
		if !isAs || len(as.Lhs) != 1 || len(as.Rhs) != 1 {
			return true
		}
		if id, isId := as.Lhs[0].(*ast.Ident); isId {
			if id.Name == "RES__" {
				res = as.Rhs[0]
			} else {
				defs[id.Name] = as.Rhs[0]
			}
		}
		return true
	})
	if res == nil {
		return "", "", nil, false
	}
	var slotOf func(e ast.Expr, depth int) int
	slotOf = func(e ast.Expr, depth int) int {
		if depth > 5 {
			return 0
		}
		switch x := e.(type) {
		case *ast.Ident:
			if strings.HasPrefix(x.Name, "S__") {
				k, _ := strconv.Atoi(x.Name[3:])
				return k
			}
			if d, isDef := defs[x.Name]; isDef {
				return slotOf(d, depth+1)
			}
		case *ast.CallExpr:
			if len(x.Args) == 1 {
				return slotOf(x.Args[0], depth+1)
			}
		case *ast.UnaryExpr:
			return slotOf(x.X, depth+1)
		case *ast.StarExpr:
			return slotOf(x.X, depth+1)
		case *ast.ParenExpr:
			return slotOf(x.X, depth+1)
		case *ast.CompositeLit:
			// a wrapper literal with exactly one slot-derived element, e.g. process.Label{L: $3}
			found := 0
			for _, el := range x.Elts {
				v := el
				if kv, isKV := el.(*ast.KeyValueExpr); isKV {
					v = kv.Value
				}
				if k := slotOf(v, depth+1); k != 0 {
					if found != 0 && found != k {
						return 0
					}
					found = k
				}
			}
			return found
		}
		return 0
	}
	call, isCall := res.(*ast.CallExpr)
	if !isCall {
		return "", "", nil, false
	}
	switch fn := call.Fun.(type) {
	case *ast.SelectorExpr:
		if id, isId := fn.X.(*ast.Ident); isId {
			pkg = id.Name
		}
		ctor = fn.Sel.Name
	case *ast.Ident:
		ctor = fn.Name
	default:
		return "", "", nil, false
	}
	for _, a := range call.Args {
		slots = append(slots, slotOf(a, 0))
	}
	return pkg, ctor, slots, true
}

// ctorParamFields: for a constructor returning a fresh struct, the field each parameter is stored into.
func ctorParamFields(fn *ssa.Function) []string {
	out := make([]string, len(fn.Params))
	for _, b := range fn.Blocks {
		for _, in := range b.Instrs {
			st, ok := in.(*ssa.Store)
			if !ok {
				continue
			}
			fa, ok := st.Addr.(*ssa.FieldAddr)
			if !ok {
				continue
			}
			if _, isAlloc := fa.X.(*ssa.Alloc); !isAlloc {
				continue
			}
			for i, prm := range fn.Params {
				if st.Val == ssa.Value(prm) {
					_, n, _ := fieldNameOf(fa)
					out[i] = n
				}
			}
		}
	}
	return out
}

// conversionFieldMap: for `func (q *XInitial) toSessionType(...)`, which field of the
// receiver feeds which parameter of the final constructor; returns the final constructor too.
func conversionFieldMap(p *Program, conv *ssa.Function) (final *ssa.Function, paramFromField []string) {
	for _, b := range conv.Blocks {
		for _, in := range b.Instrs {
			ret, ok := in.(*ssa.Return)
			if !ok || len(ret.Results) != 1 {
				continue
			}
			v := ret.Results[0]
			if mi, isMI := v.(*ssa.MakeInterface); isMI {
				v = mi.X
			}
			call, isCall := v.(*ssa.Call)
			if !isCall || call.Common().StaticCallee() == nil || !p.isFirstParty(call.Common().StaticCallee()) {
				continue
			}
			final = call.Common().StaticCallee()
			paramFromField = make([]string, len(call.Common().Args))
			for i, a := range call.Common().Args {
				// direct field, or a recursive conversion of a field
				x := a
				if c, isC := x.(*ssa.Call); isC && c.Common().IsInvoke() {
					x = c.Common().Value
				}
				if ld, isLd := x.(*ssa.UnOp); isLd {
					if fa, isFA := ld.X.(*ssa.FieldAddr); isFA && fa.X == ssa.Value(conv.Params[0]) {
						_, n, _ := fieldNameOf(fa)
						paramFromField[i] = n
					}
				}
			}
		}
	}
	return final, paramFromField
}

func runPrintSlots(p *Program, r *RuleResult) {
	if len(printInfosCache) == 0 {
		runPrintGrammar(p, &RuleResult{Rule: "R-PRINT-GRAMMAR"})
	}
	g, err := parseYacc(filepath.Join(p.RepoDir, "parser", "parser.y"))
	if err != nil {
		r.add("parser/parser.y", "grammar-readable", Undecided, "", err.Error())
		return
	}
	_ = g
	pkgPath := map[string]string{"types": typesPkg, "process": processPkg}
	nChecked := 0
	for _, nt := range []string{"session_type_init", "expression"} {
		for _, pi := range printInfosCache[nt] {
			name := fnName(pi.Fn)
			if pi.Prod.Action == "" {
				r.add(name, "action-of-production", Undecided, p.pos(pi.Fn.Pos()), "no semantic action captured for the matched production")
				continue
			}
			pk, ctorName, slots, ok := actionConstructor(pi.Prod.Action)
			if !ok {
				r.add(name, "action-of-production", Undecided, p.pos(pi.Fn.Pos()), "the semantic action does not assign a constructor call to $$")
				continue
			}
			ctor := p.FuncOpt(pkgPath[pk], ctorName)
			if ctor == nil {
				r.add(name, "action-of-production", Undecided, p.pos(pi.Fn.Pos()), "constructor "+pk+"."+ctorName+" not found")
				continue
			}
			// slot k -> field of the printed type
			fields := ctorParamFields(ctor)
			slotField := map[int]string{}
			resT := namedOf(ctor.Signature.Results().At(0).Type())
			if resT != nil && resT != pi.T {
				// through the Initial -> final conversion
				conv := p.MethodOpt(resT, "toSessionType")
				if conv == nil {
					r.add(name, "action-of-production", Undecided, p.pos(pi.Fn.Pos()), fmt.Sprintf("the action builds a %s, which is not the printed type and has no conversion", resT.Obj().Name()))
					continue
				}
				final, fromField := conversionFieldMap(p, conv)
				if final != nil && namedOf(final.Signature.Results().At(0).Type()) != nil && namedOf(final.Signature.Results().At(0).Type()) != pi.T {
					built := namedOf(final.Signature.Results().At(0).Type()).Obj().Name()
					r.add(name, "action-of-production", Violated, p.pos(pi.Fn.Pos()), fmt.Sprintf("the text printed for %s is the production whose action builds a %s: it parses back to a different constructor, and two different types print alike (their printed form is the memo key of type equality)", pi.T.Obj().Name(), built))
					continue
				}
				if final == nil || namedOf(final.Signature.Results().At(0).Type()) != pi.T {
					r.add(name, "action-of-production", Undecided, p.pos(pi.Fn.Pos()), "the conversion of "+resT.Obj().Name()+" does not build the printed type")
					continue
				}
				finalFields := ctorParamFields(final)
				for j, k := range slots {
					if k == 0 || j >= len(fields) || fields[j] == "" {
						continue
					}
					for i, ff := range fromField {
						if ff == fields[j] && i < len(finalFields) && finalFields[i] != "" {
							slotField[k] = finalFields[i]
						}
					}
				}
			} else {
				for j, k := range slots {
					if k != 0 && j < len(fields) && fields[j] != "" {
						slotField[k] = fields[j]
					}
				}
			}
			// compare with the printed symbols
			for i, s := range pi.Syms {
				k := i + 1
				want, has := slotField[k]
				if !has {
					continue
				}
				var got string
				switch s.Kind {
				case symChild, symAtom, symList:
					got = lastSeg(strings.TrimSuffix(s.Field, "[]"))
				default:
					continue
				}
				if got == "" {
					continue
				}
				nChecked++
				construct := fmt.Sprintf("slot-%d:%s", k, want)
				if got == want {
					r.add(name, construct, Holds, p.pos(pi.Fn.Pos()), fmt.Sprintf("$%d -> %s.%s, printed there", k, pi.T.Obj().Name(), want))
				} else {
					r.add(name, construct, Violated, p.pos(pi.Fn.Pos()),
						fmt.Sprintf("position %d of the printed text shows field %s, but the parser builds field %s from $%d: the text parses back to a different %s", k, got, want, k, pi.T.Obj().Name()))
				}
			}
		}
	}
	r.count("field/slot pairs checked", nChecked)
}

// R-PRINT-PURE (C15): printing a term does not change it and depends only on it.
func init() {
	register(&Rule{Name: "R-PRINT-PURE", Min: 30,
		Doc: "the String methods of the form and type constructors (and the helpers in their own package that they call with the receiver) store nothing into the term they print: a printer that caches its text in the term keeps printing the old text after a substitution, so two different terms print alike",
		Run: runPrintPure})
}

func runPrintPure(p *Program, r *RuleResult) {
	n := 0
	for _, iface := range []*types.Named{p.Named(processPkg, "Form"), p.Named(typesPkg, "SessionType")} {
		for _, T := range p.Implementers(iface) {
			for _, mname := range []string{"String", "StringShort", "StringWithModality", "StringWithOuterModality"} {
				fn := p.MethodOpt(T, mname)
				if fn == nil || fn.Blocks == nil {
					continue
				}
				n++
				bad := ""
				recv := fn.Params[0]
				for _, b := range fn.Blocks {
					for _, in := range b.Instrs {
						st, ok := in.(*ssa.Store)
						if !ok {
							continue
						}
						// a store through the receiver
						root := st.Addr
						for d := 0; d < 6; d++ {
							switch x := root.(type) {
							case *ssa.FieldAddr:
								root = x.X
								continue
							case *ssa.IndexAddr:
								root = x.X
								continue
							case *ssa.UnOp:
								root = x.X
								continue
							}
							break
						}
						if root == ssa.Value(recv) {
							_, f, _ := fieldNameOf(st.Addr)
							bad = fmt.Sprintf("it stores into the term it prints (field %s at %s)", f, p.instrPos(st))
						}
					}
				}
				if bad == "" && !p.writesNothingOutside(fn) {
					bad = "it is not read-only (" + p.roWhy[fn] + ")"
				}
				construct := "printer:" + mname
				if bad != "" {
					r.add(fnName(fn), construct, Violated, p.pos(fn.Pos()), bad+": the printed text is no longer a function of the term alone (a cached text survives substitutions)")
				} else {
					r.add(fnName(fn), construct, Holds, p.pos(fn.Pos()), "")
				}
			}
		}
	}
	r.count("printer methods", n)
}
