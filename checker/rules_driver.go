package main

import (
	"fmt"
	"go/types"
	"strings"

	"golang.org/x/tools/go/ssa"
)

// Typechecker driver rules: R-PHASE-STOP, R-NO-DEFERRED-SUCCESS (C09, C19, C18).

type tcDriver struct {
	Entry   *ssa.Function // process.Typecheck
	Driver  *ssa.Function // function running the phases (goroutine body or Entry)
	Go      *ssa.Go
	Phases  []*ssa.Call    // calls to first-party functions whose only result is error (in PhaseFn)
	PhaseFn *ssa.Function  // the function that runs the phases: Driver, or the function Driver delegates to
	Outer   []*ssa.Call    // when PhaseFn != Driver: the call of PhaseFn in Driver
	Success *ssa.Parameter // success channel parameter of the driver (nil when no goroutine)
	ErrChan *ssa.Parameter
}

func findTypecheckDriver(p *Program) *tcDriver {
	d := &tcDriver{Entry: p.Func(processPkg, "Typecheck")}
	d.Driver = d.Entry
	for _, c := range p.callsIn(d.Entry) {
		if g, ok := c.(*ssa.Go); ok {
			if sc := g.Common().StaticCallee(); sc != nil && p.isFirstParty(sc) && sc.Blocks != nil {
				d.Go = g
				d.Driver = sc
			}
		}
	}
	for _, c := range p.callsIn(d.Driver) {
		call, ok := c.(*ssa.Call)
		if !ok {
			continue
		}
		sc := call.Common().StaticCallee()
		if sc == nil || !p.isFirstParty(sc) {
			continue
		}
		res := sc.Signature.Results()
		if res.Len() == 1 && isErrorType(res.At(0).Type()) {
			d.Phases = append(d.Phases, call)
		}
	}
	// the phases may have been moved into a function of their own whose error the driver
	// hands on (`if err := runPhases(...); err != nil { errorChan <- err; return }`)
	d.PhaseFn = d.Driver
	if len(d.Phases) == 1 {
		inner := d.Phases[0].Common().StaticCallee()
		var innerPhases []*ssa.Call
		for _, c := range p.callsIn(inner) {
			call, ok := c.(*ssa.Call)
			if !ok {
				continue
			}
			sc := call.Common().StaticCallee()
			if sc == nil || !p.isFirstParty(sc) {
				continue
			}
			res := sc.Signature.Results()
			if res.Len() == 1 && isErrorType(res.At(0).Type()) {
				innerPhases = append(innerPhases, call)
			}
		}
		if len(innerPhases) >= 2 {
			d.Outer = d.Phases
			d.Phases = innerPhases
			d.PhaseFn = inner
		}
	}
	if d.Go != nil {
		// classify the channels of the select in Entry
		for _, b := range d.Entry.Blocks {
			for _, in := range b.Instrs {
				sel, ok := in.(*ssa.Select)
				if !ok {
					continue
				}
				recvIdx := 0
				for _, st := range sel.States {
					if st.Dir != types.RecvOnly {
						continue
					}
					tupleIdx := 2 + recvIdx
					recvIdx++
					returned := false
					if refs := sel.Referrers(); refs != nil {
						for _, r := range *refs {
							if ex, ok := r.(*ssa.Extract); ok && ex.Index == tupleIdx {
								if er := ex.Referrers(); er != nil {
									for _, u := range *er {
										if _, ok := u.(*ssa.Return); ok {
											returned = true
										}
									}
								}
							}
						}
					}
					// map the channel to the driver's parameter
					for ai, a := range d.Go.Common().Args {
						if a == st.Chan && ai < len(d.Driver.Params) {
							if returned {
								d.ErrChan = d.Driver.Params[ai]
							} else {
								d.Success = d.Driver.Params[ai]
							}
						}
					}
				}
			}
		}
	}
	return d
}

func init() {
	register(&Rule{Name: "R-PHASE-STOP", Min: 4,
		Doc: "in the typechecking driver, once a phase has produced a non-nil error no later phase runs",
		Run: runPhaseStop})
	register(&Rule{Name: "R-NO-DEFERRED-SUCCESS", Min: 1,
		Doc: "the driver's success signal is produced only on the normal-completion path: never from a deferred function or a recover path, and only after every phase result was nil",
		Run: runNoDeferredSuccess})
}

func isPhase(d *tcDriver, in ssa.Instruction) bool {
	for _, ph := range d.Phases {
		if ssa.Instruction(ph) == in {
			return true
		}
	}
	return false
}

func runPhaseStop(p *Program, r *RuleResult) {
	d := findTypecheckDriver(p)
	v := p.View(d.PhaseFn)
	fn := fnName(d.PhaseFn)
	r.count("driver functions", 1)
	r.count("phase calls", len(d.Phases))
	for _, ph := range d.Phases {
		name := "phase:" + ph.Common().StaticCallee().Name()
		// find the tests of the result
		var tests []*ssa.If
		var nonNilSucc []*ssa.BasicBlock
		for _, b := range v.Blocks() {
			ins := v.Instrs(b)
			if len(ins) == 0 {
				continue
			}
			iff, ok := ins[len(ins)-1].(*ssa.If)
			if !ok {
				continue
			}
			for i := 0; i < 2; i++ {
				fs := factSet{}
				addCondFacts(fs, iff.Cond, i == 0)
				if fs[fact{ph, factNonNil}] {
					tests = append(tests, iff)
					nonNilSucc = append(nonNilSucc, b.Succs[i])
				}
			}
		}
		if len(tests) == 0 {
			// result not tested: acceptable only if no other phase can run afterwards
			later := v.mayReachFrom(ph, nil, func(in ssa.Instruction) bool { return isPhase(d, in) }, nil)
			if len(later) == 0 {
				r.add(fn, name, Holds, p.instrPos(ph), "last phase; its result is not branched on and no phase follows")
			} else {
				r.add(fn, name, Violated, p.instrPos(ph), fmt.Sprintf("the error result is never tested, and phase %s may run afterwards", later[0].(*ssa.Call).Common().StaticCallee().Name()))
			}
			continue
		}
		bad := ""
		for _, s := range nonNilSucc {
			hits := v.mayReachFrom(nil, s, func(in ssa.Instruction) bool { return isPhase(d, in) }, nil)
			if len(hits) > 0 {
				bad = fmt.Sprintf("after %s returned a non-nil error, control can still reach phase %s at %s (the error edge does not leave the driver)",
					ph.Common().StaticCallee().Name(), hits[0].(*ssa.Call).Common().StaticCallee().Name(), p.instrPos(hits[0]))
				break
			}
		}
		if bad != "" {
			r.add(fn, name, Violated, p.instrPos(ph), bad)
		} else {
			r.add(fn, name, Holds, p.instrPos(ph), "no phase reachable from the non-nil edge")
		}
	}
	if d.PhaseFn != d.Driver {
		// the function holding the phases answers nil only when every phase did
		for _, b := range v.Blocks() {
			ins := v.Instrs(b)
			ret, ok := ins[len(ins)-1].(*ssa.Return)
			if !ok || len(ret.Results) != 1 || isErrorValue(ret.Results[0], v, b, map[ssa.Value]bool{}) {
				continue
			}
			bad := ""
			for _, ph := range d.Phases {
				if ret.Results[0] == ssa.Value(ph) {
					continue // the last phase's own result is handed back
				}
				if !v.holdsAt(b, ph, factNil) {
					bad = ph.Common().StaticCallee().Name()
				}
			}
			if bad != "" {
				r.add(fn, "phases-result", Violated, p.instrPos(ret), "the function running the phases can return nil although the result of phase "+bad+" was not established to be nil")
			} else {
				r.add(fn, "phases-result", Holds, p.instrPos(ret), "nil only after every phase returned nil")
			}
		}
	}
}

// sendsOn finds Send instructions, in fn and its closures, whose channel originates in param.
func sendsOn(fn *ssa.Function, param *ssa.Parameter) []*ssa.Send {
	var out []*ssa.Send
	var visit func(f *ssa.Function)
	visit = func(f *ssa.Function) {
		for _, b := range f.Blocks {
			for _, in := range b.Instrs {
				if s, ok := in.(*ssa.Send); ok && origin(s.Chan) == ssa.Value(param) {
					out = append(out, s)
				}
			}
		}
		for _, an := range f.AnonFuncs {
			visit(an)
		}
	}
	visit(fn)
	return out
}

func runNoDeferredSuccess(p *Program, r *RuleResult) {
	d := findTypecheckDriver(p)
	fn := fnName(d.Driver)
	v := p.View(d.Driver)
	driverPhases := d.Phases
	if d.PhaseFn != d.Driver {
		driverPhases = d.Outer
	}
	allNil := func(b *ssa.BasicBlock) (bool, string) {
		for _, ph := range driverPhases {
			if !v.holdsAt(b, ph, factNil) {
				return false, ph.Common().StaticCallee().Name()
			}
		}
		return true, ""
	}
	if d.Go == nil || d.Success == nil {
		// direct style: success = return of a nil error from the driver
		n := 0
		for _, b := range v.Blocks() {
			ins := v.Instrs(b)
			if len(ins) == 0 {
				continue
			}
			ret, ok := ins[len(ins)-1].(*ssa.Return)
			if !ok || len(ret.Results) == 0 {
				continue
			}
			last := ret.Results[len(ret.Results)-1]
			if !isNilConst(last) {
				continue
			}
			n++
			if d.Driver.Recover != nil && v.blocksReachableFrom(d.Driver.Recover)[b] {
				r.add(fn, "success-return", Violated, p.instrPos(ret), "a nil (success) result is returned on the recover path")
				continue
			}
			if ok, which := allNil(b); !ok {
				r.add(fn, "success-return", Violated, p.instrPos(ret), "success is returned on a path where the result of phase "+which+" was not established to be nil")
			} else {
				r.add(fn, "success-return", Holds, p.instrPos(ret), "")
			}
		}
		if n == 0 {
			r.add(fn, "success-return", Undecided, p.pos(d.Driver.Pos()), "no success signal found in the driver")
		}
		return
	}
	sends := sendsOn(d.Driver, d.Success)
	r.count("success sends", len(sends))
	if len(sends) == 0 {
		r.add(fn, "success-send", Undecided, p.pos(d.Driver.Pos()), "no send on the success channel found")
		return
	}
	for _, s := range sends {
		in := s.Parent()
		if in != d.Driver {
			// in a closure: how is the closure used?
			deferred := false
			for _, mc := range closureSites(in) {
				if refs := mc.Referrers(); refs != nil {
					for _, u := range *refs {
						if df, ok := u.(*ssa.Defer); ok && df.Call.Value == ssa.Value(mc) {
							deferred = true
						}
					}
				}
			}
			if deferred {
				r.add(fn, "success-send", Violated, p.instrPos(s), "the success signal is sent from a deferred function, so it is also sent while a panic unwinds and after an error was reported")
			} else {
				r.add(fn, "success-send", Undecided, p.instrPos(s), "the success signal is sent from a closure whose call sites are not analysed")
			}
			continue
		}
		if d.Driver.Recover != nil && v.blocksReachableFrom(d.Driver.Recover)[s.Block()] {
			r.add(fn, "success-send", Violated, p.instrPos(s), "the success signal is reachable from the recover block")
			continue
		}
		if ok, which := allNil(s.Block()); !ok {
			r.add(fn, "success-send", Violated, p.instrPos(s), "success is signalled on a path where the result of phase "+which+" was not established to be nil")
			continue
		}
		r.add(fn, "success-send", Holds, p.instrPos(s), "dominated by the nil edge of every phase result")
	}
}

// R-PANIC-INVENTORY (C09): every explicit panic reachable from the typechecking driver is
// discharged by a named rule; a new panic site is reported.
func init() {
	register(&Rule{Name: "R-PANIC-INVENTORY", Min: 10,
		Doc: "every explicit panic instruction in a first-party function reachable (call graph) from the typechecking driver belongs to a class that another rule proves unreachable: Polarity of a type name (R-UNFOLDED-POLARITY), shift tables of special modes and their defaults (R-UNSET-REJECTED, R-EXHAUSTIVE), defaults of exhaustive dispatchers (R-EXHAUSTIVE), code behind a never-set flag (R-DEAD-FLAG clause here); any other panic site is a violation",
		Run: runPanicInventory})
	ruleUsesCallGraph["R-PANIC-INVENTORY"] = true
}

func runPanicInventory(p *Program, r *RuleResult) {
	d := findTypecheckDriver(p)
	reach := p.reachableFuncs([]*ssa.Function{d.Driver}, useCHA)
	stI := p.Named(typesPkg, "SessionType").Underlying().(*types.Interface)
	modI := p.Named(typesPkg, "Modality").Underlying().(*types.Interface)
	nSites := 0
	for _, fn := range sortedFuncs(reach) {
		if fn.Blocks == nil || !p.isFirstParty(fn) {
			continue
		}
		view := p.View(fn)
		ord := 0
		for _, b := range view.Blocks() {
			ins := view.Instrs(b)
			pn, ok := ins[len(ins)-1].(*ssa.Panic)
			if !ok {
				continue
			}
			nSites++
			ord++
			construct := fmt.Sprintf("panic#%d", ord)
			recvT := types.Type(nil)
			if fn.Signature.Recv() != nil {
				recvT = fn.Signature.Recv().Type()
			}
			class := ""
			switch {
			case recvT != nil && types.Implements(recvT, stI) && fn.Name() == "Polarity":
				class = "Polarity of a type name: receivers are unfolded (R-UNFOLDED-POLARITY)"
			case recvT != nil && types.Implements(recvT, modI) && strings.HasPrefix(fn.Name(), "CanBe"):
				class = "shift table: special modes are rejected before any query and the proper modes are handled exhaustively (R-UNSET-REJECTED, R-EXHAUSTIVE)"
			default:
				// default of a type switch chain with a failing default (same criterion as R-EXHAUSTIVE)
				isSwitchDefault := false
				for f := range view.FactsAt(b) {
					if ex, ok := f.v.(*ssa.Extract); ok && f.k == factFalse && ex.Index == 1 {
						if _, ok := ex.Tuple.(*ssa.TypeAssert); ok {
							isSwitchDefault = true
						}
					}
				}
				if len(b.Preds) > 1 {
					// join of the default and of inner failed assertions (CopyType): accept when the function is a dispatcher judged by R-EXHAUSTIVE
					nAssert := 0
					for _, bb := range fn.Blocks {
						for _, in := range bb.Instrs {
							if ta, ok := in.(*ssa.TypeAssert); ok && ta.CommaOk {
								nAssert++
							}
						}
					}
					if nAssert >= 4 {
						isSwitchDefault = true
					}
				}
				if isSwitchDefault {
					class = "default of a dispatcher over a closed sum (R-EXHAUSTIVE)"
				}
				// behind a flag that is never set
				if class == "" {
					for f := range view.FactsAt(b) {
						ap := accessPath(f.v)
						if ap == "" || (f.k != factTrue && f.k != factFalse) {
							continue
						}
						_, fname, okF := fieldNameOf(func() ssa.Value {
							if ld, ok := f.v.(*ssa.UnOp); ok {
								return ld.X
							}
							return f.v
						}())
						if !okF {
							continue
						}
						if p.fieldNeverStored(fname, f.k == factTrue) {
							class = "behind field " + fname + ", which is never assigned the value that leads here (dead flag)"
						}
					}
				}
			}
			if class == "" {
				r.add(fnName(fn), construct, Violated, p.instrPos(pn), "an explicit panic reachable from the typechecker that no rule proves unreachable: typechecking is not total")
			} else {
				r.add(fnName(fn), construct, Holds, p.instrPos(pn), class)
			}
		}
	}
	r.count("explicit panic sites reachable from the driver", nSites)
	r.count("functions reachable from the driver", len(reach))
}

// fieldNeverStored: no store anywhere in first-party code assigns the boolean constant
// `val` (or a non-constant) to a field of that name.
func (p *Program) fieldNeverStored(field string, val bool) bool {
	for _, fn := range p.SrcFuncs {
		for _, b := range fn.Blocks {
			for _, in := range b.Instrs {
				st, ok := in.(*ssa.Store)
				if !ok {
					continue
				}
				if _, n, ok := fieldNameOf(st.Addr); !ok || n != field {
					continue
				}
				c, isC := st.Val.(*ssa.Const)
				if !isC || c.Value == nil {
					return false
				}
				if (c.Value.String() == "true") == val {
					return false
				}
			}
		}
	}
	return true
}

// R-UNFOLD-AFTER-GATE (C09, C08): Unfold relies on contractive definitions, so nothing below
// the typechecking entry point may reach it before the contractivity gate has passed.
func init() {
	register(&Rule{Name: "R-UNFOLD-AFTER-GATE", Min: 2,
		Doc: "from the typechecking entry point down to the function that holds the contractivity test, every call through which types.Unfold (the environment-following recursion without a visited set) is reachable is made on the nil edge of the call that leads to the gate: an environment built eagerly before the preliminary checks unfolds a cyclic definition and overflows the stack instead of reporting it",
		Run: runUnfoldAfterGate})
}

func runUnfoldAfterGate(p *Program, r *RuleResult) {
	gate := p.Func(typesPkg, "SanityChecksTypeDefinitions")
	unfold := p.Func(typesPkg, "Unfold")
	d := findTypecheckDriver(p)
	reachMemo := map[*ssa.Function]map[*ssa.Function]bool{}
	reaches := func(from, to *ssa.Function) bool {
		if from == nil {
			return false
		}
		if from == to {
			return true
		}
		m, ok := reachMemo[from]
		if !ok {
			m = p.reachableFuncs([]*ssa.Function{from}, useCHA)
			reachMemo[from] = m
		}
		return m[to]
	}
	calleesOf := func(c ssa.CallInstruction) []*ssa.Function {
		g := p.VTA()
		if useCHA {
			g = p.CHA()
		}
		return p.Callees(g, c)
	}
	n := 0
	seen := map[*ssa.Function]bool{}
	var visit func(fn *ssa.Function)
	visit = func(fn *ssa.Function) {
		if seen[fn] || fn == gate || fn.Blocks == nil {
			return
		}
		seen[fn] = true
		view := p.View(fn)
		var gateCalls []ssa.CallInstruction
		for _, c := range p.callsIn(fn) {
			for _, callee := range calleesOf(c) {
				if reaches(callee, gate) {
					gateCalls = append(gateCalls, c)
				}
			}
		}
		if len(gateCalls) == 0 {
			return
		}
		isGateCall := func(c ssa.CallInstruction) bool {
			for _, g := range gateCalls {
				if g == c {
					return true
				}
			}
			return false
		}
		ord := 0
		for _, c := range p.callsIn(fn) {
			if isGateCall(c) {
				continue
			}
			toUnfold := false
			for _, callee := range calleesOf(c) {
				if reaches(callee, unfold) {
					toUnfold = true
				}
			}
			if !toUnfold {
				continue
			}
			n++
			ord++
			what := "dynamic call"
			if sc := c.Common().StaticCallee(); sc != nil {
				what = sc.Name()
			}
			construct := fmt.Sprintf("unfold-reaching-call#%d:%s", ord, what)
			after := false
			for _, g := range gateCalls {
				gv, isVal := g.(*ssa.Call)
				if isVal && view.holdsAt(c.Block(), gv, factNil) {
					after = true
				}
			}
			if after {
				r.add(fnName(fn), construct, Holds, p.instrPos(c), "made on the nil edge of the call that leads to the contractivity gate")
			} else {
				r.add(fnName(fn), construct, Violated, p.instrPos(c),
					fmt.Sprintf("%s can reach types.Unfold, but it is not made after the call leading to the contractivity gate returned nil: on a cyclic type definition (type A = B; type B = A) Unfold recurses until the stack overflows, which kills the host process", what))
			}
		}
		for _, g := range gateCalls {
			for _, callee := range calleesOf(g) {
				if reaches(callee, gate) {
					visit(callee)
				}
			}
		}
	}
	visit(d.Entry)
	r.count("calls reaching Unfold on the way to the gate", n)
}
