#!/bin/bash
# for every stored seed: does the check of the seed's own property fail?
cd /verif
for d in seeded/*/; do
  id=$(basename $d); prop=${id%-*}
  p=$d/patch.diff; [ -f $d/patch_rebased.diff ] && p=$d/patch_rebased.diff
  out=$(tools/seed_check.sh /verif/$p 2>&1)
  if echo "$out" | grep -q "^== $prop exit=1"; then echo "$id OK"; else echo "$id NOT-BY-OWN-PROPERTY: $(echo "$out" | grep -o '^== C[0-9]*' | tr '\n' ' ')"; fi
done
