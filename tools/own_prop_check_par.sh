#!/bin/bash
# usage: own_prop_check_par.sh <scratch-worktree> <seed-dir>...   (development aid)
# For every given stored seed: apply it to the scratch worktree and run the quick check of the
# seed's OWN property against that worktree; the check must exit 1 with a VIOLATION line.
export GOFLAGS=-mod=mod GOPROXY=off GOSUMDB=off GOTOOLCHAIN=local
wt="$1"; shift
bin=${GRITSCHECK:-/verif/bin/gritscheck}
for d in "$@"; do
  id=$(basename $d); prop=${id%-*}
  p=$d/patch.diff; [ -f $d/patch_rebased.diff ] && p=$d/patch_rebased.diff
  cd "$wt" || exit 2
  git checkout -q -- . ; git clean -fdq -e OUT -e SEEDED
  if ! git apply "$p" 2>/dev/null; then echo "$id DOES-NOT-APPLY"; continue; fi
  out=$($bin -verif /verif -prop $prop -tier quick -repo "$wt" -evidence-dir /tmp/evaudit_$(basename "$wt") 2>&1); code=$?
  if [ $code -eq 1 ] && echo "$out" | grep -q "^VIOLATION property=$prop "; then
    echo "$id OK $(echo "$out" | grep -o 'rule R-[A-Z-]* \[[a-z]*\]' | sort -u | head -3 | tr '\n' ';')"
  else echo "$id NOT-BY-OWN-PROPERTY (exit $code)"; fi
  git checkout -q -- . ; git clean -fdq -e OUT -e SEEDED
done
