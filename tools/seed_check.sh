#!/bin/bash
# usage: seed_check.sh <patch.diff>   — applies a seeded patch to /repo, runs every quick check
# (evidence redirected to a scratch directory), prints which properties/rules report it, reverts.
set -u
patch="$1"
cd /repo || exit 2
if ! git diff --quiet; then echo "/repo has uncommitted changes"; exit 2; fi
git apply "$patch" || { echo "patch does not apply"; exit 2; }
trap 'git -C /repo checkout -- . >/dev/null 2>&1' EXIT
trap '' PIPE
ev=$(mktemp -d)
for p in $(python3 -c "import json;print(' '.join(c['property_id'] for c in json.load(open('/verif/MANIFEST.json'))['checks']))"); do
  out=$(cd /verif && ${GRITSCHECK:-./bin/gritscheck} -verif /verif -prop $p -tier quick -evidence-dir "$ev" 2>&1)
  code=$?
  if [ $code -ne 0 ]; then
    echo "== $p exit=$code"
    echo "$out" | grep -A1 "^VIOLATION" | grep -v "^VIOLATION" | grep -v "^--" | cut -c1-400
  fi
done
rm -rf "$ev"
git -C /repo checkout -- .
git -C /repo status --short | head -3
