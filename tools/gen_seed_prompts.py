#!/usr/bin/env python3
"""Development aid: write the prompt for the next round of seeding sub-agents.
usage: gen_seed_prompts.py <round> <outdir>
The prompt of round n is the prompt of round n-1 (kept in <outdir>/agent<n-1>-<id>.txt) with the
summary of seed <id>-<n-1> (seeded/<id>-<n-1>/meta.json) appended to the list of earlier attempts.
A sub-agent sees only this text and its own scratch worktree, never /verif."""
import json, re, sys, os
rnd = int(sys.argv[1]); out = sys.argv[2]
words = {4: "Four", 5: "Five", 6: "Six", 7: "Seven", 8: "Eight"}
for i in range(1, 20):
    pid = f"C{i:02d}"
    prev = os.path.join(out, f"agent{rnd-1}-{pid}.txt")
    meta = f"/verif/seeded/{pid}-{rnd-1}/meta.json"
    if not (os.path.exists(prev) and os.path.exists(meta)):
        print("skip", pid); continue
    s = open(prev).read()
    summ = json.load(open(meta))["summary"]
    s = s.replace(f"{words[rnd-2]} previous attempts", f"{words[rnd-1]} previous attempts")
    items = re.findall(r'^  \d+\. ".*"$', s, flags=re.M)
    last = items[-1]
    s = s.replace(last, last + f'\n  {rnd-1}. {json.dumps(summ, ensure_ascii=False)}')
    open(os.path.join(out, f"agent{rnd}-{pid}.txt"), "w").write(s)
    print("wrote", pid, len(items) + 1, "earlier attempts")
