#!/bin/bash
# usage: seed_confirm.sh <worktree> <patch.diff> <demo-src> <demo-dst-relative> <go test args...>
# Confirms a seeded change in a scratch worktree: (1) with the patch the project builds and the
# existing suite passes, (2) the demonstration fails with the patch, (3) passes without it.
export GOFLAGS=-mod=mod GOPROXY=off GOSUMDB=off GOTOOLCHAIN=local
wt="$1"; patch="$2"; demosrc="$3"; demodst="$4"; shift 4
cd "$wt" || exit 2
git checkout -q -- . ; rm -f "$demodst" cmd/seeded_demo_test.go types/seeded_demo_test.go process/seeded_demo_test.go parser/seeded_demo_test.go
git apply "$patch" || { echo "CONFIRM: patch does not apply"; exit 2; }
go build ./... || { echo "CONFIRM: build FAILED"; exit 1; }
suite=$(go test -vet=off -count=1 ./... 2>&1 | grep -v "no test files")
if echo "$suite" | grep -q "^FAIL\|^--- FAIL"; then
  # one retry for timing flakes
  suite=$(go test -vet=off -count=1 ./... 2>&1 | grep -v "no test files")
fi
echo "$suite" | grep -q "^FAIL\|^--- FAIL" && { echo "CONFIRM: suite FAILS with the patch"; echo "$suite" | head; exit 1; }
echo "CONFIRM: suite passes with the patch"
mkdir -p "$(dirname "$demodst")"; cp "$demosrc" "$demodst"
if go test -vet=off -count=1 "$@" >/tmp/seed_with.log 2>&1; then echo "CONFIRM: demo PASSES with the patch (not a demonstration)"; rm -f "$demodst"; exit 1; fi
echo "CONFIRM: demo fails with the patch: $(grep -m1 -E 'FAIL|DATA RACE|panic|fatal' /tmp/seed_with.log)"
git checkout -q -- .
if go test -vet=off -count=1 "$@" >/tmp/seed_without.log 2>&1; then echo "CONFIRM: demo passes without the patch"; else echo "CONFIRM: demo FAILS without the patch"; tail -5 /tmp/seed_without.log; rm -f "$demodst"; exit 1; fi
rm -f "$demodst"
echo "CONFIRM: OK"
