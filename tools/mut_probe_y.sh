#!/bin/bash
# usage: mut_probe_y.sh <scratch-worktree> <old> <new>  -- mutate parser/parser.y, regenerate parser.y.go, run all quick checks (development aid)
export GOFLAGS=-mod=mod GOPROXY=off GOSUMDB=off GOTOOLCHAIN=local
wt="$1"; old="$2"; new="$3"
cd "$wt" || exit 2
git checkout -q -- .
python3 - "$old" "$new" <<'PY' || { echo "MUTANT: anchor not found"; exit 2; }
import sys
old,new=sys.argv[1:3]
s=open('parser/parser.y').read()
if s.count(old)<1: sys.exit(1)
open('parser/parser.y','w').write(s.replace(old,new,1))
PY
/verif/bin/goyacc -p grits -o parser/parser.y.go parser/parser.y >/dev/null 2>&1; rm -f y.output
if ! go build ./... 2>/tmp/mut_build.log; then echo "MUTANT: does not compile"; head -3 /tmp/mut_build.log; git checkout -q -- .; exit 3; fi
t=$(go test -vet=off -count=1 ./parser ./types ./process 2>&1 | grep -c "^FAIL")
out=$(/verif/bin/gritscheck -all -repo "$wt" -evidence-dir /tmp/evm 2>&1)
fails=$(echo "$out" | grep -v "^  \|KNOWN" | grep -v " 0 violations" | grep -o "^C[0-9]*" | sort -u | tr '\n' ' ')
rules=$(echo "$out" | grep -o "rule R-[A-Z-]* \[[a-z]*\]" | sort -u | tr '\n' ';')
if [ -z "$fails" ]; then echo "SURVIVED (unit tests failing: $t)"; else echo "CAUGHT by: $fails  [$rules] (unit tests failing: $t)"; fi
git checkout -q -- .
