#!/usr/bin/env python3
"""Development aid: apply behaviour-preserving edits to a scratch worktree and run every quick check.
usage: benign_probe.py <scratch-worktree> <variants.py>   (variants.py defines VARIANTS = {name: [(file, old, new), ...]})
A variant must build, pass the pinned suite's static packages, and leave every check silent."""
import subprocess, sys, os, importlib.util
wt, vf = sys.argv[1], sys.argv[2]
spec = importlib.util.spec_from_file_location("v", vf); mod = importlib.util.module_from_spec(spec); spec.loader.exec_module(mod)
env = dict(os.environ, GOFLAGS="-mod=mod", GOPROXY="off", GOSUMDB="off", GOTOOLCHAIN="local")
def sh(cmd, **kw): return subprocess.run(cmd, shell=True, cwd=wt, env=env, capture_output=True, text=True, **kw)
for name, edits in mod.VARIANTS.items():
    sh("git checkout -q -- .")
    ok = True
    for f, old, new in edits:
        p = os.path.join(wt, f); s = open(p).read()
        if s.count(old) < 1:
            print(f"{name}: anchor not found in {f}: {old[:50]!r}"); ok = False; break
        open(p, "w").write(s.replace(old, new, 1))
    if not ok: continue
    b = sh("gofmt -l . ; go build ./...")
    if b.returncode != 0:
        print(f"{name}: does not build: {b.stderr[:300]}"); continue
    t = sh("go test -vet=off -count=1 ./parser ./types ./process 2>&1 | grep -c '^FAIL'")
    out = subprocess.run(["/verif/bin/gritscheck", "-all", "-repo", wt, "-evidence-dir", "/tmp/evm"], capture_output=True, text=True).stdout
    fails = sorted(set(l.split()[0] for l in out.splitlines() if l[:1] == "C" and " 0 violations" not in l))
    import re
    rules = sorted(set(re.findall(r"rule (R-[A-Z-]+ \[[a-z]+\])", out)))
    print(f"{name}: unit-test failures={t.stdout.strip()}  checks: {'SILENT' if not fails else 'ALARM ' + ' '.join(fails) + ' ' + '; '.join(rules)}")
sh("git checkout -q -- .")
