#!/bin/bash
# usage: benign_patches.sh <scratch-worktree> <patch>...   (development aid)
# Applies each behaviour-preserving patch to the scratch worktree and runs every quick check on
# it: a patch that builds must leave all checks SILENT (a report is a false alarm to correct).
export GOFLAGS=-mod=mod GOPROXY=off GOSUMDB=off GOTOOLCHAIN=local
wt="$1"; shift
bin=${GRITSCHECK:-/verif/bin/gritscheck}
for pt in "$@"; do
  cd "$wt" || exit 2
  git checkout -q -- . ; git clean -fdq -e OUT
  if ! git apply "$pt" 2>/tmp/bp_apply_$(basename "$wt").log; then echo "$(basename $pt): does not apply"; continue; fi
  if ! go build ./... 2>/tmp/bp_build_$(basename "$wt").log; then echo "$(basename $pt): does not build"; git checkout -q -- .; continue; fi
  out=$($bin -verif /verif -all -repo "$wt" -evidence-dir /tmp/evm_$(basename "$wt") 2>&1)
  fails=$(echo "$out" | grep "^C[0-9]* " | grep -v " 0 violations" | grep -o "^C[0-9]*" | tr '\n' ' ')
  rules=$(echo "$out" | grep -o "rule R-[A-Z-]* \[[a-z]*\]" | sort -u | tr '\n' ';')
  if [ -z "$fails" ]; then echo "$(basename $pt): SILENT"; else echo "$(basename $pt): ALARM $fails [$rules]"; fi
  git checkout -q -- . ; git clean -fdq -e OUT
done
