#!/bin/bash
# usage: mut_probe.sh <scratch-worktree> <file> <python-regex-old> <new>   (development aid: which quick checks notice a hand-made mutant)
export GOFLAGS=-mod=mod GOPROXY=off GOSUMDB=off GOTOOLCHAIN=local
wt="$1"; file="$2"; old="$3"; new="$4"
cd "$wt" || exit 2
git checkout -q -- .
python3 - "$file" "$old" "$new" <<'PY' || { echo "MUTANT: anchor not found"; exit 2; }
import sys,re
f,old,new=sys.argv[1:4]
s=open(f).read()
if s.count(old)<1: sys.exit(1)
s=s.replace(old,new,1)
open(f,'w').write(s)
PY
if ! go build ./... 2>/tmp/mut_build.log; then echo "MUTANT: does not compile"; head -3 /tmp/mut_build.log; git checkout -q -- .; exit 3; fi
out=$(/verif/bin/gritscheck -all -repo "$wt" -evidence-dir /tmp/evm 2>&1)
fails=$(echo "$out" | grep -v "^  \|KNOWN" | grep -v " 0 violations" | grep -o "^C[0-9]*" | sort -u | tr '\n' ' ')
rules=$(echo "$out" | grep -o "rule R-[A-Z-]* \[[a-z]*\]" | sort -u | tr '\n' ';')
if [ -z "$fails" ]; then echo "SURVIVED"; else echo "CAUGHT by: $fails  [$rules]"; fi
git checkout -q -- .
